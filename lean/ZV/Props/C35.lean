import ZV.Model.C35
import ZV.Proofs.C35
/-!
  C35 — the LRU client session cache behaves as a bounded LRU map.

  Specification (`Spec`): an association list in recency order;
  `put k nil` erases `k` and nothing else; `put k v` erases `k`, conses
  `(k,v)` and truncates to the capacity; `get` moves the hit to the front.
  `put_refines` / `get_refines` / `run_refines` show the branch-for-branch model
  of the Go code computes exactly that, for every operation sequence; the other
  theorems are the sentences of the property, for every reachable state.
-/
namespace ZV.C35

/-! ### the abstract specification -/
namespace Spec
def put (cap : Nat) (s : Q) (k : Key) (v : Val) : Q :=
  match v with
  | none => erase k s
  | some _ => ((k, v) :: erase k s).take cap

def get (s : Q) (k : Key) : Q × (Val × Bool) :=
  match find k s with
  | some v => ((k, v) :: erase k s, (v, true))
  | none => (s, (none, false))

def step (cap : Nat) (s : Q) : Op → Q × Option (Val × Bool)
  | .put k v => (put cap s k v, none)
  | .get k => let (s', r) := get s k; (s', some r)

def run (cap : Nat) (s : Q) : List Op → Q × List (Option (Val × Bool))
  | [] => (s, [])
  | op :: ops =>
    let (s1, o) := step cap s op
    let (s2, os) := run cap s1 ops
    (s2, o :: os)
end Spec

/-! ### refinement: the Go-shaped model computes the specification -/

theorem put_refines (c : Cache) (k : Key) (v : Val) (h : Inv c) :
    (put c k v).q = Spec.put c.cap c.q k v ∧ (put c k v).cap = c.cap := by
  unfold put Spec.put
  by_cases hk : hasKey k c.q = true
  · have hmem := (hasKey_iff k c.q).mp hk
    simp only [hk, if_true]
    cases v with
    | none => simp
    | some x =>
      have hl := erase_length_lt k c.q hmem
      have hb := h.bounded
      refine ⟨?_, by simp⟩
      simp only
      rw [List.take_of_length_le]
      simp only [List.length_cons]; omega
  · have hk' : hasKey k c.q = false := by simpa using hk
    have hmem : k ∉ keys c.q := fun hm => hk ((hasKey_iff k c.q).mpr hm)
    simp only [hk', Bool.false_eq_true, if_false]
    cases v with
    | none => simp [erase_absent k c.q hmem]
    | some x =>
      simp only [erase_absent k c.q hmem]
      by_cases hlen : c.q.length < c.cap
      · simp only [hlen, if_true]
        refine ⟨?_, by simp⟩
        rw [List.take_of_length_le]
        simp only [List.length_cons]; omega
      · simp only [hlen, if_false]
        refine ⟨?_, by simp⟩
        have hb := h.bounded
        have hp := h.capPos
        have heq : c.q.length = c.cap := by omega
        obtain ⟨n, hn⟩ : ∃ n, c.cap = n + 1 := ⟨c.cap - 1, by omega⟩
        rw [hn, List.take_succ_cons, List.dropLast_eq_take]
        congr 2
        omega

theorem get_refines (c : Cache) (k : Key) :
    (get c k).1.q = (Spec.get c.q k).1 ∧ (get c k).2 = (Spec.get c.q k).2 ∧ (get c k).1.cap = c.cap := by
  unfold get Spec.get
  cases find k c.q <;> simp

/-- the invariant is preserved by every operation -/
theorem put_inv (c : Cache) (k : Key) (v : Val) (h : Inv c) : Inv (put c k v) := by
  have hb := h.bounded
  have hp := h.capPos
  unfold put
  by_cases hk : hasKey k c.q = true
  · have hmem := (hasKey_iff k c.q).mp hk
    have hl := erase_length_lt k c.q hmem
    simp only [hk, if_true]
    cases v with
    | none =>
      exact ⟨hp, by simp only; omega, nodup_erase k _ h.nodup, fun e he => h.noNil e (mem_erase he)⟩
    | some x =>
      refine ⟨hp, by simp only [List.length_cons]; omega, ?_, ?_⟩
      · simp only [keys, List.map_cons, List.nodup_cons]
        exact ⟨not_mem_keys_erase k c.q, nodup_erase k _ h.nodup⟩
      · intro e he
        simp only [List.mem_cons] at he
        rcases he with he | he
        · simp [he]
        · exact h.noNil e (mem_erase he)
  · have hk' : hasKey k c.q = false := by simpa using hk
    have hmem : k ∉ keys c.q := fun hm => hk ((hasKey_iff k c.q).mpr hm)
    simp only [hk', Bool.false_eq_true, if_false]
    cases v with
    | none => exact h
    | some x =>
      by_cases hlen : c.q.length < c.cap
      · simp only [hlen, if_true]
        refine ⟨hp, by simp only [List.length_cons]; omega, ?_, ?_⟩
        · simp only [keys, List.map_cons, List.nodup_cons]
          exact ⟨hmem, h.nodup⟩
        · intro e he
          simp only [List.mem_cons] at he
          rcases he with he | he
          · simp [he]
          · exact h.noNil e he
      · simp only [hlen, if_false]
        have hsub : ∀ e, e ∈ c.q.dropLast → e ∈ c.q := fun e he => List.dropLast_subset _ he
        refine ⟨hp, by simp only [List.length_cons, List.length_dropLast]; omega, ?_, ?_⟩
        · simp only [keys, List.map_cons, List.nodup_cons]
          constructor
          · intro hm
            apply hmem
            simp only [keys, List.mem_map] at *
            obtain ⟨e, he, hek⟩ := hm
            exact ⟨e, hsub e he, hek⟩
          · have : (List.map (·.1) c.q.dropLast) = (keys c.q).dropLast := by
              simp [keys, List.map_dropLast]
            rw [this]
            exact h.nodup.sublist (List.dropLast_sublist _)
        · intro e he
          simp only [List.mem_cons] at he
          rcases he with he | he
          · simp [he]
          · exact h.noNil e (hsub e he)

theorem get_inv (c : Cache) (k : Key) (h : Inv c) : Inv (get c k).1 := by
  unfold get
  cases hf : find k c.q with
  | none => exact h
  | some v =>
    have hm := find_some_mem hf
    have hmem : k ∈ keys c.q := by simp only [keys, List.mem_map]; exact ⟨(k, v), hm, rfl⟩
    have hl := erase_length_lt k c.q hmem
    have hb := h.bounded
    refine ⟨h.capPos, by simp only [List.length_cons]; omega, ?_, ?_⟩
    · simp only [keys, List.map_cons, List.nodup_cons]
      exact ⟨not_mem_keys_erase k c.q, nodup_erase k _ h.nodup⟩
    · intro e he
      simp only [List.mem_cons] at he
      rcases he with he | he
      · rw [he]; exact h.noNil _ hm
      · exact h.noNil e (mem_erase he)

theorem step_inv (c : Cache) (op : Op) (h : Inv c) : Inv (step c op).1 := by
  cases op with
  | put k v => exact put_inv c k v h
  | get k => exact get_inv c k h

theorem new_inv (capacity : Int) : Inv (new capacity) := by
  unfold new
  refine ⟨?_, by simp, by simp [keys], by simp⟩
  simp only
  split
  · decide
  · omega

theorem run_inv (c : Cache) (ops : List Op) (h : Inv c) : Inv (run c ops).1 := by
  induction ops generalizing c with
  | nil => exact h
  | cons op ops ih =>
    simp only [run]
    exact ih _ (step_inv c op h)

theorem run_cap (c : Cache) (ops : List Op) : (run c ops).1.cap = c.cap := by
  induction ops generalizing c with
  | nil => rfl
  | cons op ops ih =>
    simp only [run]
    rw [ih]
    cases op with
    | put k v => simp only [step, put]; split <;> split <;> try rfl
                 all_goals (split <;> rfl)
    | get k => simp only [step, get]; split <;> rfl

/-- **Refinement, every history**: the model of the Go code and the abstract
    bounded-LRU specification produce the same outputs and the same final
    recency list for every operation sequence from every state satisfying the
    invariant (in particular from `new capacity`). -/
theorem run_refines (c : Cache) (ops : List Op) (h : Inv c) :
    (run c ops).1.q = (Spec.run c.cap c.q ops).1 ∧ (run c ops).2 = (Spec.run c.cap c.q ops).2 := by
  induction ops generalizing c with
  | nil => exact ⟨rfl, rfl⟩
  | cons op ops ih =>
    have hi := step_inv c op h
    cases op with
    | put k v =>
      obtain ⟨hq, hc⟩ := put_refines c k v h
      have := ih (put c k v) (by simpa [step] using hi)
      simp only [run, step, Spec.run, Spec.step]
      rw [← hq, ← hc]
      exact ⟨this.1, by rw [this.2]⟩
    | get k =>
      obtain ⟨hq, ho, hc⟩ := get_refines c k
      have := ih (get c k).1 (by simpa [step] using hi)
      simp only [run, step, Spec.run, Spec.step]
      rw [← hq, ← ho, ← hc]
      exact ⟨this.1, by rw [this.2]⟩

/-! ### the sentences of the property, for every reachable state -/

/-- "holds at most its capacity", after any sequence of operations. -/
theorem size_le_cap (capacity : Int) (ops : List Op) :
    (run (new capacity) ops).1.q.length ≤ (new capacity).cap := by
  have h := run_inv (new capacity) ops (new_inv capacity)
  have := h.bounded
  rw [run_cap] at this
  exact this

/-- "returns for each key the most recent non-nil session stored":
    a `Get` right after `Put k (some v)` returns that session. -/
theorem get_after_put (c : Cache) (k : Key) (x : Nat) :
    (get (put c k (some x)) k).2 = (some x, true) := by
  have hf : find k (put c k (some x)).q = some (some x) := by
    unfold put
    by_cases hk : hasKey k c.q = true
    · simp [hk, find]
    · have hk' : hasKey k c.q = false := by simpa using hk
      simp only [hk', Bool.false_eq_true, if_false]
      split <;> simp [find]
  unfold get
  rw [hf]

/-- a key's stored session is changed only by a `Put` on that key (other
    keys are, at most, evicted). -/
theorem put_other_unchanged (c : Cache) (k k' : Key) (v : Val) (hne : k' ≠ k)
    (hin : k' ∈ keys (put c k v).q) : find k' (put c k v).q = find k' c.q := by
  have hne' : (k == k') = false := by simp; exact fun h => hne h.symm
  unfold put at *
  by_cases hk : hasKey k c.q = true
  · simp only [hk, if_true] at *
    cases v with
    | none => exact find_erase_ne c.q hne
    | some x =>
      simp only [find, List.find?_cons, hne']
      exact find_erase_ne c.q hne
  · have hk' : hasKey k c.q = false := by simpa using hk
    simp only [hk', Bool.false_eq_true, if_false] at *
    cases v with
    | none => rfl
    | some x =>
      by_cases hlen : c.q.length < c.cap
      · simp only [hlen, if_true, find, List.find?_cons, hne']
      · simp only [hlen, if_false] at *
        simp only [find, List.find?_cons, hne']
        -- k' is in dropLast, so the first hit is the same
        simp only [keys, List.map_cons, List.mem_cons] at hin
        rcases hin with hin | hin
        · exact absurd hin hne
        · have hq : c.q = c.q.dropLast ++ (c.q.getLast?.toList) := by
            cases hl : c.q.getLast? with
            | none => simp [List.getLast?_eq_none_iff.mp hl]
            | some a =>
              simp only [Option.toList_some]
              have hne0 : c.q ≠ [] := by intro h0; simp [h0] at hl
              have := List.dropLast_concat_getLast hne0
              rw [List.getLast?_eq_some_getLast hne0] at hl
              simp only [Option.some.injEq] at hl
              rw [hl] at this; exact this.symm
          conv => rhs; rw [hq]
          rw [List.find?_append]
          obtain ⟨e, he, hek⟩ := List.mem_map.mp hin
          have : (c.q.dropLast.find? (fun e => e.1 == k')).isSome := by
            rw [List.find?_isSome]; exact ⟨e, he, by simp [hek]⟩
          obtain ⟨w, hw⟩ := Option.isSome_iff_exists.mp this
          simp [hw]

/-- "A Put with a nil session removes that key's entry and has no other
    effect": the recency list afterwards is the old one with the entries of
    `k` filtered out — same other keys, same values, same order. -/
theorem put_nil_removes_only (c : Cache) (k : Key) :
    (put c k none).q = erase k c.q ∧ (put c k none).cap = c.cap := by
  unfold put
  by_cases hk : hasKey k c.q = true
  · simp [hk]
  · have hk' : hasKey k c.q = false := by simpa using hk
    have hmem : k ∉ keys c.q := fun hm => hk ((hasKey_iff k c.q).mpr hm)
    simp [hk', erase_absent k c.q hmem]

/-- in particular a nil `Put` on an absent key changes nothing at all. -/
theorem put_nil_absent_noop (c : Cache) (k : Key) (h : k ∉ keys c.q) : put c k none = c := by
  have hk : hasKey k c.q = false := by
    cases hh : hasKey k c.q with
    | false => rfl
    | true => exact absurd ((hasKey_iff k c.q).mp hh) h
  simp [put, hk]

/-- "evicts the least recently used key first when a new key is stored into a
    full cache": exactly the last element of the recency list goes. -/
theorem evicts_lru_first (c : Cache) (k : Key) (x : Nat)
    (hfull : c.q.length = c.cap) (hnew : k ∉ keys c.q) :
    (put c k (some x)).q = (k, some x) :: c.q.dropLast := by
  have hk : hasKey k c.q = false := by
    cases hh : hasKey k c.q with
    | false => rfl
    | true => exact absurd ((hasKey_iff k c.q).mp hh) hnew
  simp [put, hk, hfull]

/-- the recency list really is ordered by last use: every successful `Get`
    and every non-nil `Put` puts its key at the front. -/
theorem touched_is_front_put (c : Cache) (k : Key) (x : Nat) :
    (put c k (some x)).q.head? = some (k, some x) := by
  unfold put; repeat' split <;> simp_all

theorem touched_is_front_get (c : Cache) (k : Key) (h : (get c k).2.2 = true) :
    ((get c k).1.q.head?).map (·.1) = some k := by
  unfold get at *; split <;> simp_all

/-- no reachable state stores a nil session, so `Get` never reports
    `(nil, true)`. -/
theorem get_hit_non_nil (capacity : Int) (ops : List Op) (k : Key) :
    let c := (run (new capacity) ops).1
    (get c k).2.2 = true → (get c k).2.1 ≠ none := by
  intro c hhit
  have hinv : Inv c := run_inv (new capacity) ops (new_inv capacity)
  unfold get at *
  cases hf : find k c.q with
  | none => simp [hf] at hhit
  | some v =>
    simp only [hf]
    exact hinv.noNil _ (find_some_mem hf)

/-! ### non-vacuity: a concrete reachable full cache meets the hypotheses -/
example : Inv { cap := 2, q := [(7, some 1), (8, some 2)] } :=
  ⟨by decide, by decide, by decide, by decide⟩
example : ({ cap := 2, q := [(7, some 1), (8, some 2)] } : Cache).q.length = 2 ∧
    (9 : Key) ∉ keys [(7, some 1), (8, some 2)] := by decide
example : (run (new 2) [.put 1 (some 10), .put 2 (some 20), .get 1, .put 3 (some 30), .get 2, .put 9 none]).2
    = [none, none, some (some 10, true), none, some (none, false), none] := by decide

/-! ## second wave -/

/-! ### T1: the constant and guards of the constructor / of Put, as they are in the tree -/

/-- the default capacity (used when `capacity < 1`) is what the hint of the documentation promises: 64 -/
theorem default_capacity_value : Gen.defaultSessionCacheCapacity = 64 := by decide

/-- … and in particular positive: a cache built by the constructor can always hold one session -/
theorem default_capacity_pos : 0 < Gen.defaultSessionCacheCapacity := by decide

/-- the constructor has exactly one guard, `capacity < 1`, which assigns the default -/
theorem new_guards : Gen.newGuards = ["capacity<1"] ∧
    Gen.newAssigns = ["capacity=defaultSessionCacheCapacity"] := by decide

/-- the guards of `Put`, in source order, are the four case distinctions of the model `put` -/
theorem put_guards :
    Gen.putGuards = ["c.m[sessionKey];ok", "cs==nil", "cs==nil", "c.q.Len()<c.capacity"] := by decide

/-- capacity clause of the constructor, both arms, for every `capacity`. -/
theorem new_cap (capacity : Int) :
    (capacity < 1 → (new capacity).cap = Gen.defaultSessionCacheCapacity) ∧
    (1 ≤ capacity → ((new capacity).cap : Int) = capacity) ∧ (new capacity).q = [] := by
  refine ⟨fun h => by simp [new, h], fun h => ?_, rfl⟩
  have : ¬ capacity < 1 := by omega
  simp only [new, this, if_false]
  omega

/-! ### "returns for each key the most recent non-nil session stored" — history level -/

/-- general form (any start state): what the cache holds for `k` after a history is the value of the
    last `Put` on `k` in that history, or — when the history has no `Put` on `k` — what it held before. -/
theorem find_run_last_put (c : Cache) (ops : List Op) (k : Key) (v : Val)
    (h : find k (run c ops).1.q = some v) :
    lastPut k ops = some v ∨ (lastPut k ops = none ∧ find k c.q = some v) := by
  induction ops generalizing c with
  | nil => exact Or.inr ⟨rfl, h⟩
  | cons op ops ih =>
    simp only [run] at h
    rcases ih (step c op).1 h with h1 | ⟨h1, h2⟩
    · left; simp [lastPut, h1]
    · simp only [lastPut, h1]
      cases op with
      | put k' w =>
        simp only [step] at h2
        by_cases hkk : k' = k
        · subst hkk
          left; simp only [if_true]; rw [find_put_same h2]
        · right
          refine ⟨by simp [hkk], ?_⟩
          have hin := find_mem_keys h2
          rw [← put_other_unchanged c k' k w (fun e => hkk e.symm) hin]
          exact h2
      | get k' =>
        right
        simp only [step] at h2
        exact ⟨rfl, by rw [← find_get c k k']; exact h2⟩

/-- **Get returns the most recent session stored** (never a stale or foreign one), for every history
    from a fresh cache of any capacity: a hit on `k` returns exactly the session of the last `Put` on
    `k`, and that session is not nil. -/
theorem get_returns_last_put (capacity : Int) (ops : List Op) (k : Key) (v : Val)
    (h : (get (run (new capacity) ops).1 k).2 = (v, true)) :
    lastPut k ops = some v ∧ v ≠ none := by
  have hf : find k (run (new capacity) ops).1.q = some v := by
    unfold get at h
    cases hf : find k (run (new capacity) ops).1.q with
    | none => simp [hf] at h
    | some w => simp only [hf, Prod.mk.injEq, and_true] at h; rw [h]
  refine ⟨?_, ?_⟩
  · rcases find_run_last_put _ ops k v hf with h1 | ⟨_, h2⟩
    · exact h1
    · simp [new, find] at h2
  · exact (run_inv (new capacity) ops (new_inv capacity)).noNil _ (find_some_mem hf)

/-- "… and not yet evicted": an entry leaves the cache only (a) by a nil `Put` on its own key or
    (b) as the LAST element of the recency list, when a new key is stored into a full cache. -/
theorem removed_only_by_nil_put_or_eviction (c : Cache) (op : Op) (k : Key)
    (hin : k ∈ keys c.q) (hout : k ∉ keys (step c op).1.q) :
    op = .put k none ∨
    ∃ k' x, op = .put k' (some x) ∧ k' ∉ keys c.q ∧ ¬ c.q.length < c.cap ∧ (keys c.q).getLast? = some k := by
  cases op with
  | get k' =>
    exfalso; apply hout
    simp only [step, get]
    cases hf : find k' c.q with
    | none => exact hin
    | some v =>
      simp only [keys_cons, List.mem_cons]
      by_cases hkk : k = k'
      · exact Or.inl hkk
      · exact Or.inr (mem_keys_erase.mpr ⟨hin, hkk⟩)
  | put k' v =>
    simp only [step, put] at hout
    cases hk : hasKey k' c.q with
    | true =>
      simp only [hk, if_true] at hout
      cases v with
      | none =>
        simp only at hout
        by_cases hkk : k = k'
        · left; rw [hkk]
        · exact absurd (mem_keys_erase.mpr ⟨hin, hkk⟩) hout
      | some x =>
        exfalso; apply hout
        simp only [keys_cons, List.mem_cons]
        by_cases hkk : k = k'
        · exact Or.inl hkk
        · exact Or.inr (mem_keys_erase.mpr ⟨hin, hkk⟩)
    | false =>
      have hmem := (hasKey_false_iff k' c.q).mp hk
      simp only [hk, Bool.false_eq_true, if_false] at hout
      cases v with
      | none => exact absurd hin hout
      | some x =>
        simp only at hout
        by_cases hlen : c.q.length < c.cap
        · simp only [hlen, if_true, keys_cons, List.mem_cons, not_or] at hout
          exact absurd hin hout.2
        · simp only [hlen, if_false, keys_cons, List.mem_cons, not_or] at hout
          right
          refine ⟨k', x, rfl, hmem, hlen, ?_⟩
          rw [keys_dropLast] at hout
          exact mem_not_dropLast_getLast hin hout.2

/-! ### "evicts the least recently used key" — the recency list IS the order of last use -/

/-- **Recency order, every history**: after any history from a fresh cache, the keys in the list
    are strictly ordered by the position of the last operation naming them — front = most recent. -/
theorem lru_order (capacity : Int) (ops : List Op) :
    (keys (run (new capacity) ops).1.q).Pairwise (fun a b => lastUse b ops < lastUse a ops) := by
  suffices hrev : ∀ r : List Op,
      (keys (run (new capacity) r.reverse).1.q).Pairwise
        (fun a b => lastUse b r.reverse < lastUse a r.reverse) by
    have := hrev ops.reverse
    rwa [List.reverse_reverse] at this
  intro r
  induction r with
  | nil => simp [run, new, keys]
  | cons op r ih =>
    rw [List.reverse_cons]
    generalize r.reverse = ops at ih ⊢
    rw [run_snoc_state]
    have hrest : ∀ l : List Key, l.Sublist (keys (run (new capacity) ops).1.q) → opKey op ∉ l →
        l.Pairwise (fun a b => lastUse b (ops ++ [op]) < lastUse a (ops ++ [op])) := by
      intro l hl hno
      refine (ih.sublist hl).imp_of_mem ?_
      intro a b ha hb hab
      have hane : ¬ opKey op = a := fun e => hno (e ▸ ha)
      have hbne : ¬ opKey op = b := fun e => hno (e ▸ hb)
      simp only [lastUse_snoc, hane, hbne, if_false]
      exact hab
    rcases step_keys_shape (run (new capacity) ops).1 op with ⟨hs, hno⟩ | ⟨l, hl, hs, hno⟩
    · exact hrest _ hs hno
    · rw [hl, List.pairwise_cons]
      refine ⟨?_, hrest l hs hno⟩
      intro b hb
      have hbne : ¬ opKey op = b := fun e => hno (e ▸ hb)
      simp only [lastUse_snoc, hbne, if_false, if_true]
      have := lastUse_le b ops
      omega

/-- **Exactly the least recently used key is evicted**: storing a new key into a full cache reached by
    ANY history removes one entry, the one whose last use is older than that of every entry kept;
    all other entries are kept, in order, behind the new one. -/
theorem evicted_is_least_recently_used (capacity : Int) (ops : List Op) (k : Key) (x : Nat)
    (hfull : (run (new capacity) ops).1.q.length = (run (new capacity) ops).1.cap)
    (hnew : k ∉ keys (run (new capacity) ops).1.q) :
    ∃ rest victim, (run (new capacity) ops).1.q = rest ++ [victim] ∧
      (put (run (new capacity) ops).1 k (some x)).q = (k, some x) :: rest ∧
      ∀ e ∈ rest, lastUse victim.1 ops < lastUse e.1 ops := by
  have hinv := run_inv (new capacity) ops (new_inv capacity)
  have hord := lru_order capacity ops
  generalize (run (new capacity) ops).1 = c at *
  have hne : c.q ≠ [] := by
    intro h0
    have := hinv.capPos
    rw [h0] at hfull; simp at hfull; omega
  refine ⟨c.q.dropLast, c.q.getLast hne, (List.dropLast_concat_getLast hne).symm,
    evicts_lru_first c k x hfull hnew, ?_⟩
  intro e he
  have hq := List.dropLast_concat_getLast hne
  rw [← hq] at hord
  simp only [keys, List.map_append, List.map_cons, List.map_nil] at hord
  rw [List.pairwise_append] at hord
  exact hord.2.2 e.1 (List.mem_map.mpr ⟨e, he, rfl⟩) _ (List.mem_singleton.mpr rfl)

/-! ### sequential histories accepted by the linearizability checker are runs of the model -/

/-- `accepts` (the replay the harness' checker performs on a candidate linearization) says yes exactly
    when the model, run on the operations, returns the recorded values. -/
theorem accepts_iff_run (c : Cache) (h : List Call) :
    accepts c h = true ↔ (run c (h.map (·.1))).2 = h.map (·.2) := by
  induction h generalizing c with
  | nil => simp [accepts, run]
  | cons a h ih =>
    obtain ⟨op, r⟩ := a
    simp only [accepts, List.map_cons, run]
    by_cases ho : (step c op).2 = r
    · simp only [ho, if_true, List.cons.injEq, true_and]
      exact ih _
    · simp [ho]

/-- … hence runs of the abstract bounded-LRU map, for every capacity. -/
theorem accepts_iff_spec (capacity : Int) (h : List Call) :
    accepts (new capacity) h = true ↔
      (Spec.run (new capacity).cap [] (h.map (·.1))).2 = h.map (·.2) := by
  rw [accepts_iff_run, (run_refines (new capacity) (h.map (·.1)) (new_inv capacity)).2]
  rfl

/-! non-vacuity of the second wave -/
example : (get (run (new 2) [.put 1 (some 10), .put 1 (some 11), .get 1]).1 1).2 = (some 11, true) := by decide
example : lastPut 1 [.put 1 (some 10), .put 1 (some 11), .get 1] = some (some 11) := by decide
example : (run (new 2) [.put 1 (some 10), .put 2 (some 20), .get 1]).1.q.length
    = (run (new 2) [.put 1 (some 10), .put 2 (some 20), .get 1]).1.cap ∧
    (3 : Key) ∉ keys (run (new 2) [.put 1 (some 10), .put 2 (some 20), .get 1]).1.q := by decide
example : (2 : Key) ∈ keys (run (new 2) [.put 1 (some 10), .put 2 (some 20), .get 1]).1.q ∧
    (2 : Key) ∉ keys (step (run (new 2) [.put 1 (some 10), .put 2 (some 20), .get 1]).1 (.put 3 (some 30))).1.q := by
  decide
example : accepts (new 1) [(.put 1 (some 10), none), (.get 1, some (some 10, true)),
    (.put 2 (some 20), none), (.get 1, some (none, false))] = true := by decide
example : accepts (new 1) [(.put 1 (some 10), none), (.get 1, some (none, false))] = false := by decide

end ZV.C35
