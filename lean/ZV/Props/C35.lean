import ZV.Model.C35
import ZV.Proofs.C35
/-!
  C35 — the LRU client session cache behaves as a bounded LRU map.

  Specification (`Spec`): an association list in recency order;
  `put k nil` erases `k` and nothing else; `put k v` erases `k`, conses
  `(k,v)` and truncates to the capacity; `get` moves the hit to the front.
  `put_refines` / `get_refines` / `run_refines` show the branch-for-branch model
  of the Go code computes exactly that, for every operation sequence; the other
  theorems are the sentences of the property, for every reachable state.
-/
namespace ZV.C35

/-! ### the abstract specification -/
namespace Spec
def put (cap : Nat) (s : Q) (k : Key) (v : Val) : Q :=
  match v with
  | none => erase k s
  | some _ => ((k, v) :: erase k s).take cap

def get (s : Q) (k : Key) : Q × (Val × Bool) :=
  match find k s with
  | some v => ((k, v) :: erase k s, (v, true))
  | none => (s, (none, false))

def step (cap : Nat) (s : Q) : Op → Q × Option (Val × Bool)
  | .put k v => (put cap s k v, none)
  | .get k => let (s', r) := get s k; (s', some r)

def run (cap : Nat) (s : Q) : List Op → Q × List (Option (Val × Bool))
  | [] => (s, [])
  | op :: ops =>
    let (s1, o) := step cap s op
    let (s2, os) := run cap s1 ops
    (s2, o :: os)
end Spec

/-! ### refinement: the Go-shaped model computes the specification -/

theorem put_refines (c : Cache) (k : Key) (v : Val) (h : Inv c) :
    (put c k v).q = Spec.put c.cap c.q k v ∧ (put c k v).cap = c.cap := by
  unfold put Spec.put
  by_cases hk : hasKey k c.q = true
  · have hmem := (hasKey_iff k c.q).mp hk
    simp only [hk, if_true]
    cases v with
    | none => simp
    | some x =>
      have hl := erase_length_lt k c.q hmem
      have hb := h.bounded
      refine ⟨?_, by simp⟩
      simp only
      rw [List.take_of_length_le]
      simp only [List.length_cons]; omega
  · have hk' : hasKey k c.q = false := by simpa using hk
    have hmem : k ∉ keys c.q := fun hm => hk ((hasKey_iff k c.q).mpr hm)
    simp only [hk', Bool.false_eq_true, if_false]
    cases v with
    | none => simp [erase_absent k c.q hmem]
    | some x =>
      simp only [erase_absent k c.q hmem]
      by_cases hlen : c.q.length < c.cap
      · simp only [hlen, if_true]
        refine ⟨?_, by simp⟩
        rw [List.take_of_length_le]
        simp only [List.length_cons]; omega
      · simp only [hlen, if_false]
        refine ⟨?_, by simp⟩
        have hb := h.bounded
        have hp := h.capPos
        have heq : c.q.length = c.cap := by omega
        obtain ⟨n, hn⟩ : ∃ n, c.cap = n + 1 := ⟨c.cap - 1, by omega⟩
        rw [hn, List.take_succ_cons, List.dropLast_eq_take]
        congr 2
        omega

theorem get_refines (c : Cache) (k : Key) :
    (get c k).1.q = (Spec.get c.q k).1 ∧ (get c k).2 = (Spec.get c.q k).2 ∧ (get c k).1.cap = c.cap := by
  unfold get Spec.get
  cases find k c.q <;> simp

/-- the invariant is preserved by every operation -/
theorem put_inv (c : Cache) (k : Key) (v : Val) (h : Inv c) : Inv (put c k v) := by
  have hb := h.bounded
  have hp := h.capPos
  unfold put
  by_cases hk : hasKey k c.q = true
  · have hmem := (hasKey_iff k c.q).mp hk
    have hl := erase_length_lt k c.q hmem
    simp only [hk, if_true]
    cases v with
    | none =>
      exact ⟨hp, by simp only; omega, nodup_erase k _ h.nodup, fun e he => h.noNil e (mem_erase he)⟩
    | some x =>
      refine ⟨hp, by simp only [List.length_cons]; omega, ?_, ?_⟩
      · simp only [keys, List.map_cons, List.nodup_cons]
        exact ⟨not_mem_keys_erase k c.q, nodup_erase k _ h.nodup⟩
      · intro e he
        simp only [List.mem_cons] at he
        rcases he with he | he
        · simp [he]
        · exact h.noNil e (mem_erase he)
  · have hk' : hasKey k c.q = false := by simpa using hk
    have hmem : k ∉ keys c.q := fun hm => hk ((hasKey_iff k c.q).mpr hm)
    simp only [hk', Bool.false_eq_true, if_false]
    cases v with
    | none => exact h
    | some x =>
      by_cases hlen : c.q.length < c.cap
      · simp only [hlen, if_true]
        refine ⟨hp, by simp only [List.length_cons]; omega, ?_, ?_⟩
        · simp only [keys, List.map_cons, List.nodup_cons]
          exact ⟨hmem, h.nodup⟩
        · intro e he
          simp only [List.mem_cons] at he
          rcases he with he | he
          · simp [he]
          · exact h.noNil e he
      · simp only [hlen, if_false]
        have hsub : ∀ e, e ∈ c.q.dropLast → e ∈ c.q := fun e he => List.dropLast_subset _ he
        refine ⟨hp, by simp only [List.length_cons, List.length_dropLast]; omega, ?_, ?_⟩
        · simp only [keys, List.map_cons, List.nodup_cons]
          constructor
          · intro hm
            apply hmem
            simp only [keys, List.mem_map] at *
            obtain ⟨e, he, hek⟩ := hm
            exact ⟨e, hsub e he, hek⟩
          · have : (List.map (·.1) c.q.dropLast) = (keys c.q).dropLast := by
              simp [keys, List.map_dropLast]
            rw [this]
            exact h.nodup.sublist (List.dropLast_sublist _)
        · intro e he
          simp only [List.mem_cons] at he
          rcases he with he | he
          · simp [he]
          · exact h.noNil e (hsub e he)

theorem get_inv (c : Cache) (k : Key) (h : Inv c) : Inv (get c k).1 := by
  unfold get
  cases hf : find k c.q with
  | none => exact h
  | some v =>
    have hm := find_some_mem hf
    have hmem : k ∈ keys c.q := by simp only [keys, List.mem_map]; exact ⟨(k, v), hm, rfl⟩
    have hl := erase_length_lt k c.q hmem
    have hb := h.bounded
    refine ⟨h.capPos, by simp only [List.length_cons]; omega, ?_, ?_⟩
    · simp only [keys, List.map_cons, List.nodup_cons]
      exact ⟨not_mem_keys_erase k c.q, nodup_erase k _ h.nodup⟩
    · intro e he
      simp only [List.mem_cons] at he
      rcases he with he | he
      · rw [he]; exact h.noNil _ hm
      · exact h.noNil e (mem_erase he)

theorem step_inv (c : Cache) (op : Op) (h : Inv c) : Inv (step c op).1 := by
  cases op with
  | put k v => exact put_inv c k v h
  | get k => exact get_inv c k h

theorem new_inv (capacity : Int) : Inv (new capacity) := by
  unfold new
  refine ⟨?_, by simp, by simp [keys], by simp⟩
  simp only
  split <;> omega

theorem run_inv (c : Cache) (ops : List Op) (h : Inv c) : Inv (run c ops).1 := by
  induction ops generalizing c with
  | nil => exact h
  | cons op ops ih =>
    simp only [run]
    exact ih _ (step_inv c op h)

theorem run_cap (c : Cache) (ops : List Op) : (run c ops).1.cap = c.cap := by
  induction ops generalizing c with
  | nil => rfl
  | cons op ops ih =>
    simp only [run]
    rw [ih]
    cases op with
    | put k v => simp only [step, put]; split <;> split <;> try rfl
                 all_goals (split <;> rfl)
    | get k => simp only [step, get]; split <;> rfl

/-- **Refinement, every history**: the model of the Go code and the abstract
    bounded-LRU specification produce the same outputs and the same final
    recency list for every operation sequence from every state satisfying the
    invariant (in particular from `new capacity`). -/
theorem run_refines (c : Cache) (ops : List Op) (h : Inv c) :
    (run c ops).1.q = (Spec.run c.cap c.q ops).1 ∧ (run c ops).2 = (Spec.run c.cap c.q ops).2 := by
  induction ops generalizing c with
  | nil => exact ⟨rfl, rfl⟩
  | cons op ops ih =>
    have hi := step_inv c op h
    cases op with
    | put k v =>
      obtain ⟨hq, hc⟩ := put_refines c k v h
      have := ih (put c k v) (by simpa [step] using hi)
      simp only [run, step, Spec.run, Spec.step]
      rw [← hq, ← hc]
      exact ⟨this.1, by rw [this.2]⟩
    | get k =>
      obtain ⟨hq, ho, hc⟩ := get_refines c k
      have := ih (get c k).1 (by simpa [step] using hi)
      simp only [run, step, Spec.run, Spec.step]
      rw [← hq, ← ho, ← hc]
      exact ⟨this.1, by rw [this.2]⟩

/-! ### the sentences of the property, for every reachable state -/

/-- "holds at most its capacity", after any sequence of operations. -/
theorem size_le_cap (capacity : Int) (ops : List Op) :
    (run (new capacity) ops).1.q.length ≤ (new capacity).cap := by
  have h := run_inv (new capacity) ops (new_inv capacity)
  have := h.bounded
  rw [run_cap] at this
  exact this

/-- "returns for each key the most recent non-nil session stored":
    a `Get` right after `Put k (some v)` returns that session. -/
theorem get_after_put (c : Cache) (k : Key) (x : Nat) :
    (get (put c k (some x)) k).2 = (some x, true) := by
  have hf : find k (put c k (some x)).q = some (some x) := by
    unfold put
    by_cases hk : hasKey k c.q = true
    · simp [hk, find]
    · have hk' : hasKey k c.q = false := by simpa using hk
      simp only [hk', Bool.false_eq_true, if_false]
      split <;> simp [find]
  unfold get
  rw [hf]

/-- a key's stored session is changed only by a `Put` on that key (other
    keys are, at most, evicted). -/
theorem put_other_unchanged (c : Cache) (k k' : Key) (v : Val) (hne : k' ≠ k)
    (hin : k' ∈ keys (put c k v).q) : find k' (put c k v).q = find k' c.q := by
  have hne' : (k == k') = false := by simp; exact fun h => hne h.symm
  unfold put at *
  by_cases hk : hasKey k c.q = true
  · simp only [hk, if_true] at *
    cases v with
    | none => exact find_erase_ne c.q hne
    | some x =>
      simp only [find, List.find?_cons, hne']
      exact find_erase_ne c.q hne
  · have hk' : hasKey k c.q = false := by simpa using hk
    simp only [hk', Bool.false_eq_true, if_false] at *
    cases v with
    | none => rfl
    | some x =>
      by_cases hlen : c.q.length < c.cap
      · simp only [hlen, if_true, find, List.find?_cons, hne']
      · simp only [hlen, if_false] at *
        simp only [find, List.find?_cons, hne']
        -- k' is in dropLast, so the first hit is the same
        simp only [keys, List.map_cons, List.mem_cons] at hin
        rcases hin with hin | hin
        · exact absurd hin hne
        · have hq : c.q = c.q.dropLast ++ (c.q.getLast?.toList) := by
            cases hl : c.q.getLast? with
            | none => simp [List.getLast?_eq_none_iff.mp hl]
            | some a =>
              simp only [Option.toList_some]
              have hne0 : c.q ≠ [] := by intro h0; simp [h0] at hl
              have := List.dropLast_concat_getLast hne0
              rw [List.getLast?_eq_some_getLast hne0] at hl
              simp only [Option.some.injEq] at hl
              rw [hl] at this; exact this.symm
          conv => rhs; rw [hq]
          rw [List.find?_append]
          obtain ⟨e, he, hek⟩ := List.mem_map.mp hin
          have : (c.q.dropLast.find? (fun e => e.1 == k')).isSome := by
            rw [List.find?_isSome]; exact ⟨e, he, by simp [hek]⟩
          obtain ⟨w, hw⟩ := Option.isSome_iff_exists.mp this
          simp [hw]

/-- "A Put with a nil session removes that key's entry and has no other
    effect": the recency list afterwards is the old one with the entries of
    `k` filtered out — same other keys, same values, same order. -/
theorem put_nil_removes_only (c : Cache) (k : Key) :
    (put c k none).q = erase k c.q ∧ (put c k none).cap = c.cap := by
  unfold put
  by_cases hk : hasKey k c.q = true
  · simp [hk]
  · have hk' : hasKey k c.q = false := by simpa using hk
    have hmem : k ∉ keys c.q := fun hm => hk ((hasKey_iff k c.q).mpr hm)
    simp [hk', erase_absent k c.q hmem]

/-- in particular a nil `Put` on an absent key changes nothing at all. -/
theorem put_nil_absent_noop (c : Cache) (k : Key) (h : k ∉ keys c.q) : put c k none = c := by
  have hk : hasKey k c.q = false := by
    cases hh : hasKey k c.q with
    | false => rfl
    | true => exact absurd ((hasKey_iff k c.q).mp hh) h
  simp [put, hk]

/-- "evicts the least recently used key first when a new key is stored into a
    full cache": exactly the last element of the recency list goes. -/
theorem evicts_lru_first (c : Cache) (k : Key) (x : Nat)
    (hfull : c.q.length = c.cap) (hnew : k ∉ keys c.q) :
    (put c k (some x)).q = (k, some x) :: c.q.dropLast := by
  have hk : hasKey k c.q = false := by
    cases hh : hasKey k c.q with
    | false => rfl
    | true => exact absurd ((hasKey_iff k c.q).mp hh) hnew
  simp [put, hk, hfull]

/-- the recency list really is ordered by last use: every successful `Get`
    and every non-nil `Put` puts its key at the front. -/
theorem touched_is_front_put (c : Cache) (k : Key) (x : Nat) :
    (put c k (some x)).q.head? = some (k, some x) := by
  unfold put; repeat' split <;> simp_all

theorem touched_is_front_get (c : Cache) (k : Key) (h : (get c k).2.2 = true) :
    ((get c k).1.q.head?).map (·.1) = some k := by
  unfold get at *; split <;> simp_all

/-- no reachable state stores a nil session, so `Get` never reports
    `(nil, true)`. -/
theorem get_hit_non_nil (capacity : Int) (ops : List Op) (k : Key) :
    let c := (run (new capacity) ops).1
    (get c k).2.2 = true → (get c k).2.1 ≠ none := by
  intro c hhit
  have hinv : Inv c := run_inv (new capacity) ops (new_inv capacity)
  unfold get at *
  cases hf : find k c.q with
  | none => simp [hf] at hhit
  | some v =>
    simp only [hf]
    exact hinv.noNil _ (find_some_mem hf)

/-! ### non-vacuity: a concrete reachable full cache meets the hypotheses -/
example : Inv { cap := 2, q := [(7, some 1), (8, some 2)] } :=
  ⟨by decide, by decide, by decide, by decide⟩
example : ({ cap := 2, q := [(7, some 1), (8, some 2)] } : Cache).q.length = 2 ∧
    (9 : Key) ∉ keys [(7, some 1), (8, some 2)] := by decide
example : (run (new 2) [.put 1 (some 10), .put 2 (some 20), .get 1, .put 3 (some 30), .get 2, .put 9 none]).2
    = [none, none, some (some 10, true), none, some (none, false), none] := by decide

end ZV.C35
