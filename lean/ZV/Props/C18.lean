import ZV.Model.C18
import ZV.Proofs.C18
import ZV.Proofs.C18Big
import ZV.Proofs.C18Oid
import ZV.Proofs.C18Leaf
import ZV.Proofs.C18Opt
import ZV.Proofs.C18Seq
import ZV.Proofs.C18Sort
import ZV.Proofs.C18Dom
import ZV.Proofs.C18Main
import ZV.Model.C18Time
import ZV.Proofs.TimeInv
import ZV.Proofs.C18Time
import ZV.Model.C18Ext
import ZV.Proofs.C18Ext
/-!
  C18 — ASN.1 marshalling round-trips and is idempotent.

  `header_roundtrip`, `base128_roundtrip`: the identifier/length framing is inverted exactly (both modes).

  `unmarshal_marshal_equiv` (the property, on the whole modelled type language): for every schema / parameters / value in
  the decidable domain `InDomain` (ZV.Proofs.C18Dom) — arbitrarily nested structs, SEQUENCE OF and SET OF (`set` parameter
  and `…SET`-named slice types) over bool, int/int32/int64/Enumerated, *big.Int (any size), OBJECT IDENTIFIER, BIT STRING,
  Flag, RawValue, []byte and string, with every combination of IMPLICIT / EXPLICIT / APPLICATION / PRIVATE tags, the string
  kinds, OPTIONAL, DEFAULT and omitempty — strict `Unmarshal (Marshal v ++ rest) = (v', rest)` with `v ≈ v'` (`VEq`: SET OF
  up to permutation, nil = empty for slices) and `Marshal v' = Marshal v` (idempotence).  If the top-level value itself is
  left out (OPTIONAL at top level), `rest` must let the decoder see that (`Skips`).
  `unmarshal_marshal`: on the decidable sub-domain `Exact` (no SET OF, non-nil slices) `v' = v`.
  `marshal_idempotent`, `unmarshal_marshal_all`: corollaries.  Content-level theorems: `int64_content_roundtrip`,
  `bigint_content_roundtrip`, `oid_content_roundtrip`, `bitstring_content_roundtrip`, `set_sort_*`.

  time.Time (section "time.Time" at the end; models `ZV.Model.Time`, `ZV.Model.C18Time`): `civil_unix_roundtrip` /
  `unix_civil_roundtrip` (calendar ↔ Unix seconds, every year), `utctime_roundtrip`, `gentime_roundtrip`
  (`parseUTCTime ∘ appendUTCTime`, `parseGeneralizedTime ∘ appendGeneralizedTime`, both parsing modes),
  `time_choice`, `time_year_guard`, `time_body_roundtrip` (the UTCTime / GeneralizedTime choice of `makeField` /
  `makeBody` and the decoder's arm agree).  A bare time.Time with parameters is tied by T2 (`c18 tm/tu`).
  Extended embedding (section "Extended embedding" at the end; `ZV.Model.C18Ext`): structs whose fields are time.Time or
  any type of the old embedding — `xstruct_unmarshal_marshal` (round trip + rest + idempotence), `xstruct_marshal_idempotent`
  (Marshal ∘ Unmarshal ∘ Marshal = Marshal), `xstruct_unmarshal_all`, `time_remarshal`; tied by T2 (`c18 tm` on struct
  schemas, `c18 xu`).  time.Time nested deeper (struct in struct, slice elements) is covered by T3 only.

  Not covered by theorems (correspondence T2 / oracle T3 only): interface{}, RawContent (outside the model);
  Go `int` overflow of lengths ≥ 2^31.  See tools/props/C18.json.
-/
namespace ZV.C18

/-- header round trip (identifier and length octets), both modes -/
theorem header_roundtrip (perm : Bool) (t : TL) (hc : t.cls < 4) (ht : t.tag ≤ 2147483647) (hl : t.len < 2147483648)
    (rest : Bytes) : parseTL perm (appendTL t ++ rest) = .ok (t, rest) :=
  parseTL_appendTL perm t hc ht hl rest

example : ∃ t : TL, t.cls < 4 ∧ t.tag ≤ 2147483647 ∧ t.len < 2147483648 ∧ t.tag ≥ 31 ∧ t.len ≥ 128 :=
  ⟨{ cls := 2, tag := 1000, len := 300, compound := true }, by decide⟩

/-- `parseBase128Int ∘ appendBase128Int = id` on `[0, 2^31)` (tag numbers, OID arcs) -/
theorem base128_roundtrip (n : Nat) (h : n ≤ 2147483647) (rest : Bytes) :
    base128 0 0 (appendBase128 (n : Int) ++ rest) = .ok (n, rest) := by
  unfold appendBase128
  have : ¬ ((n : Int) < 0) := by omega
  simp only [this, if_false, Int.toNat_natCast]
  exact base128_digits n h rest

/-- **C18**: for every type, parameters and value of the domain, strict Unmarshal of Marshal's output followed by any
    `rest` returns a value `v' ≈ v` (SET OF up to permutation, nil = empty) and exactly `rest`, and `v'` marshals to the
    same bytes.  (`hr`: only relevant when the top-level value itself is left out by Marshal.) -/
theorem unmarshal_marshal_equiv (s : Schema) (p : Params) (v : Val) (enc rest : Bytes)
    (hd : InDomain s p v = true) (hm : marshal s p v = .ok enc) (hl : enc.length < 2147483648)
    (hr : omitted s p v = true → Skips s p rest) :
    ∃ v', unmarshal false s p (enc ++ rest) = .ok (v', rest) ∧ VEq s p v v' ∧ marshal s p v' = .ok enc := by
  obtain ⟨v', h1, h2, h3, _⟩ := (roundtrip_both s).1 p v enc rest hd hm hl hr
  exact ⟨v', h1, h2, h3⟩

/-- **C18 (identical value)**: on the sub-domain `Exact` (no SET OF, non-nil slices) the value comes back identically. -/
theorem unmarshal_marshal (s : Schema) (p : Params) (v : Val) (enc rest : Bytes)
    (hd : InDomain s p v = true) (he : Exact s p v = true) (hm : marshal s p v = .ok enc) (hl : enc.length < 2147483648)
    (hr : omitted s p v = true → Skips s p rest) :
    unmarshal false s p (enc ++ rest) = .ok (v, rest) := by
  obtain ⟨v', h1, _, _, h4, _⟩ := (roundtrip_both s).1 p v enc rest hd hm hl hr
  rw [← h4 he]; exact h1

/-- consumes all bytes -/
theorem unmarshal_marshal_all (s : Schema) (p : Params) (v : Val) (enc : Bytes)
    (hd : InDomain s p v = true) (hm : marshal s p v = .ok enc) (hl : enc.length < 2147483648) :
    ∃ v', unmarshal false s p enc = .ok (v', []) ∧ VEq s p v v' := by
  obtain ⟨v', h1, h2, _⟩ := unmarshal_marshal_equiv s p v enc [] hd hm hl (fun _ => Or.inl rfl)
  rw [List.append_nil] at h1
  exact ⟨v', h1, h2⟩

/-- idempotence: re-marshalling what strict Unmarshal decoded from Marshal's output reproduces the bytes -/
theorem marshal_idempotent (s : Schema) (p : Params) (v v' : Val) (enc r : Bytes)
    (hd : InDomain s p v = true) (hm : marshal s p v = .ok enc) (hl : enc.length < 2147483648)
    (hu : unmarshal false s p enc = .ok (v', r)) : marshal s p v' = .ok enc := by
  obtain ⟨w, h1, _, h3⟩ := unmarshal_marshal_equiv s p v enc [] hd hm hl (fun _ => Or.inl rfl)
  rw [List.append_nil, hu] at h1
  simp only [Res.ok.injEq, Prod.mk.injEq] at h1
  rw [h1.1]; exact h3

/-- INTEGER content round trip for every int64 (two's complement, minimal length) -/
theorem int64_content_roundtrip (i : Int) (h1 : -9223372036854775808 ≤ i) (h2 : i < 9223372036854775808) :
    parseInt64 false (encInt64 i) = .ok i := parseInt64_encInt64 i h1 h2

/-- INTEGER content round trip for `*big.Int`: EVERY integer (two's complement, any size) -/
theorem bigint_content_roundtrip (i : Int) : parseBigInt false (makeBigInt i) = .ok i := parseBigInt_makeBigInt i

/-- OBJECT IDENTIFIER content round trip (valid first arcs, arcs < 2^31) -/
theorem oid_content_roundtrip (l : List Int) (h : oidOK l = true) :
    ∃ body, makeOID l = .ok body ∧ parseOID body = .ok (.oid l) := parseOID_makeOID l h

/-- BIT STRING content round trip (`len(Bytes) = ⌈BitLength/8⌉`, zero padding bits) -/
theorem bitstring_content_roundtrip (bs : Bytes) (n : Int) (h : bitsOK bs n = true) :
    parseBitString (makeBits bs n) = .ok (.bits bs n) := parseBitString_makeBits bs n h

/-- the DER sort of SET OF only permutes the element encodings, its result is ascending, and it is idempotent -/
theorem set_sort_perm (l : List Bytes) : (sortEnc l).Perm l := perm_sortEnc l
theorem set_sort_sorted (l : List Bytes) : SortedEnc (sortEnc l) := sorted_sortEnc l
theorem set_sort_idem (l : List Bytes) : sortEnc (sortEnc l) = sortEnc l := sortEnc_sortEnc l

/-! ### the hypotheses are satisfiable; the domain predicate is not vacuous and not too wide -/

/-- a member of the domain using most of the type language: EXPLICIT Flag, OPTIONAL int with DEFAULT (left out), OPTIONAL
    tagged string (left out) followed by a field with another tag, *big.Int, OID, BIT STRING, RawValue, SET OF int, SEQUENCE OF
    string, nil []byte with omitempty -/
def exSchema : Schema :=
  .struct (.fcons { tag := some 0, explicit := true, optional := true } .flag
    (.fcons { optional := true, defaultValue := some 5 } .int64
    (.fcons { optional := true, tag := some 1, stringType := 12 } .str
    (.fcons { tag := some 2 } .bigint
    (.fcons {} .oid
    (.fcons {} .bits
    (.fcons { set := true } (.seqOf false .int64)
    (.fcons {} (.seqOf false .str)
    (.fcons { optional := true, omitEmpty := true, tag := some 7 } .octets
    (.fcons {} .raw .fnil))))))))))

def exVal : Val :=
  .vcons (.bool true) (.vcons (.int 5) (.vcons (.bytes []) (.vcons (.int (-340282366920938463463374607431768211456))
    (.vcons (.oid [2, 5, 29, 17]) (.vcons (.bits [0xa0] 3) (.vcons (.vcons (.int 3) (.vcons (.int 1) .vnil))
    (.vcons (.vcons (.bytes [0x61]) (.vcons (.bytes [0xc3, 0xa9]) .vnil)) (.vcons .null
    (.vcons (.raw 2 3 true [5, 0] [0xa3, 2, 5, 0]) .vnil)))))))))

example : InDomain exSchema {} exVal = true := by decide
example : omitted exSchema {} exVal = false := by decide
/-- hypothesis `hr` of the theorems: trivially true for a present value, and for `rest = []` -/
example (s : Schema) (p : Params) (v : Val) : omitted s p v = true → Skips s p [] := fun _ => Or.inl rfl

/-- SET OF really comes back permuted: `≈` is not `=` -/
example : marshal (.seqOf false .int64) { set := true } (.vcons (.int 3) (.vcons (.int 1) .vnil)) = .ok [0x31, 6, 2, 1, 1, 2, 1, 3] ∧
    unmarshal false (.seqOf false .int64) { set := true } [0x31, 6, 2, 1, 1, 2, 1, 3] =
      .ok (.vcons (.int 1) (.vcons (.int 3) .vnil), []) := by
  constructor
  · simp [marshal, makeField, mapElems, primMake, omitted, univ, marshalTag, makePrimBody, wrap, isSliceKind, lenZero,
      zeroVal, sortEnc, insertSorted, encInt64_small 3 (by decide), encInt64_small 1 (by decide)]
    decide
  · decide

/-- a member of `Exact`: no SET OF, non-nil slices -/
example : InDomain (.struct (.fcons {} (.seqOf false .bigint) (.fcons { optional := true } .oid .fnil))) {}
      (.vcons (.vcons (.int 70000) .vnil) (.vcons .null .vnil)) = true ∧
    Exact (.struct (.fcons {} (.seqOf false .bigint) (.fcons { optional := true } .oid .fnil))) {}
      (.vcons (.vcons (.int 70000) .vnil) (.vcons .null .vnil)) = true := by decide

/-- the ambiguous grammar is outside the domain — an untagged OPTIONAL int left out in front of an int — and indeed does not
    round-trip: the decoder gives the second field's value to the first and then fails -/
example : InDomain (.struct (.fcons { optional := true } .int64 (.fcons {} .int64 .fnil))) {}
      (.vcons (.int 0) (.vcons (.int 5) .vnil)) = false ∧
    marshal (.struct (.fcons { optional := true } .int64 (.fcons {} .int64 .fnil))) {}
      (.vcons (.int 0) (.vcons (.int 5) .vnil)) = .ok [0x30, 3, 2, 1, 5] ∧
    unmarshal false (.struct (.fcons { optional := true } .int64 (.fcons {} .int64 .fnil))) {} [0x30, 3, 2, 1, 5] = .err := by
  refine ⟨by decide, ?_, by decide⟩
  simp [marshal, makeField, makeFields, primMake, omitted, univ, marshalTag, makePrimBody, wrap, isSliceKind, lenZero, zeroVal,
    encInt64_small 5 (by decide)]
  decide

/-- … while the same types with distinguishing tags are inside -/
example : InDomain (.struct (.fcons { optional := true, tag := some 0 } .int64 (.fcons {} .int64 .fnil))) {}
      (.vcons (.int 0) (.vcons (.int 5) .vnil)) = true := by decide

/-- an empty non-nil slice under omitempty is outside (it comes back nil, and a struct holding only it then re-marshals
    differently); nil is inside -/
example : InDomain (.octets) { optional := true, omitEmpty := true } (.bytes []) = false ∧
    InDomain (.octets) { optional := true, omitEmpty := true } .null = true := by decide

example : marshal (.struct (.fcons { tag := some 0, explicit := true } .bool (.fcons {} .str .fnil))) {}
    (.vcons (.bool true) (.vcons (.bytes [0x41]) .vnil)) = .ok [0x30, 8, 0xa0, 3, 1, 1, 0xff, 0x13, 1, 0x41] := by
  simp [marshal, makeField, makeFields, primMake, omitted, univ, marshalTag, stringTag, makePrimBody, makeString,
    wrap, isSliceKind, lenZero, zeroVal]
  decide

example : oidOK [2, 999, 3, 2147483647] = true ∧ bitsOK [0xff, 0x80] 9 = true ∧ bitsOK [] 0 = true := by decide

/-! ### what is still outside the theorems -/

-- FULL (RawValue): `∀ RawValue r with r.FullBytes = nil`, Marshal builds the TLV from Class/Tag/IsCompound/Bytes and Unmarshal
--   returns r with FullBytes filled in: a round trip up to FullBytes.  Also a RawValue FIELD WITH TAG PARAMETERS
--   (`explicit,tag:N` equal to the value's own identifier).  Both are outside `leafOK` (`rawOK` wants the canonical FullBytes,
--   `p.tag = none`).  Missing: a `VEq` clause identifying `raw c t k b []` with `raw c t k b (TLV c t k b)` and the
--   `isRaw` arm of `explicitStage`.  Covered by T2 (bytes and decoded value compared with the Go code) only.
-- FULL (omitempty, empty non-nil slice): `v ≈ v'` still holds (it comes back nil) but `Marshal v' = Marshal v` does NOT in
--   general — see `omitempty_nonnil_not_idempotent` below — so `absentOK` asks for nil.
-- FULL (EXPLICIT skip test): `skipsH` ignores the conjunct `len = 0 ∨ constructed` of the decoder's EXPLICIT match
--   (conservative: a left-out `optional,explicit,tag:N` field followed by a PRIMITIVE non-empty element with class/tag N is
--   excluded although the decoder would skip it).
-- FULL (lengths): encodings of 2^31 bytes or more (Go `int` overflow is not modelled; hypothesis `hl`).
-- FULL (permissive mode): the same statements for `unmarshal true` follow from `ZV.C20.perm_extends` (not imported here to keep
--   the two packages independent).
-- FULL (time.Time as a struct field / slice element): the deep embedding `Schema` has no time leaf, so `unmarshal_marshal_equiv` does not
--   quantify over schemas containing time.Time; proved instead: the content level (`utctime_roundtrip`, `gentime_roundtrip`,
--   `time_body_roundtrip`, below), tied by T2 for a bare time.Time with any parameters (`c18 tm/tu`), T3 for nested time fields.
-- FULL (interface{}, RawContent, int8/int16): outside the Lean model.

/-- why `absentOK` wants nil under omitempty: an OPTIONAL struct holding only an empty NON-NIL `omitempty` slice is written
    (`a0 00`), comes back as the zero struct, and is then left out: `Marshal (Unmarshal (Marshal v)) ≠ Marshal v`.
    (Outside the documented domain of the property: the harness identifies nil and empty slices.) -/
theorem omitempty_nonnil_not_idempotent :
    let s : Schema := .struct (.fcons { optional := true, tag := some 0 }
      (.struct (.fcons { optional := true, omitEmpty := true, tag := some 1 } .octets .fnil)) .fnil)
    marshal s {} (.vcons (.vcons (.bytes []) .vnil) .vnil) = .ok [0x30, 2, 0xa0, 0] ∧
    unmarshal false s {} [0x30, 2, 0xa0, 0] = .ok (.vcons (.vcons .null .vnil) .vnil, []) ∧
    marshal s {} (.vcons (.vcons .null .vnil) .vnil) = .ok [0x30, 0] := by
  refine ⟨?_, by decide, ?_⟩
  · simp [marshal, makeField, makeFields, primMake, omitted, wrap, isSliceKind, lenZero, zeroVal]
    decide
  · simp [marshal, makeField, makeFields, omitted, wrap, isSliceKind, lenZero, zeroVal]
    decide

/-! ## time.Time -/
section TimeValues
open ZV.Time

/-- **calendar → Unix seconds → calendar**: `time.Date(y, m, d, h, mi, s, 0, zone)` broken down again in the same
    zone gives the same fields — for EVERY year (not only 0..9999), every month 1..12, every day of that month
    (29 February exactly in leap years), every clock reading, every zone offset. -/
theorem civil_unix_roundtrip (c : Civil) (hv : c.valid = true) : ofUnix (toUnix c) c.off = c :=
  ofUnix_toUnix c hv

example : ({ year := 2024, month := 2, day := 29, hour := 23, min := 59, sec := 59, off := -3600 } : Civil).valid = true ∧
    ({ year := 2023, month := 2, day := 29, hour := 0, min := 0, sec := 0, off := 0 } : Civil).valid = false ∧
    ({ year := 1900, month := 2, day := 29, hour := 0, min := 0, sec := 0, off := 0 } : Civil).valid = false ∧
    ({ year := 0, month := 2, day := 29, hour := 0, min := 0, sec := 0, off := 0 } : Civil).valid = true := by decide

/-- **Unix seconds → calendar → Unix seconds**: every instant in every zone breaks down into normalised fields
    that `time.Date` maps back to the instant. -/
theorem unix_civil_roundtrip (u o : Int) : (ofUnix u o).valid = true ∧ toUnix (ofUnix u o) = u :=
  ⟨ofUnix_valid u o, toUnix_ofUnix u o⟩

/-- **GeneralizedTime content round trip** (strict and permissive): for every time whose year (in its zone) is
    0..9999 and whose zone offset is below 25 hours, `appendGeneralizedTime` succeeds and `parseGeneralizedTime`
    of what it wrote — `time.Parse` with "20060102150405Z0700" and the re-serialisation test — returns `readBack t`:
    whole seconds, zone offset truncated to whole minutes, local clock reading kept. -/
theorem gentime_roundtrip (perm : Bool) (t : GoTime) (hy0 : 0 ≤ t.year) (hy1 : t.year ≤ 9999) (h1 : -90000 < t.off)
    (h2 : t.off < 90000) :
    ∃ bs, EA.appendGeneralizedTime t = .ok bs ∧ EA.parseGeneralizedTime perm bs = .ok (readBack t) :=
  ⟨genText t, appendGeneralizedTime_eq t hy0 hy1, parseGeneralizedTime_genText perm t hy0 hy1 h1 h2⟩

example : ({ unix := -62167219200, off := 0 } : GoTime).year = 0 ∧ ({ unix := 253402300799, off := 0 } : GoTime).year = 9999 ∧
    ({ unix := 253402300799, off := 86340 } : GoTime).year = 10000 ∧
    EA.appendGeneralizedTime { unix := -62167219200, off := 0 } =
      .ok [0x30, 0x30, 0x30, 0x30, 0x30, 0x31, 0x30, 0x31, 0x30, 0x30, 0x30, 0x30, 0x30, 0x30, 0x5a] := by decide +kernel

/-- **UTCTime content round trip** (strict and permissive): years 1950..2049, including the 19YY / 20YY century
    choice of `time.Parse` (YY ≥ 69 is 19YY) corrected by `AddDate(-100, 0, 0)` for 50..68, and the first attempt
    with the layout without seconds failing on the form with seconds. -/
theorem utctime_roundtrip (perm : Bool) (t : GoTime) (hy0 : 1950 ≤ t.year) (hy1 : t.year < 2050) (h1 : -90000 < t.off)
    (h2 : t.off < 90000) :
    ∃ bs, EA.appendUTCTime t = .ok bs ∧ EA.parseUTCTime perm bs = .ok (readBack t) :=
  ⟨utcText t, appendUTCTime_eq t hy0 hy1, parseUTCTime_utcText perm t hy0 hy1 h1 h2⟩

/-- the zone bound of `gentime_roundtrip` is exact (zone offsets below 100 hours): for a zone of 25 hours or more
    `appendGeneralizedTime` still writes (hour field 25..99), and `parseGeneralizedTime` rejects it in BOTH modes
    (`time.Parse` itself refuses a zone hour above 24). -/
theorem gentime_roundtrip_iff (perm : Bool) (t : GoTime) (hy0 : 0 ≤ t.year) (hy1 : t.year ≤ 9999)
    (h1 : -360000 < t.off) (h2 : t.off < 360000) :
    (∃ bs, EA.appendGeneralizedTime t = .ok bs ∧ EA.parseGeneralizedTime perm bs = .ok (readBack t)) ↔
      (-90000 < t.off ∧ t.off < 90000) := by
  constructor
  · rintro ⟨bs, hb, hp⟩
    by_contra hn
    rw [appendGeneralizedTime_eq t hy0 hy1] at hb
    simp only [Res.ok.injEq] at hb
    subst hb
    rw [parseGeneralizedTime_25h perm t hy0 hy1 (by omega) h1 h2] at hp
    simp at hp
  · intro ⟨a, b⟩
    exact gentime_roundtrip perm t hy0 hy1 a b

example : EA.appendGeneralizedTime { unix := 0, off := 90000 } =
      .ok [0x31, 0x39, 0x37, 0x30, 0x30, 0x31, 0x30, 0x32, 0x30, 0x31, 0x30, 0x30, 0x30, 0x30, 0x2b, 0x32, 0x35, 0x30, 0x30] ∧
    EA.parseGeneralizedTime true
      [0x31, 0x39, 0x37, 0x30, 0x30, 0x31, 0x30, 0x32, 0x30, 0x31, 0x30, 0x30, 0x30, 0x30, 0x2b, 0x32, 0x35, 0x30, 0x30] = .err := by
  decide +kernel

/-- for a zone offset of whole minutes (UTC included) `readBack` is the same instant in the same zone -/
theorem readBack_same_instant (t : GoTime) (h : Int.tmod t.off 60 = 0) :
    readBack t = { unix := t.unix, off := t.off, nsec := 0 } := readBack_whole t h

example : (0 : Int) ≤ ({ unix := 951868799, off := 19800, nsec := 5 } : GoTime).year ∧
    ({ unix := 951868799, off := 19800, nsec := 5 } : GoTime).year = 2000 ∧
    Int.tmod (19800 : Int) 60 = 0 ∧
    EA.appendUTCTime { unix := 951868799, off := 19800, nsec := 5 } =
      .ok [0x30, 0x30, 0x30, 0x33, 0x30, 0x31, 0x30, 0x35, 0x32, 0x39, 0x35, 0x39, 0x2b, 0x30, 0x35, 0x33, 0x30] := by
  decide +kernel

/-- a zone offset with seconds is NOT preserved (the text forms have no zone seconds): `time.Time` at the Unix
    epoch in a zone 30 s east of UTC is written as `700101000030Z` and read back 30 seconds later, in UTC.
    (Outside the documented domain of the property; harness: `timeInDomain`.) -/
example : EA.appendUTCTime { unix := 0, off := 30 } =
      .ok [0x37, 0x30, 0x30, 0x31, 0x30, 0x31, 0x30, 0x30, 0x30, 0x30, 0x33, 0x30, 0x5a] ∧
    EA.parseUTCTime false [0x37, 0x30, 0x30, 0x31, 0x30, 0x31, 0x30, 0x30, 0x30, 0x30, 0x33, 0x30, 0x5a] =
      .ok { unix := 30, off := 0 } ∧ readBack { unix := 0, off := 30 } = { unix := 30, off := 0 } := by decide +kernel

/-- **the UTCTime / GeneralizedTime choice** of `makeField` (tag) and `makeBody` (content): UTCTime exactly when
    the field is not marked `generalized` and the year (in the zone of the value) is 1950..2049; the content is
    written by the encoder that matches the tag, and the UTCTime encoder cannot fail there. -/
theorem time_choice (timeType : Nat) (t : GoTime) :
    (EA.timeTag timeType t = 23 ↔ (timeType ≠ 24 ∧ 1950 ≤ t.year ∧ t.year < 2050)) ∧
    (EA.timeTag timeType t = 23 ∨ EA.timeTag timeType t = 24) ∧
    (EA.timeTag timeType t = 23 → EA.makeTimeBody timeType t = EA.appendUTCTime t ∧ (EA.appendUTCTime t).isOk = true) ∧
    (EA.timeTag timeType t = 24 → EA.makeTimeBody timeType t = EA.appendGeneralizedTime t) := by
  by_cases hg : timeType = 24
  · subst hg
    simp [EA.timeTag, EA.useGeneralized, EA.makeTimeBody]
  · by_cases hr : 1950 ≤ t.year ∧ t.year < 2050
    · have ho : EA.outsideUTCRange t = false := by simp [EA.outsideUTCRange]; omega
      have hb : (timeType == 24) = false := by simpa using hg
      simp only [EA.timeTag, EA.useGeneralized, EA.makeTimeBody, hb, ho, Bool.or_self, Bool.false_eq_true, if_false]
      refine ⟨by simp [hg, hr], by simp, fun _ => ⟨trivial, ?_⟩, by simp⟩
      rw [appendUTCTime_eq t hr.1 hr.2]; rfl
    · have ho : EA.outsideUTCRange t = true := by simp [EA.outsideUTCRange]; omega
      simp only [EA.timeTag, EA.useGeneralized, EA.makeTimeBody, ho, Bool.or_true, if_true]
      refine ⟨by simp [hr], by simp, by simp, fun _ => trivial⟩

/-- Marshal refuses exactly the times whose year is outside 0..9999 -/
theorem time_year_guard (timeType : Nat) (t : GoTime) :
    EA.makeTimeBody timeType t = .err ↔ (t.year < 0 ∨ t.year > 9999) := by
  obtain ⟨h23, hor, hu, hg⟩ := time_choice timeType t
  rcases hor with h | h
  · have := (hu h)
    have hr := (h23.1 h).2
    rw [this.1, appendUTCTime_eq t hr.1 hr.2]
    constructor
    · intro e; simp at e
    · intro e; omega
  · rw [hg h]
    constructor
    · intro e
      by_cases hy : t.year < 0 ∨ t.year > 9999
      · exact hy
      · rw [appendGeneralizedTime_eq t (by omega) (by omega)] at e; simp at e
    · intro e; exact appendGeneralizedTime_err t e

/-- **content round trip through the choice**: whatever tag `makeField` chose, the decoder's `*time.Time` arm for
    that tag reads the content `makeBody` wrote back as `readBack t`. -/
theorem time_body_roundtrip (perm : Bool) (timeType : Nat) (t : GoTime) (hy0 : 0 ≤ t.year) (hy1 : t.year ≤ 9999)
    (h1 : -90000 < t.off) (h2 : t.off < 90000) :
    ∃ body, EA.makeTimeBody timeType t = .ok body ∧
      EA.parseTimeBody perm (EA.timeTag timeType t) body = .ok (readBack t) := by
  obtain ⟨h23, hor, hu, hg⟩ := time_choice timeType t
  rcases hor with h | h
  · have hr := (h23.1 h).2
    obtain ⟨bs, e1, e2⟩ := utctime_roundtrip perm t hr.1 hr.2 h1 h2
    exact ⟨bs, by rw [(hu h).1]; exact e1, by simp only [EA.parseTimeBody, h, if_true]; exact e2⟩
  · obtain ⟨bs, e1, e2⟩ := gentime_roundtrip perm t hy0 hy1 h1 h2
    exact ⟨bs, by rw [hg h]; exact e1, by simp only [EA.parseTimeBody, h]; exact e2⟩

/-- **`Unmarshal ∘ Marshal` for a bare `time.Time` with parameters** (`MarshalWithParams(t, params)`; any
    combination of EXPLICIT / IMPLICIT / APPLICATION / PRIVATE tag, tag number < 2^31, `utc`, `generalized`,
    `optional`), both parsing modes, any trailing bytes: the decoder returns `readBack t` and leaves `rest`.
    `fieldOK`: no string kind, no `set`, the value is not left out, and under an IMPLICIT tag the decoder's
    parser choice (the `utc` / `generalized` parameter, else UTCTime) is the encoder's. -/
theorem time_field_roundtrip (perm : Bool) (p : Params) (t : GoTime) (enc rest : Bytes) (hg : Good p)
    (hok : TimeField.fieldOK p t = true) (hy0 : 0 ≤ t.year) (hy1 : t.year ≤ 9999) (h1 : -90000 < t.off)
    (h2 : t.off < 90000) (henc : TimeField.makeTimeField p t = .ok enc) (hlen : enc.length < 2147483648) :
    TimeField.parseTimeField perm p (enc ++ rest) = .ok (readBack t, rest) := by
  obtain ⟨body, hb, hp⟩ := time_body_roundtrip perm p.timeType t hy0 hy1 h1 h2
  have hok' := hok
  simp only [TimeField.fieldOK, Bool.and_eq_true, decide_eq_true_eq, Bool.not_eq_true'] at hok'
  obtain ⟨⟨⟨hstr, hset⟩, hom⟩, _⟩ := hok'
  simp only [TimeField.makeTimeField, hom, Bool.false_eq_true, if_false, hstr, ne_eq, not_true_eq_false, hset, hb,
    Res.ok.injEq] at henc
  subst henc
  rw [TimeField.parseTimeField_wrap perm p t body rest hg hok hlen, hp]

example : TimeField.fieldOK { tag := some 0, timeType := 24 } { unix := 2524608000, off := 0 } = true ∧
    TimeField.makeTimeField { tag := some 0, timeType := 24 } { unix := 2524608000, off := 0 } =
      .ok [0x80, 0x0f, 0x32, 0x30, 0x35, 0x30, 0x30, 0x31, 0x30, 0x31, 0x30, 0x30, 0x30, 0x30, 0x30, 0x30, 0x5a] := by
  decide +kernel

/-- the IMPLICIT-tag clause of `fieldOK` is needed: under `tag:0` without `generalized` a year outside 1950..2049
    is written as GeneralizedTime content, which the decoder (no universal tag on the wire) reads as UTCTime and
    rejects.  (With `generalized` the decoder follows the parameter — the fix for D26.) -/
example : TimeField.fieldOK { tag := some 0 } { unix := 2524608000, off := 0 } = false ∧
    (match TimeField.makeTimeField { tag := some 0 } { unix := 2524608000, off := 0 } with
     | .ok enc => TimeField.parseTimeField false { tag := some 0 } enc
     | _ => .ok (TimeField.zeroTime, [])) = .err := by decide +kernel

/-- an OPTIONAL `time.Time{}` is left out, and nothing decodes to `time.Time{}` again -/
theorem time_field_omitted (perm : Bool) (p : Params) (ho : p.optional = true) (hd : p.defaultValue = none) :
    TimeField.makeTimeField p TimeField.zeroTime = .ok [] ∧
    TimeField.parseTimeField perm p [] = .ok (TimeField.zeroTime, []) := by
  simp [TimeField.makeTimeField, TimeField.omittedTime, TimeField.parseTimeField, TimeField.dfltTime, ho, hd]

end TimeValues

/-! ## Extended embedding: structs with `time.Time` fields (`ZV.Model.C18Ext`)

  `XFields` = the field list of a Go struct whose fields are `time.Time` or ANY type of the old embedding (itself
  arbitrarily nested); model `makeXStruct` / `parseXStruct`, tied to `MarshalWithParams` / `UnmarshalWithParams` on
  run-time generated struct types by the T2 streams `c18 tm` (struct schemas) and `c18 xu`.
  -- FULL: the same for time.Time at ANY depth (structs inside structs / `[]time.Time` / `[]struct{… time.Time …}`) and
  -- for a left-out field followed by a present field with a distinguishable identifier (`skipsNext` of the old
  -- embedding); proved here: one struct level, left-out fields only in trailing position.  Deeper nesting stays T3. -/
section ExtendedEmbedding
open ZV.Time ZV.C18.Ext

/-- `time_field_roundtrip` is what `Proofs/C18Ext.lean` assumes of a time leaf -/
theorem timeRT : Ext.TimeRT :=
  fun p t enc rest hg hok hy0 hy1 h1 h2 hm hl => time_field_roundtrip false p t enc rest hg hok hy0 hy1 h1 h2 hm hl

/-- **C18 for structs with time fields (round trip, all of `rest` left, idempotence)**: for every field list over
    `time.Time` and the old type language, parameters and values in the decidable domain `XDom`
    (lean/ZV/Proofs/C18Ext.lean: old fields in `InDomain`; time fields with year 0..9999, zone below 25 h, `fieldOK`;
    left-out OPTIONAL fields only at the end of the struct), strict Unmarshal of Marshal's output followed by any
    `rest` returns `rest` and a value `vs'` with `XEq fs vs vs'` (old fields `VEq`; times `readBack t` — to the second,
    zone to the minute), and `vs'` marshals to the same bytes. -/
theorem xstruct_unmarshal_marshal (fs : XFields) (p : Params) (vs : List XV) (enc rest : Bytes)
    (hd : XDom fs p vs = true) (hm : makeXStruct fs p vs = .ok enc) (hl : enc.length < 2147483648) :
    ∃ vs', parseXStruct false fs p (enc ++ rest) = .ok (vs', rest) ∧ XEq fs vs vs' ∧
      makeXStruct fs p vs' = .ok enc :=
  xstruct_rt timeRT fs p vs enc rest hd hm hl

/-- a validity-like struct {NotBefore utc; NotAfter generalized,explicit,tag:0; Serial int; Rev optional,tag:1 time}
    with the last field left out lies in the domain and marshals -/
def exXFields : XFields :=
  [({ timeType := 23 }, .time), ({ timeType := 24, explicit := true, tag := some 0 }, .time), ({}, .base .int64),
   ({ optional := true, tag := some 1 }, .time)]
def exXVals : List XV :=
  [.time { unix := 946684800, off := 0 }, .time { unix := 2524608000, off := 3600, nsec := 5 }, .base (.int 7),
   .time TimeField.zeroTime]

example : XDom exXFields {} exXVals = true ∧ (∃ enc, makeXStruct exXFields {} exXVals = .ok enc ∧ enc.length = 43) := by
  refine ⟨by decide +kernel, ?_⟩
  cases h : makeXStruct exXFields {} exXVals with
  | ok enc => exact ⟨enc, rfl, by have : (match makeXStruct exXFields {} exXVals with | .ok e => e.length | _ => 0) = 43 := by decide +kernel
                                  rw [h] at this; exact this⟩
  | err => exact absurd h (by decide +kernel)
  | panic => exact absurd h (by decide +kernel)

/-- **idempotence clause of C18 for the extended fragment** (`Marshal ∘ Unmarshal ∘ Marshal = Marshal`): whatever strict
    Unmarshal returns for Marshal's output re-marshals to exactly the same bytes. -/
theorem xstruct_marshal_idempotent (fs : XFields) (p : Params) (vs vs' : List XV) (enc r : Bytes)
    (hd : XDom fs p vs = true) (hm : makeXStruct fs p vs = .ok enc) (hl : enc.length < 2147483648)
    (hu : parseXStruct false fs p enc = .ok (vs', r)) : makeXStruct fs p vs' = .ok enc := by
  obtain ⟨w, h1, _, h3⟩ := xstruct_unmarshal_marshal fs p vs enc [] hd hm hl
  rw [List.append_nil, hu] at h1
  simp only [Res.ok.injEq, Prod.mk.injEq] at h1
  rw [h1.1]; exact h3

/-- all bytes are consumed -/
theorem xstruct_unmarshal_all (fs : XFields) (p : Params) (vs : List XV) (enc : Bytes)
    (hd : XDom fs p vs = true) (hm : makeXStruct fs p vs = .ok enc) (hl : enc.length < 2147483648) :
    ∃ vs', parseXStruct false fs p enc = .ok (vs', []) ∧ XEq fs vs vs' := by
  obtain ⟨w, h1, h2, _⟩ := xstruct_unmarshal_marshal fs p vs enc [] hd hm hl
  rw [List.append_nil] at h1
  exact ⟨w, h1, h2⟩

/-- **idempotence at a time leaf**: the time the decoder reads back (`readBack t`: nanoseconds dropped, zone truncated
    to whole minutes) is written with the same tag and the same content as `t` — for EVERY zone offset and nanosecond
    value, any `utc` / `generalized` parameter. -/
theorem time_remarshal (p : Params) (t : GoTime) (hy0 : 0 ≤ t.year) (hy1 : t.year ≤ 9999)
    (h1 : TimeField.omittedTime p t = false) (h2 : TimeField.omittedTime p (readBack t) = false) :
    TimeField.makeTimeField p (readBack t) = TimeField.makeTimeField p t :=
  makeTimeField_readBack p t hy0 hy1 h1 h2

example : ∃ (p : Params) (t : GoTime), 0 ≤ t.year ∧ t.year ≤ 9999 ∧ TimeField.omittedTime p t = false ∧
    TimeField.omittedTime p (readBack t) = false ∧ readBack t ≠ t :=
  ⟨{ optional := true }, { unix := 946684800, off := 3630, nsec := 7 }, by decide +kernel⟩

/-- the hypothesis `h2` of `time_remarshal` (clause `!omittedTime p (readBack t)` of `timeOK`) is needed: an OPTIONAL
    time at the zero instant with nanoseconds is written, read back as `time.Time{}`, and then LEFT OUT on
    re-marshalling — `Marshal ∘ Unmarshal ∘ Marshal ≠ Marshal` there (outside the documented domain: the harness
    predicate timeInDomain excludes it too). -/
example : TimeField.makeTimeField { optional := true } { unix := -62135596800, off := 0, nsec := 1 } ≠ .ok [] ∧
    TimeField.makeTimeField { optional := true } (readBack { unix := -62135596800, off := 0, nsec := 1 }) = .ok [] := by
  decide +kernel

end ExtendedEmbedding

end ZV.C18
