import ZV.Model.C18
import ZV.Proofs.C18
/-!
  C18 — ASN.1 marshalling round-trips and is idempotent.

  `header_roundtrip`, `base128_roundtrip`: the identifier/length framing is inverted exactly (both modes).
  `unmarshal_marshal`: for every schema / parameters / value in the decidable fragment `InDomain`
  (arbitrarily nested structs over bool, int/int32/int64/Enumerated, []byte and string fields with every combination of IMPLICIT / EXPLICIT /
  APPLICATION / PRIVATE tags, `set`, and the string kinds ia5 / printable / numeric / utf8; no OPTIONAL, no omitempty),
  strict `Unmarshal (Marshal v ++ rest) = (v, rest)`; corollaries: all bytes consumed, re-marshalling is the identity.
  Everything outside `InDomain` (*big.Int, OIDs, bit strings, RawValue, SEQUENCE OF / SET OF, OPTIONAL / DEFAULT) is
  tied to the Go code by correspondence (T2) and the round-trip oracle (T3) only — see tools/props/C18.json.
-/
namespace ZV.C18

/-- decidable form of `Good` -/
def goodB (p : Params) : Bool :=
  !p.optional && !(p.application && p.priv) && !p.omitEmpty &&
  (match p.tag with | some tg => decide (tg ≤ 2147483647) | none => !p.explicit) &&
  (p.stringType == 0 || p.stringType == 12 || p.stringType == 18 || p.stringType == 19 || p.stringType == 22)

theorem goodB_good (p : Params) (h : goodB p = true) : Good p := by
  unfold goodB at h
  simp only [Bool.and_eq_true, Bool.not_eq_true', Bool.or_eq_true, beq_iff_eq, Bool.and_eq_false_imp] at h
  obtain ⟨⟨⟨⟨h1, h2⟩, h3⟩, h4⟩, h5⟩ := h
  refine ⟨h1, fun ⟨a, b⟩ => by simp [h2 a] at b, ?_, ?_, h3, by omega⟩
  · intro tg ht; rw [ht] at h4; simpa using h4
  · intro he ht; rw [ht] at h4; simp [he] at h4

/-- the fragment for which the round trip is PROVED (decidable) -/
def InDomain : Schema → Params → Val → Bool
  | .bool, p, .bool _ => goodB p
  | .octets, p, .bytes _ => goodB p
  | .str, p, .bytes bs => goodB p && strOK p bs
  | .int64, p, .int i => goodB p && decide (-9223372036854775808 ≤ i) && decide (i < 9223372036854775808)
  | .int32, p, .int i => goodB p && decide (-2147483648 ≤ i) && decide (i ≤ 2147483647)
  | .enum, p, .int i => goodB p && decide (-2147483648 ≤ i) && decide (i ≤ 2147483647)
  | .struct fs, p, v => goodB p && InDomain fs {} v
  | .fnil, _, .vnil => true
  | .fcons p s rest, _, .vcons v vs => InDomain s p v && InDomain rest {} vs
  | _, _, _ => false

/-- header round trip (identifier and length octets), both modes -/
theorem header_roundtrip (perm : Bool) (t : TL) (hc : t.cls < 4) (ht : t.tag ≤ 2147483647) (hl : t.len < 2147483648)
    (rest : Bytes) : parseTL perm (appendTL t ++ rest) = .ok (t, rest) :=
  parseTL_appendTL perm t hc ht hl rest

/-- `parseBase128Int ∘ appendBase128Int = id` on `[0, 2^31)` (tag numbers, OID arcs) -/
theorem base128_roundtrip (n : Nat) (h : n ≤ 2147483647) (rest : Bytes) :
    base128 0 0 (appendBase128 (n : Int) ++ rest) = .ok (n, rest) := by
  unfold appendBase128
  have : ¬ ((n : Int) < 0) := by omega
  simp only [this, if_false, Int.toNat_natCast]
  exact base128_digits n h rest

theorem roundtrip_both (s : Schema) :
    (∀ p v enc rest, InDomain s p v = true → makeField s p v = .ok enc → enc.length < 2147483648 →
        parseField false s p (enc ++ rest) = .ok (v, rest)) ∧
    (∀ v enc rest, InDomain s {} v = true → makeFields s v = .ok enc → enc.length < 2147483648 →
        parseFields false s (enc ++ rest) = .ok (v, rest)) := by
  induction s with
  | bool =>
    refine ⟨fun p v enc rest hd hm hl => ?_, fun v enc rest hd hm hl => by simp [makeFields] at hm⟩
    cases v <;> simp only [InDomain, Bool.false_eq_true] at hd
    simp only [makeField, parseField] at hm ⊢
    exact bool_field_roundtrip p _ enc rest (goodB_good p hd) hm hl
  | octets =>
    refine ⟨fun p v enc rest hd hm hl => ?_, fun v enc rest hd hm hl => by simp [makeFields] at hm⟩
    cases v <;> simp only [InDomain, Bool.false_eq_true] at hd
    simp only [makeField, parseField] at hm ⊢
    exact octets_field_roundtrip p _ enc rest (goodB_good p hd) hm hl
  | str =>
    refine ⟨fun p v enc rest hd hm hl => ?_, fun v enc rest hd hm hl => by simp [makeFields] at hm⟩
    cases v <;> simp only [InDomain, Bool.false_eq_true, Bool.and_eq_true] at hd
    simp only [makeField, parseField] at hm ⊢
    exact str_field_roundtrip p _ enc rest (goodB_good p hd.1) hd.2 hm hl
  | int64 =>
    refine ⟨fun p v enc rest hd hm hl => ?_, fun v enc rest hd hm hl => by simp [makeFields] at hm⟩
    cases v <;> simp only [InDomain, Bool.false_eq_true, Bool.and_eq_true, decide_eq_true_eq] at hd
    simp only [makeField, parseField] at hm ⊢
    exact int64_field_roundtrip p _ enc rest (goodB_good p hd.1.1) hd.1.2 hd.2 hm hl
  | int32 =>
    refine ⟨fun p v enc rest hd hm hl => ?_, fun v enc rest hd hm hl => by simp [makeFields] at hm⟩
    cases v <;> simp only [InDomain, Bool.false_eq_true, Bool.and_eq_true, decide_eq_true_eq] at hd
    simp only [makeField, parseField] at hm ⊢
    exact int32_field_roundtrip p _ enc rest (goodB_good p hd.1.1) hd.1.2 hd.2 hm hl
  | enum =>
    refine ⟨fun p v enc rest hd hm hl => ?_, fun v enc rest hd hm hl => by simp [makeFields] at hm⟩
    cases v <;> simp only [InDomain, Bool.false_eq_true, Bool.and_eq_true, decide_eq_true_eq] at hd
    simp only [makeField, parseField] at hm ⊢
    exact enum_field_roundtrip p _ enc rest (goodB_good p hd.1.1) hd.1.2 hd.2 hm hl
  | struct fs ih =>
    refine ⟨fun p v enc rest hd hm hl => ?_, fun v enc rest hd hm hl => by simp [makeFields] at hm⟩
    simp only [InDomain, Bool.and_eq_true] at hd
    have hg := goodB_good p hd.1
    simp only [makeField] at hm
    rw [omitted_false _ _ _ hg] at hm
    simp only [Bool.false_eq_true, if_false] at hm
    by_cases h1 : p.timeType ≠ 0
    · rw [if_pos h1] at hm; cases hm
    rw [if_neg h1] at hm
    by_cases h2 : p.stringType ≠ 0
    · rw [if_pos h2] at hm; cases hm
    rw [if_neg h2] at hm
    cases hb : makeFields fs v with
    | err => rw [hb] at hm; cases hm
    | panic => rw [hb] at hm; cases hm
    | ok body =>
      rw [hb] at hm
      have henc : enc = wrap p (if p.set = true then 17 else 16) true body := by simpa using hm.symm
      subst henc
      have hbl : body.length < 2147483648 := by
        have := wrap_length_ge p (if p.set = true then 17 else 16) true body; omega
      simp only [parseField]
      rw [append_isEmpty_false (wrap_nonempty _ _ _ _)]
      simp only [Bool.false_eq_true, if_false]
      rw [parsePre_wrap false (.struct fs) p 16 _ true body rest rfl hg hl (by split_ifs <;> omega)
        (by intro _; simp only [substTag]; split_ifs <;> simp_all)]
      simp only
      have := ih.2 v body [] hd.2 hb hbl
      rw [List.append_nil] at this
      rw [this]
  | fnil =>
    refine ⟨fun p v enc rest hd hm hl => by simp [makeField] at hm, fun v enc rest hd hm hl => ?_⟩
    cases v <;> simp only [InDomain, Bool.false_eq_true] at hd
    simp only [makeFields, Res.ok.injEq] at hm
    subst hm
    simp [parseFields]
  | fcons p s r ihs ihr =>
    refine ⟨fun p v enc rest hd hm hl => by simp [makeField] at hm, fun v enc rest hd hm hl => ?_⟩
    cases v <;> simp only [InDomain, Bool.false_eq_true, Bool.and_eq_true] at hd
    rename_i v vs
    simp only [makeFields] at hm
    cases h1 : makeField s p v with
    | err => rw [h1] at hm; cases hm
    | panic => rw [h1] at hm; cases hm
    | ok b =>
      rw [h1] at hm
      cases h2 : makeFields r vs with
      | err => rw [h2] at hm; cases hm
      | panic => rw [h2] at hm; cases hm
      | ok bs =>
        rw [h2] at hm
        simp only [Res.ok.injEq] at hm
        subst hm
        simp only [List.length_append] at hl
        simp only [parseFields, List.append_assoc]
        rw [ihs.1 p v b (bs ++ rest) hd.1 h1 (by omega)]
        simp only
        rw [ihr.2 vs bs rest hd.2 h2 (by omega)]
  | _ =>
    refine ⟨fun p v enc rest hd hm hl => ?_, fun v enc rest hd hm hl => by simp [makeFields] at hm⟩
    cases v <;> simp [InDomain] at hd

/-- **C18 (proved fragment)**: strict Unmarshal of Marshal's output followed by any `rest` returns the value and
    exactly `rest`. -/
theorem unmarshal_marshal (s : Schema) (p : Params) (v : Val) (enc rest : Bytes)
    (hd : InDomain s p v = true) (hm : marshal s p v = .ok enc) (hl : enc.length < 2147483648) :
    unmarshal false s p (enc ++ rest) = .ok (v, rest) :=
  (roundtrip_both s).1 p v enc rest hd hm hl

/-- consumes all bytes -/
theorem unmarshal_marshal_all (s : Schema) (p : Params) (v : Val) (enc : Bytes)
    (hd : InDomain s p v = true) (hm : marshal s p v = .ok enc) (hl : enc.length < 2147483648) :
    unmarshal false s p enc = .ok (v, []) := by
  have := unmarshal_marshal s p v enc [] hd hm hl
  rwa [List.append_nil] at this

/-- idempotence: re-marshalling what strict Unmarshal decoded from Marshal's output reproduces the bytes -/
theorem marshal_idempotent (s : Schema) (p : Params) (v v' : Val) (enc r : Bytes)
    (hd : InDomain s p v = true) (hm : marshal s p v = .ok enc) (hl : enc.length < 2147483648)
    (hu : unmarshal false s p enc = .ok (v', r)) : marshal s p v' = .ok enc := by
  rw [unmarshal_marshal_all s p v enc hd hm hl] at hu
  simp only [Res.ok.injEq, Prod.mk.injEq] at hu
  rw [← hu.1]; exact hm

/-- INTEGER content round trip for every int64 (two's complement, minimal length) -/
theorem int64_content_roundtrip (i : Int) (h1 : -9223372036854775808 ≤ i) (h2 : i < 9223372036854775808) :
    parseInt64 false (encInt64 i) = .ok i := parseInt64_encInt64 i h1 h2

/-- a non-trivial member of the fragment (with `ZV.C20.perm_extends` this is a corollary; stated here directly) -/
example : InDomain
    (.struct (.fcons { tag := some 0, explicit := true } .bool (.fcons { stringType := 12, tag := some 1, priv := true } .str
      (.fcons { set := true } (.struct (.fcons {} .octets .fnil)) .fnil)))) {}
    (.vcons (.bool true) (.vcons (.bytes [0xc3, 0xa9]) (.vcons (.vcons (.bytes [1, 2]) .vnil) .vnil))) = true := by decide

example : marshal (.struct (.fcons { tag := some 0, explicit := true } .bool (.fcons {} .str .fnil))) {}
    (.vcons (.bool true) (.vcons (.bytes [0x41]) .vnil)) = .ok [0x30, 8, 0xa0, 3, 1, 1, 0xff, 0x13, 1, 0x41] := by
  simp [marshal, makeField, makeFields, primMake, omitted, univ, marshalTag, stringTag, makePrimBody, makeString,
    wrap, isSliceKind, lenZero, zeroVal]
  decide

end ZV.C18
