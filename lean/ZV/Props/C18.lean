import ZV.Model.C18
import ZV.Proofs.C18
import ZV.Proofs.C18Big
import ZV.Proofs.C18Oid
import ZV.Proofs.C18Leaf
import ZV.Proofs.C18Opt
import ZV.Proofs.C18Seq
import ZV.Proofs.C18Sort
import ZV.Proofs.C18Dom
import ZV.Proofs.C18Main
/-!
  C18 — ASN.1 marshalling round-trips and is idempotent.

  `header_roundtrip`, `base128_roundtrip`: the identifier/length framing is inverted exactly (both modes).

  `unmarshal_marshal_equiv` (the property, on the whole modelled type language): for every schema / parameters / value in
  the decidable domain `InDomain` (ZV.Proofs.C18Dom) — arbitrarily nested structs, SEQUENCE OF and SET OF (`set` parameter
  and `…SET`-named slice types) over bool, int/int32/int64/Enumerated, *big.Int (any size), OBJECT IDENTIFIER, BIT STRING,
  Flag, RawValue, []byte and string, with every combination of IMPLICIT / EXPLICIT / APPLICATION / PRIVATE tags, the string
  kinds, OPTIONAL, DEFAULT and omitempty — strict `Unmarshal (Marshal v ++ rest) = (v', rest)` with `v ≈ v'` (`VEq`: SET OF
  up to permutation, nil = empty for slices) and `Marshal v' = Marshal v` (idempotence).  If the top-level value itself is
  left out (OPTIONAL at top level), `rest` must let the decoder see that (`Skips`).
  `unmarshal_marshal`: on the decidable sub-domain `Exact` (no SET OF, non-nil slices) `v' = v`.
  `marshal_idempotent`, `unmarshal_marshal_all`: corollaries.  Content-level theorems: `int64_content_roundtrip`,
  `bigint_content_roundtrip`, `oid_content_roundtrip`, `bitstring_content_roundtrip`, `set_sort_*`.

  Not covered by theorems (correspondence T2 / oracle T3 only): time.Time, interface{}, RawContent (outside the model);
  Go `int` overflow of lengths ≥ 2^31.  See tools/props/C18.json.
-/
namespace ZV.C18

/-- header round trip (identifier and length octets), both modes -/
theorem header_roundtrip (perm : Bool) (t : TL) (hc : t.cls < 4) (ht : t.tag ≤ 2147483647) (hl : t.len < 2147483648)
    (rest : Bytes) : parseTL perm (appendTL t ++ rest) = .ok (t, rest) :=
  parseTL_appendTL perm t hc ht hl rest

example : ∃ t : TL, t.cls < 4 ∧ t.tag ≤ 2147483647 ∧ t.len < 2147483648 ∧ t.tag ≥ 31 ∧ t.len ≥ 128 :=
  ⟨{ cls := 2, tag := 1000, len := 300, compound := true }, by decide⟩

/-- `parseBase128Int ∘ appendBase128Int = id` on `[0, 2^31)` (tag numbers, OID arcs) -/
theorem base128_roundtrip (n : Nat) (h : n ≤ 2147483647) (rest : Bytes) :
    base128 0 0 (appendBase128 (n : Int) ++ rest) = .ok (n, rest) := by
  unfold appendBase128
  have : ¬ ((n : Int) < 0) := by omega
  simp only [this, if_false, Int.toNat_natCast]
  exact base128_digits n h rest

/-- **C18**: for every type, parameters and value of the domain, strict Unmarshal of Marshal's output followed by any
    `rest` returns a value `v' ≈ v` (SET OF up to permutation, nil = empty) and exactly `rest`, and `v'` marshals to the
    same bytes.  (`hr`: only relevant when the top-level value itself is left out by Marshal.) -/
theorem unmarshal_marshal_equiv (s : Schema) (p : Params) (v : Val) (enc rest : Bytes)
    (hd : InDomain s p v = true) (hm : marshal s p v = .ok enc) (hl : enc.length < 2147483648)
    (hr : omitted s p v = true → Skips s p rest) :
    ∃ v', unmarshal false s p (enc ++ rest) = .ok (v', rest) ∧ VEq s p v v' ∧ marshal s p v' = .ok enc := by
  obtain ⟨v', h1, h2, h3, _⟩ := (roundtrip_both s).1 p v enc rest hd hm hl hr
  exact ⟨v', h1, h2, h3⟩

/-- **C18 (identical value)**: on the sub-domain `Exact` (no SET OF, non-nil slices) the value comes back identically. -/
theorem unmarshal_marshal (s : Schema) (p : Params) (v : Val) (enc rest : Bytes)
    (hd : InDomain s p v = true) (he : Exact s p v = true) (hm : marshal s p v = .ok enc) (hl : enc.length < 2147483648)
    (hr : omitted s p v = true → Skips s p rest) :
    unmarshal false s p (enc ++ rest) = .ok (v, rest) := by
  obtain ⟨v', h1, _, _, h4, _⟩ := (roundtrip_both s).1 p v enc rest hd hm hl hr
  rw [← h4 he]; exact h1

/-- consumes all bytes -/
theorem unmarshal_marshal_all (s : Schema) (p : Params) (v : Val) (enc : Bytes)
    (hd : InDomain s p v = true) (hm : marshal s p v = .ok enc) (hl : enc.length < 2147483648) :
    ∃ v', unmarshal false s p enc = .ok (v', []) ∧ VEq s p v v' := by
  obtain ⟨v', h1, h2, _⟩ := unmarshal_marshal_equiv s p v enc [] hd hm hl (fun _ => Or.inl rfl)
  rw [List.append_nil] at h1
  exact ⟨v', h1, h2⟩

/-- idempotence: re-marshalling what strict Unmarshal decoded from Marshal's output reproduces the bytes -/
theorem marshal_idempotent (s : Schema) (p : Params) (v v' : Val) (enc r : Bytes)
    (hd : InDomain s p v = true) (hm : marshal s p v = .ok enc) (hl : enc.length < 2147483648)
    (hu : unmarshal false s p enc = .ok (v', r)) : marshal s p v' = .ok enc := by
  obtain ⟨w, h1, _, h3⟩ := unmarshal_marshal_equiv s p v enc [] hd hm hl (fun _ => Or.inl rfl)
  rw [List.append_nil, hu] at h1
  simp only [Res.ok.injEq, Prod.mk.injEq] at h1
  rw [h1.1]; exact h3

/-- INTEGER content round trip for every int64 (two's complement, minimal length) -/
theorem int64_content_roundtrip (i : Int) (h1 : -9223372036854775808 ≤ i) (h2 : i < 9223372036854775808) :
    parseInt64 false (encInt64 i) = .ok i := parseInt64_encInt64 i h1 h2

/-- INTEGER content round trip for `*big.Int`: EVERY integer (two's complement, any size) -/
theorem bigint_content_roundtrip (i : Int) : parseBigInt false (makeBigInt i) = .ok i := parseBigInt_makeBigInt i

/-- OBJECT IDENTIFIER content round trip (valid first arcs, arcs < 2^31) -/
theorem oid_content_roundtrip (l : List Int) (h : oidOK l = true) :
    ∃ body, makeOID l = .ok body ∧ parseOID body = .ok (.oid l) := parseOID_makeOID l h

/-- BIT STRING content round trip (`len(Bytes) = ⌈BitLength/8⌉`, zero padding bits) -/
theorem bitstring_content_roundtrip (bs : Bytes) (n : Int) (h : bitsOK bs n = true) :
    parseBitString (makeBits bs n) = .ok (.bits bs n) := parseBitString_makeBits bs n h

/-- the DER sort of SET OF only permutes the element encodings, its result is ascending, and it is idempotent -/
theorem set_sort_perm (l : List Bytes) : (sortEnc l).Perm l := perm_sortEnc l
theorem set_sort_sorted (l : List Bytes) : SortedEnc (sortEnc l) := sorted_sortEnc l
theorem set_sort_idem (l : List Bytes) : sortEnc (sortEnc l) = sortEnc l := sortEnc_sortEnc l

/-! ### the hypotheses are satisfiable; the domain predicate is not vacuous and not too wide -/

/-- a member of the domain using most of the type language: EXPLICIT Flag, OPTIONAL int with DEFAULT (left out), OPTIONAL
    tagged string (left out) followed by a field with another tag, *big.Int, OID, BIT STRING, RawValue, SET OF int, SEQUENCE OF
    string, nil []byte with omitempty -/
def exSchema : Schema :=
  .struct (.fcons { tag := some 0, explicit := true, optional := true } .flag
    (.fcons { optional := true, defaultValue := some 5 } .int64
    (.fcons { optional := true, tag := some 1, stringType := 12 } .str
    (.fcons { tag := some 2 } .bigint
    (.fcons {} .oid
    (.fcons {} .bits
    (.fcons { set := true } (.seqOf false .int64)
    (.fcons {} (.seqOf false .str)
    (.fcons { optional := true, omitEmpty := true, tag := some 7 } .octets
    (.fcons {} .raw .fnil))))))))))

def exVal : Val :=
  .vcons (.bool true) (.vcons (.int 5) (.vcons (.bytes []) (.vcons (.int (-340282366920938463463374607431768211456))
    (.vcons (.oid [2, 5, 29, 17]) (.vcons (.bits [0xa0] 3) (.vcons (.vcons (.int 3) (.vcons (.int 1) .vnil))
    (.vcons (.vcons (.bytes [0x61]) (.vcons (.bytes [0xc3, 0xa9]) .vnil)) (.vcons .null
    (.vcons (.raw 2 3 true [5, 0] [0xa3, 2, 5, 0]) .vnil)))))))))

example : InDomain exSchema {} exVal = true := by decide
example : omitted exSchema {} exVal = false := by decide
/-- hypothesis `hr` of the theorems: trivially true for a present value, and for `rest = []` -/
example (s : Schema) (p : Params) (v : Val) : omitted s p v = true → Skips s p [] := fun _ => Or.inl rfl

/-- SET OF really comes back permuted: `≈` is not `=` -/
example : marshal (.seqOf false .int64) { set := true } (.vcons (.int 3) (.vcons (.int 1) .vnil)) = .ok [0x31, 6, 2, 1, 1, 2, 1, 3] ∧
    unmarshal false (.seqOf false .int64) { set := true } [0x31, 6, 2, 1, 1, 2, 1, 3] =
      .ok (.vcons (.int 1) (.vcons (.int 3) .vnil), []) := by
  constructor
  · simp [marshal, makeField, mapElems, primMake, omitted, univ, marshalTag, makePrimBody, wrap, isSliceKind, lenZero,
      zeroVal, sortEnc, insertSorted, encInt64_small 3 (by decide), encInt64_small 1 (by decide)]
    decide
  · decide

/-- a member of `Exact`: no SET OF, non-nil slices -/
example : InDomain (.struct (.fcons {} (.seqOf false .bigint) (.fcons { optional := true } .oid .fnil))) {}
      (.vcons (.vcons (.int 70000) .vnil) (.vcons .null .vnil)) = true ∧
    Exact (.struct (.fcons {} (.seqOf false .bigint) (.fcons { optional := true } .oid .fnil))) {}
      (.vcons (.vcons (.int 70000) .vnil) (.vcons .null .vnil)) = true := by decide

/-- the ambiguous grammar is outside the domain — an untagged OPTIONAL int left out in front of an int — and indeed does not
    round-trip: the decoder gives the second field's value to the first and then fails -/
example : InDomain (.struct (.fcons { optional := true } .int64 (.fcons {} .int64 .fnil))) {}
      (.vcons (.int 0) (.vcons (.int 5) .vnil)) = false ∧
    marshal (.struct (.fcons { optional := true } .int64 (.fcons {} .int64 .fnil))) {}
      (.vcons (.int 0) (.vcons (.int 5) .vnil)) = .ok [0x30, 3, 2, 1, 5] ∧
    unmarshal false (.struct (.fcons { optional := true } .int64 (.fcons {} .int64 .fnil))) {} [0x30, 3, 2, 1, 5] = .err := by
  refine ⟨by decide, ?_, by decide⟩
  simp [marshal, makeField, makeFields, primMake, omitted, univ, marshalTag, makePrimBody, wrap, isSliceKind, lenZero, zeroVal,
    encInt64_small 5 (by decide)]
  decide

/-- … while the same types with distinguishing tags are inside -/
example : InDomain (.struct (.fcons { optional := true, tag := some 0 } .int64 (.fcons {} .int64 .fnil))) {}
      (.vcons (.int 0) (.vcons (.int 5) .vnil)) = true := by decide

/-- an empty non-nil slice under omitempty is outside (it comes back nil, and a struct holding only it then re-marshals
    differently); nil is inside -/
example : InDomain (.octets) { optional := true, omitEmpty := true } (.bytes []) = false ∧
    InDomain (.octets) { optional := true, omitEmpty := true } .null = true := by decide

example : marshal (.struct (.fcons { tag := some 0, explicit := true } .bool (.fcons {} .str .fnil))) {}
    (.vcons (.bool true) (.vcons (.bytes [0x41]) .vnil)) = .ok [0x30, 8, 0xa0, 3, 1, 1, 0xff, 0x13, 1, 0x41] := by
  simp [marshal, makeField, makeFields, primMake, omitted, univ, marshalTag, stringTag, makePrimBody, makeString,
    wrap, isSliceKind, lenZero, zeroVal]
  decide

example : oidOK [2, 999, 3, 2147483647] = true ∧ bitsOK [0xff, 0x80] 9 = true ∧ bitsOK [] 0 = true := by decide

/-! ### what is still outside the theorems -/

-- FULL (RawValue): `∀ RawValue r with r.FullBytes = nil`, Marshal builds the TLV from Class/Tag/IsCompound/Bytes and Unmarshal
--   returns r with FullBytes filled in: a round trip up to FullBytes.  Also a RawValue FIELD WITH TAG PARAMETERS
--   (`explicit,tag:N` equal to the value's own identifier).  Both are outside `leafOK` (`rawOK` wants the canonical FullBytes,
--   `p.tag = none`).  Missing: a `VEq` clause identifying `raw c t k b []` with `raw c t k b (TLV c t k b)` and the
--   `isRaw` arm of `explicitStage`.  Covered by T2 (bytes and decoded value compared with the Go code) only.
-- FULL (omitempty, empty non-nil slice): `v ≈ v'` still holds (it comes back nil) but `Marshal v' = Marshal v` does NOT in
--   general — see `omitempty_nonnil_not_idempotent` below — so `absentOK` asks for nil.
-- FULL (EXPLICIT skip test): `skipsH` ignores the conjunct `len = 0 ∨ constructed` of the decoder's EXPLICIT match
--   (conservative: a left-out `optional,explicit,tag:N` field followed by a PRIMITIVE non-empty element with class/tag N is
--   excluded although the decoder would skip it).
-- FULL (lengths): encodings of 2^31 bytes or more (Go `int` overflow is not modelled; hypothesis `hl`).
-- FULL (permissive mode): the same statements for `unmarshal true` follow from `ZV.C20.perm_extends` (not imported here to keep
--   the two packages independent).
-- FULL (time.Time, interface{}, RawContent, int8/int16): outside the Lean model; time.Time is covered by the T3-only stream.

/-- why `absentOK` wants nil under omitempty: an OPTIONAL struct holding only an empty NON-NIL `omitempty` slice is written
    (`a0 00`), comes back as the zero struct, and is then left out: `Marshal (Unmarshal (Marshal v)) ≠ Marshal v`.
    (Outside the documented domain of the property: the harness identifies nil and empty slices.) -/
theorem omitempty_nonnil_not_idempotent :
    let s : Schema := .struct (.fcons { optional := true, tag := some 0 }
      (.struct (.fcons { optional := true, omitEmpty := true, tag := some 1 } .octets .fnil)) .fnil)
    marshal s {} (.vcons (.vcons (.bytes []) .vnil) .vnil) = .ok [0x30, 2, 0xa0, 0] ∧
    unmarshal false s {} [0x30, 2, 0xa0, 0] = .ok (.vcons (.vcons .null .vnil) .vnil, []) ∧
    marshal s {} (.vcons (.vcons .null .vnil) .vnil) = .ok [0x30, 0] := by
  refine ⟨?_, by decide, ?_⟩
  · simp [marshal, makeField, makeFields, primMake, omitted, wrap, isSliceKind, lenZero, zeroVal]
    decide
  · simp [marshal, makeField, makeFields, omitted, wrap, isSliceKind, lenZero, zeroVal]
    decide

end ZV.C18
