import ZV.Model.C12
import ZV.Proofs.C12
import ZV.Props.C11
/-!
  C12 — `Verifier.Verify` result assembly.

  The theorems below are the sentences of the property, stated against declarative
  predicates (`ValidAt`, `EverValid`, list membership, `List.Perm`, `Nodup`) that do not mention
  the `later`/`earlier` folds, the map update of `parentsFromChains` or the `any`-loops of the
  revocation checks.  `verify V g c opts = assemble g c opts (walkChains V g c)`; every theorem is
  first proved for `assemble` on an arbitrary chain list and then specialised to the walk
  (whose chains are never empty, `walkChains_ne_nil`).
-/
namespace ZV.C12
open ZV.C10 ZV.C11

/-! ### declarative predicates -/

/-- every certificate of the chain is valid at `t` (open interval, as `time.Before/After`) -/
def ValidAt (ch : Chain) (t : Int) : Prop := ∀ c ∈ ch, c.notBefore < t ∧ t < c.notAfter

/-- the validity periods have a common (open) interval: every NotBefore precedes every NotAfter -/
def EverValid (ch : Chain) : Prop := ∀ c ∈ ch, ∀ d ∈ ch, c.notBefore < d.notAfter

instance (ch : Chain) (t : Int) : Decidable (ValidAt ch t) :=
  inferInstanceAs (Decidable (∀ c ∈ ch, c.notBefore < t ∧ t < c.notAfter))
instance (ch : Chain) : Decidable (EverValid ch) :=
  inferInstanceAs (Decidable (∀ c ∈ ch, ∀ d ∈ ch, c.notBefore < d.notAfter))

/-- the chains the parents are taken from: those valid one second before expiry when the
    certificate is expired at the verification time, the current ones otherwise -/
def relevant (r : Result) : List Chain := if r.expired then r.validAtExpiration else r.current

/-- a chain valid at some instant has a non-empty common validity interval -/
theorem ValidAt.everValid {ch : Chain} {t : Int} (h : ValidAt ch t) : EverValid ch := by
  intro c hc d hd
  have := (h c hc).1
  have := (h d hd).2
  omega

/-! ### 1. no panic -/

/-- the Go `panic("valid && !wasValid …")` of `FilterByDate` is unreachable -/
theorem filterByDate_no_panic (chains : List Chain) (now : Int) : ∃ p, filterByDate chains now = .ok p :=
  ⟨_, filterByDate_eq chains now⟩

theorem assemble_no_panic (g : Graph) (c : Cert) (opts : Opts) (chains : List Chain) :
    ∃ r, assemble g c opts chains = .ok r :=
  ⟨_, assemble_eq g c opts chains⟩

theorem verify_no_panic (V : Ver) (g : Graph) (c : Cert) (opts : Opts) : ∃ r, verify V g c opts = .ok r :=
  assemble_no_panic g c opts _

/-! ### 2. current / expired / never partition the chains -/

/-- `FilterByDate` is exactly three order-preserving filters by the declarative predicates -/
theorem filterByDate_spec {chains : List Chain} {now : Int} {p : Parts} (h : filterByDate chains now = .ok p) :
    p.current = chains.filter (fun ch => decide (ch ≠ [] ∧ ValidAt ch now)) ∧
    p.expired = chains.filter (fun ch => decide (ch ≠ [] ∧ ¬ ValidAt ch now ∧ EverValid ch)) ∧
    p.never = chains.filter (fun ch => decide (ch ≠ [] ∧ ¬ EverValid ch)) := by
  rw [filterByDate_eq] at h
  injection h with h
  subst h
  refine ⟨?_, ?_, ?_⟩
  · apply List.filter_congr
    intro ch _
    rw [Bool.eq_iff_iff, validB_iff, decide_eq_true_iff]
    exact Iff.rfl
  · apply List.filter_congr
    intro ch _
    rw [Bool.eq_iff_iff, decide_eq_true_iff, Bool.and_eq_true, Bool.not_eq_true', ← Bool.not_eq_true,
      validB_iff, wasValidB_iff]
    constructor
    · rintro ⟨h1, h2, h3⟩
      exact ⟨h2, fun hv => h1 ⟨h2, hv⟩, h3⟩
    · rintro ⟨h1, h2, h3⟩
      exact ⟨fun hv => h2 hv.2, h1, h3⟩
  · apply List.filter_congr
    intro ch _
    rw [Bool.eq_iff_iff, decide_eq_true_iff, Bool.and_eq_true, Bool.not_eq_true', Bool.not_eq_true',
      List.isEmpty_eq_false_iff, ← Bool.not_eq_true, wasValidB_iff]
    constructor
    · rintro ⟨h1, h2⟩
      exact ⟨h1, fun hv => h2 ⟨h1, hv⟩⟩
    · rintro ⟨h1, h2⟩
      exact ⟨h1, fun hv => h2 hv.2⟩

theorem partition_classes {chains : List Chain} {now : Int} {p : Parts} (h : filterByDate chains now = .ok p) :
    (∀ ch ∈ p.current, ValidAt ch now) ∧
    (∀ ch ∈ p.expired, ¬ ValidAt ch now ∧ EverValid ch) ∧
    (∀ ch ∈ p.never, ¬ EverValid ch) := by
  rw [filterByDate_eq] at h
  injection h with h
  subst h
  refine ⟨?_, ?_, ?_⟩
  · intro ch hch
    exact (mem_currentOf.mp hch).2.2
  · intro ch hch
    exact (mem_expiredOf.mp hch).2.2
  · intro ch hch
    exact (mem_neverOf.mp hch).2.2

theorem partition_perm {chains : List Chain} {now : Int} {p : Parts} (h : filterByDate chains now = .ok p) :
    (p.current ++ p.expired ++ p.never).Perm (chains.filter (fun ch => !ch.isEmpty)) := by
  rw [filterByDate_eq] at h
  injection h with h
  subst h
  exact partition_perm_aux chains now

theorem partition_of_assemble {g : Graph} {c : Cert} {opts : Opts} {chains : List Chain} {r : Result}
    (h : assemble g c opts chains = .ok r) :
    (r.current ++ r.expiredChains ++ r.never).Perm (chains.filter (fun ch => !ch.isEmpty)) ∧
    (∀ ch ∈ r.current, ValidAt ch opts.time) ∧
    (∀ ch ∈ r.expiredChains, ¬ ValidAt ch opts.time ∧ EverValid ch) ∧
    (∀ ch ∈ r.never, ¬ EverValid ch) := by
  rw [assemble_eq] at h
  injection h with h
  subst h
  have hp := partition_classes (filterByDate_eq chains opts.time)
  exact ⟨partition_perm_aux chains opts.time, hp.1, hp.2.1, hp.2.2⟩

/-- **current, expired and never-valid chains partition the chains the graph walk finds**
    (as multisets; inside each class the walk order is kept, `filterByDate_spec`) -/
theorem partition_of_walk {V : Ver} {g : Graph} {c : Cert} {opts : Opts} {r : Result}
    (h : verify V g c opts = .ok r) :
    (r.current ++ r.expiredChains ++ r.never).Perm (walkChains V g c) ∧
    (∀ ch ∈ r.current, ValidAt ch opts.time) ∧
    (∀ ch ∈ r.expiredChains, ¬ ValidAt ch opts.time ∧ EverValid ch) ∧
    (∀ ch ∈ r.never, ¬ EverValid ch) := by
  have := partition_of_assemble h
  rw [filter_nonempty_eq _ (walkChains_ne_nil V g c)] at this
  exact this

/-! ### 3. valid-at-expiration chains -/

theorem valid_at_exp_of_assemble {g : Graph} {c : Cert} {opts : Opts} {chains : List Chain} {r : Result}
    (h : assemble g c opts chains = .ok r) (ch : Chain) :
    ch ∈ r.validAtExpiration ↔ ch ∈ chains ∧ ch ≠ [] ∧ ValidAt ch (c.notAfter - 1) := by
  rw [assemble_eq] at h
  injection h with h
  subst h
  show ch ∈ currentOf _ _ ↔ _
  rw [mem_currentOf, mem_allChains]
  constructor
  · rintro ⟨⟨h1, h2⟩, _, h3⟩
    exact ⟨h1, h2, h3⟩
  · rintro ⟨h1, h2, h3⟩
    exact ⟨⟨h1, h2⟩, h2, h3⟩

/-- **valid-at-expiration chains are the walked chains valid one second before the
    certificate's expiry** -/
theorem valid_at_exp_def {V : Ver} {g : Graph} {c : Cert} {opts : Opts} {r : Result}
    (h : verify V g c opts = .ok r) (ch : Chain) :
    ch ∈ r.validAtExpiration ↔ ch ∈ walkChains V g c ∧ ValidAt ch (c.notAfter - 1) := by
  rw [valid_at_exp_of_assemble h]
  constructor
  · rintro ⟨h1, _, h3⟩
    exact ⟨h1, h3⟩
  · rintro ⟨h1, h3⟩
    exact ⟨h1, walkChains_ne_nil V g c ch h1, h3⟩

/-- … with multiplicities -/
theorem valid_at_exp_perm {V : Ver} {g : Graph} {c : Cert} {opts : Opts} {r : Result}
    (h : verify V g c opts = .ok r) :
    r.validAtExpiration.Perm ((walkChains V g c).filter (fun ch => decide (ValidAt ch (c.notAfter - 1)))) := by
  unfold verify at h
  rw [assemble_eq] at h
  injection h with h
  subst h
  show (currentOf _ _).Perm _
  unfold currentOf
  have hp := (partition_perm_aux (walkChains V g c) opts.time).filter (fun ch => validB ch (c.notAfter - 1))
  rw [filter_nonempty_eq _ (walkChains_ne_nil V g c)] at hp
  refine hp.trans (List.Perm.of_eq ?_)
  apply List.filter_congr
  intro ch hch
  rw [Bool.eq_iff_iff, validB_iff, decide_eq_true_iff]
  exact ⟨fun h => h.2, fun h => ⟨walkChains_ne_nil V g c ch hch, h⟩⟩

/-! ### 4. parents -/

theorem parents_of_assemble {g : Graph} {c : Cert} {opts : Opts} {chains : List Chain} {r : Result}
    (h : assemble g c opts chains = .ok r) :
    r.parents = parentsFromChains (relevant r) := by
  rw [assemble_eq] at h
  injection h with h
  subst h
  show parentsOf c opts chains = _
  unfold parentsOf relevant
  cases timeInValidityPeriod c opts.time <;> rfl

/-- **parents are the distinct second certificates of the relevant chains**: no fingerprint
    twice, every parent is the second certificate of a relevant chain, and every second
    certificate of a relevant chain is represented (by fingerprint) -/
theorem parents_def {V : Ver} {g : Graph} {c : Cert} {opts : Opts} {r : Result}
    (h : verify V g c opts = .ok r) :
    (r.parents.map (·.fp)).Nodup ∧
    (∀ p ∈ r.parents, ∃ ch ∈ relevant r, second ch = some p) ∧
    (∀ ch ∈ relevant r, ∀ q, second ch = some q → ∃ p ∈ r.parents, p.fp = q.fp) := by
  rw [parents_of_assemble h]
  exact ⟨parentsFromChains_nodup _, parentsFromChains_sound _,
    fun ch hch q hq => parentsFromChains_complete _ ch q hch hq⟩

/-! ### 5. expired flag -/

theorem expired_of_assemble {g : Graph} {c : Cert} {opts : Opts} {chains : List Chain} {r : Result}
    (h : assemble g c opts chains = .ok r) :
    r.expired = true ↔ ¬ (c.notBefore < opts.time ∧ opts.time < c.notAfter) := by
  rw [assemble_eq] at h
  injection h with h
  subst h
  show (!timeInValidityPeriod c opts.time) = true ↔ _
  simp only [timeInValidityPeriod, Bool.not_eq_true', ← Bool.not_eq_true, Bool.and_eq_true,
    decide_eq_true_eq, gt_iff_lt]

/-- **the expired flag is set exactly when the verification time is outside the certificate's
    own (open) validity interval** -/
theorem expired_iff {V : Ver} {g : Graph} {c : Cert} {opts : Opts} {r : Result}
    (h : verify V g c opts = .ok r) :
    r.expired = true ↔ ¬ (c.notBefore < opts.time ∧ opts.time < c.notAfter) :=
  expired_of_assemble h

/-! ### 6. certificate type -/

theorem isRoot_iff (g : Graph) (c : Cert) :
    isRoot g c = true ↔ ∃ e, findEdge g.edges c.fp = some e ∧ e.root = true :=
  isRoot_iff' g c

theorem type_of_assemble {g : Graph} {c : Cert} {opts : Opts} {chains : List Chain} {r : Result}
    (h : assemble g c opts chains = .ok r) : r.ctype = certType g c r.parents := by
  rw [assemble_eq] at h
  injection h with h
  subst h
  rfl

theorem type_rule {V : Ver} {g : Graph} {c : Cert} {opts : Opts} {r : Result}
    (h : verify V g c opts = .ok r) :
    (r.ctype = .root ↔ isRoot g c = true) ∧
    (r.ctype = .intermediate ↔ isRoot g c = false ∧ c.isCA = true ∧ r.parents ≠ []) ∧
    (r.ctype = .leaf ↔ isRoot g c = false ∧ c.isCA = false ∧ r.parents ≠ []) ∧
    (r.ctype = .unknown ↔ isRoot g c = false ∧ r.parents = []) := by
  rw [type_of_assemble h]
  exact certType_rule g c r.parents

/-! ### 7. name error -/

theorem name_of_assemble {g : Graph} {c : Cert} {opts : Opts} {chains : List Chain} {r : Result}
    (h : assemble g c opts chains = .ok r) :
    (opts.name = .none → r.nameError = none) ∧
    (opts.name ≠ .none → r.nameError = some (!nameMatches c opts.name)) := by
  rw [assemble_eq] at h
  injection h with h
  subst h
  cases hn : opts.name <;> simp

theorem name_rule {V : Ver} {g : Graph} {c : Cert} {opts : Opts} {r : Result}
    (h : verify V g c opts = .ok r) :
    (opts.name = .none → r.nameError = none) ∧
    (opts.name ≠ .none → r.nameError = some (!nameMatches c opts.name)) :=
  name_of_assemble h

/-! ### 8. revocation flag -/

theorem revocation_of_assemble {g : Graph} {c : Cert} {opts : Opts} {chains : List Chain} {r : Result}
    (h : assemble g c opts chains = .ok r) : r.inRevocationSet = revocationFlag opts c r.parents := by
  rw [assemble_eq] at h
  injection h with h
  subst h
  rfl

/-- **the in-revocation-set flag is set exactly when the supplied OneCRL lists the certificate
    (by subject+key or by issuer+serial) or the supplied CRLSet lists it under one of its
    parents (blocked SPKI or issuer-key+serial)** -/
theorem revocation_flag_iff {V : Ver} {g : Graph} {c : Cert} {opts : Opts} {r : Result}
    (h : verify V g c opts = .ok r) :
    r.inRevocationSet = true ↔
      (∃ o, opts.oneCRL = some o ∧ ((c.subj, c.key) ∈ o.blocked ∨ (c.iss, c.serial) ∈ o.issuerSerial)) ∨
      (∃ s, opts.crlSet = some s ∧
        ∃ p ∈ r.parents, p.key ∈ s.blockedSPKIs ∨ (p.key, c.serial) ∈ s.issuerSerial) := by
  rw [revocation_of_assemble h]
  exact revocationFlag_iff opts c r.parents

/-! ### non-vacuity: concrete inputs meet the hypotheses

  A node `(1,1)` with three self-signed root certificates `R` (valid 0–100), `R2` (0–40), `R3`
  (60–100) and a leaf `L` (10–50, serial 7, SAN `h5.test`) issued by it: the walk from `L` finds
  one chain per root certificate; at time 45 they are current / expired / never-valid. -/
namespace Ex
def R : Cert := { fp := 1, subj := 1, key := 1, iss := 1, isCA := true, bcValid := true, notBefore := 0, notAfter := 100 }
def R2 : Cert := { fp := 3, subj := 1, key := 1, iss := 1, isCA := true, bcValid := true, notBefore := 0, notAfter := 40 }
def R3 : Cert := { fp := 4, subj := 1, key := 1, iss := 1, isCA := true, bcValid := true, notBefore := 60, notAfter := 100 }
def L : Cert := { fp := 2, subj := 2, key := 2, iss := 1, notBefore := 10, notAfter := 50, serial := 7, dns := 5 }
def V : Ver := fun k _ => k == (1, 1)
def G : Graph :=
  { nodes := [{ key := (1, 1), children := [((1, 1), [1, 3, 4]), ((2, 2), [2])], parents := [((1, 1), [1, 3, 4])] },
              { key := (2, 2), children := [], parents := [((1, 1), [2])] }],
    edges := [{ cert := R, issuer := some (1, 1), child := (1, 1), root := true },
              { cert := R2, issuer := some (1, 1), child := (1, 1), root := true },
              { cert := R3, issuer := some (1, 1), child := (1, 1), root := true },
              { cert := L, issuer := some (1, 1), child := (2, 2), root := false }],
    missing := [] }
/-- in validity, name `h5.test`, a OneCRL that lists (issuer 1, serial 7) -/
def o1 : Opts := { time := 45, name := .exact 5, oneCRL := some { issuerSerial := [(1, 7)], blocked := [] }, crlSet := none }
/-- after expiry, no name, a CRLSet that blocks the SPKI of the parent -/
def o2 : Opts := { time := 70, name := .none, oneCRL := none, crlSet := some { issuerSerial := [], blockedSPKIs := [1] } }
end Ex
open Ex

/-- the example graph is a reachable graph state -/
example : run V Graph.empty [.root R, .root R2, .root R3, .add L] = .ok G := by decide

example : walkChains V G L = [[L, R], [L, R2], [L, R3]] := by decide

/-- `filterByDate … = .ok p` (hypothesis of `filterByDate_spec`, `partition_classes`, `partition_perm`),
    with an empty chain that is skipped -/
example : filterByDate [[L, R], [], [L, R2], [L, R3], [L]] 45 =
    .ok { current := [[L, R], [L]], expired := [[L, R2]], never := [[L, R3]] } := by decide

/-- `assemble … = .ok r` (hypothesis of the `…_of_assemble` theorems); the OneCRL lists the certificate -/
example : assemble Graph.empty L o1 [[L, R], [], [L, R2], [L, R3], [L]] =
    .ok { expired := false, current := [[L, R], [L]], expiredChains := [[L, R2]], never := [[L, R3]],
          validAtExpiration := [[L, R], [L]], parents := [R], nameError := some false,
          inRevocationSet := true, ctype := .leaf, parentSK := some (1, 1) } := by decide

/-- `verify … = .ok r` (hypothesis of theorems 2–8): in validity, listed by the OneCRL -/
example : verify V G L o1 =
    .ok { expired := false, current := [[L, R]], expiredChains := [[L, R2]], never := [[L, R3]],
          validAtExpiration := [[L, R]], parents := [R], nameError := some false,
          inRevocationSet := true, ctype := .leaf, parentSK := some (1, 1) } := by decide

/-- … and expired at the verification time: parents come from the chains valid at expiry,
    the CRLSet blocks the parent's SPKI -/
example : verify V G L o2 =
    .ok { expired := true, current := [], expiredChains := [[L, R], [L, R2]], never := [[L, R3]],
          validAtExpiration := [[L, R]], parents := [R], nameError := none,
          inRevocationSet := true, ctype := .leaf, parentSK := some (1, 1) } := by decide

/-- not listed: the flag is false -/
example : (verify V G L { o1 with oneCRL := some { issuerSerial := [(1, 8)], blocked := [(2, 3)] } }).map
    (·.inRevocationSet) = .ok false := by decide

/-- a root certificate gets type `root` -/
example : (verify V G R o1).map (·.ctype) = .ok .root ∧ isRoot G R = true := by decide

example : ValidAt [L, R] 45 ∧ ¬ ValidAt [L, R2] 45 ∧ EverValid [L, R2] ∧ ¬ EverValid [L, R3] := by decide


/-! ### 9. the parents all sit on the issuer node of the start edge (needs the graph invariant of C10) -/

/-- the chains the parents are taken from are walked chains -/
theorem relevant_sub_walk {V : Ver} {g : Graph} {c : Cert} {opts : Opts} {r : Result}
    (h : verify V g c opts = .ok r) : ∀ ch ∈ relevant r, ch ∈ walkChains V g c := by
  intro ch hch
  unfold relevant at hch
  split at hch
  · exact ((valid_at_exp_def h ch).mp hch).1
  · have hp := (partition_of_walk h).1
    exact hp.mem_iff.mp (by simp [hch])

/-- "All parents should have the same (SPKI, Subject) fingerprint": every parent's (subject, key) is the
    issuer node of the start edge, so `ParentSPKISubjectFingerprint` does not depend on which parent
    the Go map iteration happens to put first. -/
theorem parents_same_node {V : Ver} {g : Graph} {c : Cert} {opts : Opts} {r : Result} (wf : WF V g)
    (h : verify V g c opts = .ok r) :
    ∀ p ∈ r.parents, (startEdge V g c).issuer = some p.sk := by
  intro p hp
  obtain ⟨ch, hch, hsec⟩ := (parents_def h).2.1 p hp
  obtain ⟨rest, hv, rfl⟩ := walk_sound wf (relevant_sub_walk h ch hch)
  cases rest with
  | nil => simp [second] at hsec
  | cons e rest' =>
    simp only [List.map_cons, second, Option.some.injEq] at hsec
    subst hsec
    simp only [ValidExt] at hv
    obtain ⟨_, _, he, ⟨k, hk, hck⟩, _⟩ := hv
    rw [hk, ← hck, (wf.child e he).1]

theorem parentSK_def {V : Ver} {g : Graph} {c : Cert} {opts : Opts} {r : Result} (wf : WF V g)
    (h : verify V g c opts = .ok r) :
    r.parentSK = if r.parents = [] then none else (startEdge V g c).issuer := by
  have hps := parents_same_node wf h
  have : r.parentSK = r.parents.head?.map (·.sk) := by
    unfold verify at h
    rw [assemble_eq] at h
    injection h with h
    subst h
    rfl
  rw [this]
  cases hpar : r.parents with
  | nil => simp
  | cons p t =>
    simp only [List.head?_cons, Option.map_some, List.cons_ne_nil, if_false]
    exact (hps p (by rw [hpar]; exact List.mem_cons_self)).symm


/-- for every graph built by `AddCert` / `AddRoot` -/
theorem parents_same_node_reachable (V : Ver) (ops : List Op) {g : Graph} (hr : run V Graph.empty ops = .ok g)
    {c : Cert} {opts : Opts} {r : Result} (h : verify V g c opts = .ok r) :
    ∀ p ∈ r.parents, (startEdge V g c).issuer = some p.sk := by
  obtain ⟨g', hr', hinv⟩ := run_inv (V := V) ops (inv_empty V)
  rw [hr] at hr'; cases hr'
  exact parents_same_node hinv.wf h

/-- the hypotheses of `parents_same_node_reachable` hold for the example graph -/
example : ∀ p ∈ [Ex.R], (startEdge Ex.V Ex.G Ex.L).issuer = some p.sk :=
  parents_same_node_reachable Ex.V [.root Ex.R, .root Ex.R2, .root Ex.R3, .add Ex.L] (g := Ex.G) (by decide)
    (c := Ex.L) (opts := Ex.o2)
    (r := { expired := true, current := [], expiredChains := [[L, R], [L, R2]], never := [[L, R3]],
            validAtExpiration := [[L, R]], parents := [R], nameError := none,
            inRevocationSet := true, ctype := .leaf, parentSK := some (1, 1) }) (by decide)

end ZV.C12
