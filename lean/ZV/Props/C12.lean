import ZV.Model.C12
import ZV.Proofs.C12
import ZV.Props.C11
import ZV.Generated.C12
/-!
  C12 — `Verifier.Verify` result assembly.

  The theorems below are the sentences of the property, stated against declarative
  predicates (`ValidAt`, `EverValid`, list membership, `List.Perm`, `Nodup`) that do not mention
  the `later`/`earlier` folds, the map update of `parentsFromChains` or the `any`-loops of the
  revocation checks.  `verify V g c opts = assemble g c opts (walkChains V g c)`; every theorem is
  first proved for `assemble` on an arbitrary chain list and then specialised to the walk
  (whose chains are never empty, `walkChains_ne_nil`).
-/
namespace ZV.C12
open ZV.C10 ZV.C11

/-! ### declarative predicates -/

/-- every certificate of the chain is valid at the instant `t`: `NotBefore < t < NotAfter` on the time line
    (`Time.lt`: seconds, then nanoseconds; the interval is open, as `time.Before/After`).  See
    `validAt_ns` for the reading in nanoseconds and `validAt_wholeSec` / `validAt_subsec`. -/
def ValidAt (ch : Chain) (t : Time) : Prop :=
  ∀ c ∈ ch, (Time.ofSec c.notBefore).lt t ∧ t.lt (Time.ofSec c.notAfter)

/-- the validity periods have a common (open) interval: every NotBefore precedes every NotAfter -/
def EverValid (ch : Chain) : Prop := ∀ c ∈ ch, ∀ d ∈ ch, c.notBefore < d.notAfter

instance (ch : Chain) (t : Time) : Decidable (ValidAt ch t) :=
  inferInstanceAs (Decidable (∀ c ∈ ch, (Time.ofSec c.notBefore).lt t ∧ t.lt (Time.ofSec c.notAfter)))
instance (ch : Chain) : Decidable (EverValid ch) :=
  inferInstanceAs (Decidable (∀ c ∈ ch, ∀ d ∈ ch, c.notBefore < d.notAfter))

/-- the chains the parents are taken from: those valid one second before expiry when the
    certificate is expired at the verification time, the current ones otherwise -/
def relevant (r : Result) : List Chain := if r.expired then r.validAtExpiration else r.current

/-- a chain valid at some instant has a non-empty common validity interval -/
theorem ValidAt.everValid {ch : Chain} {t : Time} (h : ValidAt ch t) : EverValid ch := by
  intro c hc d hd
  have h1 := (ofSec_lt_iff _ _).mp (h c hc).1
  have h2 := (lt_ofSec_iff _ _).mp (h d hd).2
  have := t.up_bounds
  omega

/-- at a whole second `s` the chain is valid iff `NotBefore < s < NotAfter` for every certificate -/
theorem validAt_wholeSec (ch : Chain) (s : Int) :
    ValidAt ch (Time.ofSec s) ↔ ∀ c ∈ ch, c.notBefore < s ∧ s < c.notAfter := by
  simp only [ValidAt, ofSec_lt_ofSec]

/-- **sub-second boundaries**: strictly inside the second `s` (`0 < nsec`) the chain is valid iff
    `NotBefore ≤ s < NotAfter`: valid from 1 ns after NotBefore, valid up to 1 ns before NotAfter,
    not valid AT either boundary (`validAt_wholeSec`) -/
theorem validAt_subsec (ch : Chain) (t : Time) (h : 0 < t.nsec) :
    ValidAt ch t ↔ ∀ c ∈ ch, c.notBefore ≤ t.sec ∧ t.sec < c.notAfter := by
  simp only [ValidAt, ofSec_lt_iff, lt_ofSec_iff, Time.up, gt_iff_lt, h, if_true]
  constructor
  · intro hh c hc
    have := hh c hc
    omega
  · intro hh c hc
    have := hh c hc
    omega

/-- **the reading in nanoseconds**: for a well-formed `time.Time` (`nsec < 10^9`) validity is the strict
    comparison of `sec * 10^9 + nsec` with the certificate's times in nanoseconds -/
theorem validAt_ns (ch : Chain) (t : Time) (h : t.nsec < 1000000000) :
    ValidAt ch t ↔ ∀ c ∈ ch, c.notBefore * 1000000000 < t.sec * 1000000000 + t.nsec ∧
      t.sec * 1000000000 + t.nsec < c.notAfter * 1000000000 := by
  simp only [ValidAt, ofSec_lt_iff, lt_ofSec_iff, Time.up]
  constructor
  · intro hh c hc
    have := hh c hc
    split at this <;> omega
  · intro hh c hc
    have := hh c hc
    split <;> omega

/-! ### 1. no panic -/

/-- the Go `panic("valid && !wasValid …")` of `FilterByDate` is unreachable -/
theorem filterByDate_no_panic (chains : List Chain) (now : Time) : ∃ p, filterByDate chains now = .ok p :=
  ⟨_, filterByDate_eq chains now⟩

theorem assemble_no_panic (g : Graph) (c : Cert) (opts : Opts) (chains : List Chain) :
    ∃ r, assemble g c opts chains = .ok r :=
  ⟨_, assemble_eq g c opts chains⟩

theorem verify_no_panic (V : Ver) (g : Graph) (c : Cert) (opts : Opts) : ∃ r, verify V g c opts = .ok r :=
  assemble_no_panic g c opts _

/-! ### 2. current / expired / never partition the chains -/

/-- `FilterByDate` is exactly three order-preserving filters by the declarative predicates -/
theorem filterByDate_spec {chains : List Chain} {now : Time} {p : Parts} (h : filterByDate chains now = .ok p) :
    p.current = chains.filter (fun ch => decide (ch ≠ [] ∧ ValidAt ch now)) ∧
    p.expired = chains.filter (fun ch => decide (ch ≠ [] ∧ ¬ ValidAt ch now ∧ EverValid ch)) ∧
    p.never = chains.filter (fun ch => decide (ch ≠ [] ∧ ¬ EverValid ch)) := by
  rw [filterByDate_eq] at h
  injection h with h
  subst h
  refine ⟨?_, ?_, ?_⟩
  · apply List.filter_congr
    intro ch _
    rw [Bool.eq_iff_iff, validB_iff, decide_eq_true_iff]
    exact Iff.rfl
  · apply List.filter_congr
    intro ch _
    rw [Bool.eq_iff_iff, decide_eq_true_iff, Bool.and_eq_true, Bool.not_eq_true', ← Bool.not_eq_true,
      validB_iff, wasValidB_iff]
    constructor
    · rintro ⟨h1, h2, h3⟩
      exact ⟨h2, fun hv => h1 ⟨h2, hv⟩, h3⟩
    · rintro ⟨h1, h2, h3⟩
      exact ⟨fun hv => h2 hv.2, h1, h3⟩
  · apply List.filter_congr
    intro ch _
    rw [Bool.eq_iff_iff, decide_eq_true_iff, Bool.and_eq_true, Bool.not_eq_true', Bool.not_eq_true',
      List.isEmpty_eq_false_iff, ← Bool.not_eq_true, wasValidB_iff]
    constructor
    · rintro ⟨h1, h2⟩
      exact ⟨h1, fun hv => h2 ⟨h1, hv⟩⟩
    · rintro ⟨h1, h2⟩
      exact ⟨h1, fun hv => h2 hv.2⟩

theorem partition_classes {chains : List Chain} {now : Time} {p : Parts} (h : filterByDate chains now = .ok p) :
    (∀ ch ∈ p.current, ValidAt ch now) ∧
    (∀ ch ∈ p.expired, ¬ ValidAt ch now ∧ EverValid ch) ∧
    (∀ ch ∈ p.never, ¬ EverValid ch) := by
  rw [filterByDate_eq] at h
  injection h with h
  subst h
  refine ⟨?_, ?_, ?_⟩
  · intro ch hch
    exact (mem_currentOf.mp hch).2.2
  · intro ch hch
    exact (mem_expiredOf.mp hch).2.2
  · intro ch hch
    exact (mem_neverOf.mp hch).2.2

theorem partition_perm {chains : List Chain} {now : Time} {p : Parts} (h : filterByDate chains now = .ok p) :
    (p.current ++ p.expired ++ p.never).Perm (chains.filter (fun ch => !ch.isEmpty)) := by
  rw [filterByDate_eq] at h
  injection h with h
  subst h
  exact partition_perm_aux chains now

theorem partition_of_assemble {g : Graph} {c : Cert} {opts : Opts} {chains : List Chain} {r : Result}
    (h : assemble g c opts chains = .ok r) :
    (r.current ++ r.expiredChains ++ r.never).Perm (chains.filter (fun ch => !ch.isEmpty)) ∧
    (∀ ch ∈ r.current, ValidAt ch opts.now) ∧
    (∀ ch ∈ r.expiredChains, ¬ ValidAt ch opts.now ∧ EverValid ch) ∧
    (∀ ch ∈ r.never, ¬ EverValid ch) := by
  rw [assemble_eq] at h
  injection h with h
  subst h
  have hp := partition_classes (filterByDate_eq chains opts.now)
  exact ⟨partition_perm_aux chains opts.now, hp.1, hp.2.1, hp.2.2⟩

/-- **current, expired and never-valid chains partition the chains the graph walk finds**
    (as multisets; inside each class the walk order is kept, `filterByDate_spec`) -/
theorem partition_of_walk {V : Ver} {g : Graph} {c : Cert} {opts : Opts} {r : Result}
    (h : verify V g c opts = .ok r) :
    (r.current ++ r.expiredChains ++ r.never).Perm (walkChains V g c) ∧
    (∀ ch ∈ r.current, ValidAt ch opts.now) ∧
    (∀ ch ∈ r.expiredChains, ¬ ValidAt ch opts.now ∧ EverValid ch) ∧
    (∀ ch ∈ r.never, ¬ EverValid ch) := by
  have := partition_of_assemble h
  rw [filter_nonempty_eq _ (walkChains_ne_nil V g c)] at this
  exact this

/-! ### 3. valid-at-expiration chains -/

theorem valid_at_exp_of_assemble {g : Graph} {c : Cert} {opts : Opts} {chains : List Chain} {r : Result}
    (h : assemble g c opts chains = .ok r) (ch : Chain) :
    ch ∈ r.validAtExpiration ↔ ch ∈ chains ∧ ch ≠ [] ∧ ValidAt ch (Time.ofSec (c.notAfter - 1)) := by
  rw [assemble_eq] at h
  injection h with h
  subst h
  show ch ∈ currentOf _ _ ↔ _
  rw [mem_currentOf, mem_allChains]
  constructor
  · rintro ⟨⟨h1, h2⟩, _, h3⟩
    exact ⟨h1, h2, h3⟩
  · rintro ⟨h1, h2, h3⟩
    exact ⟨⟨h1, h2⟩, h2, h3⟩

/-- **valid-at-expiration chains are the walked chains valid one second before the
    certificate's expiry** -/
theorem valid_at_exp_def {V : Ver} {g : Graph} {c : Cert} {opts : Opts} {r : Result}
    (h : verify V g c opts = .ok r) (ch : Chain) :
    ch ∈ r.validAtExpiration ↔ ch ∈ walkChains V g c ∧ ValidAt ch (Time.ofSec (c.notAfter - 1)) := by
  rw [valid_at_exp_of_assemble h]
  constructor
  · rintro ⟨h1, _, h3⟩
    exact ⟨h1, h3⟩
  · rintro ⟨h1, h3⟩
    exact ⟨h1, walkChains_ne_nil V g c ch h1, h3⟩

/-- … with multiplicities -/
theorem valid_at_exp_perm {V : Ver} {g : Graph} {c : Cert} {opts : Opts} {r : Result}
    (h : verify V g c opts = .ok r) :
    r.validAtExpiration.Perm ((walkChains V g c).filter (fun ch => decide (ValidAt ch (Time.ofSec (c.notAfter - 1))))) := by
  unfold verify at h
  rw [assemble_eq] at h
  injection h with h
  subst h
  show (currentOf _ _).Perm _
  unfold currentOf
  have hp := (partition_perm_aux (walkChains V g c) opts.now).filter
    (fun ch => validB ch (Time.ofSec (c.notAfter - 1)))
  rw [filter_nonempty_eq _ (walkChains_ne_nil V g c)] at hp
  refine hp.trans (List.Perm.of_eq ?_)
  apply List.filter_congr
  intro ch hch
  rw [Bool.eq_iff_iff, validB_iff, decide_eq_true_iff]
  exact ⟨fun h => h.2, fun h => ⟨walkChains_ne_nil V g c ch hch, h⟩⟩

/-! ### 4. parents -/

theorem parents_of_assemble {g : Graph} {c : Cert} {opts : Opts} {chains : List Chain} {r : Result}
    (h : assemble g c opts chains = .ok r) :
    r.parents = parentsFromChains (relevant r) := by
  rw [assemble_eq] at h
  injection h with h
  subst h
  show parentsOf c opts chains = _
  unfold parentsOf relevant
  cases timeInValidityPeriod c opts.now <;> rfl

/-- **parents are the distinct second certificates of the relevant chains**: no fingerprint
    twice, every parent is the second certificate of a relevant chain, and every second
    certificate of a relevant chain is represented (by fingerprint) -/
theorem parents_def {V : Ver} {g : Graph} {c : Cert} {opts : Opts} {r : Result}
    (h : verify V g c opts = .ok r) :
    (r.parents.map (·.fp)).Nodup ∧
    (∀ p ∈ r.parents, ∃ ch ∈ relevant r, second ch = some p) ∧
    (∀ ch ∈ relevant r, ∀ q, second ch = some q → ∃ p ∈ r.parents, p.fp = q.fp) := by
  rw [parents_of_assemble h]
  exact ⟨parentsFromChains_nodup _, parentsFromChains_sound _,
    fun ch hch q hq => parentsFromChains_complete _ ch q hch hq⟩

/-! ### 5. expired flag -/

theorem expired_of_assemble {g : Graph} {c : Cert} {opts : Opts} {chains : List Chain} {r : Result}
    (h : assemble g c opts chains = .ok r) :
    r.expired = true ↔ ¬ ((Time.ofSec c.notBefore).lt opts.now ∧ opts.now.lt (Time.ofSec c.notAfter)) := by
  rw [assemble_eq] at h
  injection h with h
  subst h
  show (!timeInValidityPeriod c opts.now) = true ↔ _
  simp only [timeInValidityPeriod, Bool.not_eq_true', ← Bool.not_eq_true, Bool.and_eq_true,
    before_iff_lt, after_iff_lt]

/-- **the expired flag is set exactly when the verification time is outside the certificate's
    own (open) validity interval** -/
theorem expired_iff {V : Ver} {g : Graph} {c : Cert} {opts : Opts} {r : Result}
    (h : verify V g c opts = .ok r) :
    r.expired = true ↔ ¬ ((Time.ofSec c.notBefore).lt opts.now ∧ opts.now.lt (Time.ofSec c.notAfter)) :=
  expired_of_assemble h

/-! ### 6. certificate type -/

theorem isRoot_iff (g : Graph) (c : Cert) :
    isRoot g c = true ↔ ∃ e, findEdge g.edges c.fp = some e ∧ e.root = true :=
  isRoot_iff' g c

theorem type_of_assemble {g : Graph} {c : Cert} {opts : Opts} {chains : List Chain} {r : Result}
    (h : assemble g c opts chains = .ok r) : r.ctype = certType g c r.parents := by
  rw [assemble_eq] at h
  injection h with h
  subst h
  rfl

theorem type_rule {V : Ver} {g : Graph} {c : Cert} {opts : Opts} {r : Result}
    (h : verify V g c opts = .ok r) :
    (r.ctype = .root ↔ isRoot g c = true) ∧
    (r.ctype = .intermediate ↔ isRoot g c = false ∧ c.isCA = true ∧ r.parents ≠ []) ∧
    (r.ctype = .leaf ↔ isRoot g c = false ∧ c.isCA = false ∧ r.parents ≠ []) ∧
    (r.ctype = .unknown ↔ isRoot g c = false ∧ r.parents = []) := by
  rw [type_of_assemble h]
  exact certType_rule g c r.parents

/-! ### 7. name error -/

theorem name_of_assemble {g : Graph} {c : Cert} {opts : Opts} {chains : List Chain} {r : Result}
    (h : assemble g c opts chains = .ok r) :
    (opts.name = .none → r.nameError = none) ∧
    (opts.name ≠ .none → r.nameError = some (!nameMatches c opts.name)) := by
  rw [assemble_eq] at h
  injection h with h
  subst h
  cases hn : opts.name <;> simp

theorem name_rule {V : Ver} {g : Graph} {c : Cert} {opts : Opts} {r : Result}
    (h : verify V g c opts = .ok r) :
    (opts.name = .none → r.nameError = none) ∧
    (opts.name ≠ .none → r.nameError = some (!nameMatches c opts.name)) :=
  name_of_assemble h

/-! ### 8. revocation flag -/

theorem revocation_of_assemble {g : Graph} {c : Cert} {opts : Opts} {chains : List Chain} {r : Result}
    (h : assemble g c opts chains = .ok r) : r.inRevocationSet = revocationFlag opts c r.parents := by
  rw [assemble_eq] at h
  injection h with h
  subst h
  rfl

/-- **the in-revocation-set flag is set exactly when the supplied OneCRL lists the certificate
    (by its subject + its own SubjectPublicKeyInfo bytes, or by issuer+serial) or the supplied CRLSet
    lists it under one of its parents (blocked SPKI or issuer-SPKI+serial, the parent's own bytes)** —
    a key id is an SPKI encoding, so this holds for every certificate, whatever encoding its key has
    (the old rule needed a canonically encoded key: `checkOld_eq_check` in section 12) -/
theorem revocation_flag_iff {V : Ver} {g : Graph} {c : Cert} {opts : Opts} {r : Result}
    (h : verify V g c opts = .ok r) :
    r.inRevocationSet = true ↔
      (∃ o, opts.oneCRL = some o ∧ ((c.subj, c.key) ∈ o.blocked ∨ (c.iss, c.serial) ∈ o.issuerSerial)) ∨
      (∃ s, opts.crlSet = some s ∧
        ∃ p ∈ r.parents, p.key ∈ s.blockedSPKIs ∨ (p.key, c.serial) ∈ s.issuerSerial) := by
  rw [revocation_of_assemble h]
  exact revocationFlag_iff opts c r.parents

/-! ### non-vacuity: concrete inputs meet the hypotheses

  A node `(1,1)` with three self-signed root certificates `R` (valid 0–100), `R2` (0–40), `R3`
  (60–100) and a leaf `L` (10–50, serial 7, SAN `h5.test`) issued by it: the walk from `L` finds
  one chain per root certificate; at time 45 they are current / expired / never-valid. -/
namespace Ex
def R : Cert := { fp := 1, subj := 1, key := 1, iss := 1, isCA := true, bcValid := true, notBefore := 0, notAfter := 100 }
def R2 : Cert := { fp := 3, subj := 1, key := 1, iss := 1, isCA := true, bcValid := true, notBefore := 0, notAfter := 40 }
def R3 : Cert := { fp := 4, subj := 1, key := 1, iss := 1, isCA := true, bcValid := true, notBefore := 60, notAfter := 100 }
def L : Cert := { fp := 2, subj := 2, key := 2, iss := 1, notBefore := 10, notAfter := 50, serial := 7, dns := 5 }
def V : Ver := fun k _ => k == (1, 1)
def G : Graph :=
  { nodes := [{ key := (1, 1), children := [((1, 1), [1, 3, 4]), ((2, 2), [2])], parents := [((1, 1), [1, 3, 4])] },
              { key := (2, 2), children := [], parents := [((1, 1), [2])] }],
    edges := [{ cert := R, issuer := some (1, 1), child := (1, 1), root := true },
              { cert := R2, issuer := some (1, 1), child := (1, 1), root := true },
              { cert := R3, issuer := some (1, 1), child := (1, 1), root := true },
              { cert := L, issuer := some (1, 1), child := (2, 2), root := false }],
    missing := [] }
/-- in validity, name `h5.test`, a OneCRL that lists (issuer 1, serial 7) -/
def o1 : Opts := { time := Time.ofSec 45, name := .exact 5, oneCRL := some { issuerSerial := [(1, 7)], blocked := [] }, crlSet := none }
/-- after expiry, no name, a CRLSet that blocks the SPKI of the parent -/
def o2 : Opts := { time := Time.ofSec 70, name := .none, oneCRL := none, crlSet := some { issuerSerial := [], blockedSPKIs := [1] } }
end Ex
open Ex

/-- the example graph is a reachable graph state -/
example : run V Graph.empty [.root R, .root R2, .root R3, .add L] = .ok G := by decide

example : walkChains V G L = [[L, R], [L, R2], [L, R3]] := by decide

/-- `filterByDate … = .ok p` (hypothesis of `filterByDate_spec`, `partition_classes`, `partition_perm`),
    with an empty chain that is skipped -/
example : filterByDate [[L, R], [], [L, R2], [L, R3], [L]] (Time.ofSec 45) =
    .ok { current := [[L, R], [L]], expired := [[L, R2]], never := [[L, R3]] } := by decide

/-- `assemble … = .ok r` (hypothesis of the `…_of_assemble` theorems); the OneCRL lists the certificate -/
example : assemble Graph.empty L o1 [[L, R], [], [L, R2], [L, R3], [L]] =
    .ok { expired := false, current := [[L, R], [L]], expiredChains := [[L, R2]], never := [[L, R3]],
          validAtExpiration := [[L, R], [L]], parents := [R], nameError := some false,
          inRevocationSet := true, ctype := .leaf, parentSK := some (1, 1) } := by decide

/-- `verify … = .ok r` (hypothesis of theorems 2–8): in validity, listed by the OneCRL -/
example : verify V G L o1 =
    .ok { expired := false, current := [[L, R]], expiredChains := [[L, R2]], never := [[L, R3]],
          validAtExpiration := [[L, R]], parents := [R], nameError := some false,
          inRevocationSet := true, ctype := .leaf, parentSK := some (1, 1) } := by decide

/-- … and expired at the verification time: parents come from the chains valid at expiry,
    the CRLSet blocks the parent's SPKI -/
example : verify V G L o2 =
    .ok { expired := true, current := [], expiredChains := [[L, R], [L, R2]], never := [[L, R3]],
          validAtExpiration := [[L, R]], parents := [R], nameError := none,
          inRevocationSet := true, ctype := .leaf, parentSK := some (1, 1) } := by decide

/-- not listed: the flag is false -/
example : (verify V G L { o1 with oneCRL := some { issuerSerial := [(1, 8)], blocked := [(2, 3)] } }).map
    (·.inRevocationSet) = .ok false := by decide

/-- a root certificate gets type `root` -/
example : (verify V G R o1).map (·.ctype) = .ok .root ∧ isRoot G R = true := by decide

example : ValidAt [L, R] (Time.ofSec 45) ∧ ¬ ValidAt [L, R2] (Time.ofSec 45) ∧ EverValid [L, R2] ∧
    ¬ EverValid [L, R3] := by decide


/-! ### 9. the parents all sit on the issuer node of the start edge (needs the graph invariant of C10) -/

/-- the chains the parents are taken from are walked chains -/
theorem relevant_sub_walk {V : Ver} {g : Graph} {c : Cert} {opts : Opts} {r : Result}
    (h : verify V g c opts = .ok r) : ∀ ch ∈ relevant r, ch ∈ walkChains V g c := by
  intro ch hch
  unfold relevant at hch
  split at hch
  · exact ((valid_at_exp_def h ch).mp hch).1
  · have hp := (partition_of_walk h).1
    exact hp.mem_iff.mp (by simp [hch])

/-- "All parents should have the same (SPKI, Subject) fingerprint": every parent's (subject, key) is the
    issuer node of the start edge, so `ParentSPKISubjectFingerprint` does not depend on which parent
    the Go map iteration happens to put first. -/
theorem parents_same_node {V : Ver} {g : Graph} {c : Cert} {opts : Opts} {r : Result} (wf : WF V g)
    (h : verify V g c opts = .ok r) :
    ∀ p ∈ r.parents, (startEdge V g c).issuer = some p.sk := by
  intro p hp
  obtain ⟨ch, hch, hsec⟩ := (parents_def h).2.1 p hp
  obtain ⟨rest, hv, rfl⟩ := walk_sound wf (relevant_sub_walk h ch hch)
  cases rest with
  | nil => simp [second] at hsec
  | cons e rest' =>
    simp only [List.map_cons, second, Option.some.injEq] at hsec
    subst hsec
    simp only [ValidExt] at hv
    obtain ⟨_, _, he, ⟨k, hk, hck⟩, _⟩ := hv
    rw [hk, ← hck, (wf.child e he).1]

theorem parentSK_def {V : Ver} {g : Graph} {c : Cert} {opts : Opts} {r : Result} (wf : WF V g)
    (h : verify V g c opts = .ok r) :
    r.parentSK = if r.parents = [] then none else (startEdge V g c).issuer := by
  have hps := parents_same_node wf h
  have : r.parentSK = r.parents.head?.map (·.sk) := by
    unfold verify at h
    rw [assemble_eq] at h
    injection h with h
    subst h
    rfl
  rw [this]
  cases hpar : r.parents with
  | nil => simp
  | cons p t =>
    simp only [List.head?_cons, Option.map_some, List.cons_ne_nil, if_false]
    exact (hps p (by rw [hpar]; exact List.mem_cons_self)).symm


/-- for every graph built by `AddCert` / `AddRoot` -/
theorem parents_same_node_reachable (V : Ver) (ops : List Op) {g : Graph} (hr : run V Graph.empty ops = .ok g)
    {c : Cert} {opts : Opts} {r : Result} (h : verify V g c opts = .ok r) :
    ∀ p ∈ r.parents, (startEdge V g c).issuer = some p.sk := by
  obtain ⟨g', hr', hinv⟩ := run_inv (V := V) ops (inv_empty V)
  rw [hr] at hr'; cases hr'
  exact parents_same_node hinv.wf h

/-- the hypotheses of `parents_same_node_reachable` hold for the example graph -/
example : ∀ p ∈ [Ex.R], (startEdge Ex.V Ex.G Ex.L).issuer = some p.sk :=
  parents_same_node_reachable Ex.V [.root Ex.R, .root Ex.R2, .root Ex.R3, .add Ex.L] (g := Ex.G) (by decide)
    (c := Ex.L) (opts := Ex.o2)
    (r := { expired := true, current := [], expiredChains := [[L, R], [L, R2]], never := [[L, R3]],
            validAtExpiration := [[L, R]], parents := [R], nameError := none,
            inRevocationSet := true, ctype := .leaf, parentSK := some (1, 1) }) (by decide)


/-! ### 10. the verification time in force: zero `VerifyTime`, the clock -/

/-- `IsZero()` holds for exactly one instant (January 1, year 1, 00:00:00.000000000 UTC) — also when it
    was built with `time.Unix`, not only for `time.Time{}` -/
theorem isZero_iff (t : Time) : t.isZero = true ↔ t = { sec := zeroSec, nsec := 0 } := by
  cases t with
  | mk s n => simp [Time.isZero]

/-- a non-zero `VerifyTime` is used as it is -/
theorem now_of_nonzero {opts : Opts} (h : opts.time.isZero = false) : opts.now = opts.time := by
  simp [Opts.now, h]

/-- a zero `VerifyTime` is replaced by the clock reading -/
theorem now_of_zero {opts : Opts} (h : opts.time.isZero = true) : opts.now = opts.clock := by
  simp [Opts.now, h]

/-- **the clock is consulted only for a zero `VerifyTime`**: with any other `VerifyTime` the whole result
    is the same whatever `time.Now()` returns -/
theorem clock_irrelevant (V : Ver) (g : Graph) (c : Cert) (opts : Opts) (clk : Time)
    (h : opts.time.isZero = false) :
    verify V g c { opts with clock := clk } = verify V g c opts := by
  simp [verify, assemble, Opts.now, h, revocationFlag, ocspDue, crlDue, providerOf]

/-- **a zero `VerifyTime` means "now"**: the result is the one for `VerifyTime = clock reading` -/
theorem zero_time_is_clock (V : Ver) (g : Graph) (c : Cert) (opts : Opts)
    (hz : opts.time.isZero = true) (hc : opts.clock.isZero = false) :
    verify V g c opts = verify V g c { opts with time := opts.clock } := by
  simp [verify, assemble, Opts.now, hz, hc, revocationFlag, ocspDue, crlDue, providerOf]

/-- every theorem above speaks about `opts.now`; with a zero `VerifyTime` that is the clock: e.g. the
    expired flag is decided by the clock reading -/
theorem expired_zero_time {V : Ver} {g : Graph} {c : Cert} {opts : Opts} {r : Result}
    (h : verify V g c opts = .ok r) (hz : opts.time.isZero = true) :
    r.expired = true ↔ ¬ ((Time.ofSec c.notBefore).lt opts.clock ∧ opts.clock.lt (Time.ofSec c.notAfter)) := by
  rw [expired_iff h, now_of_zero hz]

/-! ### 11. the revocation switches and the provider's answers -/

theorem rev_of_assemble {g : Graph} {c : Cert} {opts : Opts} {chains : List Chain} {r : Result}
    (h : assemble g c opts chains = .ok r) :
    r.ocspCall = (if ocspDue opts then some r.parents.head? else none) ∧
    r.ocsp = (if ocspDue opts then (providerOf opts).ocsp else ProvAns.zero) ∧
    r.crlCall = crlDue opts ∧
    r.crl = (if crlDue opts then (providerOf opts).crl else ProvAns.zero) := by
  rw [assemble_eq] at h
  injection h with h
  subst h
  exact ⟨rfl, rfl, rfl, rfl⟩

/-- **which check runs for which flag**: `CheckOCSP` is called (once) exactly when `ShouldCheckOCSP` is
    set and the certificate has an OCSP URL; it is handed the first parent, or nil when there are no
    parents; the three OCSP fields of the result are the provider's three return values unchanged
    (also `isRevoked = true` together with an error, or an error together with revocation info), and
    keep their zero values when the check does not run. -/
theorem ocsp_switch {V : Ver} {g : Graph} {c : Cert} {opts : Opts} {r : Result}
    (h : verify V g c opts = .ok r) :
    (r.ocspCall ≠ none ↔ opts.shouldOCSP = true ∧ 0 < opts.nOCSP) ∧
    (∀ i, r.ocspCall = some i → (i = none ↔ r.parents = []) ∧ ∀ p, i = some p → p ∈ r.parents) ∧
    (r.ocspCall = none → r.ocsp = ProvAns.zero) ∧
    (r.ocspCall ≠ none → ∀ p, opts.provider = some p → r.ocsp = p.ocsp) ∧
    (r.ocspCall ≠ none → opts.provider = none → r.ocsp = ProvAns.offline) := by
  obtain ⟨h1, h2, _, _⟩ := rev_of_assemble h
  have hd : ocspDue opts = true ↔ opts.shouldOCSP = true ∧ 0 < opts.nOCSP := by
    simp [ocspDue]
  cases hdue : ocspDue opts
  · rw [hdue] at h1 h2 hd
    simp only [Bool.false_eq_true, if_false] at h1 h2
    refine ⟨?_, ?_, fun _ => h2, ?_, ?_⟩
    · rw [h1]; simp only [ne_eq, not_true_eq_false, false_iff]; exact fun hh => by simpa using hd.mpr hh
    · intro i hi; rw [h1] at hi; cases hi
    · intro hh; exact absurd h1 hh
    · intro hh; exact absurd h1 hh
  · rw [hdue] at h1 h2 hd
    simp only [if_true] at h1 h2
    refine ⟨?_, ?_, ?_, ?_, ?_⟩
    · rw [h1]; simp only [ne_eq, reduceCtorEq, not_false_eq_true, true_iff]; exact hd.mp rfl
    · intro i hi
      rw [h1] at hi
      injection hi with hi
      subst hi
      cases hp : r.parents with
      | nil => simp
      | cons a t => simp
    · intro hh; rw [h1] at hh; cases hh
    · intro _ p hp; rw [h2]; simp [providerOf, hp]
    · intro _ hp; rw [h2]; simp [providerOf, hp]

/-- `CheckCRL` is called (with a nil list) exactly when `ShouldCheckCRL` is set and the certificate has a
    CRL distribution point; its three return values are copied unchanged -/
theorem crl_switch {V : Ver} {g : Graph} {c : Cert} {opts : Opts} {r : Result}
    (h : verify V g c opts = .ok r) :
    (r.crlCall = true ↔ opts.shouldCRL = true ∧ 0 < opts.nCDP) ∧
    (r.crlCall = false → r.crl = ProvAns.zero) ∧
    (r.crlCall = true → ∀ p, opts.provider = some p → r.crl = p.crl) ∧
    (r.crlCall = true → opts.provider = none → r.crl = ProvAns.offline) := by
  obtain ⟨_, _, h3, h4⟩ := rev_of_assemble h
  have hd : crlDue opts = true ↔ opts.shouldCRL = true ∧ 0 < opts.nCDP := by
    simp [crlDue]
  rw [h3, h4]
  refine ⟨hd, ?_, ?_, ?_⟩
  · intro hh; simp [hh]
  · intro hh p hp; simp [hh, providerOf, hp]
  · intro hh hp; simp [hh, providerOf, hp]

/-- the result without the six OCSP / CRL fields -/
def Result.core (r : Result) : Result :=
  { r with ocspCall := none, ocsp := ProvAns.zero, crlCall := false, crl := ProvAns.zero }

/-- **what an error / unknown / revoked answer of a provider does to the verdict: nothing.**  The chains,
    parents, expired flag, type, name error and in-revocation-set flag are the same for every setting of
    the two switches, every provider (or none), every answer and every number of URLs. -/
theorem provider_frame (V : Ver) (g : Graph) (c : Cert) (opts : Opts) (so sc : Bool) (p : Option Provider)
    (no nc : Nat) :
    (verify V g c { opts with shouldOCSP := so, shouldCRL := sc, provider := p, nOCSP := no, nCDP := nc }).map
      Result.core = (verify V g c opts).map Result.core := by
  unfold verify
  rw [assemble_eq, assemble_eq]
  rfl

/-! ### 12. the two encodings of one key

  Before the fix 8a7eec0 `OneCRL.Check` hashed `MarshalPKIXPublicKey(cert.PublicKey)` instead of the
  certificate's own SubjectPublicKeyInfo bytes (finding F-C12-onecrl-remarshalled-key).  The old rule is
  kept here as `OneCRL.checkOld` (a specification of the OLD code, not tied by T2 any more) with the
  theorems that made it a defect; the repaired rule is `OneCRL.check` of the model. -/

/-- the key id whose SubjectPublicKeyInfo bytes are `MarshalPKIXPublicKey(cert.PublicKey)`: ids
    `100+2j+1` (RSA key j, algorithm parameters absent) re-marshal to the bytes of id `100+2j` -/
def canonKey (k : Nat) : Nat := if k ≥ 100 ∧ (k - 100) % 2 = 1 then k - 1 else k

/-- `OneCRL.Check(cert) != nil` as it was before 8a7eec0 -/
def OneCRL.checkOld (o : OneCRL) (c : Cert) : Bool :=
  o.blocked.any (fun b => b.1 == c.subj && b.2 == canonKey c.key) ||
  o.issuerSerial.any (fun e => e.1 == c.iss && e.2 == c.serial)

theorem canonKey_idem (k : Nat) : canonKey (canonKey k) = canonKey k := by
  by_cases h : k ≥ 100 ∧ (k - 100) % 2 = 1
  · have h1 : canonKey k = k - 1 := by simp [canonKey, h]
    have h2 : ¬ ((k - 1) ≥ 100 ∧ (k - 1 - 100) % 2 = 1) := by omega
    rw [h1]; simp [canonKey, h2]
  · have h1 : canonKey k = k := by simp [canonKey, h]
    rw [h1, h1]

/-- ids below 100 (ECDSA keys, one encoding) and even ids from 100 are canonical; `100+2j+1` is `100+2j` -/
theorem canonKey_values (j : Nat) :
    canonKey (100 + 2 * j + 1) = 100 + 2 * j ∧ canonKey (100 + 2 * j) = 100 + 2 * j ∧
    (j < 100 → canonKey j = j) := by
  unfold canonKey
  refine ⟨?_, ?_, ?_⟩
  · split <;> omega
  · split <;> omega
  · intro h; split <;> omega

/-- **the repaired rule is exact**: a single `Blocked` entry (s, k) flags precisely the certificates with
    subject `s` whose own SubjectPublicKeyInfo is `k` — twins are told apart -/
theorem oneCRL_entry_exact (s k : Nat) (c : Cert) :
    ({ issuerSerial := [], blocked := [(s, k)] } : OneCRL).check c = true ↔ c.subj = s ∧ c.key = k := by
  simp only [OneCRL.check, List.any_cons, List.any_nil, Bool.or_false, Bool.and_eq_true, beq_iff_eq]
  constructor
  · rintro ⟨h1, h2⟩; exact ⟨h1.symm, h2.symm⟩
  · rintro ⟨h1, h2⟩; exact ⟨h1.symm, h2.symm⟩

/-- old and repaired rule agree on every certificate that carries its key in the canonical encoding -/
theorem checkOld_eq_check (o : OneCRL) (c : Cert) (hk : canonKey c.key = c.key) : o.checkOld c = o.check c := by
  simp only [OneCRL.checkOld, OneCRL.check, hk]

/-- (old rule) OneCRL could not tell two certificates apart that differ only in the encoding of their key -/
theorem oneCRL_twins_old (o : OneCRL) (c c' : Cert) (hs : c.subj = c'.subj) (hk : canonKey c.key = canonKey c'.key)
    (hi : c.iss = c'.iss) (hn : c.serial = c'.serial) : o.checkOld c = o.checkOld c' := by
  simp only [OneCRL.checkOld, hs, hk, hi, hn]

/-- (old rule) a `Blocked` entry computed from a non-canonical SubjectPublicKeyInfo never matched any
    certificate — in particular not the certificate it was computed from -/
theorem oneCRL_alt_entry_dead_old (s k : Nat) (hk : canonKey k ≠ k) (c : Cert) :
    ({ issuerSerial := [], blocked := [(s, k)] } : OneCRL).checkOld c = false := by
  simp only [OneCRL.checkOld, List.any_cons, List.any_nil, Bool.or_false, Bool.and_eq_false_imp, beq_iff_eq]
  intro _
  rw [beq_eq_false_iff_ne]
  intro h
  apply hk
  rw [h, canonKey_idem]

namespace Ex
/-- `L` with its RSA key in the encoding without NULL parameters -/
def La : Cert := { L with key := 101 }
def oOwn : Opts := { o1 with oneCRL := some { issuerSerial := [], blocked := [(2, 101)] } }
def oCanon : Opts := { o1 with oneCRL := some { issuerSerial := [], blocked := [(2, 100)] } }
/-- sub-second instants around `L`'s NotAfter = 50 -/
def tBefore : Time := { sec := 49, nsec := 999999999 }
def stubP : Provider :=
  { ocsp := { revoked := true, info := none, err := true }, crl := { revoked := false, info := some 3, err := false } }
def oStub : Opts := { o1 with shouldOCSP := true, shouldCRL := true, nOCSP := 1, nCDP := 2, provider := some stubP }
end Ex

/-- the twin case on the repaired code: the OneCRL holds (subject of `La`, SHA-256 of `La`'s own
    SubjectPublicKeyInfo) and the flag is set … -/
example : (verify Ex.V Ex.G Ex.La Ex.oOwn).map (·.inRevocationSet) = .ok true := by decide
/-- … an entry with the hash of the OTHER encoding of the key does not list `La` and does not set it -/
example : (verify Ex.V Ex.G Ex.La Ex.oCanon).map (·.inRevocationSet) = .ok false := by decide
/-- **the former finding** (counter-example to "set exactly when the supplied OneCRL lists the certificate"
    under the old rule): own-encoding entry missed, other-encoding entry hit -/
example : (OneCRL.mk [] [(2, 101)]).checkOld Ex.La = false ∧ (OneCRL.mk [] [(2, 100)]).checkOld Ex.La = true := by
  decide
/-- hypotheses of `checkOld_eq_check` / `oneCRL_alt_entry_dead_old` / `oneCRL_twins_old` -/
example : canonKey Ex.La.key ≠ Ex.La.key ∧ canonKey Ex.L.key = Ex.L.key ∧
    canonKey Ex.La.key = canonKey ({ Ex.La with key := 100 } : Cert).key := by decide

/-- hypotheses of `clock_irrelevant` / `zero_time_is_clock` / `expired_zero_time` -/
example : Ex.o1.time.isZero = false ∧
    ({ Ex.o1 with time := { sec := zeroSec, nsec := 0 }, clock := Time.ofSec 45 } : Opts).time.isZero = true ∧
    (Time.ofSec 45).isZero = false := by decide
/-- with `VerifyTime` zero and the clock at 45 the result is that of `VerifyTime = 45` -/
example : verify Ex.V Ex.G Ex.L { Ex.o1 with time := { sec := zeroSec, nsec := 0 }, clock := Time.ofSec 45 } =
    verify Ex.V Ex.G Ex.L Ex.o1 := by decide
/-- 1 ns before NotAfter the certificate is still valid, at NotAfter it is not (`validAt_subsec`, `validAt_wholeSec`) -/
example : 0 < Ex.tBefore.nsec ∧ Ex.tBefore.nsec < 1000000000 ∧ ValidAt [Ex.L, Ex.R] Ex.tBefore ∧
    ¬ ValidAt [Ex.L, Ex.R] (Time.ofSec 50) := by decide
/-- hypothesis of `ocsp_switch` / `crl_switch`: both checks run, the answers are copied (revoked with an error too) -/
example : (verify Ex.V Ex.G Ex.L Ex.oStub).map (fun r => (r.ocspCall, r.ocsp, r.crlCall, r.crl)) =
    .ok (some (some Ex.R), { revoked := true, info := none, err := true }, true,
         { revoked := false, info := some 3, err := false }) := by decide


/-! ### 13. T1: constants and tables taken from the source tree on every run (`ZV.Generated.C12`) -/

/-- the model's `c.notAfter - 1` is the source's `c.NotAfter.Add(-time.Second)`: the duration expression in
    verifier/verifier.go evaluates to minus one second -/
theorem expiration_offset : Gen.expirationOffsetNs = -1 * Gen.nsPerSec := by decide

/-- the model's `zeroSec` is `time.Time{}.Unix()` relative to the harness epoch -/
theorem zeroSec_def : zeroSec = Gen.zeroUnix - Gen.harnessEpoch := by decide

/-- `IsZero()` holds for `time.Unix(zeroUnix, 0)` but not 1 ns or 1 s later, as `Time.isZero` says -/
theorem zero_probe :
    Gen.zeroProbe = [Time.isZero { sec := zeroSec, nsec := 0 }, Time.isZero { sec := zeroSec, nsec := 1 },
      Time.isZero { sec := zeroSec + 1, nsec := 0 }] := by decide

/-- the four certificate types have distinct values and distinct JSON names, the zero value is "unknown", and the
    names are the ones the driver prints -/
theorem certificateTypes_table :
    (Gen.certificateTypes.map (·.1)).Nodup ∧ (Gen.certificateTypes.map (·.2)).Nodup ∧
    Gen.certificateTypes.head? = some (0, "unknown") ∧
    Gen.certificateTypes.map (·.2) = ["unknown", "leaf", "intermediate", "root"] := by decide

end ZV.C12
