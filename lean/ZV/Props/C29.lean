import ZV.Model.C29
import ZV.Proofs.C29
/-!
  C29 — fingerprinted ClientHellos are sent exactly as configured.

  Objects (all executable, tied to the Go code by the T2 streams `c29 marshal` / `c29 parse`):
  * `marshal cfg force rand time` — model of `(*ClientFingerprintConfiguration).marshal` (after `fix:` D25);
    `rand` = bytes the configured `Config.Rand` delivers, `time` = `time.Now().Unix()`.
  * `marshalExt e` — model of the `Marshal` methods of the built-in extension types.
  * `ZV.TlsHello.parseClientHello` / `parseExts` / `parseExt` — model of `(*clientHelloMsg).unmarshal`.

  Specification vocabulary: `lp8/lp16/lp24 b` = `b` preceded by its length; a length field is *correct*
  when the length fits the field (`lp*_read_back`: the cryptobyte reader then returns exactly `b`).

  Domain (stated minimally, per theorem):
  * layout: fewer than 32768 cipher suites and fewer than 65536 bytes of extensions (the code writes
    truncated length bytes beyond that, without an error); session id < 256, compression = [0] and
    body < 2^24 are enforced by `marshal` itself and are conclusions, not hypotheses.
  * parse-back (`extOk`): SNI with exactly one non-empty name without trailing dot and no host name
    parsed before; SNI with 0 or ≥ 2 names is OUTSIDE the domain (D13: the encoder emits a single
    name_type byte for the whole list, and the parser rejects a second host_name by design);
    ALPN non-empty with protocols of 1..255 bytes; curves / point formats / signature algorithms non-empty;
    every length within its field.
-/
namespace ZV.C29
open ZV.TlsHello

/-! ### specification vocabulary -/

def lp8 (b : Bytes) : Bytes := u8 b.length ++ b
def lp16 (b : Bytes) : Bytes := u16 b.length ++ b
def lp24 (b : Bytes) : Bytes := u24 b.length ++ b

/-- the configured layout: 0x01 ‖ u24-prefixed body; body = version ‖ random ‖ u8-prefixed session id ‖
    u16-prefixed suites ‖ u8-prefixed compression methods ‖ (if any extension bytes) u16-prefixed
    concatenation of the extension encodings in configured order -/
def layoutBody (cfg : Cfg) (random : Bytes) : Bytes :=
  w16 cfg.vers ++ random ++ lp8 cfg.sessionId ++ lp16 (w16s cfg.suites) ++ lp8 cfg.comp ++
    (if marshalExts cfg.exts = [] then [] else lp16 (marshalExts cfg.exts))

def layout (cfg : Cfg) (random : Bytes) : Bytes := [1] ++ lp24 (layoutBody cfg random)

/-- a length field is correct when the length fits: the reader returns the body and what follows -/
theorem lp8_read_back (b r : Bytes) (h : b.length < 256) : readU8LP (lp8 b ++ r) = some (b, r) := by
  simpa [lp8] using readU8LP_lp b r h

theorem lp16_read_back (b r : Bytes) (h : b.length < 65536) : readU16LP (lp16 b ++ r) = some (b, r) := by
  simpa [lp16] using readU16LP_lp b r h

theorem lp24_read_back (b r : Bytes) (h : b.length < 16777216) : readU24LP (lp24 b ++ r) = some (b, r) := by
  simpa [lp24] using readU24LP_lp b r h

theorem helloBody_eq_layoutBody (cfg : Cfg) (random : Bytes) : helloBody cfg random = layoutBody cfg random := by
  have he : extBlock cfg.exts = if marshalExts cfg.exts = [] then [] else lp16 (marshalExts cfg.exts) := by
    simp only [extBlock, lp16]
    cases h : marshalExts cfg.exts with
    | nil => simp
    | cons a t => simp
  simp only [helloBody, layoutBody, suiteBlock_eq, he, lp8, lp16, List.append_assoc]

/-! ### fp_hello_layout -/

/-- For ALL configurations for which `marshal` succeeds, with fewer than 32768 suites and fewer than 65536
    extension bytes: the bytes are exactly the configured layout, the random has 32 bytes, and every
    length field is correct (each prefixed body fits its field, so `lp*_read_back` applies). -/
theorem fp_hello_layout (cfg : Cfg) (force : Bool) (rand : Bytes) (time : Nat) (out : Bytes)
    (h : marshal cfg force rand time = some out)
    (hs : cfg.suites.length < 32768) (he : (marshalExts cfg.exts).length < 65536) :
    ∃ random, randomField cfg rand time = some random ∧ random.length = 32 ∧
      out = layout cfg random ∧
      (layoutBody cfg random).length < 16777216 ∧ cfg.sessionId.length < 256 ∧
      (w16s cfg.suites).length < 65536 ∧ cfg.comp.length < 256 ∧ (marshalExts cfg.exts).length < 65536 := by
  obtain ⟨random, hr, _, _, hsid, hcomp, hlen, hout⟩ := marshal_some h
  refine ⟨random, hr, randomField_length hr, ?_, ?_, hsid, ?_, ?_, he⟩
  · rw [hout, helloBody_eq_layoutBody]; rfl
  · rw [← helloBody_eq_layoutBody]; exact hlen
  · rw [w16s_length]; omega
  · rw [hcomp]; decide

/-- the bytes equal the layout for every successful configuration (the domain hypotheses of
    `fp_hello_layout` are only needed for the length fields to be *correct*) -/
theorem fp_hello_bytes (cfg : Cfg) (force : Bool) (rand : Bytes) (time : Nat) (out : Bytes)
    (h : marshal cfg force rand time = some out) :
    ∃ random, randomField cfg rand time = some random ∧ out = layout cfg random := by
  obtain ⟨random, hr, _, _, _, _, _, hout⟩ := marshal_some h
  exact ⟨random, hr, by rw [hout, helloBody_eq_layoutBody]; rfl⟩

/-- what `marshal` refuses: a hello is only produced for a session id below 256 bytes, compression
    methods exactly `[0]`, implemented extensions contents, implemented suites unless ForceSuites, and a
    body below 2^24 bytes -/
theorem marshal_guards (cfg : Cfg) (force : Bool) (rand : Bytes) (time : Nat) (out : Bytes)
    (h : marshal cfg force rand time = some out) :
    cfg.sessionId.length < 256 ∧ cfg.comp = [0] ∧ cfg.exts.all checkExt = true ∧
      (force = true ∨ cfg.suites.all (fun s => Gen.implementedSuites.contains s.toNat) = true) ∧
      out.length < 16777216 + 4 := by
  obtain ⟨random, _, hchk, hsu, hsid, hcomp, hlen, hout⟩ := marshal_some h
  refine ⟨hsid, hcomp, hchk, hsu, ?_⟩
  rw [hout]; simp; omega

/-! ### random_rule -/

/-- bytes 6..38 of the hello are the client random: the configured value verbatim when it has 32 bytes;
    otherwise 32 fresh bytes from the randomness source; with InsertTimestamp the first four are the
    big-endian low 32 bits of the Unix time and the other 28 are fresh. -/
theorem random_rule (cfg : Cfg) (force : Bool) (rand : Bytes) (time : Nat) (out : Bytes)
    (h : marshal cfg force rand time = some out) :
    (cfg.random.length = 32 → (out.drop 6).take 32 = cfg.random) ∧
    (cfg.random.length ≠ 32 → cfg.insertTimestamp = false →
        32 ≤ rand.length ∧ (out.drop 6).take 32 = rand.take 32) ∧
    (cfg.random.length ≠ 32 → cfg.insertTimestamp = true →
        28 ≤ rand.length ∧ (out.drop 6).take 4 = u32 (time % 4294967296) ∧
        readU32 (out.drop 6) = some (time % 4294967296, out.drop 10) ∧
        (out.drop 10).take 28 = rand.take 28) := by
  obtain ⟨random, hr, _, _, _, _, _, hout⟩ := marshal_some h
  have hlen := randomField_length hr
  have hd6 : out.drop 6 = random ++ (helloBody cfg random).drop 34 := by
    rw [hout]
    simp [helloBody, w16, u16, u24, List.drop_append, hlen]
  have ht32 : (out.drop 6).take 32 = random := by
    rw [hd6]; simp [hlen]
  unfold randomField at hr
  refine ⟨?_, ?_, ?_⟩
  · intro h32
    simp only [h32, if_true, Option.some.injEq] at hr
    rw [ht32, hr]
  · intro h32 hts
    simp only [h32, if_false, hts, Bool.false_eq_true] at hr
    split at hr
    · cases hr
    · cases hr
      exact ⟨by omega, ht32⟩
  · intro h32 hts
    simp only [h32, if_false, hts, if_true] at hr
    split at hr
    · cases hr
    · cases hr
      have h10 : out.drop 10 = rand.take 28 ++ (helloBody cfg (u32 time ++ rand.take 28)).drop 34 := by
        have : out.drop 10 = (out.drop 6).drop 4 := by simp
        rw [this, hd6]
        simp [u32]
      refine ⟨by omega, ?_, ?_, ?_⟩
      · rw [hd6, u32_mod]; simp [u32]
      · rw [h10, hd6]
        simp only [List.append_assoc]
        exact readU32_u32 time _
      · rw [h10]
        have hl : (rand.take 28).length = 28 := by simp; omega
        rw [List.take_append_of_le_length (by omega), List.take_of_length_le (by omega)]

/-! ### ext_parse_back -/

/-- in the domain every built-in encoder produces a well-formed extension:
    type ‖ u16-prefixed extension_data with a correct length -/
theorem ext_well_formed (e : Ext) (m : ClientHello) (hn : e ≠ .null) (h : extOk e m = true) :
    marshalExt e = u16 (extType e) ++ lp16 (extBody e) ∧ (extBody e).length < 65536 ∧ extType e < 65536 :=
  ⟨by rw [marshalExt_frame e hn]; rfl, extBody_length_lt e m h, extType_lt e⟩

/-- all types at once, on the switch arm: the arm selected by the written type, applied to the written
    extension_data, passes the trailing-data check and stores the configured value -/
theorem ext_parse_back_arm (e : Ext) (m : ClientHello) (isLast : Bool) (hn : e ≠ .null) (h : extOk e m = true) :
    parseExt (extType e) (extBody e) isLast m = some (applyExt e m) :=
  parseExt_extBody e m isLast hn h

/-- all types at once, on the wire: the extension loop of the ClientHello parser consumes the encoded
    extension and continues with the configured value stored (NullExtension: nothing on the wire) -/
theorem ext_parse_back (e : Ext) (rest : Bytes) (m : ClientHello) (h : extOk e m = true) :
    parseExts (marshalExt e ++ rest) m = parseExts rest (applyExt e m) :=
  parseExts_marshalExt e rest m h

theorem ext_parse_back_sni (name rest : Bytes) (m : ClientHello)
    (h1 : name ≠ []) (h2 : name.getLast? ≠ some 46) (h3 : name.length < 65531) (h4 : m.serverName = []) :
    parseExts (marshalExt (.sni [name]) ++ rest) m = parseExts rest { m with serverName := name } :=
  parseExts_marshalExt (.sni [name]) rest m (by simp [extOk, h1, h2, h3, h4])

theorem ext_parse_back_alpn (ps : List Bytes) (rest : Bytes) (m : ClientHello)
    (h1 : ps ≠ []) (h2 : ∀ p ∈ ps, p ≠ [] ∧ p.length < 256) (h3 : (alpnProtos ps).length < 65534) :
    parseExts (marshalExt (.alpn ps) ++ rest) m =
      parseExts rest { m with alpnProtocols := m.alpnProtocols ++ ps } :=
  parseExts_marshalExt (.alpn ps) rest m (by simp only [extOk, decide_eq_true_eq]; exact ⟨h1, h2, h3⟩)

theorem ext_parse_back_reneg (rest : Bytes) (m : ClientHello) :
    parseExts (marshalExt .reneg ++ rest) m =
      parseExts rest { m with secureRenegotiation := [], secureRenegotiationSupported := true } :=
  parseExts_marshalExt .reneg rest m rfl

theorem ext_parse_back_ems (rest : Bytes) (m : ClientHello) :
    parseExts (marshalExt .ems ++ rest) m = parseExts rest { m with extendedMasterSecret := true } :=
  parseExts_marshalExt .ems rest m rfl

theorem ext_parse_back_status (rest : Bytes) (m : ClientHello) :
    parseExts (marshalExt .status ++ rest) m = parseExts rest { m with ocspStapling := true } :=
  parseExts_marshalExt .status rest m rfl

theorem ext_parse_back_sct (rest : Bytes) (m : ClientHello) :
    parseExts (marshalExt .sct ++ rest) m = parseExts rest { m with scts := true } :=
  parseExts_marshalExt .sct rest m rfl

theorem ext_parse_back_curves (l : List UInt16) (rest : Bytes) (m : ClientHello)
    (h1 : l ≠ []) (h2 : l.length < 32767) :
    parseExts (marshalExt (.curves l) ++ rest) m =
      parseExts rest { m with supportedCurves := m.supportedCurves ++ l.map (·.toNat) } :=
  parseExts_marshalExt (.curves l) rest m (by simp [extOk, h1, h2])

theorem ext_parse_back_points (l rest : Bytes) (m : ClientHello) (h1 : l ≠ []) (h2 : l.length < 256) :
    parseExts (marshalExt (.points l) ++ rest) m = parseExts rest { m with supportedPoints := l } :=
  parseExts_marshalExt (.points l) rest m (by simp [extOk, h1, h2])

theorem ext_parse_back_ticket (t rest : Bytes) (m : ClientHello) (h : t.length < 65536) :
    parseExts (marshalExt (.ticket t) ++ rest) m =
      parseExts rest { m with ticketSupported := true, sessionTicket := t } :=
  parseExts_marshalExt (.ticket t) rest m (by simp [extOk, h])

theorem ext_parse_back_sigalgs (l : List UInt16) (rest : Bytes) (m : ClientHello)
    (h1 : l ≠ []) (h2 : l.length < 32767) :
    parseExts (marshalExt (.sigalgs l) ++ rest) m =
      parseExts rest { m with sigAlgs := m.sigAlgs ++ l.map (·.toNat) } :=
  parseExts_marshalExt (.sigalgs l) rest m (by simp [extOk, h1, h2])

/-! ### hello_parse_back -/

/-- what the parser holds after the fixed part of the hello -/
def baseHello (cfg : Cfg) (random : Bytes) : ClientHello :=
  { ClientHello.empty with
    vers := cfg.vers.toNat, random := random, sessionId := cfg.sessionId,
    cipherSuites := cfg.suites.map (·.toNat),
    secureRenegotiationSupported := (cfg.suites.map (·.toNat)).any (fun x => x == scsvRenegotiation),
    compressionMethods := cfg.comp }

/-- Whole hello: for every configuration for which `marshal` succeeds, inside the layout domain and
    with all extensions inside the parse-back domain (in order), the ClientHello parser accepts the
    bytes and returns version, random, session id, suites and compression methods as configured,
    and every extension's value stored in configured order (`applyExts`). -/
theorem hello_parse_back (cfg : Cfg) (force : Bool) (rand : Bytes) (time : Nat) (out : Bytes)
    (h : marshal cfg force rand time = some out)
    (hs : cfg.suites.length < 32768) (he : (marshalExts cfg.exts).length < 65536) :
    ∃ random, randomField cfg rand time = some random ∧
      (extsOk (baseHello cfg random) cfg.exts = true →
        parseClientHello out = some (applyExts (baseHello cfg random) cfg.exts)) := by
  obtain ⟨random, hr, _, _, hsid, hcomp, hlen, hout⟩ := marshal_some h
  refine ⟨random, hr, fun hok => ?_⟩
  have h32 := randomField_length hr
  have hskip : skip 4 out = some (helloBody cfg random) := by
    rw [hout]; simp [skip, u24]
  have hsu : (w16s cfg.suites).length < 65536 := by rw [w16s_length]; omega
  unfold parseClientHello
  rw [hskip]
  simp only [helloBody]
  rw [readU16_w16]
  simp only
  rw [readBytes_append' random _ h32]
  simp only
  rw [readU8LP_lp _ _ hsid]
  simp only
  rw [suiteBlock_eq]
  simp only [List.append_assoc]
  rw [readU16LP_lp _ _ hsu]
  simp only
  rw [readU16s_w16s]
  simp only
  rw [readU8LP_lp _ _ (by rw [hcomp]; decide)]
  simp only
  have hbase : ({ ClientHello.empty with
      vers := cfg.vers.toNat, random := random, sessionId := cfg.sessionId,
      cipherSuites := cfg.suites.map (·.toNat),
      secureRenegotiationSupported := (cfg.suites.map (·.toNat)).any (fun x => x == scsvRenegotiation),
      compressionMethods := cfg.comp } : ClientHello) = baseHello cfg random := rfl
  rw [hbase]
  unfold extBlock
  by_cases hemp : marshalExts cfg.exts = []
  · have hp := parseExts_marshalExts cfg.exts _ hok
    rw [hemp, parseExts_nil] at hp
    simp only [hemp, List.length_nil, Nat.lt_irrefl, if_false, List.isEmpty_nil, if_true]
    exact hp
  · have hpos : (marshalExts cfg.exts).length > 0 := List.length_pos_iff.mpr hemp
    simp only [hpos, if_true]
    have hne : (u16 (marshalExts cfg.exts).length ++ marshalExts cfg.exts).isEmpty = false := by simp [u16]
    simp only [hne, Bool.false_eq_true, if_false]
    have hl := readU16LP_lp (marshalExts cfg.exts) [] he
    simp only [List.append_nil] at hl
    rw [hl]
    simp only [List.isEmpty_nil, Bool.not_true, Bool.false_eq_true, if_false]
    exact parseExts_marshalExts cfg.exts _ hok

/-- header fields of the parsed hello: version, random (= bytes 6..38 on the wire), session id, suites and
    compression methods are the configured ones -/
theorem hello_parse_back_header (cfg : Cfg) (force : Bool) (rand : Bytes) (time : Nat) (out : Bytes)
    (h : marshal cfg force rand time = some out)
    (hs : cfg.suites.length < 32768) (he : (marshalExts cfg.exts).length < 65536)
    (hok : ∀ random, extsOk (baseHello cfg random) cfg.exts = true) :
    ∃ m, parseClientHello out = some m ∧ m.vers = cfg.vers.toNat ∧ m.random = (out.drop 6).take 32 ∧
      m.sessionId = cfg.sessionId ∧ m.cipherSuites = cfg.suites.map (·.toNat) ∧
      m.compressionMethods = cfg.comp := by
  obtain ⟨random, hr, hp⟩ := hello_parse_back cfg force rand time out h hs he
  obtain ⟨random', hr', hl, hout, _⟩ := fp_hello_layout cfg force rand time out h hs he
  have hrr : random' = random := by rw [hr] at hr'; cases hr'; rfl
  subst hrr
  have hh := applyExts_header cfg.exts (baseHello cfg random')
  refine ⟨_, hp (hok random'), hh.1, ?_, hh.2.2.1, hh.2.2.2.1, hh.2.2.2.2⟩
  rw [hh.2.1, hout]
  simp [layout, lp24, layoutBody, baseHello, w16, u16, u24, hl]

/-- extension fields of the parsed hello for an arbitrary in-domain extension list (duplicates allowed):
    presence flags for every configured presence extension; the single SNI name; curves, signature
    algorithms and ALPN protocols of all such extensions concatenated in configured order -/
theorem hello_parse_back_exts (cfg : Cfg) (force : Bool) (rand : Bytes) (time : Nat) (out : Bytes)
    (h : marshal cfg force rand time = some out)
    (hs : cfg.suites.length < 32768) (he : (marshalExts cfg.exts).length < 65536)
    (hok : ∀ random, extsOk (baseHello cfg random) cfg.exts = true) :
    ∃ m, parseClientHello out = some m ∧
      (.ems ∈ cfg.exts → m.extendedMasterSecret = true) ∧
      (.status ∈ cfg.exts → m.ocspStapling = true) ∧
      (.sct ∈ cfg.exts → m.scts = true) ∧
      (.reneg ∈ cfg.exts → m.secureRenegotiationSupported = true) ∧
      (∀ t, .ticket t ∈ cfg.exts → m.ticketSupported = true) ∧
      (∀ name, .sni [name] ∈ cfg.exts → m.serverName = name) ∧
      m.supportedCurves = cfg.exts.flatMap curvesOf ∧
      m.sigAlgs = cfg.exts.flatMap sigalgsOf ∧
      m.alpnProtocols = cfg.exts.flatMap alpnOf := by
  obtain ⟨random, hr, hp⟩ := hello_parse_back cfg force rand time out h hs he
  have hf := applyExts_flags cfg.exts (baseHello cfg random)
  have hl := applyExts_lists cfg.exts (baseHello cfg random)
  refine ⟨_, hp (hok random), hf.1, hf.2.1, hf.2.2.1, hf.2.2.2.1, hf.2.2.2.2, ?_, ?_, ?_, ?_⟩
  · intro name hmem
    exact applyExts_serverName cfg.exts _ name rfl (hok random) hmem
  · simpa [baseHello, ClientHello.empty] using hl.1
  · simpa [baseHello, ClientHello.empty] using hl.2.1
  · simpa [baseHello, ClientHello.empty] using hl.2.2

/-- point formats / session ticket: the parser keeps the value of the last such extension -/
theorem hello_parse_back_last (cfg : Cfg) (force : Bool) (rand : Bytes) (time : Nat) (out : Bytes)
    (h : marshal cfg force rand time = some out)
    (hs : cfg.suites.length < 32768) (he : (marshalExts cfg.exts).length < 65536)
    (hok : ∀ random, extsOk (baseHello cfg random) cfg.exts = true) :
    ∃ m, parseClientHello out = some m ∧
      (∀ pre post l, cfg.exts = pre ++ .points l :: post → (∀ l', .points l' ∉ post) → m.supportedPoints = l) ∧
      (∀ pre post t, cfg.exts = pre ++ .ticket t :: post → (∀ t', .ticket t' ∉ post) → m.sessionTicket = t) := by
  obtain ⟨random, hr, hp⟩ := hello_parse_back cfg force rand time out h hs he
  refine ⟨_, hp (hok random), ?_, ?_⟩
  · intro pre post l heq hno; rw [heq]; exact applyExts_points_last pre post l _ hno
  · intro pre post t heq hno; rw [heq]; exact applyExts_ticket_last pre post t _ hno

/-- converse of the guards: a configuration that passes them is encoded (no other way to fail) -/
theorem marshal_succeeds (cfg : Cfg) (force : Bool) (rand : Bytes) (time : Nat) (random : Bytes)
    (hr : randomField cfg rand time = some random)
    (hchk : cfg.exts.all checkExt = true)
    (hsu : force = true ∨ cfg.suites.all (fun s => Gen.implementedSuites.contains s.toNat) = true)
    (hsid : cfg.sessionId.length < 256) (hcomp : cfg.comp = [0])
    (hlen : (layoutBody cfg random).length < 16777216) :
    marshal cfg force rand time = some (layout cfg random) := by
  rw [← helloBody_eq_layoutBody] at hlen
  rw [marshal_of_guards cfg force rand time random hr hchk hsu hsid hcomp hlen, helloBody_eq_layoutBody]
  rfl

/-! ### T1: the generated tables (re-checked whenever zcrypto's tables change) -/

/-- every table entry is a 16-bit value, and the tables are not empty -/
theorem tables_wellformed :
    Gen.curvePrefs.all (· < 65536) = true ∧ Gen.skxSigAlgs.all (· < 65536) = true ∧
    Gen.implementedSuites.all (· < 65536) = true ∧
    Gen.curvePrefs ≠ [] ∧ Gen.skxSigAlgs ≠ [] ∧ Gen.implementedSuites ≠ [] := by decide

/-- the renegotiation SCSV 0x00ff is not an implemented suite: it can only be configured with ForceSuites -/
theorem scsv_not_implemented : Gen.implementedSuites.contains scsvRenegotiation = false := by decide


/-! ### wire: what a real client sends (`c29 wire`, model `wireHello` of the fingerprint branch of clientHandshake) -/

/-- Whenever a ClientHello leaves the client, it is `marshal` of the effective configuration (the configured one
    after the `Autopopulate` rewrites), and it is a hello the client's own parser accepts: nothing between
    `marshal` and `WriteRecord` re-encodes it. Together with `fp_hello_layout` / `fp_hello_bytes` this gives
    the layout of the bytes in the first handshake record(s). -/
theorem wire_sent_is_marshal (cfg : Cfg) (wexts : List WExt) (sn : Bytes) (cache : FpCache) (rsid : Nat)
    (cc force : Bool) (rand : Bytes) (time : Nat) (hello : Bytes)
    (h : wireHello cfg wexts sn cache rsid cc force rand time = .sent hello) :
    ∃ cfg' rand', effectiveCfg cfg wexts sn cache rsid rand = some (cfg', rand') ∧
      marshal cfg' force rand' time = some hello ∧ (parseClientHello hello).isSome = true := by
  unfold wireHello wireHelloWith at h
  split at h
  · cases h
  · rename_i cfg' rand' he
    split at h
    · cases h
    · rename_i hb hm
      split at h
      · cases h
      · rename_i m hp
        split at h
        · cases h
        · cases h
          exact ⟨cfg', rand', he, hm, by simp [hp]⟩

/-- the rewrites only touch the extension list and the session id: version, random settings, cipher suites and
    compression methods of the effective configuration are the configured ones -/
theorem effectiveCfg_header (cfg cfg' : Cfg) (wexts : List WExt) (sn : Bytes) (cache : FpCache) (rsid : Nat)
    (rand rand' : Bytes) (h : effectiveCfg cfg wexts sn cache rsid rand = some (cfg', rand')) :
    cfg'.vers = cfg.vers ∧ cfg'.random = cfg.random ∧ cfg'.insertTimestamp = cfg.insertTimestamp ∧
      cfg'.suites = cfg.suites ∧ cfg'.comp = cfg.comp := by
  unfold effectiveCfg at h
  dsimp only at h
  split at h
  · cases h
  · split at h
    · cases h
    · cases h; simp

/-- without `Autopopulate` entries and without a cached session the effective configuration IS the configured one
    (whatever `Config.ServerName` and `RandomSessionID` are) and no randomness is consumed before `marshal` -/
theorem effectiveCfg_plain (cfg : Cfg) (wexts : List WExt) (sn : Bytes) (cache : FpCache) (rsid : Nat) (rand : Bytes)
    (hc : cfg.exts = wexts.map (·.e)) (h : ∀ w ∈ wexts, w.auto = false)
    (hcache : cache = FpCache.none ∨ cache = FpCache.empty) :
    effectiveCfg cfg wexts sn cache rsid rand = some (cfg, rand) := by
  unfold effectiveCfg
  simp only [wtcLoop_plain _ _ _ _ h]
  rcases hcache with rfl | rfl <;> simp [ticketLoop_plain _ _ _ _ _ _ h, ← hc]

/-- C29 on the wire, plain fingerprints: the ClientHello in the first handshake record(s) is exactly the
    configured layout — configured version, random per `random_rule`, session id, suites, compression methods and
    the extension encodings in configured order. -/
theorem wire_as_configured (cfg : Cfg) (wexts : List WExt) (sn : Bytes) (cache : FpCache) (rsid : Nat)
    (cc force : Bool) (rand : Bytes) (time : Nat) (hello : Bytes)
    (hc : cfg.exts = wexts.map (·.e)) (hp : ∀ w ∈ wexts, w.auto = false)
    (hcache : cache = FpCache.none ∨ cache = FpCache.empty)
    (h : wireHello cfg wexts sn cache rsid cc force rand time = .sent hello) :
    marshal cfg force rand time = some hello ∧
      ∃ random, randomField cfg rand time = some random ∧ hello = layout cfg random := by
  obtain ⟨cfg', rand', he, hm, _⟩ := wire_sent_is_marshal cfg wexts sn cache rsid cc force rand time hello h
  rw [effectiveCfg_plain cfg wexts sn cache rsid rand hc hp hcache] at he
  cases he
  exact ⟨hm, fp_hello_bytes cfg force rand time hello hm⟩

/-- conversely: a plain fingerprint for which `marshal` succeeds, inside the layout and parse-back domains, IS sent
    (no `Config.ClientSessionCache`), and what is sent is `marshal`'s output -/
theorem wire_plain_sends (cfg : Cfg) (wexts : List WExt) (sn : Bytes) (cache : FpCache) (rsid : Nat)
    (force : Bool) (rand : Bytes) (time : Nat) (out random : Bytes)
    (hc : cfg.exts = wexts.map (·.e)) (hp : ∀ w ∈ wexts, w.auto = false)
    (hcache : cache = FpCache.none ∨ cache = FpCache.empty)
    (hm : marshal cfg force rand time = some out)
    (hs : cfg.suites.length < 32768) (he : (marshalExts cfg.exts).length < 65536)
    (hr : randomField cfg rand time = some random) (hok : extsOk (baseHello cfg random) cfg.exts = true) :
    wireHello cfg wexts sn cache rsid false force rand time = .sent out := by
  obtain ⟨random', hr', himp⟩ := hello_parse_back cfg force rand time out hm hs he
  rw [hr] at hr'
  cases hr'
  have hparse := himp hok
  unfold wireHello wireHelloWith
  rw [effectiveCfg_plain cfg wexts sn cache rsid rand hc hp hcache]
  simp [hm, hparse]

/-- with rewrites: still the layout of the effective configuration, whose header fields are the configured ones -/
theorem wire_layout (cfg : Cfg) (wexts : List WExt) (sn : Bytes) (cache : FpCache) (rsid : Nat)
    (cc force : Bool) (rand : Bytes) (time : Nat) (hello : Bytes)
    (h : wireHello cfg wexts sn cache rsid cc force rand time = .sent hello) :
    ∃ cfg' rand' random, effectiveCfg cfg wexts sn cache rsid rand = some (cfg', rand') ∧
      randomField cfg' rand' time = some random ∧ hello = layout cfg' random ∧
      cfg'.vers = cfg.vers ∧ cfg'.random = cfg.random ∧ cfg'.suites = cfg.suites ∧ cfg'.comp = cfg.comp := by
  obtain ⟨cfg', rand', he, hm, _⟩ := wire_sent_is_marshal cfg wexts sn cache rsid cc force rand time hello h
  obtain ⟨random, hr, hl⟩ := fp_hello_bytes cfg' force rand' time hello hm
  obtain ⟨h1, h2, _, h4, h5⟩ := effectiveCfg_header cfg cfg' wexts sn cache rsid rand rand' he
  exact ⟨cfg', rand', random, he, hr, hl, h1, h2, h4, h5⟩

/-- **a `Config.ClientSessionCache` changes nothing on the wire of a fingerprint**: the hello parsed back from a
    fingerprint of built-in extensions has no supported_versions, so `loadSession` (guarded, commit 87b3ec4) neither
    announces psk modes nor finds a version-compatible session; result and bytes are those without a cache -/
theorem wire_config_cache_irrelevant (cfg : Cfg) (wexts : List WExt) (sn : Bytes) (cache : FpCache) (rsid : Nat)
    (cc force : Bool) (rand : Bytes) (time : Nat) :
    wireHello cfg wexts sn cache rsid cc force rand time = wireHello cfg wexts sn cache rsid false force rand time := by
  unfold wireHello wireHelloWith
  simp

/-- … and the fingerprint path never panics, whatever the configuration -/
theorem wire_never_panics (cfg : Cfg) (wexts : List WExt) (sn : Bytes) (cache : FpCache) (rsid : Nat)
    (cc force : Bool) (rand : Bytes) (time : Nat) :
    wireHello cfg wexts sn cache rsid cc force rand time ≠ .panic := by
  unfold wireHello wireHelloWith
  repeat' split
  all_goals simp_all

/-- what the guard repairs: for every configuration whose hello is sent (no cache), the code WITHOUT the guard, given
    a `Config.ClientSessionCache`, panics exactly when the parsed-back hello has no supported_versions … -/
theorem wire_unguarded_panics_iff (cfg : Cfg) (wexts : List WExt) (sn : Bytes) (cache : FpCache) (rsid : Nat)
    (force : Bool) (rand : Bytes) (time : Nat) (hello : Bytes) (m : ClientHello)
    (h : wireHello cfg wexts sn cache rsid false force rand time = .sent hello)
    (hp : parseClientHello hello = some m) :
    wireHelloWith false cfg wexts sn cache rsid true force rand time =
      if m.supportedVersions.isEmpty then .panic else .sent hello := by
  obtain ⟨cfg', rand', he, hm, _⟩ := wire_sent_is_marshal cfg wexts sn cache rsid false force rand time hello h
  unfold wireHelloWith
  simp [he, hm, hp]

/-- … which is always the case inside the parse-back domain: a fingerprint of built-in extensions never carries
    supported_versions, so before commit 87b3ec4 EVERY plain fingerprint panicked as soon as a session cache was configured -/
theorem wire_unguarded_panics (cfg : Cfg) (wexts : List WExt) (sn : Bytes) (cache : FpCache) (rsid : Nat)
    (force : Bool) (rand : Bytes) (time : Nat) (out random : Bytes)
    (hc : cfg.exts = wexts.map (·.e)) (hpl : ∀ w ∈ wexts, w.auto = false)
    (hcache : cache = FpCache.none ∨ cache = FpCache.empty)
    (hm : marshal cfg force rand time = some out)
    (hs : cfg.suites.length < 32768) (he : (marshalExts cfg.exts).length < 65536)
    (hr : randomField cfg rand time = some random) (hok : extsOk (baseHello cfg random) cfg.exts = true) :
    wireHelloWith false cfg wexts sn cache rsid true force rand time = .panic ∧
      wireHello cfg wexts sn cache rsid true force rand time = .sent out := by
  have hsent := wire_plain_sends cfg wexts sn cache rsid force rand time out random hc hpl hcache hm hs he hr hok
  obtain ⟨random', hr', himp⟩ := hello_parse_back cfg force rand time out hm hs he
  rw [hr] at hr'
  cases hr'
  have hparse := himp hok
  refine ⟨?_, (wire_config_cache_irrelevant cfg wexts sn cache rsid true force rand time).trans hsent⟩
  rw [wire_unguarded_panics_iff cfg wexts sn cache rsid force rand time out _ hsent hparse]
  simp [applyExts_supportedVersions, baseHello, ClientHello.empty]

def exampleCfgW : Cfg :=
  { vers := 0x0303, random := [], insertTimestamp := false, sessionId := [], suites := [0x002f], comp := [0], exts := [] }

/-! ### T1: every built-in extension type is accounted for; constants and tables are the extracted ones -/

/-- **extension_types_accounted** — the go/ast list of ALL types of package tls implementing `ClientExtension`
    (methods Marshal / CheckImplemented / WriteToConfig), with their struct fields, is exactly the list of Go types
    the constructors of the model type `Ext` stand for: a new built-in extension type, or a new field of an existing
    one, makes this theorem fail until it is modelled (Marshal model, T2 tie `c29 ext`, parse-back theorem). -/
theorem extension_types_accounted :
    Gen.extensionTypes = builtinTypes ∧
      Gen.clientExtensionMethods = ["CheckImplemented", "Marshal", "WriteToConfig"] := ⟨rfl, rfl⟩

/-- every constructor of `Ext` models one of the extracted types, and `extKinds` has one representative of
    every constructor -/
theorem goType_accounted (e : Ext) : goType e ∈ Gen.extensionTypes ∧ ∃ k ∈ extKinds, goType k = goType e := by
  cases e <;> exact ⟨by simp [goType, Gen.extensionTypes], by simp [goType, extKinds]⟩

/-- the extension-type constants written by the encoders / switched on by the parser model, and
    `pointFormatUncompressed` of `PointFormatExtension.CheckImplemented`, are those of tls/common.go (go/ast) -/
theorem ext_consts_match :
    Gen.extConsts =
      [("extensionServerName", extensionServerName), ("extensionStatusRequest", extensionStatusRequest),
       ("extensionSupportedCurves", extensionSupportedCurves), ("extensionSupportedPoints", extensionSupportedPoints),
       ("extensionSignatureAlgorithms", extensionSignatureAlgorithms), ("extensionALPN", extensionALPN),
       ("extensionSCT", extensionSCT), ("extensionExtendedMasterSecret", extensionExtendedMasterSecret),
       ("extensionSessionTicket", extensionSessionTicket), ("extensionPreSharedKey", extensionPreSharedKey),
       ("extensionEarlyData", extensionEarlyData), ("extensionSupportedVersions", extensionSupportedVersions),
       ("extensionCookie", extensionCookie), ("extensionPSKModes", extensionPSKModes),
       ("extensionCertificateAuthorities", 47),
       ("extensionSignatureAlgorithmsCert", extensionSignatureAlgorithmsCert), ("extensionKeyShare", extensionKeyShare),
       ("extensionRenegotiationInfo", extensionRenegotiationInfo), ("extensionExtendedRandom", extensionExtendedRandom),
       ("pointFormatUncompressed", 0)] := rfl

/-- `supportedVersions` (now extracted, no longer copied): strictly descending 16-bit values, which is what
    `minSupported` (last entry not above the handshake version) relies on -/
theorem supported_versions_table :
    Gen.supportedVersions = [0x0304, 0x0303, 0x0302, 0x0301] ∧
      supportedVersionsTable = [0x0304, 0x0303, 0x0302, 0x0301] := by decide

/-! ### CheckImplemented / CheckImplementedExtensions (`c29 ext`, `c29 check`) -/

/-- `CheckImplementedExtensions` succeeds iff every extension's `CheckImplemented` does; only curves, point
    formats and signature algorithms can fail, exactly when an entry is not in the extracted table -/
theorem checkExts_iff (l : List Ext) : checkExts l = true ↔ ∀ e ∈ l, checkExt e = true := by
  simp [checkExts]

theorem checkExt_curves_iff (l : List UInt16) :
    checkExt (.curves l) = true ↔ ∀ c ∈ l, c.toNat ∈ Gen.curvePrefs := by
  simp [checkExt]

theorem checkExt_sigalgs_iff (l : List UInt16) :
    checkExt (.sigalgs l) = true ↔ ∀ a ∈ l, a.toNat ∈ Gen.skxSigAlgs := by
  simp [checkExt]

theorem checkExt_points_iff (l : Bytes) : checkExt (.points l) = true ↔ ∀ f ∈ l, f = 0 := by
  simp [checkExt]

theorem checkExt_other (e : Ext) (h1 : ∀ l, e ≠ .curves l) (h2 : ∀ l, e ≠ .points l) (h3 : ∀ l, e ≠ .sigalgs l) :
    checkExt e = true := by
  cases e <;> simp_all [checkExt]

/-- `marshal` consults exactly `CheckImplementedExtensions` -/
theorem marshal_checks (cfg : Cfg) (force : Bool) (rand : Bytes) (time : Nat) (h : checkExts cfg.exts = false) :
    marshal cfg force rand time = none := by
  unfold checkExts at h
  simp [marshal, h]

/-! ### boundary behaviour: a value that exceeds what its length prefix can carry

  As coded: no encoder returns an error or panics (the model `marshalExt` is total and T2-tied on the boundary
  values by `c29 ext`); the CONTENTS are never truncated, only the length bytes are (low 16 / low 8 bits). -/

/-- for ALL values of ALL types: the encoding is the 4-byte header followed by the complete body -/
theorem marshalExt_length (e : Ext) (hn : e ≠ .null) : (marshalExt e).length = 4 + (extBody e).length := by
  rw [marshalExt_frame e hn]
  simp only [List.length_append, u16_length]
  omega

theorem readU16_u16_mod (n : Nat) (r : Bytes) : readU16 (u16 n ++ r) = some (n % 65536, r) := by
  simp [u16, readU16]; omega

/-- for ALL values of ALL types: the two length bytes of the extension header carry the body length mod 65536 -/
theorem marshalExt_length_field (e : Ext) (hn : e ≠ .null) :
    readU16 ((marshalExt e).drop 2) = some ((extBody e).length % 65536, extBody e) := by
  rw [marshalExt_frame e hn]
  simp only [u16, List.cons_append, List.nil_append, List.drop_succ_cons, List.drop_zero]
  exact readU16_u16_mod _ _

/-- … hence the length field is CORRECT (the reader returns exactly the body) iff the body is below 65536 bytes:
    `extOk`'s size limits are necessary, not only sufficient -/
theorem marshalExt_length_field_correct_iff (e : Ext) (hn : e ≠ .null) :
    readU16LP ((marshalExt e).drop 2) = some (extBody e, []) ↔ (extBody e).length < 65536 := by
  constructor
  · intro h
    have h2 := marshalExt_length_field e hn
    unfold readU16LP at h
    rw [h2] at h
    simp only [readBytes] at h
    split at h
    · cases h
    · simp only [Option.some.injEq, Prod.mk.injEq] at h
      have hl := congrArg List.length h.1
      simp only [List.length_take] at hl
      have := Nat.mod_lt (extBody e).length (by decide : 65536 > 0)
      omega
  · intro h
    rw [marshalExt_frame e hn]
    simp only [u16, List.cons_append, List.nil_append, List.drop_succ_cons, List.drop_zero]
    have := readU16LP_lp (extBody e) [] h
    simpa [u16] using this

/-- SessionTicketExtension, ALL tickets (also over-long ones): the parser reads back the first
    `len % 65536` bytes as the ticket — silent truncation of what is READ, the remaining bytes of the ticket
    are parsed as further extensions. Inside the domain (`len < 65536`) this is `ext_parse_back_ticket`. -/
theorem ticket_parse_back_all (t rest : Bytes) (m : ClientHello) :
    parseExts (marshalExt (.ticket t) ++ rest) m =
      parseExts (t.drop (t.length % 65536) ++ rest)
        { m with ticketSupported := true, sessionTicket := t.take (t.length % 65536) } := by
  have hk : t.length % 65536 ≤ t.length := Nat.mod_le _ _
  have hlt : t.length % 65536 < 65536 := Nat.mod_lt _ (by decide)
  have hu : u16 t.length = u16 (t.take (t.length % 65536)).length := by
    rw [List.length_take, Nat.min_eq_left hk]
    simp only [u16, List.cons.injEq, and_true]
    refine ⟨?_, ?_⟩ <;> apply UInt8.toNat_inj.mp <;> simp <;> omega
  have hsplit : t = t.take (t.length % 65536) ++ t.drop (t.length % 65536) := (List.take_append_drop _ _).symm
  have hm : marshalExt (.ticket t) ++ rest =
      u16 extensionSessionTicket ++ (u16 (t.take (t.length % 65536)).length ++
        (t.take (t.length % 65536) ++ (t.drop (t.length % 65536) ++ rest))) := by
    have h1 : t ++ rest = t.take (t.length % 65536) ++ (t.drop (t.length % 65536) ++ rest) := by
      rw [← List.append_assoc, List.take_append_drop]
    simp only [marshalExt, List.append_assoc]
    rw [h1, hu]
  rw [hm, parseExts_step (by decide) _ _ (by rw [List.length_take]; omega)]
  have harm := arm_ticket (t.take (t.length % 65536)) m
  simp only [extBody] at harm
  simp [parseExt, extensionSessionTicket, extensionServerName, extensionStatusRequest, extensionSupportedCurves,
    extensionSupportedPoints, harm, finish]

/-- the boundary itself: a ticket of exactly 65536 bytes is written with length field 0 and read back as an EMPTY
    ticket; the 65536 ticket bytes are then parsed as extensions -/
theorem ticket_65536_reads_back_empty (t rest : Bytes) (m : ClientHello) (h : t.length = 65536) :
    parseExts (marshalExt (.ticket t) ++ rest) m =
      parseExts (t ++ rest) { m with ticketSupported := true, sessionTicket := [] } := by
  rw [ticket_parse_back_all, h]
  simp

/-! ### WriteToConfig (`c29 wtc`): what the fingerprint writes into the Config -/

/-- the full-Config loop refines the loop used by the wire model: same extension list, same ServerName -/
theorem wtcFullLoop_refines (fuel i : Nat) (exts : List WExt) (c : WCfg) :
    (wtcFullLoop fuel i exts c).1 = (wtcLoop fuel i exts c.serverName).1 ∧
      (wtcFullLoop fuel i exts c).2.serverName = (wtcLoop fuel i exts c.serverName).2 := by
  induction fuel generalizing i exts c with
  | zero => simp [wtcFullLoop, wtcLoop]
  | succ n ih =>
    unfold wtcFullLoop wtcLoop
    cases hw : exts[i]? with
    | none => simp
    | some w =>
      simp only
      cases he : w.e <;> simp only [wtcExt] <;> exact ih _ _ _

/-- the fields `WriteToConfig` takes from the fingerprint itself, and the fields it clears, whatever the extensions
    (with or without Autopopulate): CipherSuites, MaxVersion = HandshakeVersion, ClientRandom; no heartbeat, no
    extended random -/
theorem wtcFullLoop_fixed (fuel i : Nat) (exts : List WExt) (c : WCfg) :
    let r := (wtcFullLoop fuel i exts c).2
    r.cipherSuites = c.cipherSuites ∧ r.maxVersion = c.maxVersion ∧ r.clientRandom = c.clientRandom ∧
      r.heartbeat = c.heartbeat ∧ r.extendedRandom = c.extendedRandom := by
  induction fuel generalizing i exts c with
  | zero => simp [wtcFullLoop]
  | succ n ih =>
    unfold wtcFullLoop
    cases hw : exts[i]? with
    | none => simp
    | some w =>
      simp only
      have := ih (i + 1) (match w.e with
        | .sni _ => if w.auto then replaceSni exts c.serverName else exts
        | _ => exts) (wtcExt w.e c)
      cases he : w.e <;> simp_all [wtcExt]

theorem writeToConfig_fixed (cfg : Cfg) (wexts : List WExt) (sn : Bytes) (sh0 : List (UInt8 × UInt8)) :
    let r := (writeToConfig cfg wexts sn sh0).2
    r.cipherSuites = cfg.suites ∧ r.maxVersion = cfg.vers ∧ r.clientRandom = cfg.random ∧
      r.heartbeat = false ∧ r.extendedRandom = false :=
  wtcFullLoop_fixed _ _ _ _

/-- plain lists (no Autopopulate): the loop is a left fold of the per-type effects — the last ALPN / curves /
    signature-algorithm extension wins, EMS / SCT / ticket set their flag — and the extension list is untouched -/
theorem wtcFullLoop_plain (exts : List WExt) (h : ∀ w ∈ exts, w.auto = false) (fuel i : Nat) (c : WCfg)
    (hf : exts.length ≤ i + fuel) :
    wtcFullLoop fuel i exts c = (exts, (exts.drop i).foldl (fun c w => wtcExt w.e c) c) := by
  induction fuel generalizing i c with
  | zero =>
    have : exts.drop i = [] := List.drop_of_length_le (by omega)
    simp [wtcFullLoop, this]
  | succ n ih =>
    unfold wtcFullLoop
    cases hw : exts[i]? with
    | none =>
      have : exts.drop i = [] := List.drop_of_length_le (by simpa using hw)
      simp [this]
    | some w =>
      have hi : i < exts.length := by
        rcases Nat.lt_or_ge i exts.length with h' | h'
        · exact h'
        · rw [List.getElem?_eq_none h'] at hw; cases hw
      have hwm : w ∈ exts := List.mem_of_getElem? hw
      have ha := h w hwm
      have hd : exts.drop i = w :: exts.drop (i + 1) := by
        rw [List.drop_eq_getElem_cons hi]
        rw [List.getElem?_eq_getElem hi] at hw
        cases hw; rfl
      dsimp only
      rw [hd, List.foldl_cons]
      cases he : w.e <;> simp only [ha, Bool.false_eq_true, if_false] <;> exact ih (i + 1) _ (by omega)

theorem writeToConfig_plain (cfg : Cfg) (wexts : List WExt) (sn : Bytes) (sh0 : List (UInt8 × UInt8))
    (h : ∀ w ∈ wexts, w.auto = false) :
    writeToConfig cfg wexts sn sh0 = (wexts, wexts.foldl (fun c w => wtcExt w.e c) (wtcInit cfg sn sh0)) := by
  unfold writeToConfig
  rw [wtcFullLoop_plain wexts h _ 0 _ (by omega)]
  simp

/-- the wire model's `forceTicket` / extension rewrite is the one of the full `WriteToConfig` model -/
theorem writeToConfig_refines (cfg : Cfg) (wexts : List WExt) (sn : Bytes) (sh0 : List (UInt8 × UInt8)) :
    (writeToConfig cfg wexts sn sh0).1 = (wtcLoop wexts.length 0 wexts sn).1 :=
  (wtcFullLoop_refines _ _ _ _).1

example : (writeToConfig exampleCfgW [⟨.alpn [[104, 50]], false⟩, ⟨.ems, false⟩, ⟨.alpn [[120]], false⟩] [] []).2.nextProtos
    = [[120]] := by decide

/-! ### the hypotheses are satisfiable -/

/-- a configuration with every built-in extension type, fresh random with timestamp -/
def exampleCfg : Cfg :=
  { vers := 0x0303, random := [], insertTimestamp := true, sessionId := [1, 2, 3],
    suites := [0xc02f, 0x009c], comp := [0],
    exts := [.sni [[97, 46, 98]], .null, .curves [29, 23], .points [0], .alpn [[104, 50]], .ticket [9],
             .sigalgs [0x0401], .ems, .reneg, .status, .sct] }

set_option maxRecDepth 4000 in
example : (marshal exampleCfg false (List.replicate 28 7) 1700000000).isSome = true := by decide
example : exampleCfg.suites.length < 32768 ∧ (marshalExts exampleCfg.exts).length < 65536 := by decide
example : ∀ random, extsOk (baseHello exampleCfg random) exampleCfg.exts = true := fun _ => rfl
example : exampleCfg.random.length ≠ 32 ∧ exampleCfg.insertTimestamp = true := by decide
example : checkExts [.curves [29, 23], .points [0], .ems] = true ∧ checkExts [.curves [29, 30]] = false := by decide
example : extOk (.sni [[97, 46, 98]]) ClientHello.empty = true ∧ extOk (.alpn [[104, 50]]) ClientHello.empty = true ∧
    extOk (.curves [29]) ClientHello.empty = true ∧ extOk (.points [0]) ClientHello.empty = true ∧
    extOk (.sigalgs [0x0401]) ClientHello.empty = true ∧ extOk (.ticket [1]) ClientHello.empty = true := by decide
/-- D13: SNI with two names is outside the domain -/
example : extOk (.sni [[97], [98]]) ClientHello.empty = false ∧ extOk (.sni []) ClientHello.empty = false := by decide

/-- a plain fingerprint in browser-like (non-stock) extension order, and one with Autopopulate entries -/
def exampleWire : List WExt :=
  [⟨.reneg, false⟩, ⟨.sni [[97, 46, 98]], false⟩, ⟨.ems, false⟩, ⟨.sct, false⟩, ⟨.points [0], false⟩]
def exampleWireCfg : Cfg :=
  { vers := 0x0303, random := List.replicate 32 5, insertTimestamp := false, sessionId := [], suites := [0x002f],
    comp := [0], exts := exampleWire.map (·.e) }
set_option maxRecDepth 8000 in
example : ∃ out, marshal exampleWireCfg false [] 0 = some out ∧
    wireHello exampleWireCfg exampleWire [] .none 0 false false [] 0 = .sent out := by
  have hm : (marshal exampleWireCfg false [] 0).isSome = true := by decide
  obtain ⟨out, ho⟩ := Option.isSome_iff_exists.mp hm
  exact ⟨out, ho, wire_plain_sends exampleWireCfg exampleWire [] .none 0 false [] 0 out (List.replicate 32 5)
    (by decide) (by decide) (Or.inl rfl) ho (by decide) (by decide) (by decide) rfl⟩
example : exampleWireCfg.exts = exampleWire.map (·.e) ∧ ∀ w ∈ exampleWire, w.auto = false := by decide
set_option maxRecDepth 8000 in
example : (effectiveCfg exampleWireCfg [⟨.sni [], true⟩, ⟨.ticket [], true⟩] [120] (.hit 0x0303 0x002f [7, 7]) 2 [1, 2, 3]).map
    (fun p => (p.1.exts, p.1.sessionId, p.2)) = some ([.sni [[120]], .ticket [7, 7]], [1, 2], [3]) := by decide

-- the code before commit 87b3ec4 (model variant without the guard): the same fingerprint with a
-- `Config.ClientSessionCache` panics in `loadSession` instead of sending its hello — reverting the fix is this
set_option maxRecDepth 8000 in
example : ∃ out, wireHelloWith false exampleWireCfg exampleWire [] .none 0 true false [] 0 = .panic ∧
    wireHello exampleWireCfg exampleWire [] .none 0 true false [] 0 = .sent out := by
  have hm : (marshal exampleWireCfg false [] 0).isSome = true := by decide
  obtain ⟨out, ho⟩ := Option.isSome_iff_exists.mp hm
  exact ⟨out, wire_unguarded_panics exampleWireCfg exampleWire [] .none 0 false [] 0 out (List.replicate 32 5)
    (by decide) (by decide) (Or.inl rfl) ho (by decide) (by decide) (by decide) rfl⟩

end ZV.C29
