import ZV.Model.C14
import ZV.Proofs.C14
import ZV.Proofs.C14Str
import ZV.Proofs.C14Int
import ZV.Proofs.C22
import ZV.Generated.C14
/-!
  C14 — CRL revocation lookup reports exactly the listed serials.

  `check crl serial cache` is the branch-for-branch model of `CheckCRLForCert`
  (`cache = none` ⇒ linear search; `some m` ⇒ map lookup by the serial's decimal string `decChars serial`).
-/
namespace ZV.C14

/-! ### the cache key: `(*big.Int).String()` -/

/-- the decimal rendering has a left inverse (reading the numeral back gives the integer) … -/
theorem decChars_roundtrip (i : Int) : parseDec (decChars i) = i := parseDec_decChars i

/-- … hence it is injective: two serials have the same cache key exactly when they are equal.  (Formerly an
    assumption about math/big; now a theorem about the modelled rendering, which T2 `c14 str` ties to `String()`.) -/
theorem decChars_injective {a b : Int} (h : decChars a = decChars b) : a = b := by
  have := congrArg parseDec h
  simpa [parseDec_decChars] using this

theorem decChars_eq_iff (a b : Int) : decChars a = decChars b ↔ a = b :=
  ⟨decChars_injective, fun h => by rw [h]⟩

/-- shape of a key: an optional '-' (exactly for negative serials) followed by one or more decimal digits -/
theorem decChars_shape (i : Int) :
    ∃ ds : List Char, ds ≠ [] ∧ (∀ c ∈ ds, c.isDigit = true) ∧
      decChars i = (if i < 0 then '-' :: ds else ds) := by
  cases i with
  | ofNat n =>
    obtain ⟨d, r, _, he⟩ := natDigits_head n
    refine ⟨natDigits n, by rw [he]; simp, natDigits_all_digits n, ?_⟩
    have : ¬ (Int.ofNat n < 0) := by simp
    simp [decChars, this]
  | negSucc n =>
    obtain ⟨d, r, _, he⟩ := natDigits_head (n + 1)
    refine ⟨natDigits (n + 1), by rw [he]; simp, natDigits_all_digits (n + 1), ?_⟩
    have : Int.negSucc n < 0 := Int.negSucc_lt_zero n
    simp [decChars, this]

theorem keyPred_eq (serial : Int) :
    (fun e : Entry => decide (decChars e.serial = decChars serial)) = (fun e => decide (e.serial = serial)) := by
  funext e
  simp [decChars_eq_iff]

/-- the entry the property speaks about: the FIRST listed entry with the queried serial -/
def firstListed (entries : List Entry) (serial : Int) : Option Entry :=
  entries.find? (fun e => decide (e.serial = serial))

/-! ### linear search -/

/-- revoked exactly when the serial appears among the revoked entries -/
theorem check_linear_iff (crl : CRL) (serial : Int) :
    (check crl serial none).isRevoked = true ↔ ∃ e ∈ crl.entries, e.serial = serial := by
  simp only [check, search_spec, gather_spec, header]
  cases h : crl.entries.find? (fun e => decide (e.serial = serial)) with
  | some e =>
    have := List.find?_some h
    have hm := List.mem_of_find?_eq_some h
    simp only [true_iff]
    exact ⟨e, hm, by simpa using this⟩
  | none =>
    simp only [List.find?_eq_none, decide_eq_true_eq] at h
    simp only [Bool.false_eq_true, false_iff, not_exists, not_and]
    exact h

/-- … with the revocation time of the first such entry (and the zero time when there is none) -/
theorem check_linear_time (crl : CRL) (serial : Int) :
    (check crl serial none).revTime = (firstListed crl.entries serial).map (·.time) := by
  simp only [check, search_spec, gather_spec, header, firstListed]
  cases crl.entries.find? (fun e => decide (e.serial = serial)) <;> rfl

/-- "first": nothing before the reported entry carries the serial -/
theorem firstListed_is_first (entries : List Entry) (serial : Int) (e : Entry)
    (h : firstListed entries serial = some e) :
    e.serial = serial ∧ ∃ pre post, entries = pre ++ e :: post ∧ ∀ x ∈ pre, x.serial ≠ serial := by
  unfold firstListed at h
  obtain ⟨h1, pre, post, h2, h3⟩ := List.find?_eq_some_iff_append.mp h
  exact ⟨by simpa using h1, pre, post, h2, fun x hx => by simpa using h3 x hx⟩

/-! ### the cache path -/

/-- a map filled first-wins from the entry list answers every lookup with the first listed entry -/
theorem firstWins_get (entries : List Entry) (serial : Int) :
    (firstWins entries).get (decChars serial) = firstListed entries serial := by
  rw [firstWins_eq, fw_fold_get, keyPred_eq]; rfl

/-- a key that is not the rendering of a listed serial is absent from the first-wins map -/
theorem firstWins_get_key (entries : List Entry) (k : Key) :
    (firstWins entries).get k = entries.find? (fun e => decide (decChars e.serial = k)) := by
  rw [firstWins_eq, fw_fold_get]; rfl

/-- Supplying a cache built (first-wins) from the same entries gives the same result as the linear
    search — the whole RevocationData, in particular the revoked flag and the time. -/
theorem cache_agrees (crl : CRL) (serial : Int) (cache : Cache) (h : cache = firstWins crl.entries) :
    check crl serial (some cache) = check crl serial none := by
  subst h
  simp only [check, firstWins_get, search_spec, firstListed]
  cases crl.entries.find? (fun e => decide (e.serial = serial)) <;> rfl

/-- For ANY cache whose key set is the set of listed serials (whatever entry it keeps per serial) the
    revoked flag agrees with the linear search. -/
theorem cache_flag_agrees (crl : CRL) (serial : Int) (cache : Cache)
    (h : ∀ k : Key, (cache.get k).isSome = true ↔ ∃ e ∈ crl.entries, decChars e.serial = k) :
    (check crl serial (some cache)).isRevoked = (check crl serial none).isRevoked := by
  have hl := check_linear_iff crl serial
  have hk : (cache.get (decChars serial)).isSome = true ↔ ∃ e ∈ crl.entries, e.serial = serial := by
    rw [h (decChars serial)]
    simp only [decChars_eq_iff]
  cases hc : (check crl serial none).isRevoked with
  | true =>
    have := hk.mpr (hl.mp hc)
    simp only [check, gather_spec, header]
    cases hg : cache.get (decChars serial) with
    | some v => rfl
    | none => simp [hg] at this
  | false =>
    have hn : ¬ ∃ e ∈ crl.entries, e.serial = serial := fun hx => by simp [hl.mpr hx] at hc
    have : (cache.get (decChars serial)).isSome ≠ true := fun hx => hn (hk.mp hx)
    simp only [check, gather_spec, header]
    cases hg : cache.get (decChars serial) with
    | some v => simp [hg] at this
    | none => rfl

/-- the construction used by crl_test.go (plain overwrite, last wins) keeps the LAST listed entry … -/
theorem lastWins_get_key (entries : List Entry) (k : Key) :
    (lastWins entries).get k = entries.reverse.find? (fun e => decide (decChars e.serial = k)) := by
  unfold lastWins
  rw [lw_fold_get]
  cases entries.reverse.find? (fun e => decide (decChars e.serial = k)) <;> rfl

theorem lastWins_get (entries : List Entry) (serial : Int) :
    (lastWins entries).get (decChars serial) = entries.reverse.find? (fun e => decide (e.serial = serial)) := by
  rw [lastWins_get_key, keyPred_eq]

/-- the key set of the last-wins map is the set of renderings of the listed serials -/
theorem lastWins_keys (entries : List Entry) (k : Key) :
    ((lastWins entries).get k).isSome = true ↔ ∃ e ∈ entries, decChars e.serial = k := by
  rw [lastWins_get_key]
  constructor
  · intro h
    cases hf : entries.reverse.find? (fun e => decide (decChars e.serial = k)) with
    | none => simp [hf] at h
    | some e =>
      exact ⟨e, by simpa using List.mem_of_find?_eq_some hf, by simpa using List.find?_some hf⟩
  · rintro ⟨e, he, hk⟩
    rw [Option.isSome_iff_ne_none]
    intro hn
    simp only [List.find?_eq_none, List.mem_reverse, decide_eq_true_eq] at hn
    exact hn e he hk

/-- the same for the first-wins map -/
theorem firstWins_keys (entries : List Entry) (k : Key) :
    ((firstWins entries).get k).isSome = true ↔ ∃ e ∈ entries, decChars e.serial = k := by
  rw [firstWins_get_key]
  constructor
  · intro h
    cases hf : entries.find? (fun e => decide (decChars e.serial = k)) with
    | none => simp [hf] at h
    | some e =>
      exact ⟨e, List.mem_of_find?_eq_some hf, by simpa using List.find?_some hf⟩
  · rintro ⟨e, he, hk⟩
    rw [Option.isSome_iff_ne_none]
    intro hn
    simp only [List.find?_eq_none, decide_eq_true_eq] at hn
    exact hn e he hk

/-- … so it has the same flag … -/
theorem lastWins_flag_agrees (crl : CRL) (serial : Int) :
    (check crl serial (some (lastWins crl.entries))).isRevoked = (check crl serial none).isRevoked := by
  exact cache_flag_agrees crl serial _ (lastWins_keys crl.entries)

/-- … but, with a serial listed twice, not the same time: the sentence about the time needs first-wins. -/
theorem lastWins_time_counterexample :
    ∃ (crl : CRL) (serial : Int),
      (check crl serial (some (lastWins crl.entries))).revTime ≠ (check crl serial none).revTime :=
  ⟨⟨1, 0, 0, none, [], [⟨7, 100⟩, ⟨7, 200⟩], []⟩, 7, by
    rw [check_linear_time]
    simp only [check, lastWins_get]
    decide⟩

/-! ### extension classification -/

/-- critical and non-critical unknown extensions are the order-preserving filters of the CRL's extension
    list; the CRL number is the decoded value of the last CRL-number extension (0 if undecodable or absent) -/
theorem ext_classification (crl : CRL) (serial : Int) (cache : Option Cache) :
    let r := check crl serial cache
    r.unknownCritical = crl.exts.filter (fun e => !isNum e && e.critical) ∧
    r.unknown = crl.exts.filter (fun e => !isNum e && !e.critical) ∧
    r.crlNumber = crlNumberOf crl.exts 0 := by
  have hs : ∀ (es : List Entry) (ret : RevData),
      (search es serial ret).unknownCritical = ret.unknownCritical ∧ (search es serial ret).unknown = ret.unknown ∧
      (search es serial ret).crlNumber = ret.crlNumber := by
    intro es ret; rw [search_spec]; cases es.find? (fun e => decide (e.serial = serial)) <;> simp
  cases cache with
  | none =>
    simp only [check]
    obtain ⟨h1, h2, h3⟩ := hs crl.entries (gather crl.exts (header crl))
    rw [h1, h2, h3, gather_spec]
    simp [header]
  | some m =>
    simp only [check]
    cases m.get (decChars serial) <;> (rw [gather_spec]; simp [header])

/-- nothing is lost, nothing is duplicated: every extension is either a CRL-number extension or lands in
    exactly the list matching its critical flag; and the two lists are sublists (order preserved) -/
theorem ext_partition (crl : CRL) (serial : Int) (cache : Option Cache) :
    let r := check crl serial cache
    (∀ e ∈ crl.exts, e.oid = crlNumberOID ∨ (e.critical = true ∧ e ∈ r.unknownCritical) ∨ (e.critical = false ∧ e ∈ r.unknown)) ∧
    (∀ e ∈ r.unknownCritical, e ∈ crl.exts ∧ e.critical = true ∧ e.oid ≠ crlNumberOID) ∧
    (∀ e ∈ r.unknown, e ∈ crl.exts ∧ e.critical = false ∧ e.oid ≠ crlNumberOID) ∧
    r.unknownCritical.Sublist crl.exts ∧ r.unknown.Sublist crl.exts ∧
    r.unknownCritical.length + r.unknown.length + (crl.exts.filter isNum).length = crl.exts.length := by
  obtain ⟨h1, h2, _⟩ := ext_classification crl serial cache
  simp only at h1 h2 ⊢
  rw [h1, h2]
  refine ⟨?_, ?_, ?_, List.filter_sublist, List.filter_sublist, ?_⟩
  · intro e he
    by_cases hn : e.oid = crlNumberOID
    · exact Or.inl hn
    · right
      cases hc : e.critical with
      | true => left; simp [List.mem_filter, he, hc, isNum, hn]
      | false => right; simp [List.mem_filter, he, hc, isNum, hn]
  · intro e he
    simp only [List.mem_filter, Bool.and_eq_true, Bool.not_eq_eq_eq_not, Bool.not_true, isNum, decide_eq_false_iff_not] at he
    exact ⟨he.1, he.2.2, he.2.1⟩
  · intro e he
    simp only [List.mem_filter, Bool.and_eq_true, Bool.not_eq_eq_eq_not, Bool.not_true, isNum, decide_eq_false_iff_not] at he
    exact ⟨he.1, he.2.2, he.2.1⟩
  · induction crl.exts with
    | nil => simp
    | cons e rest ih =>
      simp only [List.filter_cons, List.length_cons]
      cases isNum e <;> cases e.critical <;> simp <;> omega

/-! ### CRL number decoding: `asn1.Unmarshal(value, &int)` = `ZV.C18.unmarshal false .int64 {}` -/

open ZV.C18 in
/-- short-form header (tag 02, one length byte < 128, content `c`, then anything): the outcome is exactly the outcome
    of the content parser `parseInt64` on `c` — for EVERY content, accepted or not -/
theorem derInt_short_form_all (c tail : Bytes) (h : c.length < 128) :
    derInt (2 :: UInt8.ofNat c.length :: (c ++ tail)) =
      match parseInt64 false c with | .ok v => some v | _ => none := derInt_short c tail h

open ZV.C18 in
/-- A CRL-number extension value in DER short form — tag 02, one length byte, 1..8 minimal content bytes, then
    anything — decodes to the two's-complement integer of the content (and `numOf` is that integer). -/
theorem derInt_short_form (c tail : Bytes) (h8 : c.length ≤ 8) (hmin : checkInteger false c = true) :
    derInt (2 :: UInt8.ofNat c.length :: (c ++ tail)) = some (sval c) := by
  rw [derInt_short c tail (by omega), parseInt64_sval c hmin h8]

open ZV.C18 in
/-- COMPLETE characterisation (no hypothesis on the input): `Unmarshal(value, &int)` succeeds exactly on
    `02 len c…` with a single length byte, 1 ≤ len ≤ 8, `c` minimally encoded, and then yields the two's-complement
    value of `c`; trailing bytes are ignored.  In particular every long-form length, every other identifier octet
    (wrong tag, class, constructed bit, high-tag form), every truncation and every non-minimal or > 8 byte integer fails
    — and `gatherListExtensionInfo` then reports CRL number 0. -/
theorem derInt_iff (bs : Bytes) (v : Int) :
    derInt bs = some v ↔
      ∃ c tail, bs = 2 :: UInt8.ofNat c.length :: (c ++ tail) ∧ 1 ≤ c.length ∧ c.length ≤ 8 ∧
        checkInteger false c = true ∧ v = sval c := by
  constructor
  · intro h
    unfold derInt at h
    rw [unmarshal_int64, primField_int64] at h
    cases bs with
    | nil => simp [parseTL] at h
    | cons b r1 =>
      cases hp : parseTL false (b :: r1) with
      | err => simp [hp] at h
      | panic => simp [hp] at h
      | ok x =>
        obtain ⟨t, r'⟩ := x
        simp only [hp] at h
        by_cases hc : t.cls = 0 ∧ t.tag = 2 ∧ t.compound = false
        · simp only [hc, and_self, if_true] at h
          by_cases hl : t.len > r'.length
          · simp [hl] at h
          · simp only [hl, if_false] at h
            cases hi : parseInt64 false (r'.take t.len) with
            | err => simp [hi] at h
            | panic => simp [hi] at h
            | ok i =>
              simp only [hi, Option.some.injEq] at h
              subst h
              obtain ⟨hb, hr⟩ := int_header b r1 r' t hp hc.1 hc.2.1 hc.2.2
              obtain ⟨hck, hlen⟩ := parseInt64_ok _ _ hi
              have htl : (r'.take t.len).length = t.len := by rw [List.length_take]; omega
              rcases readLen_strict r1 r' t.len hr with ⟨b2, hr1, hb2, hlb⟩ | hbig
              · refine ⟨r'.take t.len, r'.drop t.len, ?_, ?_, hlen, hck, ?_⟩
                · rw [hb, hr1, htl, List.take_append_drop, hlb]
                  congr 2
                  apply UInt8.toNat_inj.mp
                  rw [toNat_ofNat_lt (by omega)]
                · exact checkInteger_ne_nil _ hck
                · have := parseInt64_sval _ hck hlen
                  rw [hi] at this
                  exact (Res.ok.inj this)
              · omega
        · simp [hc] at h
  · rintro ⟨c, tail, rfl, _, h8, hmin, rfl⟩
    exact derInt_short_form c tail h8 hmin

open ZV.C18 in
/-- a long-form length (first length byte ≥ 0x80) never yields a CRL number -/
theorem derInt_long_form_none (b : UInt8) (rest : Bytes) (h : b.toNat ≥ 128) : derInt (2 :: b :: rest) = none := by
  cases hd : derInt (2 :: b :: rest) with
  | none => rfl
  | some v =>
    obtain ⟨c, tail, heq, _, h8, _, _⟩ := (derInt_iff _ v).mp hd
    have hb : b = UInt8.ofNat c.length := (List.cons.inj (List.cons.inj heq).2).1
    rw [hb, toNat_ofNat_lt (by omega)] at h
    omega

/-- an identifier octet other than 0x02 never yields a CRL number -/
theorem derInt_wrong_tag_none (t : UInt8) (rest : Bytes) (h : t ≠ 2) : derInt (t :: rest) = none := by
  cases hd : derInt (t :: rest) with
  | none => rfl
  | some v =>
    obtain ⟨c, tail, heq, _⟩ := (derInt_iff _ v).mp hd
    exact absurd (List.cons.inj heq).1 h

theorem derInt_nil : derInt [] = none := by
  cases hd : derInt [] with
  | none => rfl
  | some v =>
    obtain ⟨c, tail, heq, _⟩ := (derInt_iff _ v).mp hd
    cases heq

/-- the reported CRL number of a CRL: value of the LAST CRL-number extension if it decodes, else 0 — spelled out with
    the characterisation above: a non-zero CRL number is always the two's-complement value of 1..8 content bytes -/
theorem crlNumber_nonzero (crl : CRL) (serial : Int) (cache : Option Cache)
    (h : (check crl serial cache).crlNumber ≠ 0) :
    ∃ e ∈ crl.exts, e.oid = crlNumberOID ∧
      ∃ c tail, e.value = 2 :: UInt8.ofNat c.length :: (c ++ tail) ∧ 1 ≤ c.length ∧ c.length ≤ 8 ∧
        ZV.C18.checkInteger false c = true ∧ (check crl serial cache).crlNumber = ZV.C18.sval c := by
  have h3 : (check crl serial cache).crlNumber = crlNumberOf crl.exts 0 := (ext_classification crl serial cache).2.2
  rw [h3] at h ⊢
  unfold crlNumberOf at h ⊢
  cases hl : (crl.exts.filter isNum).getLast? with
  | none => simp [hl] at h
  | some e =>
    simp only [hl] at h ⊢
    have hm : e ∈ crl.exts.filter isNum := List.mem_of_getLast? hl
    rw [List.mem_filter] at hm
    refine ⟨e, hm.1, by simpa [isNum] using hm.2, ?_⟩
    unfold numOf at h ⊢
    cases hd : derInt e.value with
    | none => simp [hd] at h
    | some v =>
      obtain ⟨c, tail, h1, h2, h3, h4, h5⟩ := (derInt_iff _ v).mp hd
      exact ⟨c, tail, h1, h2, h3, h4, h5⟩

example : derInt [2, 2, 1, 44, 99] = some 300 := by
  have := derInt_short_form [1, 44] [99] (by decide) (by decide)
  simpa [ZV.C18.sval] using this
example : derInt [2, 1, 255] = some (-1) := by
  have := derInt_short_form [255] [] (by decide) (by decide)
  simpa [ZV.C18.sval] using this
example : ZV.C18.checkInteger false [0, 5] = false := by decide
example : derInt [2, 0x81, 1, 5] = none := derInt_long_form_none _ _ (by decide)

/-! ### copied header -/

/-- the scalar fields are copied; the issuer is `FillFromRDNSequence` (model `ZV.C22.fill`) of the CRL's issuer:
    `OriginalRDNS` is the sequence itself, `Names` its attributes in document order, every `[]string` field the
    values of the string-valued attributes that the dispatch table sends to it, in document order, and the two scalar
    fields (CommonName, SerialNumber) the last such value -/
theorem header_copied (crl : CRL) (serial : Int) (cache : Option Cache) :
    let r := check crl serial cache
    r.sig = crl.sig ∧ r.version = crl.version ∧ r.thisUpdate = crl.thisUpdate ∧ r.nextUpdate = crl.nextUpdate ∧
    r.issuer = ZV.C22.fill crl.issuer ∧
    r.issuer.originalRDNS = crl.issuer ∧ r.issuer.names = ZV.C22.flat crl.issuer ∧ r.issuer.extraNames = [] ∧
    (∀ f, r.issuer.get f = (ZV.C22.flat crl.issuer).flatMap (ZV.C22.valsFor f)) ∧
    (∀ s, r.issuer.getS s = (ZV.C22.flat crl.issuer).foldl (ZV.C22.stepS s) []) := by
  have hi : (check crl serial cache).issuer = ZV.C22.fill crl.issuer := by
    cases cache with
    | none =>
      simp only [check, search_spec, gather_spec, header]
      cases crl.entries.find? (fun e => decide (e.serial = serial)) <;> rfl
    | some m =>
      simp only [check, gather_spec, header]
      cases m.get (decChars serial) <;> rfl
  have hf : ZV.C22.fill crl.issuer = ZV.C22.fillFlat { ZV.C22.Name.empty with originalRDNS := crl.issuer } (ZV.C22.flat crl.issuer) := by
    unfold ZV.C22.fill; rw [ZV.C22.fillInto_eq]
  have hrest := ZV.C22.fillFlat_rest (ZV.C22.flat crl.issuer) { ZV.C22.Name.empty with originalRDNS := crl.issuer }
  simp only
  refine ⟨?_, ?_, ?_, ?_, hi, ?_, ?_, ?_, ?_, ?_⟩
  · cases cache with
    | none =>
      simp only [check, search_spec, gather_spec, header]
      cases crl.entries.find? (fun e => decide (e.serial = serial)) <;> rfl
    | some m =>
      simp only [check, gather_spec, header]
      cases m.get (decChars serial) <;> rfl
  · cases cache with
    | none =>
      simp only [check, search_spec, gather_spec, header]
      cases crl.entries.find? (fun e => decide (e.serial = serial)) <;> rfl
    | some m =>
      simp only [check, gather_spec, header]
      cases m.get (decChars serial) <;> rfl
  · cases cache with
    | none =>
      simp only [check, search_spec, gather_spec, header]
      cases crl.entries.find? (fun e => decide (e.serial = serial)) <;> rfl
    | some m =>
      simp only [check, gather_spec, header]
      cases m.get (decChars serial) <;> rfl
  · cases cache with
    | none =>
      simp only [check, search_spec, gather_spec, header]
      cases crl.entries.find? (fun e => decide (e.serial = serial)) <;> rfl
    | some m =>
      simp only [check, gather_spec, header]
      cases m.get (decChars serial) <;> rfl
  · rw [hi, hf, hrest.2.2]
  · rw [hi, hf, hrest.1]; simp [ZV.C22.Name.empty]
  · rw [hi, hf, hrest.2.1]; simp [ZV.C22.Name.empty]
  · intro f
    rw [hi, hf, ZV.C22.fillFlat_get]
    cases f <;> simp [ZV.C22.Name.get, ZV.C22.Name.empty]
  · intro s
    rw [hi, hf, ZV.C22.fillFlat_getS]
    cases s <;> simp [ZV.C22.Name.getS, ZV.C22.Name.empty]

/-- what `CheckCRLForCert` does NOT report: the per-entry extension data (reason code, invalidity date) and the raw
    entry extensions stay at their zero values for every input (crl.go carries a TODO for them) -/
theorem entry_extensions_never_reported (crl : CRL) (serial : Int) (cache : Option Cache) :
    (check crl serial cache).entryReason = none ∧ (check crl serial cache).rawEntryExts = [] := by
  cases cache with
  | none =>
    simp only [check, search_spec, gather_spec, header]
    cases crl.entries.find? (fun e => decide (e.serial = serial)) <;> exact ⟨rfl, rfl⟩
  | some m =>
    simp only [check, gather_spec, header]
    cases m.get (decChars serial) <;> exact ⟨rfl, rfl⟩

/-! ### T1: facts read from crl.go on every run (lean/ZV/Generated/C14.lean) -/

/-- the OID the model dispatches on is the one in the source -/
theorem crlNumberOID_matches_source : crlNumberOID = Gen.crlNumberExtensionOID := by decide

/-- the two entry-extension OIDs crl.go declares (reason code, invalidity date) are distinct from the CRL-number OID:
    such extensions on the LIST are classified by their critical flag, not decoded -/
theorem entry_ext_oids_not_crlNumber :
    Gen.revocationReasonExtensionOID ≠ Gen.crlNumberExtensionOID ∧ Gen.invalidityDateExtensionOID ≠ Gen.crlNumberExtensionOID ∧
    Gen.revocationReasonExtensionOID ≠ Gen.invalidityDateExtensionOID := by decide

/-- the loop body of gatherListExtensionInfo is the three-way chain the model `gatherStep` mirrors, in this order -/
theorem gather_chain_matches_source :
    Gen.gatherChain =
      [("extension.Id.Equal(crlNumberExtensionOID)".toList, "ret.CRLExtensions.CRLNumber = ext.CRLNumber".toList),
       ("extension.Critical".toList, "ret.UnknownCriticalCRLExtensions = append(ret.UnknownCriticalCRLExtensions, extension)".toList),
       ("else".toList, "ret.UnknownCRLExtensions = append(ret.UnknownCRLExtensions, extension)".toList)] := by decide

/-- the `&RevocationData{…}` literal copies exactly the fields `header` copies, from the sources `header` reads -/
theorem header_literal_matches_source :
    Gen.headerLiteral =
      [("CRLSignatureAlgorithm".toList, "x509.GetSignatureAlgorithmFromAI(certList.SignatureAlgorithm)".toList),
       ("CRLSignatureValue".toList, "certList.SignatureValue.Bytes".toList),
       ("Version".toList, "certList.TBSCertList.Version".toList),
       ("ThisUpdate".toList, "certList.TBSCertList.ThisUpdate".toList),
       ("NextUpdate".toList, "certList.TBSCertList.NextUpdate".toList),
       ("IsRevoked".toList, "false".toList)] := by decide

/-- beyond the literal, the two functions write exactly these fields of the result — in particular never
    `CertificateEntryExtensions` / `RawCertificateEntryExtensions` / `CRLExtensions.AuthKeyID`
    (source-level counterpart of `entry_extensions_never_reported`) -/
theorem ret_written_matches_source :
    Gen.retWritten =
      ["CRLExtensions.CRLNumber".toList, "IsRevoked".toList, "Issuer.FillFromRDNSequence()".toList,
       "RevocationTime".toList, "UnknownCRLExtensions".toList, "UnknownCriticalCRLExtensions".toList] := by decide

/-- reason-code name table: codes 0..10 without 7, nothing else written to the table, names pairwise distinct
    (so the name determines the code) and non-empty -/
theorem reason_table :
    Gen.reasonCodeNames.map (·.1) = [0, 1, 2, 3, 4, 5, 6, 8, 9, 10] ∧ Gen.reasonCodeOther = [] ∧
    (Gen.reasonCodeNames.map (·.2)).Nodup ∧ (∀ r ∈ Gen.reasonCodeNames, r.2 ≠ []) ∧
    Gen.reasonCodeNames.lookup 7 = none := by decide

/-! ### repeated lookups on one CertificateList (inputs are only read) -/

/-- lookup `i` of a sequence made on one CRL object is the single lookup on the original CRL value -/
theorem checkSeq_index (crl : CRL) (qs : List (Int × Option Cache)) (i : Nat) :
    (checkSeq crl qs)[i]? = qs[i]?.map (fun q => check crl q.1 q.2) := by
  simp [checkSeq]

/-- every lookup of a sequence reports the same CRL number, the same two extension lists and the same copied
    header as any other one (in particular as the first): they depend on the CRL alone, not on the query, the cache
    or on what was looked up before -/
theorem checkSeq_crl_part_stable (crl : CRL) (qs : List (Int × Option Cache)) :
    ∀ r ∈ checkSeq crl qs, ∀ r' ∈ checkSeq crl qs,
      r.crlNumber = r'.crlNumber ∧ r.unknown = r'.unknown ∧ r.unknownCritical = r'.unknownCritical ∧
      r.sig = r'.sig ∧ r.version = r'.version ∧ r.thisUpdate = r'.thisUpdate ∧ r.nextUpdate = r'.nextUpdate ∧
      r.issuer = r'.issuer := by
  intro r hr r' hr'
  simp only [checkSeq, List.mem_map] at hr hr'
  obtain ⟨q, _, rfl⟩ := hr
  obtain ⟨q', _, rfl⟩ := hr'
  obtain ⟨a1, a2, a3⟩ := ext_classification crl q.1 q.2
  obtain ⟨b1, b2, b3⟩ := ext_classification crl q'.1 q'.2
  obtain ⟨c1, c2, c3, c4, c5, _⟩ := header_copied crl q.1 q.2
  obtain ⟨d1, d2, d3, d4, d5, _⟩ := header_copied crl q'.1 q'.2
  refine ⟨by rw [a3, b3], by rw [a2, b2], by rw [a1, b1], by rw [c1, d1], by rw [c2, d2], by rw [c3, d3],
    by rw [c4, d4], by rw [c5, d5]⟩

example : (checkSeq ⟨1, 0, 0, none, [], [⟨7, 100⟩], [⟨[2, 5, 29, 28], true, [48, 0]⟩,
    ⟨[2, 5, 29, 35], false, [48, 0]⟩]⟩ [(7, none), (6, none), (7, some [])]).map (fun r => (r.isRevoked, r.unknown.length)) =
    [(true, 1), (false, 1), (false, 1)] := by decide

/-! ### non-vacuity -/
example : ∃ (crl : CRL) (c : Cache), c = firstWins crl.entries :=
  ⟨⟨1, 0, 0, none, [], [⟨7, 100⟩, ⟨-3, 5⟩, ⟨7, 200⟩], []⟩, _, rfl⟩
example : firstListed [⟨7, 100⟩, ⟨-3, 5⟩, ⟨7, 200⟩] 7 = some ⟨7, 100⟩ := by decide
example : ∀ k : Key, ((lastWins [⟨7, 100⟩, ⟨7, 200⟩]).get k).isSome = true ↔
    ∃ e ∈ ([⟨7, 100⟩, ⟨7, 200⟩] : List Entry), decChars e.serial = k := lastWins_keys _
example : (check ⟨1, 0, 0, none, [], [], [⟨[2, 5, 29, 20], false, [2, 1, 5]⟩]⟩ 1 none).crlNumber ≠ 0 := by
  have h : (check ⟨1, 0, 0, none, [], [], [⟨[2, 5, 29, 20], false, [2, 1, 5]⟩]⟩ 1 none).crlNumber = crlNumberOf _ 0 :=
    (ext_classification ⟨1, 0, 0, none, [], [], [⟨[2, 5, 29, 20], false, [2, 1, 5]⟩]⟩ 1 none).2.2
  rw [h]
  have hd := derInt_short_form [5] [] (by decide) (by decide)
  have : crlNumberOf [⟨[2, 5, 29, 20], false, [2, 1, 5]⟩] 0 = 5 := by
    simp only [crlNumberOf, List.filter, isNum, crlNumberOID, decide_true, List.getLast?_singleton, numOf]
    rw [show ([2, 1, 5] : Bytes) = 2 :: UInt8.ofNat ([5] : Bytes).length :: ([5] ++ []) from rfl, hd]
    simp [ZV.C18.sval]
  rw [this]; decide

end ZV.C14
