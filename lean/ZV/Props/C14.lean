import ZV.Model.C14
import ZV.Proofs.C14
/-!
  C14 — CRL revocation lookup reports exactly the listed serials.

  `check crl serial cache` is the branch-for-branch model of `CheckCRLForCert`
  (`cache = none` ⇒ linear search; `some m` ⇒ map lookup by the serial's decimal string).
-/
namespace ZV.C14

/-- the entry the property speaks about: the FIRST listed entry with the queried serial -/
def firstListed (entries : List Entry) (serial : Int) : Option Entry :=
  entries.find? (fun e => decide (e.serial = serial))

/-! ### linear search -/

/-- revoked exactly when the serial appears among the revoked entries -/
theorem check_linear_iff (crl : CRL) (serial : Int) :
    (check crl serial none).isRevoked = true ↔ ∃ e ∈ crl.entries, e.serial = serial := by
  simp only [check, search_spec, gather_spec, header]
  cases h : crl.entries.find? (fun e => decide (e.serial = serial)) with
  | some e =>
    have := List.find?_some h
    have hm := List.mem_of_find?_eq_some h
    simp only [true_iff]
    exact ⟨e, hm, by simpa using this⟩
  | none =>
    simp only [List.find?_eq_none, decide_eq_true_eq] at h
    simp only [Bool.false_eq_true, false_iff, not_exists, not_and]
    exact h

/-- … with the revocation time of the first such entry (and the zero time when there is none) -/
theorem check_linear_time (crl : CRL) (serial : Int) :
    (check crl serial none).revTime = (firstListed crl.entries serial).map (·.time) := by
  simp only [check, search_spec, gather_spec, header, firstListed]
  cases crl.entries.find? (fun e => decide (e.serial = serial)) <;> rfl

/-- "first": nothing before the reported entry carries the serial -/
theorem firstListed_is_first (entries : List Entry) (serial : Int) (e : Entry)
    (h : firstListed entries serial = some e) :
    e.serial = serial ∧ ∃ pre post, entries = pre ++ e :: post ∧ ∀ x ∈ pre, x.serial ≠ serial := by
  unfold firstListed at h
  obtain ⟨h1, pre, post, h2, h3⟩ := List.find?_eq_some_iff_append.mp h
  exact ⟨by simpa using h1, pre, post, h2, fun x hx => by simpa using h3 x hx⟩

/-! ### the cache path -/

/-- a map filled first-wins from the entry list answers every lookup with the first listed entry -/
theorem firstWins_get (entries : List Entry) (serial : Int) :
    (firstWins entries).get serial = firstListed entries serial := by
  rw [firstWins_eq, fw_fold_get]; rfl

/-- Supplying a cache built (first-wins) from the same entries gives the same result as the linear
    search — the whole RevocationData, in particular the revoked flag and the time. -/
theorem cache_agrees (crl : CRL) (serial : Int) (cache : Cache) (h : cache = firstWins crl.entries) :
    check crl serial (some cache) = check crl serial none := by
  subst h
  simp only [check, firstWins_get, search_spec, firstListed]
  cases crl.entries.find? (fun e => decide (e.serial = serial)) <;> rfl

/-- For ANY cache whose key set is the set of listed serials (whatever entry it keeps per serial) the
    revoked flag agrees with the linear search. -/
theorem cache_flag_agrees (crl : CRL) (serial : Int) (cache : Cache)
    (h : ∀ k, (cache.get k).isSome = true ↔ ∃ e ∈ crl.entries, e.serial = k) :
    (check crl serial (some cache)).isRevoked = (check crl serial none).isRevoked := by
  have hl := check_linear_iff crl serial
  have hk := h serial
  cases hc : (check crl serial none).isRevoked with
  | true =>
    have := hk.mpr (hl.mp hc)
    simp only [check, gather_spec, header]
    cases hg : cache.get serial with
    | some v => rfl
    | none => simp [hg] at this
  | false =>
    have hn : ¬ ∃ e ∈ crl.entries, e.serial = serial := fun hx => by simp [hl.mpr hx] at hc
    have : (cache.get serial).isSome ≠ true := fun hx => hn (hk.mp hx)
    simp only [check, gather_spec, header]
    cases hg : cache.get serial with
    | some v => simp [hg] at this
    | none => rfl

/-- the construction used by crl_test.go (plain overwrite, last wins) keeps the LAST listed entry … -/
theorem lastWins_get (entries : List Entry) (serial : Int) :
    (lastWins entries).get serial = entries.reverse.find? (fun e => decide (e.serial = serial)) := by
  unfold lastWins
  rw [lw_fold_get]
  cases entries.reverse.find? (fun e => decide (e.serial = serial)) <;> rfl

/-- … so it has the same flag … -/
theorem lastWins_flag_agrees (crl : CRL) (serial : Int) :
    (check crl serial (some (lastWins crl.entries))).isRevoked = (check crl serial none).isRevoked := by
  apply cache_flag_agrees
  intro k
  rw [lastWins_get]
  constructor
  · intro h
    cases hf : crl.entries.reverse.find? (fun e => decide (e.serial = k)) with
    | none => simp [hf] at h
    | some e =>
      exact ⟨e, by simpa using List.mem_of_find?_eq_some hf, by simpa using List.find?_some hf⟩
  · rintro ⟨e, he, hk⟩
    rw [Option.isSome_iff_ne_none]
    intro hn
    simp only [List.find?_eq_none, List.mem_reverse, decide_eq_true_eq] at hn
    exact hn e he hk

/-- … but, with a serial listed twice, not the same time: the sentence about the time needs first-wins. -/
theorem lastWins_time_counterexample :
    ∃ (crl : CRL) (serial : Int),
      (check crl serial (some (lastWins crl.entries))).revTime ≠ (check crl serial none).revTime :=
  ⟨⟨1, 0, 0, [], [], [⟨7, 100⟩, ⟨7, 200⟩], []⟩, 7, by decide⟩

/-! ### extension classification -/

/-- critical and non-critical unknown extensions are the order-preserving filters of the CRL's extension
    list; the CRL number is the decoded value of the last CRL-number extension (0 if undecodable or absent) -/
theorem ext_classification (crl : CRL) (serial : Int) (cache : Option Cache) :
    let r := check crl serial cache
    r.unknownCritical = crl.exts.filter (fun e => !isNum e && e.critical) ∧
    r.unknown = crl.exts.filter (fun e => !isNum e && !e.critical) ∧
    r.crlNumber = crlNumberOf crl.exts 0 := by
  have hs : ∀ (es : List Entry) (ret : RevData),
      (search es serial ret).unknownCritical = ret.unknownCritical ∧ (search es serial ret).unknown = ret.unknown ∧
      (search es serial ret).crlNumber = ret.crlNumber := by
    intro es ret; rw [search_spec]; cases es.find? (fun e => decide (e.serial = serial)) <;> simp
  cases cache with
  | none =>
    simp only [check]
    obtain ⟨h1, h2, h3⟩ := hs crl.entries (gather crl.exts (header crl))
    rw [h1, h2, h3, gather_spec]
    simp [header]
  | some m =>
    simp only [check]
    cases m.get serial <;> (rw [gather_spec]; simp [header])

/-- nothing is lost, nothing is duplicated: every extension is either a CRL-number extension or lands in
    exactly the list matching its critical flag; and the two lists are sublists (order preserved) -/
theorem ext_partition (crl : CRL) (serial : Int) (cache : Option Cache) :
    let r := check crl serial cache
    (∀ e ∈ crl.exts, e.oid = crlNumberOID ∨ (e.critical = true ∧ e ∈ r.unknownCritical) ∨ (e.critical = false ∧ e ∈ r.unknown)) ∧
    (∀ e ∈ r.unknownCritical, e ∈ crl.exts ∧ e.critical = true ∧ e.oid ≠ crlNumberOID) ∧
    (∀ e ∈ r.unknown, e ∈ crl.exts ∧ e.critical = false ∧ e.oid ≠ crlNumberOID) ∧
    r.unknownCritical.Sublist crl.exts ∧ r.unknown.Sublist crl.exts ∧
    r.unknownCritical.length + r.unknown.length + (crl.exts.filter isNum).length = crl.exts.length := by
  obtain ⟨h1, h2, _⟩ := ext_classification crl serial cache
  simp only at h1 h2 ⊢
  rw [h1, h2]
  refine ⟨?_, ?_, ?_, List.filter_sublist, List.filter_sublist, ?_⟩
  · intro e he
    by_cases hn : e.oid = crlNumberOID
    · exact Or.inl hn
    · right
      cases hc : e.critical with
      | true => left; simp [List.mem_filter, he, hc, isNum, hn]
      | false => right; simp [List.mem_filter, he, hc, isNum, hn]
  · intro e he
    simp only [List.mem_filter, Bool.and_eq_true, Bool.not_eq_eq_eq_not, Bool.not_true, isNum, decide_eq_false_iff_not] at he
    exact ⟨he.1, he.2.2, he.2.1⟩
  · intro e he
    simp only [List.mem_filter, Bool.and_eq_true, Bool.not_eq_eq_eq_not, Bool.not_true, isNum, decide_eq_false_iff_not] at he
    exact ⟨he.1, he.2.2, he.2.1⟩
  · induction crl.exts with
    | nil => simp
    | cons e rest ih =>
      simp only [List.filter_cons, List.length_cons]
      cases isNum e <;> cases e.critical <;> simp <;> omega

/-! ### CRL number decoding -/

/-- A CRL-number extension value in DER short form — tag 02, one length byte, 1..8 minimal content bytes, then
    anything — decodes to the two's-complement integer of the content (and `numOf` is that integer). -/
theorem derInt_short_form (c tail : Bytes) (h1 : 1 ≤ c.length) (h8 : c.length ≤ 8) (hmin : checkInteger c = true) :
    derInt (2 :: UInt8.ofNat c.length :: (c ++ tail)) = some (twos c) := by
  have hl : (UInt8.ofNat c.length).toNat = c.length := by
    rw [UInt8.toNat_ofNat']; omega
  have h2 : (2 : UInt8).toNat = 2 := rfl
  simp only [derInt, h2, ne_eq, not_true_eq_false, if_false, parseLen, hl]
  have hlt : c.length < 128 := by omega
  simp only [hlt, if_true]
  have : ¬ (c.length > (c ++ tail).length) := by simp
  simp only [this, if_false, List.take_left' rfl, hmin, Bool.not_true, Bool.false_eq_true]
  have : ¬ (c.length > 8) := by omega
  simp [this]

example : derInt [2, 2, 1, 44, 99] = some 300 := by decide
example : derInt [2, 1, 255] = some (-1) := by decide
example : checkInteger [0, 5] = false := by decide

/-! ### copied header -/

theorem header_copied (crl : CRL) (serial : Int) (cache : Option Cache) :
    let r := check crl serial cache
    r.sig = crl.sig ∧ r.version = crl.version ∧ r.thisUpdate = crl.thisUpdate ∧ r.nextUpdate = crl.nextUpdate ∧
    r.issuerRDNs = crl.issuer ∧ r.issuerNames = crl.issuer.flatten := by
  cases cache with
  | none =>
    simp only [check, search_spec, gather_spec, header, fillNames]
    cases crl.entries.find? (fun e => decide (e.serial = serial)) <;> simp
  | some m =>
    simp only [check, gather_spec, header, fillNames]
    cases m.get serial <;> simp

/-! ### repeated lookups on one CertificateList (inputs are only read) -/

/-- lookup `i` of a sequence made on one CRL object is the single lookup on the original CRL value -/
theorem checkSeq_index (crl : CRL) (qs : List (Int × Option Cache)) (i : Nat) :
    (checkSeq crl qs)[i]? = qs[i]?.map (fun q => check crl q.1 q.2) := by
  simp [checkSeq]

/-- every lookup of a sequence reports the same CRL number, the same two extension lists and the same copied
    header as any other one (in particular as the first): they depend on the CRL alone, not on the query, the cache
    or on what was looked up before -/
theorem checkSeq_crl_part_stable (crl : CRL) (qs : List (Int × Option Cache)) :
    ∀ r ∈ checkSeq crl qs, ∀ r' ∈ checkSeq crl qs,
      r.crlNumber = r'.crlNumber ∧ r.unknown = r'.unknown ∧ r.unknownCritical = r'.unknownCritical ∧
      r.sig = r'.sig ∧ r.version = r'.version ∧ r.thisUpdate = r'.thisUpdate ∧ r.nextUpdate = r'.nextUpdate ∧
      r.issuerRDNs = r'.issuerRDNs ∧ r.issuerNames = r'.issuerNames := by
  intro r hr r' hr'
  simp only [checkSeq, List.mem_map] at hr hr'
  obtain ⟨q, _, rfl⟩ := hr
  obtain ⟨q', _, rfl⟩ := hr'
  obtain ⟨a1, a2, a3⟩ := ext_classification crl q.1 q.2
  obtain ⟨b1, b2, b3⟩ := ext_classification crl q'.1 q'.2
  obtain ⟨c1, c2, c3, c4, c5, c6⟩ := header_copied crl q.1 q.2
  obtain ⟨d1, d2, d3, d4, d5, d6⟩ := header_copied crl q'.1 q'.2
  refine ⟨by rw [a3, b3], by rw [a2, b2], by rw [a1, b1], by rw [c1, d1], by rw [c2, d2], by rw [c3, d3],
    by rw [c4, d4], by rw [c5, d5], by rw [c6, d6]⟩

example : (checkSeq ⟨1, 0, 0, [], [], [⟨7, 100⟩], [⟨[2, 5, 29, 20], false, [2, 2, 13, 197]⟩, ⟨[2, 5, 29, 28], true, [48, 0]⟩,
    ⟨[2, 5, 29, 35], false, [48, 0]⟩]⟩ [(7, none), (6, none), (7, some [])]).map (fun r => (r.isRevoked, r.crlNumber, r.unknown.length)) =
    [(true, 3525, 1), (false, 3525, 1), (false, 3525, 1)] := by decide

/-! ### non-vacuity -/
example : ∃ (crl : CRL) (c : Cache), c = firstWins crl.entries ∧ c ≠ [] :=
  ⟨⟨1, 0, 0, [], [], [⟨7, 100⟩, ⟨-3, 5⟩, ⟨7, 200⟩], []⟩, [(7, ⟨7, 100⟩), (-3, ⟨-3, 5⟩)], by decide, by decide⟩
example : firstListed [⟨7, 100⟩, ⟨-3, 5⟩, ⟨7, 200⟩] 7 = some ⟨7, 100⟩ := by decide
example : ∀ k, ((lastWins [⟨7, 100⟩, ⟨7, 200⟩]).get k).isSome = true ↔ ∃ e ∈ ([⟨7, 100⟩, ⟨7, 200⟩] : List Entry), e.serial = k := by
  intro k
  by_cases h : k = 7
  · subst h; simp; decide
  · have h' : ¬ (7 : Int) = k := fun x => h x.symm
    simp [lastWins, Cache.set, Cache.get, h']

end ZV.C14
