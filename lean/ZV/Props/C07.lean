import ZV.Model.C07
import ZV.Proofs.C07
import ZV.Props.C09
/-!
  C07 — chain verification returns only valid chains and partitions them by date.

  `ValidChain env leaf chain` (inductive, `ZV.Proofs.C07`) spells the property's sentence:
  the chain is the verified certificate alone when that certificate is itself a root, or
  leaf :: intermediates ++ [root] where every link satisfies `checkSignatureFrom`
  (issuer name = subject name ∧ signature verifies ∧ CA/key-usage gates, see
  `checkSignatureFrom_spec`), every intermediate is a CA certificate from the intermediates
  pool within its path-length limit, the last element is a member of the roots pool, and no
  certificate is repeated (subject+key for intermediates, raw bytes for the root).

  * `verify_sound`            every chain returned by the MEMOISED builder is a `ValidChain` and
                              satisfies the requested extended key usages — via the invariant
                              "every chain stored in the cache is valid" (`buildChains_sound`);
  * `validChain_*`            the flat reading of `ValidChain` (head, last, links, intermediates, no repeats);
  * `filterByDate_no_panic`   the `valid && !wasValid` panic branch is unreachable;
  * `filterByDate_partition`  current / expired / never are exactly the chains whose common window
                              (max NotBefore, min NotAfter) strictly contains `now` / is non-empty but does
                              not / is empty (`lowerBound_spec`, `upperBound_spec`);
  * `nil_error_implies`       nil error ⇒ at least one current chain ∧ the DNS name matched when requested.
-/
namespace ZV.C07

/-! ### the link relation -/

/-- what a successful `CheckSignatureFrom` means -/
theorem checkSignatureFrom_spec (env : Env) (c parent : Cert) (h : checkSignatureFrom env c parent = true) :
    parent.subject = c.issuer ∧ env.sigOK c parent = true ∧
    ¬ (parent.version3 = true ∧ parent.bcValid = false) ∧ ¬ (parent.bcValid = true ∧ parent.isCA = false) ∧
    ¬ (parent.kuPresent = true ∧ parent.kuCertSign = false) := by
  unfold checkSignatureFrom at h
  split at h
  · cases h
  · rename_i h1
    split at h
    · cases h
    · rename_i h2
      split at h
      · cases h
      · rename_i h3
        simp only [Bool.or_eq_true, Bool.and_eq_true, Bool.not_eq_true', not_or, not_and, Bool.not_eq_false] at h1 h2
        simp only [ne_eq, Decidable.not_not] at h3
        refine ⟨h3, h, ?_, ?_, ?_⟩
        · rintro ⟨a, b⟩; have := h1.1 a; rw [b] at this; cases this
        · rintro ⟨a, b⟩; have := h1.2 a; rw [b] at this; cases this
        · rintro ⟨a, b⟩; have := h2 a; rw [b] at this; cases this

/-! ### flat reading of ValidChain -/

theorem prefix_head {env leaf cur c} (h : Prefix env leaf cur c) : cur.head? = some leaf := by
  induction h with
  | leaf => rfl
  | @step cur0 c0 x0 hp _ _ _ _ _ _ _ ih =>
    cases cur0 with
    | nil => exact absurd rfl (prefix_ne_nil hp)
    | cons a t => simpa using ih

theorem prefix_last {env leaf cur c} (h : Prefix env leaf cur c) : cur.getLast? = some c := by
  cases h with
  | leaf => rfl
  | step _ _ _ _ _ _ _ _ => simp

/-- the chain starts at the verified certificate -/
theorem validChain_head {env leaf ch} (h : ValidChain env leaf ch) : ch.head? = some leaf := by
  cases h with
  | trusted _ => rfl
  | @close cur c0 root hp _ _ _ _ =>
    have := prefix_head hp
    cases cur with
    | nil => exact absurd rfl (prefix_ne_nil hp)
    | cons a t => simpa using this

/-- the chain ends at a certificate of the supplied roots (by fingerprint) -/
theorem validChain_last_root {env leaf ch} (h : ValidChain env leaf ch) :
    ∃ r last, ch.getLast? = some last ∧ r ∈ env.roots ∧ r.id = last.id := by
  cases h with
  | trusted hc =>
    obtain ⟨r, hr, e⟩ := List.any_eq_true.mp hc
    exact ⟨r, leaf, rfl, hr, by simpa using e⟩
  | @close cur c0 root _ hr _ _ _ =>
    exact ⟨root, root, by simp, hr, rfl⟩

/-- adjacent certificates of a list -/
def Adjacent (a b : Cert) : Chain → Prop
  | x :: y :: rest => (a = x ∧ b = y) ∨ Adjacent a b (y :: rest)
  | _ => False

theorem adjacent_append_single (a b : Cert) (l : Chain) (x : Cert) (h : Adjacent a b (l ++ [x])) :
    Adjacent a b l ∨ (l.getLast? = some a ∧ b = x) := by
  induction l with
  | nil => simp [Adjacent] at h
  | cons y l ih =>
    cases l with
    | nil =>
      simp only [List.cons_append, List.nil_append, Adjacent, or_false] at h
      right; simp [h.1, h.2]
    | cons z l' =>
      simp only [List.cons_append, Adjacent] at h
      rcases h with h | h
      · left; simp only [Adjacent]; exact Or.inl h
      · rcases ih (by simpa using h) with r | r
        · left; simp only [Adjacent]; exact Or.inr r
        · right; simpa using r

theorem prefix_links {env leaf cur c} (h : Prefix env leaf cur c) :
    ∀ a b, Adjacent a b cur → checkSignatureFrom env a b = true := by
  induction h with
  | leaf => intro a b hab; simp [Adjacent] at hab
  | @step cur0 c0 x0 hp _ _ hs _ _ _ _ ih =>
    intro a b hab
    rcases adjacent_append_single a b _ _ hab with r | ⟨r1, r2⟩
    · exact ih a b r
    · have := prefix_last hp
      rw [this] at r1; cases r1; subst r2; exact hs

/-- every certificate is linked to the next one: issuer name, valid signature, CA gates. -/
theorem validChain_links {env leaf ch} (h : ValidChain env leaf ch) :
    ∀ a b, Adjacent a b ch → b.subject = a.issuer ∧ env.sigOK a b = true := by
  intro a b hab
  have key : checkSignatureFrom env a b = true := by
    cases h with
    | trusted _ => simp [Adjacent] at hab
    | @close cur c0 root hp _ hs _ _ =>
      rcases adjacent_append_single a b _ _ hab with r | ⟨r1, r2⟩
      · exact prefix_links hp a b r
      · have := prefix_last hp
        rw [this] at r1; cases r1; subst r2; exact hs
  have := checkSignatureFrom_spec env a b key
  exact ⟨this.1, this.2.1⟩

theorem prefix_intermediates {env leaf cur c} (h : Prefix env leaf cur c) :
    ∀ x ∈ cur.drop 1, x ∈ env.inters ∧ x.bcValid = true ∧ x.isCA = true := by
  induction h with
  | leaf => intro x hx; simp at hx
  | @step cur0 c0 x0 hp hi _ _ hb hc _ _ ih =>
    intro x hx
    have hne := prefix_ne_nil hp
    cases cur0 with
    | nil => exact absurd rfl hne
    | cons a t =>
      simp only [List.cons_append, List.drop_succ_cons, List.drop_zero, List.mem_append, List.mem_cons,
        List.not_mem_nil, or_false] at hx
      rcases hx with hx | hx
      · exact ih x (by simpa using hx)
      · subst hx; exact ⟨hi, hb, hc⟩

/-- everything strictly between the verified certificate and the root is a CA certificate
    taken from the intermediates pool. -/
theorem validChain_intermediates {env leaf ch} (h : ValidChain env leaf ch) :
    ∀ x ∈ (ch.drop 1).dropLast, x ∈ env.inters ∧ x.bcValid = true ∧ x.isCA = true := by
  cases h with
  | trusted _ => intro x hx; simp at hx
  | @close cur c0 root hp _ _ _ _ =>
    intro x hx
    have hne := prefix_ne_nil hp
    cases cur with
    | nil => exact absurd rfl hne
    | cons a t =>
      simp only [List.cons_append, List.drop_succ_cons, List.drop_zero, List.dropLast_concat] at hx
      exact prefix_intermediates hp x (by simpa using hx)

/-- the root is not (by raw bytes) any earlier certificate of the chain. -/
theorem validChain_root_fresh {env leaf cur c root}
    (_ : Prefix env leaf cur c) (hf : certificateInChain cur root = false) : ∀ x ∈ cur, x.id ≠ root.id := by
  intro x hx e
  have : certificateInChain cur root = true := List.any_eq_true.mpr ⟨x, hx, by simpa using e⟩
  rw [hf] at this; cases this

/-! ### soundness of Verify -/

/-- the chains handed to the key-usage filter are valid -/
theorem candidates_valid (env : Env) (c : Cert) : AllValid env c (candidateChains env c).1 := by
  unfold candidateChains
  split
  · rename_i h
    intro ch hch
    simp only [List.mem_cons, List.not_mem_nil, or_false] at hch
    subst hch
    exact ValidChain.trusted h
  · exact (buildChains_sound env c fuel0 (fun _ => none) c [c] (fun k chs h => by cases h) Prefix.leaf).1

theorem filterUsage_mem (cands : List Chain) (kus : List Int) (ch : Chain) (h : ch ∈ filterUsage cands kus) :
    ch ∈ cands ∧ (kus.any (fun u => u = ekuAny) = true ∨ checkChainForKeyUsage ch kus = true) := by
  unfold filterUsage at h
  split at h
  · rename_i hany; exact ⟨h, Or.inl hany⟩
  · obtain ⟨r1, r2⟩ := List.mem_filter.mp h
    exact ⟨r1, Or.inr r2⟩

theorem finish_lists (d : Dated) (hostCert : C09.Cert) (opts : Opts) (o : Out) (h : finish d hostCert opts = .ok o) :
    o.current = d.current ∧ o.expired = d.expired ∧ o.never = d.never := by
  unfold finish at h
  split at h
  · cases h; exact ⟨rfl, rfl, rfl⟩
  · split at h
    · split at h <;> first | (cases h; exact ⟨rfl, rfl, rfl⟩) | cases h
    · cases h; exact ⟨rfl, rfl, rfl⟩

/-- `verify_sound`: every chain in any of the three result lists is a `ValidChain` for the
    verified certificate and the supplied pools, and satisfies the requested extended key usages
    (`ExtKeyUsageAny` requested, or `checkChainForKeyUsage` with the defaulted usage list holds). -/
theorem verify_sound (env : Env) (c : Cert) (hostCert : C09.Cert) (opts : Opts) (o : Out)
    (h : verify env c hostCert opts = .ok o) :
    ∀ ch ∈ o.current ++ o.expired ++ o.never,
      ValidChain env c ch ∧
      ((usagesOf opts).any (fun u => u = ekuAny) = true ∨ checkChainForKeyUsage ch (usagesOf opts) = true) := by
  unfold verify at h
  split at h
  · cases h; intro ch hch; simp [errOut] at hch
  · split at h
    · cases h; intro ch hch; simp [errOut] at hch
    · simp only at h
      split at h
      · cases h; intro ch hch; simp [errOut] at hch
      · split at h
        · cases h
        · cases h
        · rename_i d hd
          obtain ⟨e1, e2, e3⟩ := finish_lists d hostCert opts o h
          intro ch hch
          rw [e1, e2, e3] at hch
          rcases filterByDate_mem _ _ _ _ hd ch hch with r | r
          · simp at r
          · obtain ⟨r1, r2⟩ := filterUsage_mem _ _ _ r
            exact ⟨candidates_valid env c ch r1, r2⟩

/-! ### FilterByDate -/

/-- the `valid && !wasValid` branch ("Math/logic tells us this is impossible") is indeed unreachable. -/
theorem filterByDate_no_panic (now : Int) (chains : List Chain) (acc : Dated) :
    ∃ d, filterByDate now chains acc = .ok d := by
  induction chains generalizing acc with
  | nil => exact ⟨acc, rfl⟩
  | cons c chains ih =>
    cases c with
    | nil => simp only [filterByDate]; exact ih acc
    | cons leaf rest =>
      simp only [filterByDate]
      split
      · rename_i hbad
        simp only [Bool.and_eq_true, decide_eq_true_eq, Bool.not_eq_true', decide_eq_false_iff_not] at hbad
        omega
      · split
        · exact ih _
        · split
          · exact ih _
          · exact ih _

/-- the folded bounds are the maximum NotBefore / minimum NotAfter of the chain -/
theorem lowerBound_spec (leaf : Cert) (rest : Chain) :
    (∀ c ∈ leaf :: rest, c.notBefore ≤ lowerBound leaf rest) ∧ ∃ c ∈ leaf :: rest, c.notBefore = lowerBound leaf rest := by
  unfold lowerBound
  suffices H : ∀ (init : Int) (seen : Chain), (∀ c ∈ seen, c.notBefore ≤ init) → (∃ c ∈ seen, c.notBefore = init) →
      (∀ c ∈ seen ++ rest, c.notBefore ≤ rest.foldl (fun lb c => if lb > c.notBefore then lb else c.notBefore) init) ∧
      ∃ c ∈ seen ++ rest, c.notBefore = rest.foldl (fun lb c => if lb > c.notBefore then lb else c.notBefore) init by
    simpa using H leaf.notBefore [leaf] (by simp) ⟨leaf, by simp, rfl⟩
  induction rest with
  | nil => intro init seen h1 h2; simpa using ⟨h1, h2⟩
  | cons x rest ih =>
    intro init seen h1 h2
    simp only [List.foldl_cons]
    have := ih (if init > x.notBefore then init else x.notBefore) (seen ++ [x]) (by
      intro c hc
      rcases List.mem_append.mp hc with hc | hc
      · have := h1 c hc; split <;> omega
      · simp only [List.mem_cons, List.not_mem_nil, or_false] at hc; subst hc; split <;> omega) (by
      split
      · obtain ⟨c, hc, e⟩ := h2; exact ⟨c, List.mem_append_left _ hc, e⟩
      · exact ⟨x, by simp, rfl⟩)
    simpa [List.append_assoc] using this

theorem upperBound_spec (leaf : Cert) (rest : Chain) :
    (∀ c ∈ leaf :: rest, upperBound leaf rest ≤ c.notAfter) ∧ ∃ c ∈ leaf :: rest, c.notAfter = upperBound leaf rest := by
  unfold upperBound
  suffices H : ∀ (init : Int) (seen : Chain), (∀ c ∈ seen, init ≤ c.notAfter) → (∃ c ∈ seen, c.notAfter = init) →
      (∀ c ∈ seen ++ rest, rest.foldl (fun ub c => if ub < c.notAfter then ub else c.notAfter) init ≤ c.notAfter) ∧
      ∃ c ∈ seen ++ rest, c.notAfter = rest.foldl (fun ub c => if ub < c.notAfter then ub else c.notAfter) init by
    simpa using H leaf.notAfter [leaf] (by simp) ⟨leaf, by simp, rfl⟩
  induction rest with
  | nil => intro init seen h1 h2; simpa using ⟨h1, h2⟩
  | cons x rest ih =>
    intro init seen h1 h2
    simp only [List.foldl_cons]
    have := ih (if init < x.notAfter then init else x.notAfter) (seen ++ [x]) (by
      intro c hc
      rcases List.mem_append.mp hc with hc | hc
      · have := h1 c hc; split <;> omega
      · simp only [List.mem_cons, List.not_mem_nil, or_false] at hc; subst hc; split <;> omega) (by
      split
      · obtain ⟨c, hc, e⟩ := h2; exact ⟨c, List.mem_append_left _ hc, e⟩
      · exact ⟨x, by simp, rfl⟩)
    simpa [List.append_assoc] using this

/-- position of `now` w.r.t. the chain's common window (max NotBefore, min NotAfter), with the
    code's strict comparisons: 0 = strictly inside, 1 = window non-empty but `now` not strictly
    inside (expired OR not yet valid), 2 = window empty; empty chains have no class. -/
def classOf (now : Int) : Chain → Option Nat
  | [] => none
  | leaf :: rest =>
    let lo := lowerBound leaf rest
    let hi := upperBound leaf rest
    if lo < now ∧ now < hi then some 0 else if lo < hi then some 1 else some 2

/-- `filterByDate_partition`: each (non-empty) chain lands in exactly one class, determined by
    `classOf`; the classes keep the input order. -/
theorem filterByDate_partition (now : Int) (chains : List Chain) (acc : Dated) :
    filterByDate now chains acc = .ok
      { current := acc.current ++ chains.filter (fun ch => classOf now ch = some 0)
        expired := acc.expired ++ chains.filter (fun ch => classOf now ch = some 1)
        never := acc.never ++ chains.filter (fun ch => classOf now ch = some 2) } := by
  induction chains generalizing acc with
  | nil => simp [filterByDate]
  | cons c chains ih =>
    cases c with
    | nil => simp only [filterByDate]; rw [ih]; simp [classOf]
    | cons leaf rest =>
      simp only [filterByDate]
      by_cases h1 : lowerBound leaf rest < now ∧ now < upperBound leaf rest
      · have hw : lowerBound leaf rest < upperBound leaf rest := by omega
        simp only [h1.1, h1.2, hw, decide_true, Bool.and_self, Bool.not_true, Bool.and_false, Bool.false_eq_true,
          if_false, if_true]
        rw [ih]
        simp [classOf, h1.1, h1.2]
      · by_cases hw : lowerBound leaf rest < upperBound leaf rest
        · have hv : (decide (lowerBound leaf rest < now) && decide (now < upperBound leaf rest)) = false := by
            cases hdv : (decide (lowerBound leaf rest < now) && decide (now < upperBound leaf rest)) with
            | false => rfl
            | true => simp only [Bool.and_eq_true, decide_eq_true_eq] at hdv; exact absurd hdv h1
          simp only [hv, hw, decide_true, Bool.false_and, Bool.false_eq_true, if_false, if_true]
          rw [ih]
          simp [classOf, h1, hw]
        · have hv : (decide (lowerBound leaf rest < now) && decide (now < upperBound leaf rest)) = false := by
            cases hdv : (decide (lowerBound leaf rest < now) && decide (now < upperBound leaf rest)) with
            | false => rfl
            | true => simp only [Bool.and_eq_true, decide_eq_true_eq] at hdv; exact absurd hdv h1
          simp only [hv, hw, decide_false, Bool.false_and, Bool.false_eq_true, if_false]
          rw [ih]
          simp [classOf, h1, hw]

/-! ### nil error -/

theorem finish_nil (d : Dated) (hostCert : C09.Cert) (opts : Opts) (o : Out)
    (h : finish d hostCert opts = .ok o) (hnil : o.err = none) :
    (d.current ≠ [] ∨ (d.expired = [] ∧ d.never = [])) ∧
    (d.current ≠ [] → opts.dnsName ≠ [] → C09.verifyHostname hostCert opts.dnsName = .ok .accept) := by
  unfold finish at h
  split at h
  · rename_i hcur
    have hc : d.current = [] := List.length_eq_zero_iff.mp hcur
    cases h
    simp only at hnil
    refine ⟨Or.inr ?_, fun hne => absurd hc hne⟩
    split at hnil
    · cases hnil
    · split at hnil
      · cases hnil
      · rename_i he hn
        exact ⟨List.length_eq_zero_iff.mp (by omega), List.length_eq_zero_iff.mp (by omega)⟩
  · rename_i hcur
    have hcur' : d.current ≠ [] := fun e => hcur (by simp [e])
    refine ⟨Or.inl hcur', fun _ hdns => ?_⟩
    split at h
    · split at h
      · rename_i hacc; exact hacc
      · cases h; cases hnil
      · cases h
      · cases h
    · rename_i hl
      exfalso; apply hl
      cases hd' : opts.dnsName with
      | nil => exact absurd hd' hdns
      | cons _ _ => simp

/-- a nil error implies at least one current chain, and — when a DNS name was requested —
    that `VerifyHostname` accepted it, i.e. the C09 specification `HostSpec` holds. -/
theorem nil_error_implies (env : Env) (c : Cert) (hostCert : C09.Cert) (opts : Opts) (o : Out)
    (h : verify env c hostCert opts = .ok o) (hnil : o.err = none) :
    o.current ≠ [] ∧ (opts.dnsName ≠ [] → C09.HostSpec hostCert opts.dnsName) := by
  unfold verify at h
  split at h
  · cases h; cases hnil
  · split at h
    · cases h; cases hnil
    · simp only at h
      split at h
      · cases h; cases hnil
      · rename_i hne
        split at h
        · cases h
        · cases h
        · rename_i d hd
          obtain ⟨e1, _, _⟩ := finish_lists d hostCert opts o h
          obtain ⟨f1, f2⟩ := finish_nil d hostCert opts o h hnil
          have hcur : d.current ≠ [] := by
            rcases f1 with f1 | ⟨fe, fn⟩
            · exact f1
            · -- all three classes empty contradicts: every filtered candidate chain is non-empty
              intro hc
              exfalso
              have hcount := filterByDate_count _ _ _ _ hd
              simp only [hc, fe, fn, List.length_nil, Nat.add_zero] at hcount
              have hall : (List.filter (fun ch => !ch.isEmpty) (filterUsage (candidateChains env c).1 (usagesOf opts))).length
                  = (filterUsage (candidateChains env c).1 (usagesOf opts)).length := by
                rw [List.filter_eq_self.mpr]
                intro ch hch
                have := validChain_ne_nil (candidates_valid env c ch (filterUsage_mem _ _ _ hch).1)
                cases ch with
                | nil => exact absurd rfl this
                | cons _ _ => rfl
              omega
          rw [e1]
          exact ⟨hcur, fun hdns => (C09.verifyHostname_iff _ _).mp (f2 hcur hdns)⟩

/-! ### non-vacuity -/

-- a two-certificate PKI: leaf 1 issued by self-signed root 0; the chain [leaf, root] is found and is current
def exRoot : Cert :=
  { uid := 0, id := 1, subject := 1, issuer := 1, spki := 1, skid := 1, akid := 0, version3 := true,
    bcValid := true, isCA := true, maxPathLen := -1, kuPresent := false, kuCertSign := false, selfSigned := true,
    eku := [], unknownEku := false, notBefore := 0, notAfter := 100 }
def exLeaf : Cert :=
  { uid := 1, id := 2, subject := 2, issuer := 1, spki := 2, skid := 0, akid := 1, version3 := true,
    bcValid := false, isCA := false, maxPathLen := -1, kuPresent := false, kuCertSign := false, selfSigned := false,
    eku := [1], unknownEku := false, notBefore := 10, notAfter := 50 }
def exEnv : Env := { roots := [exRoot], inters := [], sigOK := fun a b => decide (a.uid = 1 ∧ b.uid = 0) }

example :
    (verify exEnv exLeaf { extOids := [], dnsNames := [], ipAddresses := [], commonName := [] }
        { now := 20, keyUsages := [], dnsName := [] }).map (fun o => (o.current.map (·.map (·.uid)), o.err))
      = .ok ([[1, 0]], none) := by decide

example : ValidChain exEnv exLeaf [exLeaf, exRoot] :=
  ValidChain.close (cur := [exLeaf]) Prefix.leaf (by simp [exEnv]) (by decide) (by simp [PathOK, exRoot, maxIntermediateCount]) (by decide)

end ZV.C07
