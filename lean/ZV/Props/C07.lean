import ZV.Model.C07
import ZV.Proofs.C07
import ZV.Proofs.C07Fuel
import ZV.Proofs.C07Eku
import ZV.Proofs.C07Complete
import ZV.Props.C09
import ZV.Generated.C07
/-!
  C07 — chain verification returns only valid chains and partitions them by date.

  `ValidChain env leaf chain` (inductive, `ZV.Proofs.C07`) spells the property's sentence:
  the chain is the verified certificate alone when that certificate is itself a root, or
  leaf :: intermediates ++ [root] where every link satisfies `checkSignatureFrom`
  (issuer name = subject name ∧ signature verifies ∧ CA/key-usage gates, see
  `checkSignatureFrom_spec`), every intermediate is a CA certificate from the intermediates
  pool within its path-length limit, the last element is a member of the roots pool, and no
  certificate is repeated (subject+key for intermediates, raw bytes for the root).

  * `verify_sound`            every chain returned by the MEMOISED builder is a `ValidChain` and
                              satisfies the requested extended key usages — via the invariant
                              "every chain stored in the cache is valid" (`buildChains_sound`);
  * `validChain_*`            the flat reading of `ValidChain` (head, last, links, intermediates, no repeats);
  * `filterByDate_no_panic`   the `valid && !wasValid` panic branch is unreachable;
  * `filterByDate_partition`  current / expired / never are exactly the chains whose common window
                              (max NotBefore, min NotAfter) strictly contains `now` / is non-empty but does
                              not / is empty (`lowerBound_spec`, `upperBound_spec`);
  * `nil_error_implies`       nil error ⇒ at least one current chain ∧ the DNS name matched when requested;
  * `buildChains_never_out_of_fuel`, `buildChains_fuel_independent`, `verify_never_out_of_fuel`
                              the fuel of the model's recursion is never exhausted and its amount is
                              irrelevant: the depth bound is the one `isValid` enforces
                              (`len(currentChain) > maxIntermediateCount` fails), as in the Go code;
  * `checkChainForKeyUsage_spec`, `checkChainForKeyUsage_spec_plain`, `verify_usage_spec`
                              the cross-out loop with its `-1` sentinel computes "some requested usage is
                              supported by every certificate of the chain" (`UsageSpec`);
  * `isValid_leaf_nil`, `verify_total`, `candidateChains_err_iff`, `buildChains_no_parents`,
    `verify_error_kind`       which error `Verify` returns, case by case;
  * `findVerifiedParents_spec`, `isValid_root_iff`, `direct_root_chain_found`
                              the candidate rule (AKID→SKID else issuer→subject) declaratively, and the part of
                              completeness the memoisation cannot break: every verified, admissible root
                              parent of the verified certificate yields the chain [c, root] and a nil builder error.
-/
namespace ZV.C07

/-! ### the link relation -/

/-- what a successful `CheckSignatureFrom` means -/
theorem checkSignatureFrom_spec (env : Env) (c parent : Cert) (h : checkSignatureFrom env c parent = true) :
    parent.subject = c.issuer ∧ env.sigOK c parent = true ∧
    ¬ (parent.version3 = true ∧ parent.bcValid = false) ∧ ¬ (parent.bcValid = true ∧ parent.isCA = false) ∧
    ¬ (parent.kuPresent = true ∧ parent.kuCertSign = false) := by
  unfold checkSignatureFrom at h
  split at h
  · cases h
  · rename_i h1
    split at h
    · cases h
    · rename_i h2
      split at h
      · cases h
      · rename_i h3
        simp only [Bool.or_eq_true, Bool.and_eq_true, Bool.not_eq_true', not_or, not_and, Bool.not_eq_false] at h1 h2
        simp only [ne_eq, Decidable.not_not] at h3
        refine ⟨h3, h, ?_, ?_, ?_⟩
        · rintro ⟨a, b⟩; have := h1.1 a; rw [b] at this; cases this
        · rintro ⟨a, b⟩; have := h1.2 a; rw [b] at this; cases this
        · rintro ⟨a, b⟩; have := h2 a; rw [b] at this; cases this

/-! ### flat reading of ValidChain -/

theorem prefix_head {env leaf cur c} (h : Prefix env leaf cur c) : cur.head? = some leaf := by
  induction h with
  | leaf => rfl
  | @step cur0 c0 x0 hp _ _ _ _ _ _ _ ih =>
    cases cur0 with
    | nil => exact absurd rfl (prefix_ne_nil hp)
    | cons a t => simpa using ih

theorem prefix_last {env leaf cur c} (h : Prefix env leaf cur c) : cur.getLast? = some c := by
  cases h with
  | leaf => rfl
  | step _ _ _ _ _ _ _ _ => simp

/-- the chain starts at the verified certificate -/
theorem validChain_head {env leaf ch} (h : ValidChain env leaf ch) : ch.head? = some leaf := by
  cases h with
  | trusted _ => rfl
  | @close cur c0 root hp _ _ _ _ =>
    have := prefix_head hp
    cases cur with
    | nil => exact absurd rfl (prefix_ne_nil hp)
    | cons a t => simpa using this

/-- the chain ends at a certificate of the supplied roots (by fingerprint) -/
theorem validChain_last_root {env leaf ch} (h : ValidChain env leaf ch) :
    ∃ r last, ch.getLast? = some last ∧ r ∈ env.roots ∧ r.id = last.id := by
  cases h with
  | trusted hc =>
    obtain ⟨r, hr, e⟩ := List.any_eq_true.mp hc
    exact ⟨r, leaf, rfl, hr, by simpa using e⟩
  | @close cur c0 root _ hr _ _ _ =>
    exact ⟨root, root, by simp, hr, rfl⟩

/-- adjacent certificates of a list -/
def Adjacent (a b : Cert) : Chain → Prop
  | x :: y :: rest => (a = x ∧ b = y) ∨ Adjacent a b (y :: rest)
  | _ => False

theorem adjacent_append_single (a b : Cert) (l : Chain) (x : Cert) (h : Adjacent a b (l ++ [x])) :
    Adjacent a b l ∨ (l.getLast? = some a ∧ b = x) := by
  induction l with
  | nil => simp [Adjacent] at h
  | cons y l ih =>
    cases l with
    | nil =>
      simp only [List.cons_append, List.nil_append, Adjacent, or_false] at h
      right; simp [h.1, h.2]
    | cons z l' =>
      simp only [List.cons_append, Adjacent] at h
      rcases h with h | h
      · left; simp only [Adjacent]; exact Or.inl h
      · rcases ih (by simpa using h) with r | r
        · left; simp only [Adjacent]; exact Or.inr r
        · right; simpa using r

theorem prefix_links {env leaf cur c} (h : Prefix env leaf cur c) :
    ∀ a b, Adjacent a b cur → checkSignatureFrom env a b = true := by
  induction h with
  | leaf => intro a b hab; simp [Adjacent] at hab
  | @step cur0 c0 x0 hp _ _ hs _ _ _ _ ih =>
    intro a b hab
    rcases adjacent_append_single a b _ _ hab with r | ⟨r1, r2⟩
    · exact ih a b r
    · have := prefix_last hp
      rw [this] at r1; cases r1; subst r2; exact hs

/-- every certificate is linked to the next one: issuer name, valid signature, CA gates. -/
theorem validChain_links {env leaf ch} (h : ValidChain env leaf ch) :
    ∀ a b, Adjacent a b ch → b.subject = a.issuer ∧ env.sigOK a b = true := by
  intro a b hab
  have key : checkSignatureFrom env a b = true := by
    cases h with
    | trusted _ => simp [Adjacent] at hab
    | @close cur c0 root hp _ hs _ _ =>
      rcases adjacent_append_single a b _ _ hab with r | ⟨r1, r2⟩
      · exact prefix_links hp a b r
      · have := prefix_last hp
        rw [this] at r1; cases r1; subst r2; exact hs
  have := checkSignatureFrom_spec env a b key
  exact ⟨this.1, this.2.1⟩

theorem prefix_intermediates {env leaf cur c} (h : Prefix env leaf cur c) :
    ∀ x ∈ cur.drop 1, x ∈ env.inters ∧ x.bcValid = true ∧ x.isCA = true := by
  induction h with
  | leaf => intro x hx; simp at hx
  | @step cur0 c0 x0 hp hi _ _ hb hc _ _ ih =>
    intro x hx
    have hne := prefix_ne_nil hp
    cases cur0 with
    | nil => exact absurd rfl hne
    | cons a t =>
      simp only [List.cons_append, List.drop_succ_cons, List.drop_zero, List.mem_append, List.mem_cons,
        List.not_mem_nil, or_false] at hx
      rcases hx with hx | hx
      · exact ih x (by simpa using hx)
      · subst hx; exact ⟨hi, hb, hc⟩

/-- everything strictly between the verified certificate and the root is a CA certificate
    taken from the intermediates pool. -/
theorem validChain_intermediates {env leaf ch} (h : ValidChain env leaf ch) :
    ∀ x ∈ (ch.drop 1).dropLast, x ∈ env.inters ∧ x.bcValid = true ∧ x.isCA = true := by
  cases h with
  | trusted _ => intro x hx; simp at hx
  | @close cur c0 root hp _ _ _ _ =>
    intro x hx
    have hne := prefix_ne_nil hp
    cases cur with
    | nil => exact absurd rfl hne
    | cons a t =>
      simp only [List.cons_append, List.drop_succ_cons, List.drop_zero, List.dropLast_concat] at hx
      exact prefix_intermediates hp x (by simpa using hx)

/-- the root is not (by raw bytes) any earlier certificate of the chain. -/
theorem validChain_root_fresh {env leaf cur c root}
    (_ : Prefix env leaf cur c) (hf : certificateInChain cur root = false) : ∀ x ∈ cur, x.id ≠ root.id := by
  intro x hx e
  have : certificateInChain cur root = true := List.any_eq_true.mpr ⟨x, hx, by simpa using e⟩
  rw [hf] at this; cases this

/-! ### soundness of Verify -/

/-- the chains handed to the key-usage filter are valid -/
theorem candidates_valid (env : Env) (c : Cert) : AllValid env c (candidateChains env c).1 := by
  unfold candidateChains
  split
  · rename_i h
    intro ch hch
    simp only [List.mem_cons, List.not_mem_nil, or_false] at hch
    subst hch
    exact ValidChain.trusted h
  · exact (buildChains_sound env c fuel0 (fun _ => none) c [c] (fun k chs h => by cases h) Prefix.leaf).1

theorem filterUsage_mem (cands : List Chain) (kus : List Int) (ch : Chain) (h : ch ∈ filterUsage cands kus) :
    ch ∈ cands ∧ (kus.any (fun u => u = ekuAny) = true ∨ checkChainForKeyUsage ch kus = true) := by
  unfold filterUsage at h
  split at h
  · rename_i hany; exact ⟨h, Or.inl hany⟩
  · obtain ⟨r1, r2⟩ := List.mem_filter.mp h
    exact ⟨r1, Or.inr r2⟩

theorem finish_lists (d : Dated) (hostCert : C09.Cert) (opts : Opts) (o : Out) (h : finish d hostCert opts = .ok o) :
    o.current = d.current ∧ o.expired = d.expired ∧ o.never = d.never := by
  unfold finish at h
  split at h
  · cases h; exact ⟨rfl, rfl, rfl⟩
  · split at h
    · split at h <;> first | (cases h; exact ⟨rfl, rfl, rfl⟩) | cases h
    · cases h; exact ⟨rfl, rfl, rfl⟩

/-- `verify_sound`: every chain in any of the three result lists is a `ValidChain` for the
    verified certificate and the supplied pools, and satisfies the requested extended key usages
    (`ExtKeyUsageAny` requested, or `checkChainForKeyUsage` with the defaulted usage list holds). -/
theorem verify_sound (env : Env) (c : Cert) (hostCert : C09.Cert) (opts : Opts) (o : Out)
    (h : verify env c hostCert opts = .ok o) :
    ∀ ch ∈ o.current ++ o.expired ++ o.never,
      ValidChain env c ch ∧
      ((usagesOf opts).any (fun u => u = ekuAny) = true ∨ checkChainForKeyUsage ch (usagesOf opts) = true) := by
  unfold verify at h
  split at h
  · cases h; intro ch hch; simp [errOut] at hch
  · split at h
    · cases h; intro ch hch; simp [errOut] at hch
    · simp only at h
      split at h
      · cases h; intro ch hch; simp [errOut] at hch
      · split at h
        · cases h
        · cases h
        · rename_i d hd
          obtain ⟨e1, e2, e3⟩ := finish_lists d hostCert opts o h
          intro ch hch
          rw [e1, e2, e3] at hch
          rcases filterByDate_mem _ _ _ _ hd ch hch with r | r
          · simp at r
          · obtain ⟨r1, r2⟩ := filterUsage_mem _ _ _ r
            exact ⟨candidates_valid env c ch r1, r2⟩

/-! ### FilterByDate -/

/-- the `valid && !wasValid` branch ("Math/logic tells us this is impossible") is indeed unreachable. -/
theorem filterByDate_no_panic (now : Int) (chains : List Chain) (acc : Dated) :
    ∃ d, filterByDate now chains acc = .ok d := by
  induction chains generalizing acc with
  | nil => exact ⟨acc, rfl⟩
  | cons c chains ih =>
    cases c with
    | nil => simp only [filterByDate]; exact ih acc
    | cons leaf rest =>
      simp only [filterByDate]
      split
      · rename_i hbad
        simp only [Bool.and_eq_true, decide_eq_true_eq, Bool.not_eq_true', decide_eq_false_iff_not] at hbad
        omega
      · split
        · exact ih _
        · split
          · exact ih _
          · exact ih _

/-- the folded bounds are the maximum NotBefore / minimum NotAfter of the chain -/
theorem lowerBound_spec (leaf : Cert) (rest : Chain) :
    (∀ c ∈ leaf :: rest, c.notBefore ≤ lowerBound leaf rest) ∧ ∃ c ∈ leaf :: rest, c.notBefore = lowerBound leaf rest := by
  unfold lowerBound
  suffices H : ∀ (init : Int) (seen : Chain), (∀ c ∈ seen, c.notBefore ≤ init) → (∃ c ∈ seen, c.notBefore = init) →
      (∀ c ∈ seen ++ rest, c.notBefore ≤ rest.foldl (fun lb c => if lb > c.notBefore then lb else c.notBefore) init) ∧
      ∃ c ∈ seen ++ rest, c.notBefore = rest.foldl (fun lb c => if lb > c.notBefore then lb else c.notBefore) init by
    simpa using H leaf.notBefore [leaf] (by simp) ⟨leaf, by simp, rfl⟩
  induction rest with
  | nil => intro init seen h1 h2; simpa using ⟨h1, h2⟩
  | cons x rest ih =>
    intro init seen h1 h2
    simp only [List.foldl_cons]
    have := ih (if init > x.notBefore then init else x.notBefore) (seen ++ [x]) (by
      intro c hc
      rcases List.mem_append.mp hc with hc | hc
      · have := h1 c hc; split <;> omega
      · simp only [List.mem_cons, List.not_mem_nil, or_false] at hc; subst hc; split <;> omega) (by
      split
      · obtain ⟨c, hc, e⟩ := h2; exact ⟨c, List.mem_append_left _ hc, e⟩
      · exact ⟨x, by simp, rfl⟩)
    simpa [List.append_assoc] using this

theorem upperBound_spec (leaf : Cert) (rest : Chain) :
    (∀ c ∈ leaf :: rest, upperBound leaf rest ≤ c.notAfter) ∧ ∃ c ∈ leaf :: rest, c.notAfter = upperBound leaf rest := by
  unfold upperBound
  suffices H : ∀ (init : Int) (seen : Chain), (∀ c ∈ seen, init ≤ c.notAfter) → (∃ c ∈ seen, c.notAfter = init) →
      (∀ c ∈ seen ++ rest, rest.foldl (fun ub c => if ub < c.notAfter then ub else c.notAfter) init ≤ c.notAfter) ∧
      ∃ c ∈ seen ++ rest, c.notAfter = rest.foldl (fun ub c => if ub < c.notAfter then ub else c.notAfter) init by
    simpa using H leaf.notAfter [leaf] (by simp) ⟨leaf, by simp, rfl⟩
  induction rest with
  | nil => intro init seen h1 h2; simpa using ⟨h1, h2⟩
  | cons x rest ih =>
    intro init seen h1 h2
    simp only [List.foldl_cons]
    have := ih (if init < x.notAfter then init else x.notAfter) (seen ++ [x]) (by
      intro c hc
      rcases List.mem_append.mp hc with hc | hc
      · have := h1 c hc; split <;> omega
      · simp only [List.mem_cons, List.not_mem_nil, or_false] at hc; subst hc; split <;> omega) (by
      split
      · obtain ⟨c, hc, e⟩ := h2; exact ⟨c, List.mem_append_left _ hc, e⟩
      · exact ⟨x, by simp, rfl⟩)
    simpa [List.append_assoc] using this

/-- position of `now` w.r.t. the chain's common window (max NotBefore, min NotAfter), with the
    code's strict comparisons: 0 = strictly inside, 1 = window non-empty but `now` not strictly
    inside (expired OR not yet valid), 2 = window empty; empty chains have no class. -/
def classOf (now : Int) : Chain → Option Nat
  | [] => none
  | leaf :: rest =>
    let lo := lowerBound leaf rest
    let hi := upperBound leaf rest
    if lo < now ∧ now < hi then some 0 else if lo < hi then some 1 else some 2

/-- `filterByDate_partition`: each (non-empty) chain lands in exactly one class, determined by
    `classOf`; the classes keep the input order. -/
theorem filterByDate_partition (now : Int) (chains : List Chain) (acc : Dated) :
    filterByDate now chains acc = .ok
      { current := acc.current ++ chains.filter (fun ch => classOf now ch = some 0)
        expired := acc.expired ++ chains.filter (fun ch => classOf now ch = some 1)
        never := acc.never ++ chains.filter (fun ch => classOf now ch = some 2) } := by
  induction chains generalizing acc with
  | nil => simp [filterByDate]
  | cons c chains ih =>
    cases c with
    | nil => simp only [filterByDate]; rw [ih]; simp [classOf]
    | cons leaf rest =>
      simp only [filterByDate]
      by_cases h1 : lowerBound leaf rest < now ∧ now < upperBound leaf rest
      · have hw : lowerBound leaf rest < upperBound leaf rest := by omega
        simp only [h1.1, h1.2, hw, decide_true, Bool.and_self, Bool.not_true, Bool.and_false, Bool.false_eq_true,
          if_false, if_true]
        rw [ih]
        simp [classOf, h1.1, h1.2]
      · by_cases hw : lowerBound leaf rest < upperBound leaf rest
        · have hv : (decide (lowerBound leaf rest < now) && decide (now < upperBound leaf rest)) = false := by
            cases hdv : (decide (lowerBound leaf rest < now) && decide (now < upperBound leaf rest)) with
            | false => rfl
            | true => simp only [Bool.and_eq_true, decide_eq_true_eq] at hdv; exact absurd hdv h1
          simp only [hv, hw, decide_true, Bool.false_and, Bool.false_eq_true, if_false, if_true]
          rw [ih]
          simp [classOf, h1, hw]
        · have hv : (decide (lowerBound leaf rest < now) && decide (now < upperBound leaf rest)) = false := by
            cases hdv : (decide (lowerBound leaf rest < now) && decide (now < upperBound leaf rest)) with
            | false => rfl
            | true => simp only [Bool.and_eq_true, decide_eq_true_eq] at hdv; exact absurd hdv h1
          simp only [hv, hw, decide_false, Bool.false_and, Bool.false_eq_true, if_false]
          rw [ih]
          simp [classOf, h1, hw]

/-! ### nil error -/

theorem finish_nil (d : Dated) (hostCert : C09.Cert) (opts : Opts) (o : Out)
    (h : finish d hostCert opts = .ok o) (hnil : o.err = none) :
    (d.current ≠ [] ∨ (d.expired = [] ∧ d.never = [])) ∧
    (d.current ≠ [] → opts.dnsName ≠ [] → C09.verifyHostname hostCert opts.dnsName = .ok .accept) := by
  unfold finish at h
  split at h
  · rename_i hcur
    have hc : d.current = [] := List.length_eq_zero_iff.mp hcur
    cases h
    simp only at hnil
    refine ⟨Or.inr ?_, fun hne => absurd hc hne⟩
    split at hnil
    · cases hnil
    · split at hnil
      · cases hnil
      · rename_i he hn
        exact ⟨List.length_eq_zero_iff.mp (by omega), List.length_eq_zero_iff.mp (by omega)⟩
  · rename_i hcur
    have hcur' : d.current ≠ [] := fun e => hcur (by simp [e])
    refine ⟨Or.inl hcur', fun _ hdns => ?_⟩
    split at h
    · split at h
      · rename_i hacc; exact hacc
      · cases h; cases hnil
      · cases h
      · cases h
    · rename_i hl
      exfalso; apply hl
      cases hd' : opts.dnsName with
      | nil => exact absurd hd' hdns
      | cons _ _ => simp

/-- a nil error implies at least one current chain, and — when a DNS name was requested —
    that `VerifyHostname` accepted it, i.e. the C09 specification `HostSpec` holds. -/
theorem nil_error_implies (env : Env) (c : Cert) (hostCert : C09.Cert) (opts : Opts) (o : Out)
    (h : verify env c hostCert opts = .ok o) (hnil : o.err = none) :
    o.current ≠ [] ∧ (opts.dnsName ≠ [] → C09.HostSpec hostCert opts.dnsName) := by
  unfold verify at h
  split at h
  · cases h; cases hnil
  · split at h
    · cases h; cases hnil
    · simp only at h
      split at h
      · cases h; cases hnil
      · rename_i hne
        split at h
        · cases h
        · cases h
        · rename_i d hd
          obtain ⟨e1, _, _⟩ := finish_lists d hostCert opts o h
          obtain ⟨f1, f2⟩ := finish_nil d hostCert opts o h hnil
          have hcur : d.current ≠ [] := by
            rcases f1 with f1 | ⟨fe, fn⟩
            · exact f1
            · -- all three classes empty contradicts: every filtered candidate chain is non-empty
              intro hc
              exfalso
              have hcount := filterByDate_count _ _ _ _ hd
              simp only [hc, fe, fn, List.length_nil, Nat.add_zero] at hcount
              have hall : (List.filter (fun ch => !ch.isEmpty) (filterUsage (candidateChains env c).1 (usagesOf opts))).length
                  = (filterUsage (candidateChains env c).1 (usagesOf opts)).length := by
                rw [List.filter_eq_self.mpr]
                intro ch hch
                have := validChain_ne_nil (candidates_valid env c ch (filterUsage_mem _ _ _ hch).1)
                cases ch with
                | nil => exact absurd rfl this
                | cons _ _ => rfl
              omega
          rw [e1]
          exact ⟨hcur, fun hdns => (C09.verifyHostname_iff _ _).mp (f2 hcur hdns)⟩

/-! ### non-vacuity -/

-- a two-certificate PKI: leaf 1 issued by self-signed root 0; the chain [leaf, root] is found and is current
def exRoot : Cert :=
  { uid := 0, id := 1, subject := 1, issuer := 1, spki := 1, skid := 1, akid := 0, version3 := true,
    bcValid := true, isCA := true, maxPathLen := -1, kuPresent := false, kuCertSign := false, selfSigned := true,
    eku := [], unknownEku := false, notBefore := 0, notAfter := 100 }
def exLeaf : Cert :=
  { uid := 1, id := 2, subject := 2, issuer := 1, spki := 2, skid := 0, akid := 1, version3 := true,
    bcValid := false, isCA := false, maxPathLen := -1, kuPresent := false, kuCertSign := false, selfSigned := false,
    eku := [1], unknownEku := false, notBefore := 10, notAfter := 50 }
def exEnv : Env := { roots := [exRoot], inters := [], sigOK := fun a b => decide (a.uid = 1 ∧ b.uid = 0) }

example :
    (verify exEnv exLeaf { extOids := [], dnsNames := [], ipAddresses := [], commonName := [] }
        { now := 20, keyUsages := [], dnsName := [] }).map (fun o => (o.current.map (·.map (·.uid)), o.err))
      = .ok ([[1, 0]], none) := by decide

example : ValidChain exEnv exLeaf [exLeaf, exRoot] :=
  ValidChain.close (cur := [exLeaf]) Prefix.leaf (by simp [exEnv]) (by decide) (by simp [PathOK, exRoot, maxIntermediateCount]) (by decide)

/-! ### the recursion bound (gap 1) -/

/-- The initial call of `Verify` (`currentChain = [c]`, fuel 13) never reports `outOfFuel`, whatever
    the pools, the signature relation and the cache: every recursive call lengthens `currentChain`
    by one, and `isValid` refuses to recurse once `len(currentChain) > maxIntermediateCount`.
    (General form for any call site: `buildChains_ne_outOfFuel` under `FuelOK`.) -/
theorem fuelOK0 (c : Cert) : FuelOK fuel0 ([c] : Chain).length := by
  unfold FuelOK fuel0 maxIntermediateCount; simp

theorem buildChains_never_out_of_fuel (env : Env) (cache : Cache) (c : Cert) :
    (buildChains fuel0 env cache c [c]).2.1 ≠ some .outOfFuel :=
  buildChains_ne_outOfFuel fuel0 env cache c [c] (fuelOK0 c)

/-- more precisely: the builder's error is nil or one of the four kinds of the Go code -/
theorem buildChains_error_kinds (env : Env) (cache : Cache) (c : Cert) :
    BuilderErr (buildChains fuel0 env cache c [c]).2.1 :=
  buildChains_err fuel0 env cache c [c] (fuelOK0 c)

/-- The amount of fuel is irrelevant: any fuel ≥ 11 (= maxIntermediateCount + 1 nested calls) gives
    the same chains, error and cache as the 13 used by the model. -/
theorem buildChains_fuel_independent (fuel : Nat) (hf : maxIntermediateCount + 1 ≤ fuel)
    (env : Env) (cache : Cache) (c : Cert) :
    buildChains fuel env cache c [c] = buildChains fuel0 env cache c [c] :=
  buildChains_fuel_irrelevant fuel fuel0 env cache c [c]
    (by unfold FuelOK maxIntermediateCount at *; simp only [List.length_cons, List.length_nil]; omega)
    (fuelOK0 c)

example : maxIntermediateCount + 1 ≤ 11 := by decide

/-- the fuel bound 11 is tight in the sense of the invariant: a call on a chain of 11 certificates
    needs (and uses) exactly one unit, because no intermediate passes `isValid` any more. -/
theorem isValid_stops (x : Cert) (t : CertType) (cur : Chain) (h : maxIntermediateCount < cur.length) :
    isValid x t cur ≠ none := by
  intro hn
  have := isValid_none_len x t cur hn
  omega

example : maxIntermediateCount < (List.replicate 11 exRoot).length := by decide

theorem candidateChains_error_kinds (env : Env) (c : Cert) : BuilderErr (candidateChains env c).2 := by
  unfold candidateChains
  split
  · exact Or.inl rfl
  · exact buildChains_error_kinds env _ c

/-- `isValid(CertificateTypeLeaf, nil)`, the first check of `Verify`, can never fail. -/
theorem isValid_leaf_nil (c : Cert) : isValid c .leaf [] = none := by
  unfold isValid maxIntermediateCount
  simp only [List.length_nil]
  rw [if_neg (by simp), if_neg (by omega), if_neg (by omega)]

/-- `Verify` (model) neither panics nor fails internally. -/
theorem verify_total (env : Env) (c : Cert) (hostCert : C09.Cert) (opts : Opts) :
    ∃ o, verify env c hostCert opts = .ok o := by
  unfold verify
  split
  · exact ⟨_, rfl⟩
  · split
    · exact ⟨_, rfl⟩
    · simp only
      split
      · exact ⟨_, rfl⟩
      · obtain ⟨d, hd⟩ := filterByDate_no_panic opts.now
          (filterUsage (candidateChains env c).1 (usagesOf opts)) { current := [], expired := [], never := [] }
        rw [hd]
        simp only
        unfold finish
        split
        · exact ⟨_, rfl⟩
        · split
          · obtain ⟨v, hv⟩ := C09.verifyHostname_total hostCert opts.dnsName
            rw [hv]
            cases v <;> exact ⟨_, rfl⟩
          · exact ⟨_, rfl⟩

/-- `Verify` never returns the model-only error `outOfFuel`. -/
theorem verify_never_out_of_fuel (env : Env) (c : Cert) (hostCert : C09.Cert) (opts : Opts) (o : Out)
    (h : verify env c hostCert opts = .ok o) : o.err ≠ some .outOfFuel := by
  unfold verify at h
  rw [isValid_leaf_nil] at h
  simp only at h
  split at h
  · rename_i e he
    cases h
    have := builderErr_ne_outOfFuel (candidateChains_error_kinds env c)
    rw [he] at this
    simpa [errOut] using this
  · split at h
    · cases h; simp [errOut]
    · split at h
      · cases h
      · cases h
      · rename_i d hd
        unfold finish at h
        split at h
        · cases h
          simp only
          split
          · simp
          · split <;> simp
        · split at h
          · split at h <;> first | (cases h; simp) | cases h
          · cases h; simp

/-! ### the extended-key-usage filter (gap 2) -/

/-- `checkChainForKeyUsage` computes the declarative `UsageSpec`: the chain is non-empty and (the
    request list is empty, or) some requested slot — the sentinel value −1 trivially — is supported by
    every certificate of the chain, where a certificate supports a usage when it has no (known or
    unknown) EKU at all, lists `ExtKeyUsageAny`, lists the usage, or lists an SGC usage and the
    request is ServerAuth. -/
theorem checkChainForKeyUsage_spec (chain : Chain) (usages : List Int) :
    checkChainForKeyUsage chain usages = true ↔ UsageSpec chain usages :=
  checkChainForKeyUsage_iff_spec chain usages

/-- For request lists as `Verify` passes them in practice (non-empty, no −1 entry) the two corner
    cases disappear: acceptable ⇔ some requested usage is supported by every certificate. -/
theorem checkChainForKeyUsage_spec_plain (chain : Chain) (usages : List Int)
    (hne : usages ≠ []) (hs : invalidUsage ∉ usages) :
    checkChainForKeyUsage chain usages = true ↔
      (chain ≠ [] ∧ ∃ u ∈ usages, ∀ cert ∈ chain, CertAllows cert u) := by
  rw [checkChainForKeyUsage_spec]
  unfold UsageSpec
  constructor
  · rintro ⟨h1, h | ⟨u, hu, h | h⟩⟩
    · exact absurd h hne
    · exact absurd (h ▸ hu) hs
    · exact ⟨h1, u, hu, h⟩
  · rintro ⟨h1, u, hu, h⟩
    exact ⟨h1, Or.inr ⟨u, hu, Or.inr h⟩⟩

example : ([ekuServerAuth] : List Int) ≠ [] ∧ invalidUsage ∉ ([ekuServerAuth] : List Int) := by decide

theorem usagesOf_ne_nil (opts : Opts) : usagesOf opts ≠ [] := by
  unfold usagesOf
  split
  · simp
  · rename_i h; intro e; exact h (by simp [e])

/-- `verify_sound` with the filter spelt out: every returned chain satisfies the request — `Any`
    was requested, or a requested usage (or the −1 sentinel slot) is supported by every certificate. -/
theorem verify_usage_spec (env : Env) (c : Cert) (hostCert : C09.Cert) (opts : Opts) (o : Out)
    (h : verify env c hostCert opts = .ok o) :
    ∀ ch ∈ o.current ++ o.expired ++ o.never,
      ekuAny ∈ usagesOf opts ∨ ∃ u ∈ usagesOf opts, u = invalidUsage ∨ ∀ cert ∈ ch, CertAllows cert u := by
  intro ch hch
  rcases (verify_sound env c hostCert opts o h ch hch).2 with h1 | h1
  · obtain ⟨x, hx, e⟩ := List.any_eq_true.mp h1
    simp only [decide_eq_true_eq] at e
    exact Or.inl (e ▸ hx)
  · rcases ((checkChainForKeyUsage_spec ch _).mp h1).2 with h2 | h2
    · exact absurd h2 (usagesOf_ne_nil opts)
    · exact Or.inr h2

/-! ### which error (gap 3) -/

/-- the candidate builder reports a nil error exactly when it found a chain -/
theorem candidateChains_err_iff (env : Env) (c : Cert) :
    (candidateChains env c).2 = none ↔ (candidateChains env c).1 ≠ [] := by
  unfold candidateChains
  split
  · simp
  · exact buildChains_err_none_iff 12 env _ c [c]

/-- A call of `buildChains` for a certificate without any verified parent in either pool (and which
    is not the trusted-leaf case) finds nothing and reports `IsSelfSigned` for a self-signed
    certificate, `UnknownAuthority` otherwise. -/
theorem buildChains_no_parents (fuel : Nat) (env : Env) (cache : Cache) (c : Cert) (cur : Chain)
    (h0 : ¬ (cur.length = 1 ∧ containsFp env.roots c = true))
    (hr : findVerifiedParents env env.roots c = []) (hi : findVerifiedParents env env.inters c = []) :
    buildChains (fuel + 1) env cache c cur =
      ([], some (if c.selfSigned then .isSelfSigned else .unknownAuthority), cache) := by
  simp only [buildChains, hr, hi, rootLoop, interLoop, h0, if_false, List.length_nil, true_and,
    Nat.lt_irrefl]
  cases c.selfSigned <;> simp

/-- `verify` as a cascade over the builder's result, the usage filter and the date classes. -/
theorem verify_eq (env : Env) (c : Cert) (hostCert : C09.Cert) (opts : Opts) :
    verify env c hostCert opts =
      match (candidateChains env c).2 with
      | some e => .ok (errOut e)
      | none =>
        if filterUsage (candidateChains env c).1 (usagesOf opts) = [] then .ok (errOut .incompatibleUsage)
        else finish
          { current := (filterUsage (candidateChains env c).1 (usagesOf opts)).filter (fun ch => classOf opts.now ch = some 0)
            expired := (filterUsage (candidateChains env c).1 (usagesOf opts)).filter (fun ch => classOf opts.now ch = some 1)
            never := (filterUsage (candidateChains env c).1 (usagesOf opts)).filter (fun ch => classOf opts.now ch = some 2) }
          hostCert opts := by
  unfold verify
  rw [isValid_leaf_nil]
  simp only
  cases (candidateChains env c).2 with
  | some e => rfl
  | none => simp only [filterByDate_partition, List.nil_append, List.length_eq_zero_iff]

/-- what `finish` (the tail of `Verify`) returns, by cases on the date classes -/
theorem finish_spec (d : Dated) (hostCert : C09.Cert) (opts : Opts) (o : Out) (h : finish d hostCert opts = .ok o) :
    (d.current = [] → d.expired ≠ [] → o.err = some .expired) ∧
    (d.current = [] → d.expired = [] → d.never ≠ [] → o.err = some .neverValid) ∧
    (d.current = [] → d.expired = [] → d.never = [] → o.err = none) ∧
    (d.current ≠ [] →
      (o.err = none ∧ (opts.dnsName ≠ [] → C09.HostSpec hostCert opts.dnsName)) ∨
      (o.err = some .hostname ∧ opts.dnsName ≠ [] ∧ ¬ C09.HostSpec hostCert opts.dnsName)) := by
  unfold finish at h
  split at h
  · rename_i hcur
    have hc : d.current = [] := List.length_eq_zero_iff.mp hcur
    cases h
    refine ⟨?_, ?_, ?_, fun hne => absurd hc hne⟩
    · intro _ he
      have : d.expired.length > 0 := List.length_pos_iff.mpr he
      simp [this]
    · intro _ he hn
      have : d.never.length > 0 := List.length_pos_iff.mpr hn
      simp [he, this]
    · intro _ he hn
      simp [he, hn]
  · rename_i hcur
    have hcur' : d.current ≠ [] := fun e => hcur (by simp [e])
    refine ⟨fun e => absurd e hcur', fun e => absurd e hcur', fun e => absurd e hcur', fun _ => ?_⟩
    split at h
    · rename_i hl
      have hdns : opts.dnsName ≠ [] := fun e => by simp [e] at hl
      split at h
      · rename_i hacc
        cases h
        exact Or.inl ⟨rfl, fun _ => (C09.verifyHostname_iff _ _).mp hacc⟩
      · rename_i r hrej
        cases h
        refine Or.inr ⟨rfl, hdns, fun hs => ?_⟩
        have := (C09.verifyHostname_iff _ _).mpr hs
        rw [hrej] at this
        cases this
      · cases h
      · cases h
    · rename_i hl
      cases h
      refine Or.inl ⟨rfl, fun hdns => ?_⟩
      exfalso; apply hl
      cases hd' : opts.dnsName with
      | nil => exact absurd hd' hdns
      | cons _ _ => simp

/-- `verify_error_kind`: the error returned by `Verify`, case by case.
    * no candidate chain: the builder's error — one of `IsSelfSigned`, `NotAuthorizedToSign`,
      `TooManyIntermediates`, `UnknownAuthority` (never nil) — and no chains;
    * candidates, but none passes the key-usage filter: `IncompatibleUsage`, no chains;
    * otherwise the three lists are the date classes of the filtered candidates (`classOf`), and
      no current chain, some expired chain: `Expired`;
      no current and no expired chain: (then a never-valid chain exists and) `NeverValid`;
      a current chain: nil, unless a DNS name was requested and does not satisfy `C09.HostSpec`,
      in which case the error is a `HostnameError` (the chains are still returned). -/
theorem verify_error_kind (env : Env) (c : Cert) (hostCert : C09.Cert) (opts : Opts) (o : Out)
    (h : verify env c hostCert opts = .ok o) :
    ((candidateChains env c).1 = [] →
      o.err = (candidateChains env c).2 ∧
      (o.err = some .isSelfSigned ∨ o.err = some .notAuthorizedToSign ∨ o.err = some .tooManyIntermediates ∨
        o.err = some .unknownAuthority) ∧
      o.current = [] ∧ o.expired = [] ∧ o.never = []) ∧
    ((candidateChains env c).1 ≠ [] → filterUsage (candidateChains env c).1 (usagesOf opts) = [] →
      o.err = some .incompatibleUsage ∧ o.current = [] ∧ o.expired = [] ∧ o.never = []) ∧
    (filterUsage (candidateChains env c).1 (usagesOf opts) ≠ [] →
      o.current = (filterUsage (candidateChains env c).1 (usagesOf opts)).filter (fun ch => classOf opts.now ch = some 0) ∧
      o.expired = (filterUsage (candidateChains env c).1 (usagesOf opts)).filter (fun ch => classOf opts.now ch = some 1) ∧
      o.never = (filterUsage (candidateChains env c).1 (usagesOf opts)).filter (fun ch => classOf opts.now ch = some 2) ∧
      (o.current = [] → o.expired ≠ [] → o.err = some .expired) ∧
      (o.current = [] → o.expired = [] → o.never ≠ [] ∧ o.err = some .neverValid) ∧
      (o.current ≠ [] →
        (o.err = none ∧ (opts.dnsName ≠ [] → C09.HostSpec hostCert opts.dnsName)) ∨
        (o.err = some .hostname ∧ opts.dnsName ≠ [] ∧ ¬ C09.HostSpec hostCert opts.dnsName))) := by
  have hiff := candidateChains_err_iff env c
  have hkinds := candidateChains_error_kinds env c
  have hsub : filterUsage (candidateChains env c).1 (usagesOf opts) ≠ [] → (candidateChains env c).1 ≠ [] := by
    intro hne he
    apply hne
    unfold filterUsage
    rw [he]
    split <;> rfl
  rw [verify_eq] at h
  cases he : (candidateChains env c).2 with
  | some e =>
    rw [he] at h hkinds
    simp only at h
    cases h
    have hnil : (candidateChains env c).1 = [] := by
      apply Classical.byContradiction
      intro hne
      rw [hiff.mpr hne] at he
      cases he
    refine ⟨fun _ => ⟨rfl, ?_, rfl, rfl, rfl⟩, fun hne => absurd hnil hne, fun hne => absurd hnil (hsub hne)⟩
    simp only [errOut]
    rcases hkinds with h | h | h | h | h
    · cases h
    · exact Or.inl h
    · exact Or.inr (Or.inl h)
    · exact Or.inr (Or.inr (Or.inl h))
    · exact Or.inr (Or.inr (Or.inr h))
  | none =>
    rw [he] at h
    simp only at h
    have hne : (candidateChains env c).1 ≠ [] := hiff.mp he
    refine ⟨fun e => absurd e hne, ?_, ?_⟩
    · intro _ hu
      rw [if_pos hu] at h
      cases h
      exact ⟨rfl, rfl, rfl, rfl⟩
    · intro hu
      rw [if_neg hu] at h
      obtain ⟨e1, e2, e3⟩ := finish_lists _ hostCert opts o h
      obtain ⟨f1, f2, f3, f4⟩ := finish_spec _ hostCert opts o h
      simp only at e1 e2 e3 f1 f2 f3 f4
      rw [← e1, ← e2] at f1
      rw [← e1, ← e2, ← e3] at f2
      rw [← e1] at f4
      refine ⟨e1, e2, e3, f1, ?_, f4⟩
      intro hc hx
      -- the three classes cannot all be empty: every filtered candidate is a non-empty chain
      have hnever : o.never ≠ [] := by
        intro hn
        have hcount := filterByDate_count opts.now (filterUsage (candidateChains env c).1 (usagesOf opts))
          { current := [], expired := [], never := [] } _ (filterByDate_partition _ _ _)
        simp only [List.nil_append, List.length_nil, Nat.add_zero, Nat.zero_add] at hcount
        rw [← e1, ← e2, ← e3, hc, hx, hn] at hcount
        have hall : (List.filter (fun ch => !ch.isEmpty) (filterUsage (candidateChains env c).1 (usagesOf opts))).length
            = (filterUsage (candidateChains env c).1 (usagesOf opts)).length := by
          rw [List.filter_eq_self.mpr]
          intro ch hch
          have := validChain_ne_nil (candidates_valid env c ch (filterUsage_mem _ _ _ hch).1)
          cases ch with
          | nil => exact absurd rfl this
          | cons _ _ => rfl
        have hpos : 0 < (filterUsage (candidateChains env c).1 (usagesOf opts)).length := List.length_pos_iff.mpr hu
        simp only [List.length_nil] at hcount
        omega
      exact ⟨hnever, f2 hc hx hnever⟩


/-! ### completeness at depth one -/

/-- the candidate parents, declaratively: pool entries passing `CheckSignatureFrom`, selected by
    key id when the child has an AuthorityKeyId matched by some pool entry, by name otherwise. -/
theorem findVerifiedParents_spec (env : Env) (pool : List Cert) (c : Cert) (i : Nat) (x : Cert) :
    (i, x) ∈ findVerifiedParents env pool c ↔
      pool[i]? = some x ∧ checkSignatureFrom env c x = true ∧
      (if c.akid ≠ 0 ∧ ∃ y ∈ pool, y.skid = c.akid then x.skid = c.akid else x.subject = c.issuer) :=
  fvp_mem_iff env pool c i x

/-- for a root (or leaf) `isValid` is exactly the path-length clause plus the global bound -/
theorem isValid_root_iff (x : Cert) (cur : Chain) : isValid x .root cur = none ↔ PathOK x cur.length := by
  constructor
  · exact isValid_none_pathOK x .root cur
  · rintro ⟨h1, h2⟩
    unfold isValid
    rw [if_neg (by simp), if_neg h1, if_neg (by omega)]

/-- Depth-one completeness (not affected by the memoisation, true for every cache): if the verified
    certificate is not itself a root, every root that `findVerifiedParents` selects, that respects
    its path-length limit and is not the certificate itself gives the chain `[c, root]`, and the
    builder's error is nil. -/
theorem direct_root_chain_found (env : Env) (c : Cert) (n : Nat) (root : Cert)
    (hnr : containsFp env.roots c = false)
    (hm : (n, root) ∈ findVerifiedParents env env.roots c)
    (hp : PathOK root 1) (hid : c.id ≠ root.id) :
    [c, root] ∈ (candidateChains env c).1 ∧ (candidateChains env c).2 = none := by
  have hmem : [c, root] ∈ (candidateChains env c).1 := by
    unfold candidateChains
    rw [if_neg (by simp [hnr])]
    exact buildChains_root_complete 12 env _ c [c] n root hm ((isValid_root_iff root [c]).mpr hp)
      (by simp [certificateInChain, hid])
  exact ⟨hmem, (candidateChains_err_iff env c).mpr (fun e => by rw [e] at hmem; cases hmem)⟩


/-! ### non-vacuity of the new statements -/

-- a leaf whose only EKU is ClientAuth (2): ServerAuth is crossed out, the chain is refused …
def exClientLeaf : Cert := { exLeaf with eku := [2] }

example : checkChainForKeyUsage [exClientLeaf, exRoot] [ekuServerAuth] = false := by decide
example : ¬ UsageSpec [exClientLeaf, exRoot] [ekuServerAuth] :=
  fun h => absurd ((checkChainForKeyUsage_spec _ _).mpr h) (by decide)
-- … accepted for ClientAuth, for an SGC leaf under a ServerAuth request …
example : UsageSpec [exClientLeaf, exRoot] [ekuServerAuth, 2] := (checkChainForKeyUsage_spec _ _).mp (by decide)
example : UsageSpec [{ exLeaf with eku := [ekuMicrosoftSGC] }, exRoot] [ekuServerAuth] :=
  (checkChainForKeyUsage_spec _ _).mp (by decide)
-- … and (corner case of the in-band sentinel) for a requested usage −1, whatever the certificates say
example : checkChainForKeyUsage [exClientLeaf, exRoot] [invalidUsage] = true := by decide
example : checkChainForKeyUsage [exClientLeaf, exRoot] [] = true := by decide

-- error kinds: unknown authority (no parent), self-signed, incompatible usage, expired, never valid, hostname
def exHost : C09.Cert := { extOids := [], dnsNames := [], ipAddresses := [], commonName := [] }

example : (verify { exEnv with roots := [] } exLeaf exHost { now := 20, keyUsages := [], dnsName := [] }).map (·.err)
    = .ok (some .unknownAuthority) := by decide
example : (verify { exEnv with roots := [] } exRoot exHost { now := 20, keyUsages := [], dnsName := [] }).map (·.err)
    = .ok (some .isSelfSigned) := by decide
example : (verify exEnv exClientLeaf exHost { now := 20, keyUsages := [], dnsName := [] }).map (·.err)
    = .ok (some .incompatibleUsage) := by decide
example : (verify exEnv exLeaf exHost { now := 60, keyUsages := [], dnsName := [] }).map (·.err)
    = .ok (some .expired) := by decide
example : (verify exEnv { exLeaf with notBefore := 200, notAfter := 300 } exHost
    { now := 60, keyUsages := [], dnsName := [] }).map (·.err) = .ok (some .neverValid) := by decide
example : findVerifiedParents { exEnv with roots := [] } [] exLeaf = [] ∧
    ¬ (([exLeaf] : Chain).length = 1 ∧ containsFp ([] : List Cert) exLeaf = true) := by decide

example : containsFp exEnv.roots exLeaf = false ∧ (0, exRoot) ∈ findVerifiedParents exEnv exEnv.roots exLeaf ∧
    exLeaf.id ≠ exRoot.id := by decide
example : PathOK exRoot 1 := by simp [PathOK, exRoot, maxIntermediateCount]

/-! ### T1: constants and guards re-read from x509/verify.go on every run -/

/-- the depth bound the recursion theorems rest on is the constant of the source file -/
theorem maxIntermediateCount_generated : maxIntermediateCount = Gen.maxIntermediateCount := by decide

/-- the guards of `isValid` modelled branch for branch are the `if` conditions of the source, in order -/
theorem isValidGuards_generated : isValidGuards = Gen.isValidGuards := by decide

/-- `FilterByDate` has exactly the guards modelled by `filterByDate` (empty chain, the panic branch, valid, wasValid) -/
theorem filterByDateGuards_generated :
    Gen.filterByDateGuards = ["len(chain)==0", "valid&&!wasValid", "valid", "wasValid"] := by decide

/-- the `InvalidReason` block still starts `NotAuthorizedToSign, Expired, …` and contains the kinds the model's `Err` names -/
theorem invalidReasons_generated :
    ["NotAuthorizedToSign", "Expired", "TooManyIntermediates", "IncompatibleUsage", "NeverValid", "IsSelfSigned"].all
      (fun r => Gen.invalidReasons.contains r) = true := by decide

/-- `buildChains` contains no name-constraint guard: the only conditions are the ones modelled. -/
theorem buildChainsGuards_generated :
    Gen.buildChainsGuards =
      ["len(currentChain)==1&&opts.Roots.Contains(c)", "len(chains)==0&&c.SelfSigned", "err!=nil",
       "!currentChain.CertificateInChain(root)", "opts.Roots.Contains(intermediate)",
       "currentChain.CertificateSubjectAndKeyInChain(intermediate)", "err!=nil", "!ok", "len(chains)>0",
       "len(chains)==0&&err==nil", "hintErr==nil"] := by decide

/-! ### ValidateWithStupidDetail -/

/-- the options `ValidateWithStupidDetail` hands to `Verify`: no key usages, no DNS name -/
def vsdOpts (opts : Opts) : Opts := { now := opts.now, keyUsages := [], dnsName := [] }

theorem vsd_total (env : Env) (c : Cert) (hostCert : C09.Cert) (opts : Opts) :
    ∃ o, validateWithStupidDetail env c hostCert opts = .ok o := by
  unfold validateWithStupidDetail
  obtain ⟨v, hv⟩ := verify_total env c hostCert (vsdOpts opts)
  simp only [vsdOpts] at hv
  rw [hv]
  simp only
  split
  · exact ⟨_, rfl⟩
  · obtain ⟨w, hw⟩ := C09.verifyHostname_total hostCert opts.dnsName
    rw [hw]
    cases w <;> exact ⟨_, rfl⟩

/-- The requested key usages do not influence `ValidateWithStupidDetail` at all. -/
theorem vsd_ignores_key_usages (env : Env) (c : Cert) (hostCert : C09.Cert) (opts : Opts) (kus : List Int) :
    validateWithStupidDetail env c hostCert { opts with keyUsages := kus } =
      validateWithStupidDetail env c hostCert opts := rfl

/-- `vsd_spec`: `ValidateWithStupidDetail` in terms of `Verify` on `vsdOpts` (result `v`) and of
    `VerifyHostname`: the chains are `v`'s CURRENT chains, `BrowserError` is `v`'s error,
    `BrowserTrusted` ⇔ that error is nil, `MatchesDomain` ⇔ a domain was given and satisfies
    `C09.HostSpec`, and the returned error is `v`'s error if there is one, else a `HostnameError`
    exactly when a domain was given and does not match. -/
theorem vsd_spec (env : Env) (c : Cert) (hostCert : C09.Cert) (opts : Opts) (v : Out) (o : VsdOut)
    (hv : verify env c hostCert (vsdOpts opts) = .ok v)
    (h : validateWithStupidDetail env c hostCert opts = .ok o) :
    o.chains = v.current ∧ o.validation.browserError = v.err ∧ o.validation.domain = opts.dnsName ∧
    (o.validation.browserTrusted = true ↔ v.err = none) ∧
    (o.validation.matchesDomain = true ↔ opts.dnsName ≠ [] ∧ C09.HostSpec hostCert opts.dnsName) ∧
    (∀ e, v.err = some e → o.err = some e) ∧
    (v.err = none → (o.err = none ∨ o.err = some .hostname) ∧
      (o.err = none ↔ (opts.dnsName = [] ∨ C09.HostSpec hostCert opts.dnsName))) := by
  unfold validateWithStupidDetail at h
  simp only [vsdOpts] at hv
  rw [hv] at h
  simp only at h
  have htr : ((match v.err with | none => true | some _ => false) = true ↔ v.err = none) := by
    cases v.err <;> simp
  split at h
  · rename_i hd
    have hd' : opts.dnsName = [] := List.length_eq_zero_iff.mp hd
    cases h
    refine ⟨rfl, rfl, rfl, htr, ?_, fun e he => he, fun hn => ⟨Or.inl hn, ?_⟩⟩
    · simp [hd']
    · simp [hn, hd']
  · rename_i hd
    have hd' : opts.dnsName ≠ [] := fun e => hd (by simp [e])
    split at h
    · rename_i hacc
      have hs := (C09.verifyHostname_iff _ _).mp hacc
      cases h
      refine ⟨rfl, rfl, rfl, htr, ?_, fun e he => he, fun hn => ⟨Or.inl hn, ?_⟩⟩
      · simp [hd', hs]
      · simp [hn, hs]
    · rename_i r hrej
      have hs : ¬ C09.HostSpec hostCert opts.dnsName := by
        intro hsp
        have := (C09.verifyHostname_iff _ _).mpr hsp
        rw [this] at hrej; cases hrej
      cases h
      refine ⟨rfl, rfl, rfl, htr, ?_, ?_, ?_⟩
      · simp [hs]
      · intro e he; simp [he]
      · intro hn
        simp [hn, hd', hs]
    · cases h
    · cases h

/-- every current chain of `Verify` is in date class 0 -/
theorem verify_current_class (env : Env) (c : Cert) (hostCert : C09.Cert) (opts : Opts) (o : Out)
    (h : verify env c hostCert opts = .ok o) : ∀ ch ∈ o.current, classOf opts.now ch = some 0 := by
  intro ch hch
  have hk := verify_error_kind env c hostCert opts o h
  by_cases h1 : (candidateChains env c).1 = []
  · rw [(hk.1 h1).2.2.1] at hch; cases hch
  · by_cases h2 : filterUsage (candidateChains env c).1 (usagesOf opts) = []
    · rw [(hk.2.1 h1 h2).2.1] at hch; cases hch
    · rw [(hk.2.2 h2).1] at hch
      simpa using (List.mem_filter.mp hch).2

/-- with no DNS name requested, a non-nil error of `Verify` means there is no current chain -/
theorem verify_err_no_current (env : Env) (c : Cert) (hostCert : C09.Cert) (opts : Opts) (o : Out)
    (h : verify env c hostCert opts = .ok o) (hd : opts.dnsName = []) (he : o.err ≠ none) : o.current = [] := by
  have hk := verify_error_kind env c hostCert opts o h
  by_cases h1 : (candidateChains env c).1 = []
  · exact (hk.1 h1).2.2.1
  · by_cases h2 : filterUsage (candidateChains env c).1 (usagesOf opts) = []
    · exact (hk.2.1 h1 h2).2.1
    · by_cases hc : o.current = []
      · exact hc
      · rcases (hk.2.2 h2).2.2.2.2.2 hc with ⟨e, _⟩ | ⟨_, e, _⟩
        · exact absurd e he
        · exact absurd hd e

/-- `vsd_sound`: every chain returned by `ValidateWithStupidDetail` is a `ValidChain` for the
    verified certificate and the supplied pools, is acceptable for ServerAuth (the requested usages
    are discarded), and is CURRENT at the verification time. -/
theorem vsd_sound (env : Env) (c : Cert) (hostCert : C09.Cert) (opts : Opts) (o : VsdOut)
    (h : validateWithStupidDetail env c hostCert opts = .ok o) :
    ∀ ch ∈ o.chains, ValidChain env c ch ∧ checkChainForKeyUsage ch [ekuServerAuth] = true ∧
      classOf opts.now ch = some 0 := by
  obtain ⟨v, hv⟩ := verify_total env c hostCert (vsdOpts opts)
  obtain ⟨e1, _⟩ := vsd_spec env c hostCert opts v o hv h
  intro ch hch
  rw [e1] at hch
  have hs := verify_sound env c hostCert (vsdOpts opts) v hv ch (by simp [hch])
  have hc := verify_current_class env c hostCert (vsdOpts opts) v hv ch hch
  refine ⟨hs.1, ?_, hc⟩
  rcases hs.2 with r | r
  · have : (usagesOf (vsdOpts opts)) = [ekuServerAuth] := rfl
    rw [this] at r
    exact absurd r (by decide)
  · exact r

/-- `vsd_nil_error`: a nil error of `ValidateWithStupidDetail` implies a returned (current, valid)
    chain, `BrowserTrusted`, and — when a domain was given — `MatchesDomain` and `C09.HostSpec`. -/
theorem vsd_nil_error (env : Env) (c : Cert) (hostCert : C09.Cert) (opts : Opts) (o : VsdOut)
    (h : validateWithStupidDetail env c hostCert opts = .ok o) (hnil : o.err = none) :
    o.chains ≠ [] ∧ o.validation.browserTrusted = true ∧
    (opts.dnsName ≠ [] → o.validation.matchesDomain = true ∧ C09.HostSpec hostCert opts.dnsName) := by
  obtain ⟨v, hv⟩ := verify_total env c hostCert (vsdOpts opts)
  obtain ⟨e1, _, _, e4, e5, e6, e7⟩ := vsd_spec env c hostCert opts v o hv h
  have hvn : v.err = none := by
    cases hve : v.err with
    | none => rfl
    | some e => have := e6 e hve; rw [hnil] at this; cases this
  refine ⟨?_, e4.mpr hvn, ?_⟩
  · rw [e1]; exact (nil_error_implies env c hostCert (vsdOpts opts) v hv hvn).1
  · intro hd
    rcases ((e7 hvn).2.mp hnil) with r | r
    · exact absurd r hd
    · exact ⟨e5.mpr ⟨hd, r⟩, r⟩

/-- `BrowserTrusted` ⇔ a chain is returned -/
theorem vsd_trusted_iff_chain (env : Env) (c : Cert) (hostCert : C09.Cert) (opts : Opts) (o : VsdOut)
    (h : validateWithStupidDetail env c hostCert opts = .ok o) :
    o.validation.browserTrusted = true ↔ o.chains ≠ [] := by
  obtain ⟨v, hv⟩ := verify_total env c hostCert (vsdOpts opts)
  obtain ⟨e1, _, _, e4, _⟩ := vsd_spec env c hostCert opts v o hv h
  rw [e4, e1]
  constructor
  · intro hn; exact (nil_error_implies env c hostCert (vsdOpts opts) v hv hn).1
  · intro hne
    cases hve : v.err with
    | none => rfl
    | some e =>
      exact absurd (verify_err_no_current env c hostCert (vsdOpts opts) v hv rfl (by rw [hve]; simp)) hne

-- the requested usages are discarded: a ClientAuth-only request is answered with a ServerAuth chain
-- whose leaf does not allow ClientAuth (true of the code: "XXX: Don't pass a KeyUsage to the Verify API")
example :
    (validateWithStupidDetail exEnv exLeaf exHost { now := 20, keyUsages := [2], dnsName := [] }).map
        (fun o => (o.chains.map (·.map (·.uid)), o.err, o.validation.browserTrusted)) = .ok ([[1, 0]], none, true) ∧
    checkChainForKeyUsage [exLeaf, exRoot] [2] = false := by decide

example : ∃ o, validateWithStupidDetail exEnv exLeaf exHost { now := 20, keyUsages := [], dnsName := [] } = .ok o ∧ o.err = none := by
  obtain ⟨o, ho⟩ := vsd_total exEnv exLeaf exHost { now := 20, keyUsages := [], dnsName := [] }
  refine ⟨o, ho, ?_⟩
  have : (validateWithStupidDetail exEnv exLeaf exHost { now := 20, keyUsages := [], dnsName := [] }).map (·.err) = .ok none := by decide
  rw [ho] at this
  simpa [Res.map] using this

/-! ### the memoised builder is NOT complete beyond depth one (counter-example, replayed on the Go code)

  PKI (harness: fixed PKI `memoSeed`, case line `c07 4611686018427387911 … 4 0 1.2.3 1500000001 _ - 0 _ …`):
  root R (0), CA B (1) issued by R, twin CAs A1 (2, expired) and A2 (3, current) with the same subject and
  key, both issued by B, leaf L (4) issued by A1/A2.  Intermediates pool in the order B, A1, A2.
  `buildChains` caches B's result `[[L,A1,B,R]]` computed below `[L,A1]` under B's pool index and re-uses
  it below `[L,A2]`: the chain `[L,A2,B,R]` — valid, acceptable for ServerAuth, current — is never
  produced; `[L,A1,B,R]` (expired) is returned TWICE and `Verify` fails with `Expired`. -/

def mCert (uid subject issuer spki skid akid : Nat) (ca self : Bool) (na : Int) : Cert :=
  { uid := uid, id := uid + 1, subject := subject, issuer := issuer, spki := spki, skid := skid, akid := akid,
    version3 := true, bcValid := ca, isCA := ca, maxPathLen := -1, kuPresent := false, kuCertSign := false,
    selfSigned := self, eku := [], unknownEku := false, notBefore := -2000, notAfter := na }
def mR : Cert := mCert 0 1 1 1 11 11 true true 5000
def mB : Cert := mCert 1 2 1 2 12 11 true false 5000
def mA1 : Cert := mCert 2 3 2 3 13 12 true false (-1000)
def mA2 : Cert := mCert 3 3 2 3 13 12 true false 5000
def mL : Cert := mCert 4 4 3 4 14 13 false false 5000
/-- real signatures: R signs R and B, B signs A1 and A2, A's key signs L -/
def mSig (a b : Cert) : Bool :=
  (a.uid = 0 && b.uid = 0) || (a.uid = 1 && b.uid = 0) || ((a.uid = 2 || a.uid = 3) && b.uid = 1) ||
  (a.uid = 4 && (b.uid = 2 || b.uid = 3))
def mEnv : Env := { roots := [mR], inters := [mB, mA1, mA2], sigOK := mSig }
def mOpts : Opts := { now := 1, keyUsages := [], dnsName := [] }

/-- the lost chain satisfies every clause of the property's sentence … -/
theorem memo_lost_chain_valid : ValidChain mEnv mL [mL, mA2, mB, mR] ∧
    checkChainForKeyUsage [mL, mA2, mB, mR] (usagesOf mOpts) = true ∧ classOf mOpts.now [mL, mA2, mB, mR] = some 0 := by
  refine ⟨?_, by decide, by decide⟩
  have p1 : Prefix mEnv mL ([mL] ++ [mA2]) mA2 :=
    Prefix.step Prefix.leaf (by simp [mEnv]) (by decide) (by decide) rfl rfl
      (by simp [PathOK, mA2, mCert, maxIntermediateCount]) (by decide)
  have p2 : Prefix mEnv mL ([mL, mA2] ++ [mB]) mB :=
    Prefix.step p1 (by simp [mEnv]) (by decide) (by decide) rfl rfl
      (by simp [PathOK, mB, mCert, maxIntermediateCount]) (by decide)
  exact ValidChain.close (cur := [mL, mA2, mB]) p2 (by simp [mEnv]) (by decide)
    (by simp [PathOK, mR, mCert, maxIntermediateCount]) (by decide)

/-- … but `Verify` does not return it: it returns the expired chain twice and the error `Expired`. -/
theorem memo_verify_expired :
    (verify mEnv mL exHost mOpts).map (fun o => (o.err, o.current, o.expired.map (·.map (·.uid)), o.never)) =
      .ok (some .expired, [], [[4, 2, 1, 0], [4, 2, 1, 0]], []) := by decide

/-- completeness of the memoised builder is FALSE: a `ValidChain` that is not among the candidates. -/
theorem memo_lost_chain : ∃ env c ch, ValidChain env c ch ∧ ch ∉ (candidateChains env c).1 :=
  ⟨mEnv, mL, [mL, mA2, mB, mR], memo_lost_chain_valid.1, by decide⟩

/-- … while with the twins in the other order the same chain IS found (order dependence). -/
example : (verify { mEnv with inters := [mB, mA2, mA1] } mL exHost mOpts).map
      (fun o => (o.err, o.current.map (·.map (·.uid)), o.expired)) = .ok (none, [[4, 3, 1, 0], [4, 3, 1, 0]], []) := by decide

/-! ### flat reading, continued: path-length limits by position, no certificate repeated -/

theorem prefix_pathOK {env leaf cur c} (h : Prefix env leaf cur c) :
    ∀ i x, 1 ≤ i → cur[i]? = some x → PathOK x i := by
  induction h with
  | leaf =>
    intro i x hi hx
    cases i with
    | zero => omega
    | succ n => simp at hx
  | @step cur0 c0 x0 hp _ _ _ _ _ hpath _ ih =>
    intro i x hi hx
    by_cases hlt : i < cur0.length
    · rw [List.getElem?_append_left hlt] at hx; exact ih i x hi hx
    · rw [List.getElem?_append_right (by omega)] at hx
      by_cases heq : i = cur0.length
      · subst heq; simp at hx; subst hx; exact hpath
      · have : i - cur0.length = (i - cur0.length - 1) + 1 := by omega
        rw [this] at hx; simp at hx

/-- "within their path-length limits": the certificate at position `i ≥ 1` of a returned chain
    (an intermediate or the root; `i - 1` intermediates lie below it) does not have a
    `MaxPathLen` (valid BasicConstraints, non-negative) smaller than `i - 1`, and `i ≤ 10`. -/
theorem validChain_pathOK {env leaf ch} (h : ValidChain env leaf ch) :
    ∀ i x, 1 ≤ i → ch[i]? = some x → PathOK x i := by
  cases h with
  | trusted _ =>
    intro i x hi hx
    cases i with
    | zero => omega
    | succ n => simp at hx
  | @close cur c0 root hp _ _ hpath _ =>
    intro i x hi hx
    by_cases hlt : i < cur.length
    · rw [List.getElem?_append_left hlt] at hx; exact prefix_pathOK hp i x hi hx
    · rw [List.getElem?_append_right (by omega)] at hx
      by_cases heq : i = cur.length
      · subst heq; simp at hx; subst hx; exact hpath
      · have : i - cur.length = (i - cur.length - 1) + 1 := by omega
        rw [this] at hx; simp at hx

/-- no two certificates of the leaf-and-intermediates part share subject and key -/
theorem prefix_no_repeat {env leaf cur c} (h : Prefix env leaf cur c) :
    cur.Pairwise (fun a b => ¬ (a.subject = b.subject ∧ a.spki = b.spki)) := by
  induction h with
  | leaf => simp
  | @step cur0 c0 x0 hp _ _ _ _ _ _ hfresh ih =>
    rw [List.pairwise_append]
    refine ⟨ih, by simp, ?_⟩
    intro a ha b hb
    simp only [List.mem_singleton] at hb; subst hb
    intro hab
    have : subjectAndKeyInChain cur0 b = true := List.any_eq_true.mpr ⟨a, ha, by simpa using hab⟩
    rw [hfresh] at this; cases this

/-- "repeats no certificate": the certificates of a returned chain are pairwise different (raw
    bytes).  `hid` says that identical raw bytes mean identical subject and key — true of parsed
    certificates (the fields are slices of `Raw`); it is needed because the code compares
    intermediates by subject+key and only the root by raw bytes. -/
theorem validChain_no_repeat {env leaf ch} (h : ValidChain env leaf ch)
    (hid : ∀ x ∈ ch, ∀ y ∈ ch, x.id = y.id → x.subject = y.subject ∧ x.spki = y.spki) :
    ch.Pairwise (fun a b => a.id ≠ b.id) := by
  cases h with
  | trusted _ => simp
  | @close cur c0 root hp _ _ _ hfresh =>
    rw [List.pairwise_append]
    refine ⟨?_, by simp, ?_⟩
    · exact List.Pairwise.imp_of_mem
        (fun {a b} ha hb hne hab => hne (hid a (by simp [ha]) b (by simp [hb]) hab)) (prefix_no_repeat hp)
    · intro a ha b hb
      simp only [List.mem_singleton] at hb; subst hb
      exact validChain_root_fresh hp hfresh a ha

example : ∀ x ∈ [exLeaf, exRoot], ∀ y ∈ [exLeaf, exRoot], x.id = y.id → x.subject = y.subject ∧ x.spki = y.spki := by decide

/-- every returned chain of `Verify`, flat: all clauses of the property's first sentence at once -/
theorem verify_chain_flat (env : Env) (c : Cert) (hostCert : C09.Cert) (opts : Opts) (o : Out)
    (h : verify env c hostCert opts = .ok o) (ch : Chain) (hch : ch ∈ o.current ++ o.expired ++ o.never) :
    ch.head? = some c ∧
    (∃ r last, ch.getLast? = some last ∧ r ∈ env.roots ∧ r.id = last.id) ∧
    (∀ a b, Adjacent a b ch → b.subject = a.issuer ∧ env.sigOK a b = true) ∧
    (∀ x ∈ (ch.drop 1).dropLast, x ∈ env.inters ∧ x.bcValid = true ∧ x.isCA = true) ∧
    (∀ i x, 1 ≤ i → ch[i]? = some x → PathOK x i) ∧
    ((∀ x ∈ ch, ∀ y ∈ ch, x.id = y.id → x.subject = y.subject ∧ x.spki = y.spki) → ch.Pairwise (fun a b => a.id ≠ b.id)) ∧
    ((usagesOf opts).any (fun u => u = ekuAny) = true ∨ UsageSpec ch (usagesOf opts)) := by
  obtain ⟨hv, hu⟩ := verify_sound env c hostCert opts o h ch hch
  refine ⟨validChain_head hv, validChain_last_root hv, validChain_links hv, validChain_intermediates hv,
    validChain_pathOK hv, validChain_no_repeat hv, ?_⟩
  rcases hu with r | r
  · exact Or.inl r
  · exact Or.inr ((checkChainForKeyUsage_spec _ _).mp r)

end ZV.C07
