import ZV.Model.C15
import ZV.Proofs.Wire
import ZV.Proofs.C15
import ZV.Generated.C15
/-!
  C15 — browser revocation sets parse faithfully and decide membership exactly.

  `listed m k x` : the parsed issuer map has a list under key `k` containing `x`.
  JSON / base64 / ASN.1-name / certificate decoding are the supplied decoded records (`Hdr`, `Rec`, `tbl`).
-/
namespace ZV.C15
open ZV.Wire

/-! ## CRLSet -/

/-- no issuer SPKI hash occurs in two blocks (duplicate blocks overwrite each other in the code) -/
def NodupIssuers (m : List (Bytes × List Nat)) : Prop := (m.map (fun b => hexStr b.1)).Nodup

/-- the issuer map a block list denotes -/
def issuerMap (m : List (Bytes × List Nat)) : List (Str × List Int) :=
  m.map (fun b => (hexStr b.1, b.2.map Int.ofNat))

/-- Parsing the encoding of header bytes and issuer blocks yields the header's decoded fields and — in general —
    the blocks folded into a map with later duplicates overwriting earlier ones. -/
theorem crlset_parse_encode_general (hdrBytes : Bytes) (h : Hdr) (m : List (Bytes × List Nat)) (bs : Bytes)
    (hj : h.jsonOk = true) (he : csEncode hdrBytes m = .ok bs) :
    csParse bs h = .ok ⟨h.sequence, h.numParents, h.blocked, addBlocks [] m⟩ := by
  simp only [csEncode] at he
  cases h1 : (varBytes (uintLE 2)).ser hdrBytes with
  | ok a =>
    cases h2 : serAll blockFmt m with
    | ok b =>
      rw [h1, h2] at he
      cases he
      -- the header part
      simp only [varBytes, uintLE] at h1
      by_cases hl : hdrBytes.length < 256 ^ 2
      · simp only [hl, if_true] at h1
        cases h1
        have hlen2 := leBytes_length 2 hdrBytes.length
        simp only [csParse, getHeader]
        have hge : ¬ ((leBytes 2 hdrBytes.length ++ hdrBytes ++ b).length < 2) := by
          simp only [List.length_append]; omega
        simp only [hge, if_false]
        have ht : (leBytes 2 hdrBytes.length ++ hdrBytes ++ b).take 2 = leBytes 2 hdrBytes.length := by
          rw [List.append_assoc, List.take_left' hlen2]
        have hd : (leBytes 2 hdrBytes.length ++ hdrBytes ++ b).drop 2 = hdrBytes ++ b := by
          rw [List.append_assoc, List.drop_left' hlen2]
        rw [ht, hd, leVal_leBytes, Nat.mod_eq_of_lt hl]
        have hge2 : ¬ ((hdrBytes ++ b).length < hdrBytes.length) := by simp
        simp only [hge2, if_false, hj, Bool.not_true, Bool.false_eq_true]
        rw [List.drop_left' rfl, parseBlocks_serAll m b [] h2]
      · simp [hl] at h1
    | err => rw [h1, h2] at he; cases he
    | panic => rw [h1, h2] at he; cases he
  | err =>
    rw [h1] at he
    cases h2 : serAll blockFmt m <;> rw [h2] at he <;> cases he
  | panic =>
    rw [h1] at he
    cases h2 : serAll blockFmt m <;> rw [h2] at he <;> cases he

/-- A well-formed CRLSet without repeated issuers parses to exactly the issuer-to-serial lists and blocked keys it encodes. -/
theorem crlset_parse_encode (hdrBytes : Bytes) (h : Hdr) (m : List (Bytes × List Nat)) (bs : Bytes)
    (hj : h.jsonOk = true) (hn : NodupIssuers m) (he : csEncode hdrBytes m = .ok bs) :
    csParse bs h = .ok ⟨h.sequence, h.numParents, h.blocked, issuerMap m⟩ := by
  rw [crlset_parse_encode_general hdrBytes h m bs hj he]
  have := addBlocks_nodup [] m (by simpa [NodupIssuers] using hn)
  simp only [List.nil_append] at this
  rw [this]; rfl

/-- Check reports a certificate exactly when its issuer SPKI hash is a blocked SPKI, or the hash has a list
    containing the serial; the entry returned carries that serial. -/
theorem crlset_check_iff (s : CRLSet) (serial : Int) (hash : Str) :
    (csCheck s serial hash).isSome = true ↔ hash ∈ s.blocked ∨ listed s.issuers hash serial := by
  unfold csCheck listed
  cases hb : s.blocked.find? (fun b => decide (b = hash)) with
  | some x =>
    have h1 := List.find?_some hb
    have h2 := List.mem_of_find?_eq_some hb
    simp only [decide_eq_true_eq] at h1
    subst h1
    simp [h2]
  | none =>
    have hnb : hash ∉ s.blocked := by
      intro hm
      simp only [List.find?_eq_none, decide_eq_true_eq] at hb
      exact hb hash hm rfl
    simp only [hnb, false_or]
    cases hg : mget s.issuers hash with
    | none => simp
    | some l => simp [findSerial_isSome]

theorem crlset_check_serial (s : CRLSet) (serial r : Int) (hash : Str) (h : csCheck s serial hash = some r) : r = serial := by
  unfold csCheck at h
  cases hb : s.blocked.find? (fun b => decide (b = hash)) with
  | some x => rw [hb] at h; simp at h; exact h.symm
  | none =>
    rw [hb] at h
    cases hg : mget s.issuers hash with
    | none => rw [hg] at h; cases h
    | some l => rw [hg] at h; exact findSerial_eq l serial r h

/-- End to end, in terms of the encoded set: after parsing the encoding of `m` (no repeated issuer), Check
    reports (serial, hash) exactly when `hash` is one of the header's blocked SPKIs or `m` has a block for
    `hash` listing the serial. -/
theorem crlset_check_encoded (hdrBytes : Bytes) (h : Hdr) (m : List (Bytes × List Nat)) (bs : Bytes) (s : CRLSet)
    (hj : h.jsonOk = true) (hn : NodupIssuers m) (he : csEncode hdrBytes m = .ok bs) (hp : csParse bs h = .ok s)
    (serial : Int) (hash : Str) :
    (csCheck s serial hash).isSome = true ↔
      hash ∈ h.blocked ∨ ∃ b ∈ m, hexStr b.1 = hash ∧ ∃ n ∈ b.2, (n : Int) = serial := by
  rw [crlset_parse_encode hdrBytes h m bs hj hn he] at hp
  cases hp
  rw [crlset_check_iff]
  simp only
  have hnod : ((issuerMap m).map (·.1)).Nodup := by
    simpa [issuerMap, NodupIssuers, List.map_map, Function.comp_def] using hn
  constructor
  · rintro (hb | ⟨l, hl, hx⟩)
    · exact Or.inl hb
    · right
      have := mget_mem _ _ _ hl
      simp only [issuerMap, List.mem_map, Prod.mk.injEq] at this
      obtain ⟨b, hbm, hk, hv⟩ := this
      subst hv
      simp only [List.mem_map] at hx
      exact ⟨b, hbm, hk, hx⟩
  · rintro (hb | ⟨b, hbm, hk, n, hn2, hs⟩)
    · exact Or.inl hb
    · right
      refine ⟨b.2.map Int.ofNat, mget_of_mem_nodup _ _ _ hnod ?_, ?_⟩
      · simp only [issuerMap, List.mem_map, Prod.mk.injEq]
        exact ⟨b, hbm, hk, rfl⟩
      · simp only [List.mem_map]
        exact ⟨n, hn2, hs⟩


/-- distinct SPKI hashes give distinct map keys (hex.EncodeToString is injective), so "no issuer occurs in two
    blocks" can be stated on the raw 32-byte hashes -/
theorem nodupIssuers_of_spki (m : List (Bytes × List Nat)) (h : (m.map (·.1)).Nodup) : NodupIssuers m := by
  unfold NodupIssuers
  induction m with
  | nil => simp
  | cons b rest ih =>
    simp only [List.map_cons, List.nodup_cons, List.mem_map, not_exists, not_and] at h ⊢
    refine ⟨?_, ih h.2⟩
    intro x hx he
    exact h.1 x hx (hexStr_inj _ _ he)

/-- `crlset_check_encoded` with the hypothesis on the raw SPKI hashes and the match on the hash bytes -/
theorem crlset_check_encoded_spki (hdrBytes : Bytes) (h : Hdr) (m : List (Bytes × List Nat)) (bs : Bytes) (s : CRLSet)
    (hj : h.jsonOk = true) (hn : (m.map (·.1)).Nodup) (he : csEncode hdrBytes m = .ok bs) (hp : csParse bs h = .ok s)
    (serial : Int) (spki : Bytes) :
    (csCheck s serial (hexStr spki)).isSome = true ↔
      hexStr spki ∈ h.blocked ∨ ∃ b ∈ m, b.1 = spki ∧ ∃ n ∈ b.2, (n : Int) = serial := by
  rw [crlset_check_encoded hdrBytes h m bs s hj (nodupIssuers_of_spki m hn) he hp]
  constructor
  · rintro (h1 | ⟨b, hb, hk, hx⟩)
    · exact Or.inl h1
    · exact Or.inr ⟨b, hb, hexStr_inj _ _ hk, hx⟩
  · rintro (h1 | ⟨b, hb, hk, hx⟩)
    · exact Or.inl h1
    · exact Or.inr ⟨b, hb, by rw [hk], hx⟩

theorem crlset_parse_no_panic (inp : Bytes) (h : Hdr) : csParse inp h ≠ .panic := by
  unfold csParse
  cases hg : getHeader inp h with
  | ok r =>
    obtain ⟨hd, rest⟩ := r
    simp only
    have := parseBlocks_noPanic rest []
    cases hp : parseBlocks rest [] <;> simp_all
  | err => simp
  | panic =>
    exfalso
    unfold getHeader at hg
    simp only at hg
    split at hg
    · cases hg
    · split at hg
      · cases hg
      · split at hg <;> cases hg

/-! ## OneCRL -/

/-- base64.StdEncoding.DecodeString inverts EncodeToString on EVERY byte string (no error, exactly the bytes):
    the OneCRL fields written by a well-behaved producer decode to what was encoded. -/
theorem b64_decode_encode (bs : Bytes) : b64Decode (b64Encode bs) = (bs, false) := b64Decode_encode bs

/-- an error of the decoder never loses what was decoded before it: the bytes returned next to an error extend …
    (the serial-number field of an entry is built from them, the error being ignored).  Stated for the shape that
    occurs in practice: a valid encoding followed by a character outside the alphabet. -/
theorem b64_decode_garbage_after (bs : Bytes) (c : UInt8) (rest : Str) (hlen : bs.length % 3 = 0)
    (hc : b64Val c = none) (hnl : isNL c = false) (hp : c ≠ 61) :
    b64Decode (b64Encode bs ++ c :: rest) = (bs, true) := by
  unfold b64Decode
  have key : ∀ (bs : Bytes) (out : Bytes), bs.length % 3 = 0 →
      b64Go (b64Encode bs ++ c :: rest) [] out = (out ++ bs, true) := by
    intro bs
    induction bs using b64Encode.induct with
    | case1 => intro out _; simp [b64Encode, b64Go, hc, hnl, hp]
    | case2 a => intro out h; simp at h
    | case3 a b => intro out h; simp at h
    | case4 a b c' rest' ih =>
      intro out h
      have ha := a.toNat_lt; have hb := b.toNat_lt; have hc' := c'.toNat_lt
      simp only [b64Encode, List.cons_append]
      rw [go_val _ _ _ _ _ (b64Val_b64Char _ (by omega)) (by simp)]
      rw [go_val _ _ _ _ _ (b64Val_b64Char _ (by omega)) (by simp)]
      rw [go_val _ _ _ _ _ (b64Val_b64Char _ (by omega)) (by simp)]
      rw [go_val3 _ _ _ _ _ (b64Val_b64Char _ (by omega)) (by simp)]
      have h' : rest'.length % 3 = 0 := by simp only [List.length_cons] at h; omega
      simp [q4, ih _ h']
  simpa using key bs [] hlen

/-- the record-to-entry mapping of Entry.UnmarshalJSON, over the raw JSON string fields -/
theorem onecrl_entry_serial (r : Rec) (ntbl : Bytes → Option Str) (iss : Str) (s : Int) :
    unmarshalEntry r ntbl = .ok (.serial iss s) ↔
      r.isNull = false ∧ (r.subject = [] ∨ r.pubKeyHash = []) ∧ (b64Decode r.issuerName).2 = false ∧
      ntbl (b64Decode r.issuerName).1 = some iss ∧ s = Int.ofNat (beVal (b64Decode r.serialNumber).1) := by
  unfold unmarshalEntry
  by_cases hn : r.isNull = true
  · simp [hn]
  · by_cases hc : (!r.subject.isEmpty && !r.pubKeyHash.isEmpty) = true
    · have hc' := (cond_iff r).mp hc
      simp only [hn, hc, Bool.false_eq_true, ↓reduceIte]
      constructor
      · intro h
        cases hd : decodePkixName r.subject ntbl with
        | ok p =>
          rw [hd] at h
          by_cases hx : (b64Decode r.pubKeyHash).2 = true <;> simp [hx] at h
        | err => rw [hd] at h; cases h
        | panic => rw [hd] at h; cases h
      · rintro ⟨_, h | h, _⟩
        · exact absurd h hc'.1
        · exact absurd h hc'.2
    · have hc' : r.subject = [] ∨ r.pubKeyHash = [] := by
        have := (not_congr (cond_iff r)).mp hc
        by_cases h1 : r.subject = []
        · exact Or.inl h1
        · by_cases h2 : r.pubKeyHash = []
          · exact Or.inr h2
          · exact absurd ⟨h1, h2⟩ this
      simp only [hn, hc, Bool.false_eq_true, ↓reduceIte]
      cases hd : decodePkixName r.issuerName ntbl with
      | ok p =>
        obtain ⟨i, raw⟩ := p
        have := (decodePkixName_ok _ _ _ _).mp hd
        dsimp only
        simp only [Res.ok.injEq, OEntry.serial.injEq]
        constructor
        · rintro ⟨h1, h2⟩
          subst h1 h2
          refine ⟨by simpa using hn, hc', by rw [this.1], ?_, rfl⟩
          rw [this.1]; exact this.2
        · rintro ⟨_, _, h3, h4, h5⟩
          rw [this.1] at h4
          simp only at h4
          rw [this.2] at h4
          cases h4
          exact ⟨rfl, h5.symm⟩
      | err =>
        simp only
        constructor
        · intro h; cases h
        · rintro ⟨_, _, h3, h4, _⟩
          have : decodePkixName r.issuerName ntbl = .ok (iss, (b64Decode r.issuerName).1) :=
            (decodePkixName_ok _ _ _ _).mpr ⟨by rw [← h3], h4⟩
          rw [this] at hd; cases hd
      | panic => exact absurd hd (decodePkixName_noPanic _ _)

theorem onecrl_entry_blocked (r : Rec) (ntbl : Bytes → Option Str) (raw pk : Bytes) :
    unmarshalEntry r ntbl = .ok (.blocked raw pk) ↔
      r.isNull = false ∧ r.subject ≠ [] ∧ r.pubKeyHash ≠ [] ∧ b64Decode r.subject = (raw, false) ∧
      (ntbl raw).isSome = true ∧ b64Decode r.pubKeyHash = (pk, false) := by
  unfold unmarshalEntry
  by_cases hn : r.isNull = true
  · simp [hn]
  · by_cases hc : (!r.subject.isEmpty && !r.pubKeyHash.isEmpty) = true
    · have hc' := (cond_iff r).mp hc
      simp only [hn, hc, Bool.false_eq_true, ↓reduceIte]
      cases hd : decodePkixName r.subject ntbl with
      | ok p =>
        obtain ⟨i, raw'⟩ := p
        have hk := (decodePkixName_ok _ _ _ _).mp hd
        simp only
        cases he : (b64Decode r.pubKeyHash).2
        · simp only [Bool.false_eq_true, if_false, Res.ok.injEq, OEntry.blocked.injEq]
          constructor
          · rintro ⟨h1, h2⟩
            subst h1 h2
            refine ⟨by simpa using hn, hc'.1, hc'.2, hk.1, by rw [hk.2]; rfl, by rw [← he]⟩
          · rintro ⟨_, _, _, h1, _, h2⟩
            rw [hk.1] at h1
            cases h1
            rw [h2]
            exact ⟨rfl, rfl⟩
        · simp only [if_true]
          constructor
          · intro h; cases h
          · rintro ⟨_, _, _, _, _, h2⟩
            rw [h2] at he; cases he
      | err =>
        simp only
        constructor
        · intro h; cases h
        · rintro ⟨_, _, _, h1, h2, _⟩
          cases ht : ntbl raw with
          | none => rw [ht] at h2; cases h2
          | some x =>
            have : decodePkixName r.subject ntbl = .ok (x, raw) := (decodePkixName_ok _ _ _ _).mpr ⟨h1, ht⟩
            rw [this] at hd; cases hd
      | panic => exact absurd hd (decodePkixName_noPanic _ _)
    · have := (not_congr (cond_iff r)).mp hc
      simp only [hn, hc, Bool.false_eq_true, ↓reduceIte]
      constructor
      · intro h
        cases hd : decodePkixName r.issuerName ntbl with
        | ok p => rw [hd] at h; cases h
        | err => rw [hd] at h; cases h
        | panic => rw [hd] at h; cases h
      · rintro ⟨_, h1, h2, _⟩
        exact absurd ⟨h1, h2⟩ this

theorem onecrl_group_listed (es : List OEntry) (acc : OneCRL) (k : Str) (x : Int) :
    listed (ocGroup es acc).issuers k x ↔ listed acc.issuers k x ∨ OEntry.serial k x ∈ es := by
  induction es generalizing acc with
  | nil => simp [ocGroup]
  | cons e rest ih =>
    cases e with
    | blocked raw pk => simp [ocGroup, ih]
    | serial iss s =>
      simp only [ocGroup, ih, listed_madd, List.mem_cons, OEntry.serial.injEq]
      constructor
      · rintro ((h | ⟨h1, h2⟩) | h)
        · exact Or.inl h
        · exact Or.inr (Or.inl ⟨h1.symm, h2⟩)
        · exact Or.inr (Or.inr h)
      · rintro (h | ⟨h1, h2⟩ | h)
        · exact Or.inl (Or.inl h)
        · exact Or.inl (Or.inr ⟨h1.symm, h2⟩)
        · exact Or.inr h

theorem onecrl_group_blocked (es : List OEntry) (acc : OneCRL) (p : Bytes × Bytes) :
    p ∈ (ocGroup es acc).blocked ↔ p ∈ acc.blocked ∨ OEntry.blocked p.1 p.2 ∈ es := by
  induction es generalizing acc with
  | nil => simp [ocGroup]
  | cons e rest ih =>
    cases e with
    | serial iss s => simp [ocGroup, ih]
    | blocked raw pk =>
      simp only [ocGroup, ih, List.mem_append, List.mem_cons, List.not_mem_nil, or_false, OEntry.blocked.injEq,
        Prod.ext_iff, or_assoc]

/-- OneCRL.Check reports a certificate exactly when the document has an entry for its (subject, key hash) or
    for its (issuer name, serial). -/
theorem onecrl_check_iff (recs : List Rec) (ntbl : Bytes → Option Str) (es : List OEntry) (c : OneCRL)
    (hu : unmarshalAll recs ntbl = .ok es) (hp : ocParse recs ntbl = .ok c)
    (issuer : Str) (serial : Int) (rawSubject spkiHash : Bytes) :
    (ocCheck c issuer serial rawSubject spkiHash).isSome = true ↔
      OEntry.blocked rawSubject spkiHash ∈ es ∨ OEntry.serial issuer serial ∈ es := by
  simp only [ocParse, hu] at hp
  cases hp
  unfold ocCheck
  cases hb : (ocGroup es ⟨[], []⟩).blocked.find? (fun b => decide (b.1 = rawSubject) && decide (b.2 = spkiHash)) with
  | some x =>
    have h1 := List.find?_some hb
    have h2 := List.mem_of_find?_eq_some hb
    simp only [Bool.and_eq_true, decide_eq_true_eq] at h1
    have := (onecrl_group_blocked es ⟨[], []⟩ x).mp h2
    simp only [List.not_mem_nil, false_or] at this
    rw [h1.1, h1.2] at this
    simp [this]
  | none =>
    have hnb : OEntry.blocked rawSubject spkiHash ∉ es := by
      intro hm
      have := (onecrl_group_blocked es ⟨[], []⟩ (rawSubject, spkiHash)).mpr (Or.inr hm)
      simp only [List.find?_eq_none, Bool.and_eq_true, decide_eq_true_eq, not_and] at hb
      exact hb _ this rfl rfl
    simp only [hnb, false_or]
    have hl := onecrl_group_listed es ⟨[], []⟩ issuer serial
    simp only [not_listed_nil, false_or] at hl
    rw [← hl]
    unfold listed
    cases hg : mget (ocGroup es ⟨[], []⟩).issuers issuer with
    | none => simp
    | some l =>
      simp only [Option.some.injEq, exists_eq_left']
      rw [← findSerial_isSome]
      cases findSerial l serial <;> simp


/-! ### OneCRL documents written by an encoder: base64 of DER names / key hashes / minimal serial bytes -/

/-- an entry of a OneCRL model: blocked (subject DER, key hash) or (issuer DER, serial) -/
inductive MEntry where
  | blocked (subjectDER keyHash : Bytes)
  | serial (issuerDER : Bytes) (serial : Nat)
  deriving DecidableEq

/-- the JSON record fields an encoder writes for an entry -/
def encRec : MEntry → Rec
  | .blocked s k => ⟨false, b64Encode s, b64Encode k, [], []⟩
  | .serial i n => ⟨false, [], [], b64Encode (natBE n), b64Encode i⟩

/-- well-formed entry: the names are DER names the ASN.1 layer accepts; a blocked entry has a non-empty subject
    and key hash (an empty one cannot be expressed: the code then reads the record as issuer/serial) -/
def MEntryOk (ntbl : Bytes → Option Str) : MEntry → Prop
  | .blocked s k => s ≠ [] ∧ k ≠ [] ∧ (ntbl s).isSome = true
  | .serial i _ => (ntbl i).isSome = true

/-- what an entry denotes in the parsed set (issuers keyed by Name.String(), as the code keys them) -/
def denote (ntbl : Bytes → Option Str) : MEntry → OEntry
  | .blocked s k => .blocked s k
  | .serial i n =>
    match ntbl i with
    | some s => .serial s (Int.ofNat n)
    | none => .serial [] (Int.ofNat n)

theorem b64Encode_ne_nil (s : Bytes) (h : s ≠ []) : b64Encode s ≠ [] := by
  intro h2
  have := b64Encode_isEmpty s
  rw [h2] at this
  cases s with
  | nil => exact h rfl
  | cons _ _ => simp at this

/-- a well-formed entry decodes to exactly what was encoded (base64 and serial bytes at byte level) -/
theorem onecrl_entry_encoded (ntbl : Bytes → Option Str) (e : MEntry) (h : MEntryOk ntbl e) :
    unmarshalEntry (encRec e) ntbl = .ok (denote ntbl e) := by
  cases e with
  | blocked s k =>
    obtain ⟨h1, h2, h3⟩ := h
    exact (onecrl_entry_blocked _ ntbl s k).mpr
      ⟨rfl, b64Encode_ne_nil s h1, b64Encode_ne_nil k h2, b64Decode_encode s, h3, b64Decode_encode k⟩
  | serial i n =>
    simp only [MEntryOk] at h
    cases ht : ntbl i with
    | none => rw [ht] at h; cases h
    | some x =>
      simp only [denote, ht]
      refine (onecrl_entry_serial _ ntbl x _).mpr ⟨rfl, Or.inl rfl, ?_, ?_, ?_⟩
      · simp only [encRec]; rw [b64Decode_encode]
      · simp only [encRec]; rw [b64Decode_encode]; exact ht
      · simp only [encRec]; rw [b64Decode_encode, beVal_natBE]

theorem onecrl_unmarshal_encoded (ntbl : Bytes → Option Str) (ms : List MEntry) (h : ∀ e ∈ ms, MEntryOk ntbl e) :
    unmarshalAll (ms.map encRec) ntbl = .ok (ms.map (denote ntbl)) := by
  induction ms with
  | nil => rfl
  | cons e rest ih =>
    simp only [List.map_cons, unmarshalAll]
    rw [onecrl_entry_encoded ntbl e (h e (by simp)), ih (fun x hx => h x (by simp [hx]))]

/-- End to end for OneCRL: after parsing the records an encoder writes for the model `ms`, Check reports a
    certificate exactly when `ms` has a blocked entry with its raw subject and key hash, or an entry whose issuer
    DER name prints as the certificate's issuer and whose serial is the certificate's. -/
theorem onecrl_check_encoded (ntbl : Bytes → Option Str) (ms : List MEntry) (c : OneCRL)
    (hok : ∀ e ∈ ms, MEntryOk ntbl e) (hp : ocParse (ms.map encRec) ntbl = .ok c)
    (issuer : Str) (serial : Int) (rawSubject spkiHash : Bytes) :
    (ocCheck c issuer serial rawSubject spkiHash).isSome = true ↔
      MEntry.blocked rawSubject spkiHash ∈ ms ∨
      ∃ i n, MEntry.serial i n ∈ ms ∧ ntbl i = some issuer ∧ Int.ofNat n = serial := by
  rw [onecrl_check_iff _ ntbl _ c (onecrl_unmarshal_encoded ntbl ms hok) hp]
  simp only [List.mem_map]
  constructor
  · rintro (⟨e, he, hd⟩ | ⟨e, he, hd⟩)
    · cases e with
      | blocked s k => simp only [denote, OEntry.blocked.injEq] at hd; rw [← hd.1, ← hd.2]; exact Or.inl he
      | serial i n => simp only [denote] at hd; split at hd <;> cases hd
    · cases e with
      | blocked s k => simp only [denote] at hd; cases hd
      | serial i n =>
        right
        have hk := hok _ he
        simp only [MEntryOk] at hk
        simp only [denote] at hd
        cases ht : ntbl i with
        | none => rw [ht] at hk; cases hk
        | some x =>
          rw [ht] at hd
          simp only [OEntry.serial.injEq] at hd
          exact ⟨i, n, he, by rw [ht, hd.1], hd.2⟩
  · rintro (h | ⟨i, n, he, ht, hs⟩)
    · exact Or.inl ⟨_, h, rfl⟩
    · right
      refine ⟨_, he, ?_⟩
      simp only [denote, ht, hs]

theorem onecrl_parse_no_panic (recs : List Rec) (ntbl : Bytes → Option Str) : ocParse recs ntbl ≠ .panic := by
  have he : ∀ r, unmarshalEntry r ntbl ≠ .panic := by
    intro r
    unfold unmarshalEntry
    split
    · simp
    · split
      · cases hd : decodePkixName r.subject ntbl with
        | ok p => simp only; split <;> simp
        | err => simp
        | panic => exact absurd hd (decodePkixName_noPanic _ _)
      · cases hd : decodePkixName r.issuerName ntbl with
        | ok p => simp
        | err => simp
        | panic => exact absurd hd (decodePkixName_noPanic _ _)
  have hall : unmarshalAll recs ntbl ≠ .panic := by
    induction recs with
    | nil => simp [unmarshalAll]
    | cons r rest ih =>
      simp only [unmarshalAll]
      cases h1 : unmarshalEntry r ntbl with
      | ok e =>
        simp only
        cases h2 : unmarshalAll rest ntbl with
        | ok es => simp
        | err => simp
        | panic => exact absurd h2 ih
      | err => simp
      | panic => exact absurd h1 (he r)
  unfold ocParse
  cases h : unmarshalAll recs ntbl with
  | ok es => simp
  | err => simp
  | panic => exact absurd h hall

/-! ## Microsoft SST -/

theorem ms_build_listed (certs : List Bytes) (tbl : Bytes → Option CertInfo) (acc d : List (Str × List Int))
    (h : msBuild certs tbl acc = .ok d) (k : Str) (x : Int) :
    listed d k x ↔ listed acc k x ∨ ∃ c ∈ certs, tbl c = some ⟨k, x⟩ := by
  induction certs generalizing acc with
  | nil => simp only [msBuild] at h; cases h; simp
  | cons c rest ih =>
    simp only [msBuild] at h
    cases ht : tbl c with
    | none => rw [ht] at h; cases h
    | some ci =>
      rw [ht] at h
      rw [ih _ h, listed_madd]
      simp only [List.mem_cons, exists_eq_or_imp, ht, Option.some.injEq]
      constructor
      · rintro ((h1 | ⟨h1, h2⟩) | h1)
        · exact Or.inl h1
        · right; left
          cases ci; simp_all
        · exact Or.inr (Or.inr h1)
      · rintro (h1 | h1 | h1)
        · exact Or.inl (Or.inl h1)
        · left; right
          cases ci; simp_all
        · exact Or.inr h1

/-- microsoft.Check reports a certificate exactly when the store holds a certificate with its issuer name and serial. -/
theorem ms_check_iff (certs : List Bytes) (tbl : Bytes → Option CertInfo) (d : List (Str × List Int))
    (h : msBuild certs tbl [] = .ok d) (issuer : Str) (serial : Int) :
    (msCheck d issuer serial).isSome = true ↔ ∃ c ∈ certs, tbl c = some ⟨issuer, serial⟩ := by
  have hl := ms_build_listed certs tbl [] d h issuer serial
  simp only [not_listed_nil, false_or] at hl
  rw [← hl]
  unfold msCheck listed
  cases hg : mget d issuer with
  | none => simp
  | some l =>
    simp only [Option.some.injEq, exists_eq_left']
    exact findSerial_isSome l serial

/-- A well-formed store (header, one certificate element per blob, end marker) parses to exactly the grouping of
    its certificates: the container loop recovers every blob, in order. -/
theorem sst_parse_encode (certs : List Bytes) (tbl : Bytes → Option CertInfo) (h : ∀ c ∈ certs, c.length < 256 ^ 4) :
    msParse (sstEncode certs) tbl = msBuild certs tbl [] := by
  unfold msParse sstEncode
  simp only [List.append_assoc]
  rw [readU32_leBytes 0 (by decide)]
  simp only
  have hm : ∀ x : Bytes, ¬ ((certMagic ++ x).length < 4) := by
    intro x; simp [certMagic]
  simp only [hm, if_false]
  have hml : certMagic.length = 4 := rfl
  rw [List.take_left' hml, List.drop_left' hml]
  have := sstLoop_encode certs [] (leBytes 8 0) h
  simp only [List.append_assoc] at this
  rw [this]
  simp


/-- A general well-formed store — property elements (any id other than 0 and 32, any format) interleaved with
    certificate elements, end marker, anything after it — parses to exactly the grouping of its certificate
    blobs in order: property elements are skipped by their declared length, nothing else is dropped or added. -/
theorem sst_parse_encode_elems (es : List SstElem) (tail : Bytes) (tbl : Bytes → Option CertInfo)
    (h : ∀ e ∈ es, SstElemOk e) :
    msParse (sstEncodeElems es tail) tbl = msBuild (sstCerts es) tbl [] := by
  unfold msParse sstEncodeElems
  rw [readU32_leBytes 0 (by decide)]
  simp only
  have hm : ∀ x : Bytes, ¬ ((certMagic ++ x).length < 4) := by
    intro x; simp [certMagic]
  simp only [hm, if_false]
  have hml : certMagic.length = 4 := rfl
  rw [List.take_left' hml, List.drop_left' hml]
  rw [sstLoop_elems es [] tail h]
  simp

theorem mem_sstCerts (es : List SstElem) (c : Bytes) : c ∈ sstCerts es ↔ ∃ e ∈ es, e.id = 32 ∧ e.value = c := by
  induction es with
  | nil => simp [sstCerts]
  | cons e rest ih =>
    simp only [sstCerts]
    by_cases h : e.id = 32
    · simp only [h, if_true, List.mem_cons, ih, exists_eq_or_imp, true_and]
      constructor
      · rintro (h1 | h1)
        · exact Or.inl h1.symm
        · exact Or.inr h1
      · rintro (h1 | h1)
        · exact Or.inl h1.symm
        · exact Or.inr h1
    · simp [h, ih]

/-- End to end for the Microsoft store: after parsing a well-formed store, Check reports a certificate exactly
    when the store has a certificate element whose certificate has that issuer name and serial. -/
theorem ms_check_encoded (es : List SstElem) (tail : Bytes) (tbl : Bytes → Option CertInfo) (d : List (Str × List Int))
    (h : ∀ e ∈ es, SstElemOk e) (hp : msParse (sstEncodeElems es tail) tbl = .ok d) (issuer : Str) (serial : Int) :
    (msCheck d issuer serial).isSome = true ↔ ∃ e ∈ es, e.id = 32 ∧ tbl e.value = some ⟨issuer, serial⟩ := by
  rw [sst_parse_encode_elems es tail tbl h] at hp
  rw [ms_check_iff _ tbl d hp]
  constructor
  · rintro ⟨c, hc, ht⟩
    obtain ⟨e, he, h32, hv⟩ := (mem_sstCerts es c).mp hc
    exact ⟨e, he, h32, by rw [hv]; exact ht⟩
  · rintro ⟨e, he, h32, ht⟩
    exact ⟨e.value, (mem_sstCerts es _).mpr ⟨e, he, h32, rfl⟩, ht⟩

/-- a store that parses holds only parsable certificates (D4: the unfixed code dereferenced nil here) -/
theorem ms_build_ok_all_parse (certs : List Bytes) (tbl : Bytes → Option CertInfo) (acc d : List (Str × List Int))
    (h : msBuild certs tbl acc = .ok d) : ∀ c ∈ certs, (tbl c).isSome = true := by
  induction certs generalizing acc with
  | nil => simp
  | cons c rest ih =>
    simp only [msBuild] at h
    cases ht : tbl c with
    | none => rw [ht] at h; cases h
    | some ci =>
      rw [ht] at h
      intro x hx
      simp only [List.mem_cons] at hx
      rcases hx with hx | hx
      · rw [hx, ht]; rfl
      · exact ih _ h x hx

/-! ## T1: the constants of the model are the constants of the source (regenerated on every run) -/

/-- the CRLSet block format of the model is built from the field widths declared in google.go -/
theorem t1_crlset_block_format :
    blockFmt = pair (bytesN Gen.spkiHashLen)
      (countList (uintLE Gen.numSerialsWidth) (piso beVal (fun n => some (natBE n)) (varBytes (uintLE Gen.serialLenWidth)))) := rfl

theorem t1_crlset_header_width : Gen.headerLenWidth = 2 := by decide

/-- magic, version, end-marker id, certificate-element id and ASN.1 encoding type compared by microsoft.parse -/
theorem t1_sst_constants :
    certMagic = Gen.sstMagic ∧ Gen.sstVersion = 0 ∧ Gen.sstEndId = 0 ∧ Gen.sstCertId = 32 ∧ Gen.sstAsn1Format = 1 := by decide

/-- the alphabet of the model's encoder is base64.StdEncoding's, value by value; so is the padding character -/
theorem t1_b64_alphabet : (∀ v, v < 64 → Gen.b64Alphabet[v]? = some (b64Char v)) ∧ Gen.b64Pad = 61 := by decide

set_option maxRecDepth 8192 in
/-- the decode map of the model accepts exactly the characters of that alphabet (all 256 byte values) … -/
theorem t1_b64_decode_map_domain :
    ∀ n, n < 256 → ((b64Val (UInt8.ofNat n)).isSome = true ↔ UInt8.ofNat n ∈ Gen.b64Alphabet) := by decide

/-- … and maps each to its index -/
theorem t1_b64_decode_map_values : ∀ v, v < 64 → (Gen.b64Alphabet[v]?).bind b64Val = some v := by decide

/-! ### non-vacuity -/
example : NodupIssuers [(List.replicate 32 1, [5, 6]), (List.replicate 32 2, [])] := by unfold NodupIssuers; decide
example : (csEncode [123, 125] [(List.replicate 32 1, []), (List.replicate 32 2, [])]).isOk = true := by decide
example : natLE 300 = [44, 1] := by
  rw [natLE]; simp; rw [natLE]; simp; rw [natLE]; simp
example : ∃ recs es, unmarshalAll recs (fun b => if b = [48, 0] then some [] else none) = .ok es ∧ es.length = 2 :=
  ⟨[⟨false, b64Encode [48, 0], b64Encode [2], [], []⟩, ⟨false, [], [], b64Encode [7], b64Encode [48, 0]⟩],
   [.blocked [48, 0] [2], .serial [] 7], by decide, rfl⟩
example : ∃ d, msBuild [[1], [2]] (fun b => if b = [1] then some ⟨[65], 5⟩ else some ⟨[66], -3⟩) [] = .ok d := ⟨_, rfl⟩

example : ∀ e ∈ [MEntry.blocked [48, 0] [2], MEntry.serial [48, 0] 300],
    MEntryOk (fun b => if b = [48, 0] then some [] else none) e := by
  intro e he
  simp only [List.mem_cons, List.not_mem_nil, or_false] at he
  rcases he with he | he <;> subst he <;> simp [MEntryOk]
example : ∀ e ∈ [SstElem.mk 3 7 [1, 2], SstElem.mk 32 1 [9]], SstElemOk e := by
  intro e he
  simp only [List.mem_cons, List.not_mem_nil, or_false] at he
  rcases he with he | he <;> subst he <;> simp [SstElemOk]
example : b64Decode (b64Encode [1, 2, 3] ++ 33 :: [65]) = ([1, 2, 3], true) :=
  b64_decode_garbage_after [1, 2, 3] 33 [65] rfl (by decide) (by decide) (by decide)
/-- the serial field ignores the base64 error: "AQID!" denotes serial 0x010203, "!" denotes serial 0 -/
example : unmarshalEntry ⟨false, [], [], [65, 81, 73, 68, 33], b64Encode [48, 0]⟩ (fun b => if b = [48, 0] then some [] else none)
    = .ok (.serial [] 66051) := by decide

end ZV.C15
