import ZV.Model.C15
import ZV.Proofs.Wire
import ZV.Proofs.C15
/-!
  C15 — browser revocation sets parse faithfully and decide membership exactly.

  `listed m k x` : the parsed issuer map has a list under key `k` containing `x`.
  JSON / base64 / ASN.1-name / certificate decoding are the supplied decoded records (`Hdr`, `Rec`, `tbl`).
-/
namespace ZV.C15
open ZV.Wire

/-! ## CRLSet -/

/-- no issuer SPKI hash occurs in two blocks (duplicate blocks overwrite each other in the code) -/
def NodupIssuers (m : List (Bytes × List Nat)) : Prop := (m.map (fun b => hexStr b.1)).Nodup

/-- the issuer map a block list denotes -/
def issuerMap (m : List (Bytes × List Nat)) : List (Str × List Int) :=
  m.map (fun b => (hexStr b.1, b.2.map Int.ofNat))

/-- Parsing the encoding of header bytes and issuer blocks yields the header's decoded fields and — in general —
    the blocks folded into a map with later duplicates overwriting earlier ones. -/
theorem crlset_parse_encode_general (hdrBytes : Bytes) (h : Hdr) (m : List (Bytes × List Nat)) (bs : Bytes)
    (hj : h.jsonOk = true) (he : csEncode hdrBytes m = .ok bs) :
    csParse bs h = .ok ⟨h.sequence, h.numParents, h.blocked, addBlocks [] m⟩ := by
  simp only [csEncode] at he
  cases h1 : (varBytes (uintLE 2)).ser hdrBytes with
  | ok a =>
    cases h2 : serAll blockFmt m with
    | ok b =>
      rw [h1, h2] at he
      cases he
      -- the header part
      simp only [varBytes, uintLE] at h1
      by_cases hl : hdrBytes.length < 256 ^ 2
      · simp only [hl, if_true] at h1
        cases h1
        have hlen2 := leBytes_length 2 hdrBytes.length
        simp only [csParse, getHeader]
        have hge : ¬ ((leBytes 2 hdrBytes.length ++ hdrBytes ++ b).length < 2) := by
          simp only [List.length_append]; omega
        simp only [hge, if_false]
        have ht : (leBytes 2 hdrBytes.length ++ hdrBytes ++ b).take 2 = leBytes 2 hdrBytes.length := by
          rw [List.append_assoc, List.take_left' hlen2]
        have hd : (leBytes 2 hdrBytes.length ++ hdrBytes ++ b).drop 2 = hdrBytes ++ b := by
          rw [List.append_assoc, List.drop_left' hlen2]
        rw [ht, hd, leVal_leBytes, Nat.mod_eq_of_lt hl]
        have hge2 : ¬ ((hdrBytes ++ b).length < hdrBytes.length) := by simp
        simp only [hge2, if_false, hj, Bool.not_true, Bool.false_eq_true]
        rw [List.drop_left' rfl, parseBlocks_serAll m b [] h2]
      · simp [hl] at h1
    | err => rw [h1, h2] at he; cases he
    | panic => rw [h1, h2] at he; cases he
  | err =>
    rw [h1] at he
    cases h2 : serAll blockFmt m <;> rw [h2] at he <;> cases he
  | panic =>
    rw [h1] at he
    cases h2 : serAll blockFmt m <;> rw [h2] at he <;> cases he

/-- A well-formed CRLSet without repeated issuers parses to exactly the issuer-to-serial lists and blocked keys it encodes. -/
theorem crlset_parse_encode (hdrBytes : Bytes) (h : Hdr) (m : List (Bytes × List Nat)) (bs : Bytes)
    (hj : h.jsonOk = true) (hn : NodupIssuers m) (he : csEncode hdrBytes m = .ok bs) :
    csParse bs h = .ok ⟨h.sequence, h.numParents, h.blocked, issuerMap m⟩ := by
  rw [crlset_parse_encode_general hdrBytes h m bs hj he]
  have := addBlocks_nodup [] m (by simpa [NodupIssuers] using hn)
  simp only [List.nil_append] at this
  rw [this]; rfl

/-- Check reports a certificate exactly when its issuer SPKI hash is a blocked SPKI, or the hash has a list
    containing the serial; the entry returned carries that serial. -/
theorem crlset_check_iff (s : CRLSet) (serial : Int) (hash : Str) :
    (csCheck s serial hash).isSome = true ↔ hash ∈ s.blocked ∨ listed s.issuers hash serial := by
  unfold csCheck listed
  cases hb : s.blocked.find? (fun b => decide (b = hash)) with
  | some x =>
    have h1 := List.find?_some hb
    have h2 := List.mem_of_find?_eq_some hb
    simp only [decide_eq_true_eq] at h1
    subst h1
    simp [h2]
  | none =>
    have hnb : hash ∉ s.blocked := by
      intro hm
      simp only [List.find?_eq_none, decide_eq_true_eq] at hb
      exact hb hash hm rfl
    simp only [hnb, false_or]
    cases hg : mget s.issuers hash with
    | none => simp
    | some l => simp [findSerial_isSome]

theorem crlset_check_serial (s : CRLSet) (serial r : Int) (hash : Str) (h : csCheck s serial hash = some r) : r = serial := by
  unfold csCheck at h
  cases hb : s.blocked.find? (fun b => decide (b = hash)) with
  | some x => rw [hb] at h; simp at h; exact h.symm
  | none =>
    rw [hb] at h
    cases hg : mget s.issuers hash with
    | none => rw [hg] at h; cases h
    | some l => rw [hg] at h; exact findSerial_eq l serial r h

/-- End to end, in terms of the encoded set: after parsing the encoding of `m` (no repeated issuer), Check
    reports (serial, hash) exactly when `hash` is one of the header's blocked SPKIs or `m` has a block for
    `hash` listing the serial. -/
theorem crlset_check_encoded (hdrBytes : Bytes) (h : Hdr) (m : List (Bytes × List Nat)) (bs : Bytes) (s : CRLSet)
    (hj : h.jsonOk = true) (hn : NodupIssuers m) (he : csEncode hdrBytes m = .ok bs) (hp : csParse bs h = .ok s)
    (serial : Int) (hash : Str) :
    (csCheck s serial hash).isSome = true ↔
      hash ∈ h.blocked ∨ ∃ b ∈ m, hexStr b.1 = hash ∧ ∃ n ∈ b.2, (n : Int) = serial := by
  rw [crlset_parse_encode hdrBytes h m bs hj hn he] at hp
  cases hp
  rw [crlset_check_iff]
  simp only
  have hnod : ((issuerMap m).map (·.1)).Nodup := by
    simpa [issuerMap, NodupIssuers, List.map_map, Function.comp_def] using hn
  constructor
  · rintro (hb | ⟨l, hl, hx⟩)
    · exact Or.inl hb
    · right
      have := mget_mem _ _ _ hl
      simp only [issuerMap, List.mem_map, Prod.mk.injEq] at this
      obtain ⟨b, hbm, hk, hv⟩ := this
      subst hv
      simp only [List.mem_map] at hx
      exact ⟨b, hbm, hk, hx⟩
  · rintro (hb | ⟨b, hbm, hk, n, hn2, hs⟩)
    · exact Or.inl hb
    · right
      refine ⟨b.2.map Int.ofNat, mget_of_mem_nodup _ _ _ hnod ?_, ?_⟩
      · simp only [issuerMap, List.mem_map, Prod.mk.injEq]
        exact ⟨b, hbm, hk, rfl⟩
      · simp only [List.mem_map]
        exact ⟨n, hn2, hs⟩

theorem crlset_parse_no_panic (inp : Bytes) (h : Hdr) : csParse inp h ≠ .panic := by
  unfold csParse
  cases hg : getHeader inp h with
  | ok r =>
    obtain ⟨hd, rest⟩ := r
    simp only
    have := parseBlocks_noPanic rest []
    cases hp : parseBlocks rest [] <;> simp_all
  | err => simp
  | panic =>
    exfalso
    unfold getHeader at hg
    simp only at hg
    split at hg
    · cases hg
    · split at hg
      · cases hg
      · split at hg <;> cases hg

/-! ## OneCRL -/

/-- the record-to-entry mapping of Entry.UnmarshalJSON -/
theorem onecrl_entry_serial (r : Rec) (iss : Str) (s : Int) :
    unmarshalEntry r = .ok (.serial iss s) ↔
      r.isNull = false ∧ (r.subjNonEmpty && r.pkhNonEmpty) = false ∧ r.issuerDec = .good iss ∧ s = Int.ofNat r.serial := by
  unfold unmarshalEntry
  cases r.isNull <;> cases hb : (r.subjNonEmpty && r.pkhNonEmpty) <;> simp
  · cases r.issuerDec <;> simp
    exact fun _ => eq_comm
  · cases r.subjDec <;> simp
    cases r.pkhDec <;> simp

theorem onecrl_entry_blocked (r : Rec) (raw pk : Bytes) :
    unmarshalEntry r = .ok (.blocked raw pk) ↔
      r.isNull = false ∧ r.subjNonEmpty = true ∧ r.pkhNonEmpty = true ∧ r.subjDec = .good raw ∧ r.pkhDec = .good pk := by
  unfold unmarshalEntry
  cases r.isNull <;> cases r.subjNonEmpty <;> cases r.pkhNonEmpty <;> simp
  · cases r.issuerDec <;> simp
  · cases r.issuerDec <;> simp
  · cases r.issuerDec <;> simp
  · cases r.subjDec <;> simp
    cases r.pkhDec <;> simp

theorem onecrl_group_listed (es : List OEntry) (acc : OneCRL) (k : Str) (x : Int) :
    listed (ocGroup es acc).issuers k x ↔ listed acc.issuers k x ∨ OEntry.serial k x ∈ es := by
  induction es generalizing acc with
  | nil => simp [ocGroup]
  | cons e rest ih =>
    cases e with
    | blocked raw pk => simp [ocGroup, ih]
    | serial iss s =>
      simp only [ocGroup, ih, listed_madd, List.mem_cons, OEntry.serial.injEq]
      constructor
      · rintro ((h | ⟨h1, h2⟩) | h)
        · exact Or.inl h
        · exact Or.inr (Or.inl ⟨h1.symm, h2⟩)
        · exact Or.inr (Or.inr h)
      · rintro (h | ⟨h1, h2⟩ | h)
        · exact Or.inl (Or.inl h)
        · exact Or.inl (Or.inr ⟨h1.symm, h2⟩)
        · exact Or.inr h

theorem onecrl_group_blocked (es : List OEntry) (acc : OneCRL) (p : Bytes × Bytes) :
    p ∈ (ocGroup es acc).blocked ↔ p ∈ acc.blocked ∨ OEntry.blocked p.1 p.2 ∈ es := by
  induction es generalizing acc with
  | nil => simp [ocGroup]
  | cons e rest ih =>
    cases e with
    | serial iss s => simp [ocGroup, ih]
    | blocked raw pk =>
      simp only [ocGroup, ih, List.mem_append, List.mem_cons, List.not_mem_nil, or_false, OEntry.blocked.injEq,
        Prod.ext_iff, or_assoc]

/-- OneCRL.Check reports a certificate exactly when the document has an entry for its (subject, key hash) or
    for its (issuer name, serial). -/
theorem onecrl_check_iff (recs : List Rec) (es : List OEntry) (c : OneCRL)
    (hu : unmarshalAll recs = .ok es) (hp : ocParse recs = .ok c)
    (issuer : Str) (serial : Int) (rawSubject spkiHash : Bytes) :
    (ocCheck c issuer serial rawSubject spkiHash).isSome = true ↔
      OEntry.blocked rawSubject spkiHash ∈ es ∨ OEntry.serial issuer serial ∈ es := by
  simp only [ocParse, hu] at hp
  cases hp
  unfold ocCheck
  cases hb : (ocGroup es ⟨[], []⟩).blocked.find? (fun b => decide (b.1 = rawSubject) && decide (b.2 = spkiHash)) with
  | some x =>
    have h1 := List.find?_some hb
    have h2 := List.mem_of_find?_eq_some hb
    simp only [Bool.and_eq_true, decide_eq_true_eq] at h1
    have := (onecrl_group_blocked es ⟨[], []⟩ x).mp h2
    simp only [List.not_mem_nil, false_or] at this
    rw [h1.1, h1.2] at this
    simp [this]
  | none =>
    have hnb : OEntry.blocked rawSubject spkiHash ∉ es := by
      intro hm
      have := (onecrl_group_blocked es ⟨[], []⟩ (rawSubject, spkiHash)).mpr (Or.inr hm)
      simp only [List.find?_eq_none, Bool.and_eq_true, decide_eq_true_eq, not_and] at hb
      exact hb _ this rfl rfl
    simp only [hnb, false_or]
    have hl := onecrl_group_listed es ⟨[], []⟩ issuer serial
    simp only [not_listed_nil, false_or] at hl
    rw [← hl]
    unfold listed
    cases hg : mget (ocGroup es ⟨[], []⟩).issuers issuer with
    | none => simp
    | some l =>
      simp only [Option.some.injEq, exists_eq_left']
      rw [← findSerial_isSome]
      cases findSerial l serial <;> simp

/-! ## Microsoft SST -/

theorem ms_build_listed (certs : List Bytes) (tbl : Bytes → Option CertInfo) (acc d : List (Str × List Int))
    (h : msBuild certs tbl acc = .ok d) (k : Str) (x : Int) :
    listed d k x ↔ listed acc k x ∨ ∃ c ∈ certs, tbl c = some ⟨k, x⟩ := by
  induction certs generalizing acc with
  | nil => simp only [msBuild] at h; cases h; simp
  | cons c rest ih =>
    simp only [msBuild] at h
    cases ht : tbl c with
    | none => rw [ht] at h; cases h
    | some ci =>
      rw [ht] at h
      rw [ih _ h, listed_madd]
      simp only [List.mem_cons, exists_eq_or_imp, ht, Option.some.injEq]
      constructor
      · rintro ((h1 | ⟨h1, h2⟩) | h1)
        · exact Or.inl h1
        · right; left
          cases ci; simp_all
        · exact Or.inr (Or.inr h1)
      · rintro (h1 | h1 | h1)
        · exact Or.inl (Or.inl h1)
        · left; right
          cases ci; simp_all
        · exact Or.inr h1

/-- microsoft.Check reports a certificate exactly when the store holds a certificate with its issuer name and serial. -/
theorem ms_check_iff (certs : List Bytes) (tbl : Bytes → Option CertInfo) (d : List (Str × List Int))
    (h : msBuild certs tbl [] = .ok d) (issuer : Str) (serial : Int) :
    (msCheck d issuer serial).isSome = true ↔ ∃ c ∈ certs, tbl c = some ⟨issuer, serial⟩ := by
  have hl := ms_build_listed certs tbl [] d h issuer serial
  simp only [not_listed_nil, false_or] at hl
  rw [← hl]
  unfold msCheck listed
  cases hg : mget d issuer with
  | none => simp
  | some l =>
    simp only [Option.some.injEq, exists_eq_left']
    exact findSerial_isSome l serial

/-- A well-formed store (header, one certificate element per blob, end marker) parses to exactly the grouping of
    its certificates: the container loop recovers every blob, in order. -/
theorem sst_parse_encode (certs : List Bytes) (tbl : Bytes → Option CertInfo) (h : ∀ c ∈ certs, c.length < 256 ^ 4) :
    msParse (sstEncode certs) tbl = msBuild certs tbl [] := by
  unfold msParse sstEncode
  simp only [List.append_assoc]
  rw [readU32_leBytes 0 (by decide)]
  simp only
  have hm : ∀ x : Bytes, ¬ ((certMagic ++ x).length < 4) := by
    intro x; simp [certMagic]
  simp only [hm, if_false]
  have hml : certMagic.length = 4 := rfl
  rw [List.take_left' hml, List.drop_left' hml]
  have := sstLoop_encode certs [] (leBytes 8 0) h
  simp only [List.append_assoc] at this
  rw [this]
  simp

/-- a store that parses holds only parsable certificates (D4: the unfixed code dereferenced nil here) -/
theorem ms_build_ok_all_parse (certs : List Bytes) (tbl : Bytes → Option CertInfo) (acc d : List (Str × List Int))
    (h : msBuild certs tbl acc = .ok d) : ∀ c ∈ certs, (tbl c).isSome = true := by
  induction certs generalizing acc with
  | nil => simp
  | cons c rest ih =>
    simp only [msBuild] at h
    cases ht : tbl c with
    | none => rw [ht] at h; cases h
    | some ci =>
      rw [ht] at h
      intro x hx
      simp only [List.mem_cons] at hx
      rcases hx with hx | hx
      · rw [hx, ht]; rfl
      · exact ih _ h x hx

/-! ### non-vacuity -/
example : NodupIssuers [(List.replicate 32 1, [5, 6]), (List.replicate 32 2, [])] := by unfold NodupIssuers; decide
example : (csEncode [123, 125] [(List.replicate 32 1, []), (List.replicate 32 2, [])]).isOk = true := by decide
example : natLE 300 = [44, 1] := by
  rw [natLE]; simp; rw [natLE]; simp; rw [natLE]; simp
example : ∃ recs es, unmarshalAll recs = .ok es ∧ es.length = 2 :=
  ⟨[⟨false, true, true, .good [1], .good [2], 0, .bad⟩, ⟨false, false, false, .bad, .bad, 7, .good [3]⟩], _, rfl, rfl⟩
example : ∃ d, msBuild [[1], [2]] (fun b => if b = [1] then some ⟨[65], 5⟩ else some ⟨[66], -3⟩) [] = .ok d := ⟨_, rfl⟩

end ZV.C15
