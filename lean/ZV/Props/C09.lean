import ZV.Model.C09
import ZV.Proofs.C09
import ZV.Proofs.C09IP
import ZV.Generated.C09
/-!
  C09 — hostname verification follows the documented matching rules.

  The model (`ZV.Model.C09`) follows `x509/verify.go` branch for branch, including
  Go's UTF-8 decoding in `for _, c := range in`, `strings.TrimSuffix/Split` and the
  standard library's `net.ParseIP` / `IP.Equal`.  Here the model is proved equal to
  a declarative specification:

  * `lower_is_bytewise`   toLowerCaseASCII = byte-wise ASCII lowering, for EVERY byte string;
  * `match_iff_spec`      matchHostnames ↔ label-wise rule (`MatchSpec`);
  * `verifyHostname_iff`  VerifyHostname accepts ↔ `HostSpec` (the property's sentence);
  * `cn_only_without_san` the common name is irrelevant when a SAN extension is present
                          (and the DNS SANs are irrelevant when it is absent);
  * `parseIP_spec`        the model of `net.ParseIP` accepts exactly the IP literals of the grammar
                          `IPLiteral` (dotted quad `DottedQuad`, IPv6 forms `V6Spec`; both defined in
                          `ZV.Proofs.C09IPv4/C09IPv6/C09IP` without reference to the model) and returns
                          exactly their value — so `verifyHostname_iff_literal` states the property's
                          sentence without mentioning `parseIP` at all;
  * `non_ip_charset`, `parse_injective_on_quads`, … the corollaries about IP literals used by the property.
-/
namespace ZV.C09

/-! ### vocabulary of the specification -/

/-- byte-wise ASCII lowering -/
def lower (s : Str) : Str := s.map lowerByte

/-- "ignoring one trailing dot": `Stripped s s'` — `s'` is `s` without its final '.', if it has one. -/
inductive Stripped : Str → Str → Prop
  | dot (q : Str) : Stripped (q ++ [dot]) q
  | same (s : Str) : (∀ q, s ≠ q ++ [dot]) → Stripped s s

/-- The documented rule: after ignoring one trailing dot on each side, both names are
    non-empty, consist of the same number of dot-separated labels, and every pattern
    label is either `*` or byte-equal to the host label at the same position.
    (`joinDot`, `DotFree`, `LabelsMatch` are defined in `ZV.Proofs.C09`; a `*` label
    matches ANY single label, the empty one included, at any position.) -/
def MatchSpec (pattern host : Str) : Prop :=
  ∃ p h pls hls, Stripped pattern p ∧ Stripped host h ∧ p ≠ [] ∧ h ≠ [] ∧
    (∀ l ∈ pls, DotFree l) ∧ (∀ l ∈ hls, DotFree l) ∧
    p = joinDot pls ∧ h = joinDot hls ∧ LabelsMatch pls hls

/-- optional brackets around an IP literal: `[m]` with `m` non-empty stands for `m`. -/
inductive Candidate : Str → Str → Prop
  | bracketed (m : Str) : m ≠ [] → Candidate (91 :: (m ++ [93])) m
  | plain (h : Str) : (∀ m, m ≠ [] → h ≠ 91 :: (m ++ [93])) → Candidate h h

/-- an IP SAN (4 or 16 bytes) denotes the parsed 16-byte address `ip`. -/
def SameAddr (ip x : List UInt8) : Prop := x = ip ∨ (x.length = 4 ∧ ip = v4InV6Prefix ++ x)

def HasSAN (c : Cert) : Prop := oidSAN ∈ c.extOids

/-- The property's sentence, with "is an IP literal" expressed through the model `parseIP` of
    `net.ParseIP`; `HostSpecLit` below says the same with the declarative grammar `IPLiteral`
    (`parseIP_spec` proves the two agree). -/
def HostSpec (c : Cert) (h : Str) : Prop :=
  ∃ cand, Candidate h cand ∧
    ((∃ ip, parseIP cand = some ip ∧ ∃ x ∈ c.ipAddresses, SameAddr ip x) ∨
     (parseIP cand = none ∧
       ((HasSAN c ∧ ∃ d ∈ c.dnsNames, MatchSpec (lower d) (lower h)) ∨
        (¬ HasSAN c ∧ MatchSpec (lower c.commonName) (lower h)))))

/-! ### toLowerCaseASCII -/

/-- For every byte string — valid UTF-8 or not — `toLowerCaseASCII` is the byte-wise map
    sending 'A'..'Z' to 'a'..'z' and leaving every other byte alone: the early return
    ("already lower case") is taken only when no byte is an upper-case letter. -/
theorem lower_is_bytewise (s : Str) : toLowerCaseASCII s = lower s := by
  unfold toLowerCaseASCII lower
  split
  · rename_i h
    exact (map_lowerByte_id s (scanLower_true s h)).symm
  · rfl

/-- the output has the same length and contains no upper-case ASCII letter. -/
theorem lower_no_upper (s : Str) : ∀ b ∈ toLowerCaseASCII s, isUpper b = false := by
  rw [lower_is_bytewise]
  intro b hb
  simp only [lower, List.mem_map] at hb
  obtain ⟨a, _, rfl⟩ := hb
  unfold lowerByte
  by_cases h : isUpper a = true
  · simp only [h, if_true]
    simp only [isUpper, Bool.and_eq_true, decide_eq_true_eq] at h
    have : (a + 32).toNat = a.toNat + 32 := by
      rw [UInt8.toNat_add]; simp; omega
    simp only [isUpper, this, Bool.and_eq_false_imp, decide_eq_true_eq, decide_eq_false_iff_not]
    omega
  · simp only [h]; simpa using h

/-! ### matchHostnames -/

theorem stripped_iff (s s' : Str) : Stripped s s' ↔ s' = trimDot s := by
  constructor
  · intro h
    cases h with
    | dot q => exact (trimDot_append_dot s').symm
    | same _ hn => exact (trimDot_no_dot s hn).symm
  · rintro rfl
    by_cases h : ∃ q, s = q ++ [dot]
    · obtain ⟨q, rfl⟩ := h
      rw [trimDot_append_dot]; exact Stripped.dot q
    · have hn : ∀ q, s ≠ q ++ [dot] := fun q hq => h ⟨q, hq⟩
      rw [trimDot_no_dot s hn]; exact Stripped.same s hn

/-- `matchHostnames` never reaches the out-of-range index. -/
theorem match_no_panic (pattern host : Str) : ∃ b, matchHostnames pattern host = .ok b := by
  unfold matchHostnames
  simp only
  split
  · exact ⟨false, rfl⟩
  · split
    · exact ⟨false, rfl⟩
    · rename_i hlen
      rcases matchParts_spec _ _ (by simpa using hlen) with ⟨e, _⟩ | ⟨e, _⟩
      · exact ⟨true, e⟩
      · exact ⟨false, e⟩

/-- `matchHostnames pattern host` returns true exactly when the label-wise rule holds. -/
theorem match_iff_spec (pattern host : Str) :
    matchHostnames pattern host = .ok true ↔ MatchSpec pattern host := by
  constructor
  · intro h
    unfold matchHostnames at h
    simp only at h
    split at h
    · cases h
    · rename_i hne
      split at h
      · cases h
      · rename_i hlen
        rcases matchParts_spec _ _ (by simpa using hlen) with ⟨_, f⟩ | ⟨e, _⟩
        · refine ⟨trimDot pattern, trimDot host, splitDot (trimDot pattern), splitDot (trimDot host),
            (stripped_iff _ _).mpr rfl, (stripped_iff _ _).mpr rfl, ?_, ?_,
            splitDot_dotFree _, splitDot_dotFree _, (joinDot_splitDot _).symm, (joinDot_splitDot _).symm, f⟩
          · intro e; exact hne (Or.inl (by simp [e]))
          · intro e; exact hne (Or.inr (by simp [e]))
        · rw [e] at h; cases h
  · rintro ⟨p, h, pls, hls, sp, sh, pne, hne, pdf, hdf, pj, hj, lm⟩
    have ep := (stripped_iff _ _).mp sp
    have eh := (stripped_iff _ _).mp sh
    have plsne : pls ≠ [] := by rintro rfl; exact pne (by simp [pj, joinDot])
    have hlsne : hls ≠ [] := by rintro rfl; exact hne (by simp [hj, joinDot])
    have e1 : splitDot (trimDot pattern) = pls := by rw [← ep, pj]; exact splitDot_joinDot pls plsne pdf
    have e2 : splitDot (trimDot host) = hls := by rw [← eh, hj]; exact splitDot_joinDot hls hlsne hdf
    unfold matchHostnames
    simp only
    have n1 : ¬ ((trimDot pattern).length = 0 ∨ (trimDot host).length = 0) := by
      rw [← ep, ← eh]
      simp only [List.length_eq_zero_iff]
      exact fun o => o.elim pne hne
    rw [if_neg n1, e1, e2, if_neg (by simpa using lm.length_eq)]
    rcases matchParts_spec pls hls lm.length_eq with ⟨e, _⟩ | ⟨_, f⟩
    · exact e
    · exact absurd lm f

/-! ### VerifyHostname -/

theorem candidate_iff (h cand : Str) : Candidate h cand ↔ cand = candidateIP h := by
  constructor
  · intro hc
    cases hc with
    | bracketed m hm =>
      unfold candidateIP
      have : (91 :: (cand ++ [93])).length ≥ 3 := by
        cases cand with
        | nil => exact absurd rfl hm
        | cons a t => simp
      have hl : (91 :: (cand ++ [93])).getLast? = some 93 := by
        rw [show (91 : UInt8) :: (cand ++ [93]) = (91 :: cand) ++ [93] from rfl, List.getLast?_concat]
      rw [if_pos ⟨this, by simp, hl⟩]
      simp
    | plain _ hn =>
      unfold candidateIP
      split
      · rename_i hc
        obtain ⟨hlen, hhd, hlast⟩ := hc
        exfalso
        cases h with
        | nil => simp at hlen
        | cons a t =>
          simp only [List.head?_cons, Option.some.injEq] at hhd
          subst hhd
          obtain ⟨ys, hys⟩ := List.getLast?_eq_some_iff.mp hlast
          cases ys with
          | nil => simp at hys
          | cons y ys' =>
            simp only [List.cons_append, List.cons.injEq] at hys
            obtain ⟨rfl, rfl⟩ := hys
            refine hn ys' ?_ rfl
            rintro rfl
            simp at hlen
      · rfl
  · rintro rfl
    unfold candidateIP
    split
    · rename_i hc
      obtain ⟨hlen, hhd, hlast⟩ := hc
      cases h with
      | nil => simp at hlen
      | cons a t =>
        simp only [List.head?_cons, Option.some.injEq] at hhd
        subst hhd
        obtain ⟨ys, hys⟩ := List.getLast?_eq_some_iff.mp hlast
        cases ys with
        | nil => simp at hys
        | cons y ys' =>
          simp only [List.cons_append, List.cons.injEq] at hys
          obtain ⟨rfl, rfl⟩ := hys
          have hm : ys' ≠ [] := by rintro rfl; simp at hlen
          have : (List.drop 1 (91 :: (ys' ++ [93]))).dropLast = ys' := by simp
          rw [this]
          exact Candidate.bracketed ys' hm
    · rename_i hc
      refine Candidate.plain h ?_
      intro m hm e
      apply hc
      subst e
      refine ⟨?_, by simp, ?_⟩
      · cases m with
        | nil => exact absurd rfl hm
        | cons a t => simp
      · rw [show (91 : UInt8) :: (m ++ [93]) = (91 :: m) ++ [93] from rfl, List.getLast?_concat]

theorem ipEqual_iff (ip x : List UInt8) (h16 : ip.length = 16) :
    ipEqual ip x = true ↔ SameAddr ip x := by
  unfold ipEqual SameAddr
  by_cases h1 : ip.length = x.length
  · simp only [h1, if_true, beq_iff_eq]
    constructor
    · intro e; exact Or.inl e.symm
    · rintro (e | ⟨e, _⟩)
      · exact e.symm
      · omega
  · simp only [h1, if_false]
    have h2 : ¬ (ip.length = 4 ∧ x.length = 16) := by omega
    simp only [h2, if_false]
    by_cases h3 : x.length = 4
    · simp only [h16, h3, and_self, if_true, Bool.and_eq_true, beq_iff_eq]
      constructor
      · rintro ⟨a, b⟩
        right
        exact ⟨trivial, by rw [← a, ← b, List.take_append_drop]⟩
      · rintro (e | ⟨_, e⟩)
        · subst e; omega
        · subst e
          simp [v4InV6Prefix]
    · simp only [h3, and_false, if_false, Bool.false_eq_true, false_iff]
      rintro (e | ⟨e, _⟩)
      · subst e; exact h1 rfl
      · exact e.elim

theorem hasSAN_iff (c : Cert) : hasSANExtension c = true ↔ HasSAN c := by
  simp [hasSANExtension, HasSAN, List.any_eq_true]

theorem matchAny_iff (lowered : Str) (ms : List Str) :
    (matchAny lowered ms = .ok true ∧ ∃ d ∈ ms, MatchSpec (lower d) lowered) ∨
    (matchAny lowered ms = .ok false ∧ ¬ ∃ d ∈ ms, MatchSpec (lower d) lowered) := by
  induction ms with
  | nil => right; simp [matchAny]
  | cons m ms ih =>
    unfold matchAny
    obtain ⟨b, hb⟩ := match_no_panic (toLowerCaseASCII m) lowered
    cases b with
    | true =>
      left
      simp only [hb, true_and]
      exact ⟨m, List.mem_cons_self, by rw [← lower_is_bytewise]; exact (match_iff_spec _ _).mp hb⟩
    | false =>
      simp only [hb]
      have hn : ¬ MatchSpec (lower m) lowered := by
        rw [← lower_is_bytewise]
        intro hs; rw [(match_iff_spec _ _).mpr hs] at hb; cases hb
      rcases ih with ⟨e, d, hd, hs⟩ | ⟨e, hs⟩
      · left; exact ⟨e, d, List.mem_cons_of_mem _ hd, hs⟩
      · right
        refine ⟨e, ?_⟩
        rintro ⟨d, hd, hsd⟩
        rcases List.mem_cons.mp hd with rfl | hd
        · exact hn hsd
        · exact hs ⟨d, hd, hsd⟩

/-- `VerifyHostname` neither panics nor fails in any other way than accept / HostnameError. -/
theorem verifyHostname_total (c : Cert) (h : Str) : ∃ v, verifyHostname c h = .ok v := by
  unfold verifyHostname
  simp only
  split
  · split <;> exact ⟨_, rfl⟩
  · split
    · rcases matchAny_iff (toLowerCaseASCII h) c.dnsNames with ⟨e, _⟩ | ⟨e, _⟩ <;> rw [e] <;> exact ⟨_, rfl⟩
    · obtain ⟨b, hb⟩ := match_no_panic (toLowerCaseASCII c.commonName) (toLowerCaseASCII h)
      rw [hb]; cases b <;> exact ⟨_, rfl⟩

/-- `VerifyHostname` accepts a host exactly when it is an IP literal (optionally
    bracketed) equal to one of the certificate's IP SANs, or — not being an IP literal —
    a DNS name that case-insensitively matches a DNS SAN label by label, the subject
    common name being consulted only when the certificate has no SAN extension. -/
theorem verifyHostname_iff (c : Cert) (h : Str) :
    verifyHostname c h = .ok .accept ↔ HostSpec c h := by
  unfold verifyHostname HostSpec
  simp only
  constructor
  · intro hv
    refine ⟨candidateIP h, (candidate_iff _ _).mpr rfl, ?_⟩
    split at hv
    · rename_i ip hip
      left
      refine ⟨ip, hip, ?_⟩
      split at hv
      · rename_i hany
        obtain ⟨x, hx, hex⟩ := List.any_eq_true.mp hany
        exact ⟨x, hx, (ipEqual_iff ip x (parseIP_length _ _ hip)).mp hex⟩
      · cases hv
    · rename_i hip
      right
      refine ⟨hip, ?_⟩
      split at hv
      · rename_i hs
        left
        refine ⟨(hasSAN_iff c).mp hs, ?_⟩
        rcases matchAny_iff (toLowerCaseASCII h) c.dnsNames with ⟨_, f⟩ | ⟨e, _⟩
        · rw [← lower_is_bytewise h]; exact f
        · rw [e] at hv; cases hv
      · rename_i hs
        right
        refine ⟨fun hh => hs ((hasSAN_iff c).mpr hh), ?_⟩
        obtain ⟨b, hb⟩ := match_no_panic (toLowerCaseASCII c.commonName) (toLowerCaseASCII h)
        cases b with
        | true => rw [← lower_is_bytewise, ← lower_is_bytewise]; exact (match_iff_spec _ _).mp hb
        | false => rw [hb] at hv; cases hv
  · rintro ⟨cand, hc, hspec⟩
    have := (candidate_iff _ _).mp hc
    subst this
    rcases hspec with ⟨ip, hip, x, hx, hsame⟩ | ⟨hip, hdns⟩
    · rw [hip]
      simp only
      have : (c.ipAddresses.any fun x => ipEqual ip x) = true :=
        List.any_eq_true.mpr ⟨x, hx, (ipEqual_iff ip x (parseIP_length _ _ hip)).mpr hsame⟩
      rw [if_pos this]
    · rw [hip]
      simp only
      rcases hdns with ⟨hs, d, hd, hm⟩ | ⟨hs, hm⟩
      · rw [if_pos ((hasSAN_iff c).mpr hs)]
        rcases matchAny_iff (toLowerCaseASCII h) c.dnsNames with ⟨e, _⟩ | ⟨_, f⟩
        · rw [e]
        · exact absurd ⟨d, hd, by rw [lower_is_bytewise]; exact hm⟩ f
      · rw [if_neg (fun hh => hs ((hasSAN_iff c).mp hh))]
        rw [← lower_is_bytewise, ← lower_is_bytewise] at hm
        rw [(match_iff_spec _ _).mpr hm]

/-- With a SAN extension present the subject common name plays no role at all … -/
theorem cn_only_without_san (c : Cert) (cn' : Str) (h : Str) (hs : HasSAN c) :
    verifyHostname { c with commonName := cn' } h = verifyHostname c h := by
  have h1 : hasSANExtension c = true := (hasSAN_iff c).mpr hs
  have h2 : hasSANExtension { c with commonName := cn' } = true := h1
  unfold verifyHostname
  simp only [h1, h2, if_true]

/-- … and without one the DNS SAN list plays none (only the common name is matched). -/
theorem dns_ignored_without_san (c : Cert) (dns' : List Str) (h : Str) (hs : ¬ HasSAN c) :
    verifyHostname { c with dnsNames := dns' } h = verifyHostname c h := by
  have h1 : hasSANExtension c = false := by
    cases e : hasSANExtension c with
    | true => exact absurd ((hasSAN_iff c).mp e) hs
    | false => rfl
  have h2 : hasSANExtension { c with dnsNames := dns' } = false := h1
  unfold verifyHostname
  simp only [h1, h2, Bool.false_eq_true, if_false]

/-- an IP literal is never matched against DNS names or the common name. -/
theorem ip_literal_only_ip_sans (c : Cert) (h : Str) (ip : List UInt8)
    (hip : parseIP (candidateIP h) = some ip) :
    verifyHostname c h = .ok .accept ↔ ∃ x ∈ c.ipAddresses, SameAddr ip x := by
  unfold verifyHostname
  simp only [hip]
  constructor
  · intro hv
    split at hv
    · rename_i hany
      obtain ⟨x, hx, hex⟩ := List.any_eq_true.mp hany
      exact ⟨x, hx, (ipEqual_iff ip x (parseIP_length _ _ hip)).mp hex⟩
    · cases hv
  · rintro ⟨x, hx, hs⟩
    rw [if_pos (List.any_eq_true.mpr ⟨x, hx, (ipEqual_iff ip x (parseIP_length _ _ hip)).mpr hs⟩)]


/-! ### net.ParseIP: the model against a declarative grammar -/

/-- An IPv4 field has one to three digits (a consequence of "no leading zero, value ≤ 255"). -/
theorem octet_length (f : Str) (v : Nat) (h : IsOctet f v) : 1 ≤ f.length ∧ f.length ≤ 3 := by
  refine ⟨?_, h.length_le⟩
  have := h.ne
  cases f with
  | nil => exact absurd rfl this
  | cons _ _ => simp

/-- IPv4, both directions: the field loop returns `[a, b, c, d]` exactly when the string is four
    decimal fields separated by '.', each without a leading zero (unless it is "0") and ≤ 255,
    with these values. -/
theorem parseIPv4Fields_spec (s : Str) (a b c d : UInt8) :
    parseIPv4Fields s = some [a, b, c, d] ↔ DottedQuad s a b c d :=
  parseIPv4Fields_iff s a b c d

/-- `net.ParseIP` on strings without ':' : the result is the IPv4-mapped form of `a.b.c.d`
    exactly when the string is the dotted quad with these values. -/
theorem parseIP_dotted_quad_iff (s : Str) (a b c d : UInt8) :
    (parseIP s = some (v4InV6Prefix ++ [a, b, c, d]) ∧ (58 : UInt8) ∉ s) ↔ DottedQuad s a b c d :=
  parseIP_v4_iff' s a b c d

/-- every dotted quad parses, to the IPv4-mapped address of its four values -/
theorem parseIP_of_dotted_quad (s : Str) (a b c d : UInt8) (h : DottedQuad s a b c d) :
    parseIP s = some (v4InV6Prefix ++ [a, b, c, d]) :=
  ((parseIP_v4_iff' s a b c d).mpr h).1

-- the side condition "no ':'" of `parseIP_dotted_quad_iff` is necessary: "::ffff:1.2.3.4" also
-- parses to the IPv4-mapped address 1.2.3.4 and is not a dotted quad
example : parseIP [58, 58, 102, 102, 102, 102, 58, 49, 46, 50, 46, 51, 46, 52] =
    some (v4InV6Prefix ++ [1, 2, 3, 4]) := by
  refine (parseIP_iff_literal _ _).mpr (Or.inr (Or.inr ⟨[], [102, 102, 102, 102, 58, 49, 46, 50, 46, 51, 46, 52],
    [], groupBytes 65535 ++ [1, 2, 3, 4], rfl, Or.inl ⟨rfl, rfl⟩, Or.inr ⟨true, ?_⟩, by decide, by decide⟩))
  exact V6Seq.cons (g := [102, 102, 102, 102]) ⟨by simp, by simp, by simp [IsHexCh], by decide⟩
    (V6Seq.quad ((parseIPv4Fields_iff _ 1 2 3 4).mp (by decide)))

/-- every IPv4 address has a dotted-quad text (and `parseIP` reads it back) -/
theorem dotted_quad_exists (a b c d : UInt8) :
    ∃ s, DottedQuad s a b c d ∧ parseIP s = some (v4InV6Prefix ++ [a, b, c, d]) := by
  obtain ⟨s, hs⟩ := DottedQuad.exists a b c d
  exact ⟨s, hs, parseIP_of_dotted_quad s a b c d hs⟩

/-- IPv6, both directions: `parseIPv6` accepts exactly the forms of `V6Spec` — eight 16-bit
    groups of one to four hex digits separated by ':', the last two optionally written as a dotted
    quad, at most one "::" standing for one or more zero groups, no zone — with exactly the bytes
    the form denotes. -/
theorem parseIPv6_spec (s : Str) (ip : List UInt8) : parseIPv6 s = some ip ↔ V6Spec s ip :=
  parseIPv6_iff s ip

/-- **`net.ParseIP`** accepts exactly the IP literals and returns exactly their value. -/
theorem parseIP_spec (s : Str) (ip : List UInt8) : parseIP s = some ip ↔ IPLiteral s ip :=
  parseIP_iff_literal s ip

/-- the grammar is unambiguous in value, and every literal denotes 16 bytes -/
theorem ipLiteral_functional (s : Str) (ip ip' : List UInt8) (h : IPLiteral s ip) (h' : IPLiteral s ip') :
    ip = ip' ∧ ip.length = 16 := by
  have e := (parseIP_iff_literal s ip).mpr h
  have e' := (parseIP_iff_literal s ip').mpr h'
  rw [e] at e'
  exact ⟨by simpa using e', parseIP_length s ip e⟩

/-- the exact result for the fully expanded eight-group form -/
theorem parseIP_eight_groups (g1 g2 g3 g4 g5 g6 g7 g8 : Str) (v1 v2 v3 v4 v5 v6 v7 v8 : Nat)
    (h1 : IsHexGroup g1 v1) (h2 : IsHexGroup g2 v2) (h3 : IsHexGroup g3 v3) (h4 : IsHexGroup g4 v4)
    (h5 : IsHexGroup g5 v5) (h6 : IsHexGroup g6 v6) (h7 : IsHexGroup g7 v7) (h8 : IsHexGroup g8 v8) :
    parseIP (g1 ++ 58 :: (g2 ++ 58 :: (g3 ++ 58 :: (g4 ++ 58 :: (g5 ++ 58 :: (g6 ++ 58 :: (g7 ++ 58 :: g8))))))) =
      some (groupBytes v1 ++ (groupBytes v2 ++ (groupBytes v3 ++ (groupBytes v4 ++ (groupBytes v5 ++
        (groupBytes v6 ++ (groupBytes v7 ++ groupBytes v8))))))) := by
  refine (parseIP_iff_literal _ _).mpr (Or.inr (Or.inl ⟨false, ?_, by simp [groupBytes]⟩))
  exact .cons h1 (.cons h2 (.cons h3 (.cons h4 (.cons h5 (.cons h6 (.cons h7 (.one h8)))))))

/-- the value of a group is a 16-bit number, so `groupBytes` loses nothing -/
theorem hexGroup_lt (g : Str) (v : Nat) (h : IsHexGroup g v) : v < 65536 :=
  h.val_lt

/-- Only hex digits, ':' and '.' occur in IP literals: a string containing any other byte
    (a zone '%', a bracket, a space, a letter beyond 'f', a non-ASCII byte …) is never one. -/
theorem non_ip_charset (s : Str) (h : ∃ x ∈ s, ¬ IPChar x) : parseIP s = none := by
  obtain ⟨x, hx, hn⟩ := h
  cases hp : parseIP s with
  | none => rfl
  | some ip => exact absurd (((parseIP_iff_literal s ip).mp hp).chars x hx) hn

/-- in particular zoned addresses are never accepted -/
theorem zone_never_ip (s : Str) (h : (37 : UInt8) ∈ s) : parseIP s = none :=
  non_ip_charset s ⟨37, h, fun hc => hc.ne_pct rfl⟩

/-- Hosts whose (bracket-stripped) text contains a byte outside `[0-9a-fA-F:.]` are decided
    by the DNS rules alone. -/
theorem verifyHostname_non_ip (c : Cert) (h : Str) (hx : ∃ x ∈ candidateIP h, ¬ IPChar x) :
    verifyHostname c h = .ok .accept ↔
      ((HasSAN c ∧ ∃ d ∈ c.dnsNames, MatchSpec (lower d) (lower h)) ∨
       (¬ HasSAN c ∧ MatchSpec (lower c.commonName) (lower h))) := by
  have hnone := non_ip_charset _ hx
  rw [verifyHostname_iff]
  constructor
  · rintro ⟨cand, hc, hspec⟩
    have := (candidate_iff _ _).mp hc
    subst this
    rcases hspec with ⟨ip, hip, _⟩ | ⟨_, hdns⟩
    · rw [hnone] at hip; cases hip
    · exact hdns
  · intro hdns
    exact ⟨candidateIP h, (candidate_iff _ _).mpr rfl, Or.inr ⟨hnone, hdns⟩⟩

/-- the text of a dotted quad is determined by its value (no leading zeros) … -/
theorem dotted_quad_text_unique (s s' : Str) (a b c d : UInt8)
    (h : DottedQuad s a b c d) (h' : DottedQuad s' a b c d) : s = s' :=
  h.text_unique h'

/-- … hence `net.ParseIP` is injective on dotted quads. -/
theorem parse_injective_on_quads (s s' : Str) (a b c d a' b' c' d' : UInt8)
    (h : DottedQuad s a b c d) (h' : DottedQuad s' a' b' c' d') (he : parseIP s = parseIP s') : s = s' := by
  rw [parseIP_of_dotted_quad s a b c d h, parseIP_of_dotted_quad s' a' b' c' d' h'] at he
  simp only [Option.some.injEq] at he
  have := List.append_cancel_left he
  simp only [List.cons.injEq, and_true] at this
  obtain ⟨rfl, rfl, rfl, rfl⟩ := this
  exact h.text_unique h'

/-- a dotted quad carries no brackets: stripping leaves it unchanged -/
theorem candidateIP_of_quad (h : Str) (a b c d : UInt8) (hq : DottedQuad h a b c d) : candidateIP h = h := by
  unfold candidateIP
  rw [if_neg]
  rintro ⟨_, hhd, _⟩
  obtain ⟨f1, f2, f3, f4, rfl, o1, _⟩ := hq
  obtain ⟨x, t, rfl, hx⟩ := o1.head_dec
  simp only [List.cons_append, List.head?_cons, Option.some.injEq] at hhd
  subst hhd
  simp [IsDec] at hx

/-- `[m]` (with `m` non-empty) is stripped to `m` -/
theorem candidateIP_bracketed (m : Str) (hm : m ≠ []) : candidateIP (91 :: (m ++ [93])) = m :=
  ((candidate_iff _ _).mp (Candidate.bracketed m hm)).symm

/-- Bracket stripping followed by IP parsing is injective on canonical dotted quads: two hosts
    (bracketed or not) whose stripped texts are dotted quads denote the same address only if the
    stripped texts are equal … -/
theorem candidate_parse_injective (h h' : Str) (a b c d a' b' c' d' : UInt8)
    (hq : DottedQuad (candidateIP h) a b c d) (hq' : DottedQuad (candidateIP h') a' b' c' d')
    (he : parseIP (candidateIP h) = parseIP (candidateIP h')) : candidateIP h = candidateIP h' :=
  parse_injective_on_quads _ _ a b c d a' b' c' d' hq hq' he

/-- … and two unbracketed dotted-quad hosts only if they are the same host string. -/
theorem host_quad_injective (h h' : Str) (a b c d a' b' c' d' : UInt8)
    (hq : DottedQuad h a b c d) (hq' : DottedQuad h' a' b' c' d')
    (he : parseIP (candidateIP h) = parseIP (candidateIP h')) : h = h' := by
  rw [candidateIP_of_quad h a b c d hq, candidateIP_of_quad h' a' b' c' d' hq'] at he
  exact parse_injective_on_quads _ _ a b c d a' b' c' d' hq hq' he

/-- The property's sentence with "IP literal" given by the declarative grammar (no model
    function of `net.ParseIP` occurs in it). -/
def HostSpecLit (c : Cert) (h : Str) : Prop :=
  ∃ cand, Candidate h cand ∧
    ((∃ ip, IPLiteral cand ip ∧ ∃ x ∈ c.ipAddresses, SameAddr ip x) ∨
     ((∀ ip, ¬ IPLiteral cand ip) ∧
       ((HasSAN c ∧ ∃ d ∈ c.dnsNames, MatchSpec (lower d) (lower h)) ∨
        (¬ HasSAN c ∧ MatchSpec (lower c.commonName) (lower h)))))

/-- `VerifyHostname` accepts exactly when the host is (optionally bracketed) an IP literal of the
    grammar whose address equals an IP SAN, or is not an IP literal and matches by the DNS rules. -/
theorem verifyHostname_iff_literal (c : Cert) (h : Str) :
    verifyHostname c h = .ok .accept ↔ HostSpecLit c h := by
  rw [verifyHostname_iff]
  unfold HostSpec HostSpecLit
  constructor
  · rintro ⟨cand, hc, hspec⟩
    refine ⟨cand, hc, ?_⟩
    rcases hspec with ⟨ip, hip, hx⟩ | ⟨hnone, hdns⟩
    · exact Or.inl ⟨ip, (parseIP_iff_literal _ _).mp hip, hx⟩
    · exact Or.inr ⟨(parseIP_none_iff _).mp hnone, hdns⟩
  · rintro ⟨cand, hc, hspec⟩
    refine ⟨cand, hc, ?_⟩
    rcases hspec with ⟨ip, hip, hx⟩ | ⟨hnone, hdns⟩
    · exact Or.inl ⟨ip, (parseIP_iff_literal _ _).mpr hip, hx⟩
    · exact Or.inr ⟨(parseIP_none_iff _).mpr hnone, hdns⟩

/-! ### the hypotheses / specifications are inhabited (non-vacuity) -/

-- "*.a" matches "b.a." : labels ["*","a"] vs ["b","a"], trailing dot of the host ignored
example : MatchSpec [42, 46, 97] [98, 46, 97, 46] :=
  ⟨[42, 46, 97], [98, 46, 97], [[42], [97]], [[98], [97]],
    Stripped.same _ (by intro q hq; have := congrArg List.getLast? hq; simp [dot] at this),
    Stripped.dot [98, 46, 97],
    by simp, by simp, by simp [DotFree, dot], by simp [DotFree, dot], rfl, rfl,
    .cons (Or.inl rfl) (.cons (Or.inr rfl) .nil)⟩

example : HasSAN { extOids := [[2, 5, 29, 15], [2, 5, 29, 17]], dnsNames := [], ipAddresses := [], commonName := [] } := by
  simp [HasSAN, oidSAN]

example : ¬ HasSAN { extOids := [[2, 5, 29, 15]], dnsNames := [], ipAddresses := [], commonName := [] } := by
  simp [HasSAN, oidSAN]

-- "[1.2.3.4]" is a bracketed IP literal
example : parseIP (candidateIP [91, 49, 46, 50, 46, 51, 46, 52, 93]) = some (v4InV6Prefix ++ [1, 2, 3, 4]) := by decide

-- "255" is an octet, "1.2.3.4" a dotted quad, "1f" a group
example : IsOctet [50, 53, 53] 255 :=
  ⟨by simp, by simp [IsDec], by simp, by decide, by decide⟩

example : DottedQuad [49, 46, 50, 46, 51, 46, 52] 1 2 3 4 :=
  ⟨[49], [50], [51], [52], rfl,
    ⟨by simp, by simp [IsDec], by simp, by decide, by decide⟩,
    ⟨by simp, by simp [IsDec], by simp, by decide, by decide⟩,
    ⟨by simp, by simp [IsDec], by simp, by decide, by decide⟩,
    ⟨by simp, by simp [IsDec], by simp, by decide, by decide⟩⟩

example : IsHexGroup [49, 102] 31 := ⟨by simp, by simp, by simp [IsHexCh], by decide⟩

-- "1::" and "::1.2.3.4" are IPv6 forms
example : V6Spec [49, 58, 58] ([0, 1] ++ List.replicate 14 0) :=
  Or.inr ⟨[49], [], [0, 1], [], rfl,
    Or.inr (V6Seq.one (v := 1) ⟨by simp, by simp, by simp [IsHexCh], by decide⟩),
    Or.inl ⟨rfl, rfl⟩, by decide, by decide⟩

example : IPLiteral [49, 46, 50, 46, 51, 46, 52] (v4InV6Prefix ++ [1, 2, 3, 4]) :=
  (parseIP_spec _ _).mp (by decide)

-- a host with a byte outside [0-9a-fA-F:.] ("a.example")
example : ∃ x ∈ candidateIP [97, 46, 101, 120], ¬ IPChar x :=
  ⟨120, by decide, by simp [IPChar, IsHexCh]⟩

example : DottedQuad (candidateIP [91, 49, 46, 50, 46, 51, 46, 52, 93]) 1 2 3 4 :=
  (parseIPv4Fields_spec _ 1 2 3 4).mp (by decide)


/-! ### the error VALUE: which `HostnameError.Host` is returned, and what `Error()` prints -/

/-- the `Host` field VerifyHostname stores in its HostnameError: the bracket-stripped text for an
    IP literal, the host as given otherwise. -/
def rejHost (h : Str) : Str :=
  match parseIP (candidateIP h) with
  | some _ => candidateIP h
  | none => h

/-- Every call ends in exactly one of two ways: `nil`, or `HostnameError{c, rejHost h}` — no other
    error kind, no other `Host` value (in particular never the lowered host). -/
theorem verdict_dichotomy (c : Cert) (h : Str) :
    verifyHostname c h = .ok .accept ∨ verifyHostname c h = .ok (.reject (rejHost h)) := by
  unfold verifyHostname rejHost
  cases hp : parseIP (candidateIP h) with
  | some ip =>
    simp only [hp]
    split
    · exact Or.inl rfl
    · exact Or.inr rfl
  | none =>
    simp only [hp]
    split
    · rcases matchAny_iff (toLowerCaseASCII h) c.dnsNames with ⟨e, _⟩ | ⟨e, _⟩ <;> rw [e]
      · exact Or.inl rfl
      · exact Or.inr rfl
    · obtain ⟨b, hb⟩ := match_no_panic (toLowerCaseASCII c.commonName) (toLowerCaseASCII h)
      rw [hb]; cases b
      · exact Or.inr rfl
      · exact Or.inl rfl

/-- the error is returned exactly when the documented rule fails, and it carries `rejHost h`. -/
theorem reject_iff (c : Cert) (h x : Str) :
    verifyHostname c h = .ok (.reject x) ↔ ¬ HostSpec c h ∧ x = rejHost h := by
  rw [← verifyHostname_iff]
  rcases verdict_dichotomy c h with e | e
  · rw [e]; simp
  · rw [e]
    constructor
    · intro hh
      simp only [Res.ok.injEq, Verdict.reject.injEq] at hh
      exact ⟨by simp, hh.symm⟩
    · rintro ⟨_, hx⟩; rw [hx]

/-- a bracketed host that is not `[IP literal]` is not an IP literal as a whole either … -/
theorem parseIP_none_of_candidate (h : Str) (hn : parseIP (candidateIP h) = none) : parseIP h = none := by
  unfold candidateIP at hn
  split at hn
  · rename_i hc
    obtain ⟨_, hh, _⟩ := hc
    cases h with
    | nil => cases hh
    | cons a t =>
      simp only [List.head?_cons, Option.some.injEq] at hh
      subst hh
      refine non_ip_charset _ ⟨91, List.mem_cons_self, ?_⟩
      intro hc
      rcases hc with hx | hx | hx
      · revert hx; simp [IsHexCh]
      · exact absurd hx (by decide)
      · exact absurd hx (by decide)
  · exact hn

/-- … hence `HostnameError.Error()` (which re-parses the stored `Host`) takes its IP branch exactly
    when `VerifyHostname` took its IP branch: message and decision never disagree about the kind of host. -/
theorem error_branch_consistent (h : Str) :
    (parseIP (rejHost h)).isSome = (parseIP (candidateIP h)).isSome := by
  unfold rejHost
  cases hp : parseIP (candidateIP h) with
  | some ip => simp only [hp]
  | none => simp only [parseIP_none_of_candidate h hp]

/-- the three message forms of `Error()`, for ALL certificates and hosts: IP host without IP SANs;
    otherwise `valid` = the IP SAN texts / the DNS SANs joined by ", " (SAN extension present) / the
    common name (absent), and "not valid for any names" exactly when `valid` is empty. -/
theorem errorMsg_forms (c : Cert) (host : Str) (ipStrs : List Str) :
    hostnameErrorMsg c host ipStrs =
      if (parseIP host).isSome ∧ c.ipAddresses = [] then msgCannot ++ host ++ msgNoIPSANs
      else
        let valid := if (parseIP host).isSome then joinValid [] ipStrs
                     else if oidSAN ∈ c.extOids then joinComma c.dnsNames else c.commonName
        if valid = [] then msgNoNames ++ host else msgValidFor ++ valid ++ msgNot ++ host := by
  unfold hostnameErrorMsg msgTail
  have hs : hasSANExtension c = true ↔ oidSAN ∈ c.extOids := hasSAN_iff c
  cases hp : parseIP host with
  | some ip =>
    cases hi : c.ipAddresses with
    | nil => simp
    | cons a t => simp [List.length_eq_zero_iff]
  | none =>
    by_cases hh : hasSANExtension c = true
    · simp [hh, hs.mp hh, List.length_eq_zero_iff]
    · have : oidSAN ∉ c.extOids := fun hm => hh (hs.mpr hm)
      simp [hh, this, List.length_eq_zero_iff]

/-- the SAN-suppresses-CN rule also governs the message: with a SAN extension the common name never
    appears in it, without one the DNS SANs never do. -/
theorem errorMsg_cn_irrelevant_with_san (c : Cert) (cn' host : Str) (ipStrs : List Str) (hs : HasSAN c) :
    hostnameErrorMsg { c with commonName := cn' } host ipStrs = hostnameErrorMsg c host ipStrs := by
  have h1 : hasSANExtension c = true := (hasSAN_iff c).mpr hs
  have h2 : hasSANExtension { c with commonName := cn' } = true := h1
  unfold hostnameErrorMsg
  rw [h1, h2]
  rfl

theorem errorMsg_dns_irrelevant_without_san (c : Cert) (dns' : List Str) (host : Str) (ipStrs : List Str)
    (hs : ¬ HasSAN c) :
    hostnameErrorMsg { c with dnsNames := dns' } host ipStrs = hostnameErrorMsg c host ipStrs := by
  have h1 : hasSANExtension c = false := by
    cases h : hasSANExtension c with
    | false => rfl
    | true => exact absurd ((hasSAN_iff c).mp h) hs
  have h2 : hasSANExtension { c with dnsNames := dns' } = false := h1
  unfold hostnameErrorMsg
  rw [h1, h2]
  simp

/-- `strings.Join` semantics of the IP loop: with non-empty texts (net.IP.String never returns "")
    the `len(valid) > 0` test is the usual separator rule. -/
theorem joinValid_eq_joinComma (l : List Str) (hne : ∀ s ∈ l, s ≠ []) : joinValid [] l = joinComma l := by
  have key : ∀ (l : List Str) (v : Str), v ≠ [] → (∀ s ∈ l, s ≠ []) →
      joinValid v l = v ++ (if l = [] then [] else commaSp ++ joinComma l) := by
    intro l
    induction l with
    | nil => intro v _ _; simp [joinValid]
    | cons a t ih =>
      intro v hv hl
      have ha : a ≠ [] := hl a List.mem_cons_self
      have hvl : v.length > 0 := List.length_pos_iff.mpr hv
      simp only [joinValid, hvl, if_true]
      rw [ih _ (by simp [hv]) (fun s hs => hl s (List.mem_cons_of_mem _ hs))]
      cases t with
      | nil => simp [joinComma]
      | cons b t' => simp [joinComma, List.append_assoc]
  cases l with
  | nil => rfl
  | cons a t =>
    have ha : a ≠ [] := hne a List.mem_cons_self
    simp only [joinValid, List.length_nil, gt_iff_lt, Nat.lt_irrefl, if_false, List.nil_append]
    rw [key t a ha (fun s hs => hne s (List.mem_cons_of_mem _ hs))]
    cases t with
    | nil => simp [joinComma]
    | cons b t' => simp [joinComma]

/-! ### T1: every constant of the model equals the value extracted from the current source -/

/-- `hasSANExtension` names `oidExtensionSubjectAltName`, whose current value is the model's `oidSAN` -/
theorem oidSAN_generated :
    ZV.Generated.C09.sanOidName = "oidExtensionSubjectAltName" ∧ ZV.Generated.C09.sanOid = oidSAN := by decide

/-- VerifyHostname's literals: `len(h) >= 3`, `h[0] == '['`, `h[len(h)-1] == ']'`, `h[1 : len(h)-1]` -/
theorem verifyHostname_lits_generated :
    ZV.Generated.C09.verifyHostnameLits =
      [("int", [3]), ("int", [0]), ("char", [91]), ("int", [1]), ("char", [93]), ("int", [1]), ("int", [1])] := by decide

/-- matchHostnames' literals: TrimSuffix ".", Split ".", wildcard label "*" (the model's `dot`, `star`) -/
theorem matchHostnames_lits_generated :
    ZV.Generated.C09.matchHostnamesLits =
      [("string", [dot.toNat]), ("string", [dot.toNat]), ("int", [0]), ("int", [0]),
       ("string", [dot.toNat]), ("string", [dot.toNat]), ("string", [star.toNat])] := by decide

/-- toLowerCaseASCII's literals: 'A' 'Z' (twice) and the offset 'a' - 'A' = 32 used by `lowerByte` -/
theorem toLowerCaseASCII_lits_generated :
    ZV.Generated.C09.toLowerCaseASCIILits =
      [("char", [65]), ("char", [90]), ("char", [65]), ("char", [90]), ("char", [97]), ("char", [65])] ∧
    (∀ b : UInt8, isUpper b = (decide (65 ≤ b.toNat) && decide (b.toNat ≤ 90))) ∧ (97 - 65 = 32) := by
  refine ⟨by decide, fun b => rfl, rfl⟩

/-- the message templates of `HostnameError.Error` are the model's -/
theorem hostnameError_lits_generated :
    ZV.Generated.C09.hostnameErrorLits =
      [("int", [0]), ("string", msgCannot.map (·.toNat)), ("string", msgNoIPSANs.map (·.toNat)), ("int", [0]),
       ("string", commaSp.map (·.toNat)), ("string", commaSp.map (·.toNat)), ("int", [0]),
       ("string", msgNoNames.map (·.toNat)), ("string", msgValidFor.map (·.toNat)), ("string", msgNot.map (·.toNat))] := by
  decide

/-- standard library constants used by the model of IP.Equal / ParseIP -/
theorem stdlib_ip_generated :
    ZV.Generated.C09.v4InV6Prefix = v4InV6Prefix.map (·.toNat) ∧
    ZV.Generated.C09.ipv4len = 4 ∧ ZV.Generated.C09.ipv6len = 16 := by decide

-- "[1.2.3.4]" is rejected with Host "1.2.3.4" by a certificate without IP SANs; "[x]" with Host "[x]"
example : verifyHostname { extOids := [], dnsNames := [], ipAddresses := [], commonName := [] }
    [91, 49, 46, 50, 46, 51, 46, 52, 93] = .ok (.reject [49, 46, 50, 46, 51, 46, 52]) := by decide
example : rejHost [91, 120, 93] = [91, 120, 93] := by decide
example : parseIP (candidateIP [91, 120, 93]) = none := by decide
example : ∀ s ∈ [[49, 46, 50, 46, 51, 46, 52], [58, 58, 49]], s ≠ ([] : Str) := by decide

end ZV.C09
