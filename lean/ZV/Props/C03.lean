import ZV.Model.C03
import ZV.Props.C23
/-!
  C03 — signature verification accepts exactly the genuine signatures.

  T1 (generated tables, `decide` over the whole table):
  * `sign_verify_agree`: for every (creation API, requested algorithm, key type) the API accepts, the scheme it
    REALLY asks the signer for (PKCS #1 v1.5 / PSS, hash — recorded at run time) is the scheme
    `CheckSignatureFromKey` checks for the algorithm identifier written into the object (D7 broke this row:
    (CreateCertificateRequest, *WithRSAPSS)).
  * `details_consistent`, `pss_algos_total`, `der_trailing_uniform` (D18).
  Universal theorems about the model:
  * `derArm_accept_iff`, `csfk_der_accept`: a DSA/ECDSA signature is accepted only if it parses as
    SEQUENCE{r,s} with nothing after S inside or after the SEQUENCE (D18/D19), r,s > 0 and the primitive accepts.
  * `dsa_range`: `dsa.Verify` accepts only 0 < r,s < q.
  * `csfk_rsa_pkcs1` (hash binding) and, through C23, `csfk_rsa_unique`, `csfk_rsa_message_binding`.
  * `csfk_unsupported`.
-/
namespace ZV.C03
open ZV ZV.Hash

/-! ### T1 -/

/-- what `CheckSignatureFromKey` checks for algorithm `a` on a key of kind `kt`: (PSS?, hash id) -/
def verifyScheme (kt : String) (a : Nat) : Option (Bool × Nat) :=
  match algoHash a with
  | some (some h) => some ((kt == "rsa") && isPSS a, h)
  | _ => none

def keyFamily (kt : String) : String :=
  if kt == "rsa" then "RSA" else if kt == "ed25519" then "Ed25519" else "ECDSA"

def detailsFamily (a : Nat) : Option String := (Gen.C03.x509Details.find? (fun r => r.1 == a)).map (·.2.1)

/-- every object a creation API agrees to sign is signed with exactly the scheme its own verifier
    will check for the algorithm identifier written into it, and that identifier belongs to the key's family. -/
theorem sign_verify_agree :
    (Gen.C03.signRows.all fun r =>
      verifyScheme r.2.2.1 r.2.2.2.1 == some (r.2.2.2.2.1, r.2.2.2.2.2) &&
      detailsFamily r.2.2.2.1 == some (keyFamily r.2.2.1)) = true := by
  decide

/-- the sweep behind `sign_verify_agree` is not empty: every API accepts at least the default algorithm
    for every key type it supports, and the three RSA-PSS algorithms are accepted by the certificate, CSR and
    revocation-list APIs. -/
theorem sign_rows_cover :
    ((["cert", "csr", "rl"].all fun api => [13, 14, 15].all fun a =>
        Gen.C03.signRows.any fun r => r.1 == api && r.2.1 == a && r.2.2.1 == "rsa") &&
     (["cert", "csr", "crl", "rl", "ocsp"].all fun api =>
        Gen.C03.signRows.any fun r => r.1 == api && r.2.1 == 0)) = true := by
  decide

/-- both signatureAlgorithmDetails tables (x509, ocsp) name the hash the verifier's switch uses. -/
theorem details_consistent :
    ((Gen.C03.x509Details ++ Gen.C03.ocspDetails).all fun r =>
      r.2.2 == 0 || algoHash r.1 == some (some r.2.2)) = true := by
  decide

/-- every RSA-PSS algorithm has a hash the model (and `crypto.Hash.New`) implements: the `.panic` branch
    of the RSA arm is unreachable. -/
theorem pss_algos_total :
    (Gen.C03.pssAlgos.all fun a => match algoHash a with
      | some (some h) => (C23.hashAlg h).isSome && detailsFamily a == some "RSA"
      | _ => false) = true := by
  decide

/-- all three DER-coded arms of the key-type switch reject bytes after the signature (D18). -/
theorem der_trailing_uniform :
    rejectsTrailing "*dsa.PublicKey" = true ∧ rejectsTrailing "*ecdsa.PublicKey" = true ∧
    rejectsTrailing "*AugmentedECDSA" = true := by
  decide

/-! ### the DER arms -/

theorem derArm_accept_iff (arm : String) (sig : Bytes) (prim : Int → Int → Bool) :
    derArm arm sig prim = .ok () ↔
      ∃ r s rest, parseSig sig = some (r, s, rest) ∧ (rejectsTrailing arm = true → rest = []) ∧
        0 < r ∧ 0 < s ∧ prim r s = true := by
  unfold derArm
  cases hp : parseSig sig with
  | none => simp
  | some v =>
    obtain ⟨r, s, rest⟩ := v
    simp only [Option.some.injEq, Prod.mk.injEq]
    constructor
    · intro h
      split at h
      · contradiction
      · next h1 =>
        split at h
        · contradiction
        · next h2 =>
          split at h
          · next h3 =>
            refine ⟨r, s, rest, ⟨rfl, rfl, rfl⟩, ?_, by omega, by omega, h3⟩
            intro ht
            simp [ht] at h1
            exact h1
          · contradiction
    · rintro ⟨r', s', rest', ⟨rfl, rfl, rfl⟩, ht, hr, hs, hpr⟩
      have h1 : ¬ ((rejectsTrailing arm && rest.length != 0) = true) := by
        intro h
        simp at h
        exact h.2 (ht h.1)
      rw [if_neg h1, if_neg (by omega), if_pos hpr]

/-- `parseSig` succeeds only on `30 len (02 len R) (02 len S)` with NOTHING left inside the SEQUENCE after S
    (D19), and returns the bytes after the SEQUENCE untouched. -/
theorem parseSig_shape {sig : Bytes} {r s : Int} {rest : Bytes} (h : parseSig sig = some (r, s, rest)) :
    ∃ inner rc in2 sc, parseTLV 0x30 sig = some (inner, rest) ∧ parseTLV 0x02 inner = some (rc, in2) ∧
      parseTLV 0x02 in2 = some (sc, []) ∧ parseBigInt rc = some r ∧ parseBigInt sc = some s := by
  unfold parseSig at h
  split at h <;> try contradiction
  next inner rest' h0 =>
  split at h <;> try contradiction
  next rc in2 h1 =>
  split at h <;> try contradiction
  next r' h2 =>
  split at h <;> try contradiction
  next sc in3 h3 =>
  split at h <;> try contradiction
  next s' h4 =>
  split at h
  · contradiction
  · next h5 =>
    have := Option.some.inj h
    simp only [Prod.mk.injEq] at this
    obtain ⟨rfl, rfl, rfl⟩ := this
    have h6 : in3 = [] := by
      have : in3.length = 0 := by simpa using h5
      exact List.length_eq_zero_iff.1 this
    subst h6
    exact ⟨inner, rc, in2, sc, h0, h1, h3, h2, h4⟩

/-- an accepted DSA / ECDSA signature (either Go key type) has no trailing bytes, positive r and s, and the
    primitive accepted the parsed pair. -/
theorem csfk_der_accept {key : Key} {algo : Nat} {signed sig : Bytes} {o : Bool}
    (hk : key = .ecdsa ∨ key = .augEcdsa)
    (h : checkSignatureFromKey key algo signed sig o = .ok ()) :
    o = true ∧ ∃ r s, parseSig sig = some (r, s, []) ∧ 0 < r ∧ 0 < s := by
  unfold checkSignatureFromKey at h
  split at h <;> try contradiction
  split at h <;> try contradiction
  rcases hk with rfl | rfl
  · simp only [dispatchKey] at h
    obtain ⟨r, s, rest, hp, ht, hr, hs, ho⟩ := (derArm_accept_iff _ _ _).1 h
    have := ht der_trailing_uniform.2.1
    subst this
    exact ⟨ho, r, s, hp, hr, hs⟩
  · simp only [dispatchKey] at h
    obtain ⟨r, s, rest, hp, ht, hr, hs, ho⟩ := (derArm_accept_iff _ _ _).1 h
    have := ht der_trailing_uniform.2.2
    subst this
    exact ⟨ho, r, s, hp, hr, hs⟩

/-! ### DSA -/

/-- `dsa.Verify` accepts only 0 < r < q and 0 < s < q. -/
theorem dsa_range {p q g y : Nat} {hash : Bytes} {r s : Int} (h : dsaVerify p q g y hash r s = true) :
    0 < r ∧ r < q ∧ 0 < s ∧ s < q := by
  unfold dsaVerify at h
  split at h
  · contradiction
  · split at h
    · contradiction
    · next hr =>
      split at h
      · contradiction
      · next hs => omega

theorem csfk_dsa_accept {p q g y algo : Nat} {signed sig : Bytes} {o : Bool}
    (h : checkSignatureFromKey (.dsa p q g y) algo signed sig o = .ok ()) :
    ∃ r s, parseSig sig = some (r, s, []) ∧ 0 < r ∧ r < q ∧ 0 < s ∧ s < q := by
  unfold checkSignatureFromKey at h
  split at h <;> try contradiction
  split at h <;> try contradiction
  simp only [dispatchKey] at h
  obtain ⟨r, s, rest, hp, ht, _, _, ho⟩ := (derArm_accept_iff _ _ _).1 h
  have := ht der_trailing_uniform.1
  subst this
  exact ⟨r, s, hp, dsa_range ho⟩

/-! ### RSA: reduction to the C23 verifier -/

/-- hash binding: for a PKCS #1 v1.5 algorithm the verdict on an RSA key is the C23 verifier's verdict on
    the digest of the signed bytes — the signed bytes matter only through their digest. -/
theorem csfk_rsa_pkcs1 {pub : C23.Pub} {algo h : Nat} {ha : HashAlg} (signed sig : Bytes) (o : Bool)
    (halgo : algoHash algo = some (some h)) (hh : h ≠ 0) (hha : C23.hashAlg h = some ha)
    (hpss : isPSS algo = false) :
    checkSignatureFromKey (.rsa pub) algo signed sig o = C23.verifyPKCS1v15 pub h (ha.hash signed) sig := by
  unfold checkSignatureFromKey
  rw [halgo]
  simp [digestOf, dispatchKey, hh, hha, hpss]

/-- at most one signature is accepted per (key, algorithm, message) when the public operation is injective
    (which `C23.rsa_injective` proves for every valid key). -/
theorem csfk_rsa_unique {pub : C23.Pub} {algo h n e : Nat} {ha : HashAlg} {signed s₁ s₂ : Bytes} {o₁ o₂ : Bool}
    (halgo : algoHash algo = some (some h)) (hh : h ≠ 0) (hha : C23.hashAlg h = some ha)
    (hpss : isPSS algo = false) (hpub : C23.checkPub pub = .ok (n, e)) (hinj : C23.RsaInj n e)
    (h1 : checkSignatureFromKey (.rsa pub) algo signed s₁ o₁ = .ok ())
    (h2 : checkSignatureFromKey (.rsa pub) algo signed s₂ o₂ = .ok ()) : s₁ = s₂ := by
  rw [csfk_rsa_pkcs1 signed s₁ o₁ halgo hh hha hpss] at h1
  rw [csfk_rsa_pkcs1 signed s₂ o₂ halgo hh hha hpss] at h2
  exact C23.pkcs1_unique hpub hinj h1 h2

/-- a signature accepted for two messages forces a digest collision (for a hash with fixed output length). -/
theorem csfk_rsa_message_binding {pub : C23.Pub} {algo h : Nat} {ha : HashAlg} {m₁ m₂ sig : Bytes} {o₁ o₂ : Bool}
    (halgo : algoHash algo = some (some h)) (hh : h ≠ 0) (hha : C23.hashAlg h = some ha)
    (hpss : isPSS algo = false) (hlen : ∀ x, (ha.hash x).length = ha.outSize)
    (h1 : checkSignatureFromKey (.rsa pub) algo m₁ sig o₁ = .ok ())
    (h2 : checkSignatureFromKey (.rsa pub) algo m₂ sig o₂ = .ok ()) : ha.hash m₁ = ha.hash m₂ := by
  rw [csfk_rsa_pkcs1 m₁ sig o₁ halgo hh hha hpss] at h1
  rw [csfk_rsa_pkcs1 m₂ sig o₂ halgo hh hha hpss] at h2
  exact C23.pkcs1_digest_binding (by rw [hlen, hlen]) h1 h2

/-- algorithms outside the switch (Unknown, values ≥ 17) and MD2WithRSA are rejected for every key. -/
theorem csfk_unsupported (key : Key) (algo : Nat) (signed sig : Bytes) (o : Bool)
    (h : algoHash algo = none ∨ algoHash algo = some none) :
    checkSignatureFromKey key algo signed sig o = .err := by
  unfold checkSignatureFromKey
  rcases h with h | h <;> rw [h]

/-! ### hypotheses are satisfiable -/
example : algoHash 4 = some (some 5) ∧ (5 : Nat) ≠ 0 ∧ C23.hashAlg 5 = some HashAlg.sha256 ∧ isPSS 4 = false :=
  ⟨by decide, by decide, rfl, by decide⟩
example : algoHash 0 = none ∧ algoHash 1 = some none ∧ algoHash 17 = none := by decide

/-! ### `dsa.Sign` -/

theorem signLoop_range {p q g x n : Nat} {hash : Bytes} (fuel : Nat) (rnd : Bytes) {r s : Nat}
    (hq : 0 < q) (h : signLoop p q g x hash n fuel rnd = .ok (r, s)) : 0 < r ∧ r < q ∧ 0 < s ∧ s < q := by
  induction fuel generalizing rnd with
  | zero => simp [signLoop] at h
  | succ a ih =>
    unfold signLoop at h
    cases hk : readK n q rnd with
    | none => rw [hk] at h; contradiction
    | some kr =>
      obtain ⟨k, rnd'⟩ := kr
      rw [hk] at h
      dsimp only at h
      split at h
      · exact ih rnd' h
      · next hr =>
        split at h
        · exact ih rnd' h
        · next hs =>
          injection h with h
          injection h with h1 h2
          subst h1; subst h2
          refine ⟨Nat.pos_of_ne_zero hr, Nat.mod_lt _ hq, Nat.pos_of_ne_zero hs, Nat.mod_lt _ hq⟩

/-- every signature `dsa.Sign` returns has `0 < r < q` and `0 < s < q`, i.e. it passes the range checks of `dsa.Verify`
    (`dsa_range`) and of `CheckSignatureFromKey` (`csfk_dsa_accept`), whatever the digest length. -/
theorem dsaSign_range {p q g x : Nat} {hash rnd : Bytes} {r s : Nat} (h : dsaSign p q g x hash rnd = .ok (r, s)) :
    0 < r ∧ r < q ∧ 0 < s ∧ s < q := by
  unfold dsaSign at h
  split at h
  · contradiction
  · next hc =>
    exact signLoop_range 10 rnd (by omega) h

/-- `dsa.Sign` refuses parameters whose group order is not a whole number of octets, as `dsa.Verify` does. -/
theorem dsaSign_odd_order {p q g x : Nat} (hash rnd : Bytes) (hq : C23.bitLen q % 8 ≠ 0) :
    dsaSign p q g x hash rnd = .err ∧ ∀ y r s, dsaVerify p q g y hash r s = false := by
  constructor
  · unfold dsaSign; simp [hq]
  · intro y r s
    unfold dsaVerify
    split
    · rfl
    · split
      · rfl
      · split
        · rfl
        · split
          · rfl
          · rfl

/-- neither side truncates the digest: both read it as ONE integer, so a digest and the same digest with leading zero
    octets are the same message to `Sign` and to `Verify` (and a digest longer than `q` is NOT cut to the length of `q`:
    a signer that cuts it and a verifier that does not would disagree on every digest longer than `q`). -/
theorem dsa_digest_as_integer {p q g x y : Nat} (hash rnd : Bytes) (r s : Int) (z : Nat) :
    dsaSign p q g x (List.replicate z 0 ++ hash) rnd = dsaSign p q g x hash rnd ∧
    dsaVerify p q g y (List.replicate z 0 ++ hash) r s = dsaVerify p q g y hash r s := by
  have hz : C23.os2ip (List.replicate z 0 ++ hash) = C23.os2ip hash := by
    unfold C23.os2ip
    rw [List.foldl_append]
    congr 1
    induction z with
    | zero => rfl
    | succ n ih => simp [List.replicate_succ, List.foldl_cons, ih]
  constructor
  · unfold dsaSign
    split
    · rfl
    · generalize (10 : Nat) = fuel
      induction fuel generalizing rnd with
      | zero => rfl
      | succ a ih =>
        unfold signLoop
        cases readK (C23.bitLen q / 8) q rnd with
        | none => rfl
        | some kr =>
          obtain ⟨k, rnd'⟩ := kr
          dsimp only
          rw [hz, ih]
  · unfold dsaVerify
    rw [hz]

end ZV.C03
