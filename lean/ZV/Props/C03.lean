import ZV.Model.C03
import ZV.Props.C23
import ZV.Proofs.C03Dsa
import ZV.Proofs.C03Sign
/-!
  C03 — signature verification accepts exactly the genuine signatures.

  T1 (generated tables, `decide` over the whole table):
  * `sign_verify_agree`: for every (creation API, requested algorithm, key type) the API accepts, the scheme it
    REALLY asks the signer for (PKCS #1 v1.5 / PSS, hash — recorded at run time) is the scheme
    `CheckSignatureFromKey` checks for the algorithm identifier written into the object (D7 broke this row:
    (CreateCertificateRequest, *WithRSAPSS)).
  * `details_consistent`, `pss_algos_total`, `der_trailing_uniform` (D18).
  Universal theorems about the model:
  * `derArm_accept_iff`, `csfk_der_accept`: a DSA/ECDSA signature is accepted only if it parses as
    SEQUENCE{r,s} with nothing after S inside or after the SEQUENCE (D18/D19), r,s > 0 and the primitive accepts.
  * `dsa_range`: `dsa.Verify` accepts only 0 < r,s < q.
  * `csfk_rsa_pkcs1` (hash binding) and, through C23, `csfk_rsa_unique`, `csfk_rsa_message_binding`.
  * `csfk_unsupported`.
  DSA correctness (helpers in ZV.Proofs.C03Dsa): `dsaVerify_of_dsaSign` (re-exported as `dsa_sign_verify`), `csfk_dsa_genuine`.
  Claimed algorithm: `csfk_family_blind`, `csfk_family_mismatch` (the known finding as a theorem), `csfk_rsa_scheme`.
  Signer side (model of both `signingParamsForPublicKey`, `GetSignatureAlgorithmFromAI`, signer options):
  `signing_params_match_verify`, `signing_params_match_verify_ocsp`, `signing_params_no_panic`,
  `created_rsa_verified_as_signed`, `sign_rows_match_model` (T1 rows of the real creation APIs = the model).
-/
namespace ZV.C03
open ZV ZV.Hash

/-! ### T1 -/

/-- every object a creation API agrees to sign is signed with exactly the scheme its own verifier
    will check for the algorithm identifier written into it, and that identifier belongs to the key's family. -/
theorem sign_verify_agree :
    (Gen.C03.signRows.all fun r =>
      verifyScheme r.2.2.1 r.2.2.2.1 == some (r.2.2.2.2.1, r.2.2.2.2.2) &&
      detailsFamily r.2.2.2.1 == some (keyFamily r.2.2.1)) = true := by
  decide

/-- the sweep behind `sign_verify_agree` is not empty: every API accepts at least the default algorithm
    for every key type it supports, and the three RSA-PSS algorithms are accepted by the certificate, CSR and
    revocation-list APIs. -/
theorem sign_rows_cover :
    ((["cert", "csr", "rl"].all fun api => [13, 14, 15].all fun a =>
        Gen.C03.signRows.any fun r => r.1 == api && r.2.1 == a && r.2.2.1 == "rsa") &&
     (["cert", "csr", "crl", "rl", "ocsp"].all fun api =>
        Gen.C03.signRows.any fun r => r.1 == api && r.2.1 == 0)) = true := by
  decide

/-- both signatureAlgorithmDetails tables (x509, ocsp) name the hash the verifier's switch uses. -/
theorem details_consistent :
    ((Gen.C03.x509Details ++ Gen.C03.ocspDetails).all fun r =>
      r.2.2 == 0 || algoHash r.1 == some (some r.2.2)) = true := by
  decide

/-- every RSA-PSS algorithm has a hash the model (and `crypto.Hash.New`) implements: the `.panic` branch
    of the RSA arm is unreachable. -/
theorem pss_algos_total :
    (Gen.C03.pssAlgos.all fun a => match algoHash a with
      | some (some h) => (C23.hashAlg h).isSome && detailsFamily a == some "RSA"
      | _ => false) = true := by
  decide

/-- all three DER-coded arms of the key-type switch reject bytes after the signature (D18). -/
theorem der_trailing_uniform :
    rejectsTrailing "*dsa.PublicKey" = true ∧ rejectsTrailing "*ecdsa.PublicKey" = true ∧
    rejectsTrailing "*AugmentedECDSA" = true := by
  decide

/-! ### the DER arms -/

theorem derArm_accept_iff (arm : String) (sig : Bytes) (prim : Int → Int → Bool) :
    derArm arm sig prim = .ok () ↔
      ∃ r s rest, parseSig sig = some (r, s, rest) ∧ (rejectsTrailing arm = true → rest = []) ∧
        0 < r ∧ 0 < s ∧ prim r s = true := by
  unfold derArm
  cases hp : parseSig sig with
  | none => simp
  | some v =>
    obtain ⟨r, s, rest⟩ := v
    simp only [Option.some.injEq, Prod.mk.injEq]
    constructor
    · intro h
      split at h
      · contradiction
      · next h1 =>
        split at h
        · contradiction
        · next h2 =>
          split at h
          · next h3 =>
            refine ⟨r, s, rest, ⟨rfl, rfl, rfl⟩, ?_, by omega, by omega, h3⟩
            intro ht
            simp [ht] at h1
            exact h1
          · contradiction
    · rintro ⟨r', s', rest', ⟨rfl, rfl, rfl⟩, ht, hr, hs, hpr⟩
      have h1 : ¬ ((rejectsTrailing arm && rest.length != 0) = true) := by
        intro h
        simp at h
        exact h.2 (ht h.1)
      rw [if_neg h1, if_neg (by omega), if_pos hpr]

/-- `parseSig` succeeds only on `30 len (02 len R) (02 len S)` with NOTHING left inside the SEQUENCE after S
    (D19), and returns the bytes after the SEQUENCE untouched. -/
theorem parseSig_shape {sig : Bytes} {r s : Int} {rest : Bytes} (h : parseSig sig = some (r, s, rest)) :
    ∃ inner rc in2 sc, parseTLV 0x30 sig = some (inner, rest) ∧ parseTLV 0x02 inner = some (rc, in2) ∧
      parseTLV 0x02 in2 = some (sc, []) ∧ parseBigInt rc = some r ∧ parseBigInt sc = some s := by
  unfold parseSig at h
  split at h <;> try contradiction
  next inner rest' h0 =>
  split at h <;> try contradiction
  next rc in2 h1 =>
  split at h <;> try contradiction
  next r' h2 =>
  split at h <;> try contradiction
  next sc in3 h3 =>
  split at h <;> try contradiction
  next s' h4 =>
  split at h
  · contradiction
  · next h5 =>
    have := Option.some.inj h
    simp only [Prod.mk.injEq] at this
    obtain ⟨rfl, rfl, rfl⟩ := this
    have h6 : in3 = [] := by
      have : in3.length = 0 := by simpa using h5
      exact List.length_eq_zero_iff.1 this
    subst h6
    exact ⟨inner, rc, in2, sc, h0, h1, h3, h2, h4⟩

/-- an accepted DSA / ECDSA signature (either Go key type) has no trailing bytes, positive r and s, and the
    primitive accepted the parsed pair. -/
theorem csfk_der_accept {key : Key} {algo : Nat} {signed sig : Bytes} {o : Bool}
    (hk : key = .ecdsa ∨ key = .augEcdsa)
    (h : checkSignatureFromKey key algo signed sig o = .ok ()) :
    o = true ∧ ∃ r s, parseSig sig = some (r, s, []) ∧ 0 < r ∧ 0 < s := by
  unfold checkSignatureFromKey at h
  split at h <;> try contradiction
  split at h <;> try contradiction
  rcases hk with rfl | rfl
  · simp only [dispatchKey] at h
    obtain ⟨r, s, rest, hp, ht, hr, hs, ho⟩ := (derArm_accept_iff _ _ _).1 h
    have := ht der_trailing_uniform.2.1
    subst this
    exact ⟨ho, r, s, hp, hr, hs⟩
  · simp only [dispatchKey] at h
    obtain ⟨r, s, rest, hp, ht, hr, hs, ho⟩ := (derArm_accept_iff _ _ _).1 h
    have := ht der_trailing_uniform.2.2
    subst this
    exact ⟨ho, r, s, hp, hr, hs⟩

/-! ### DSA -/

/-- `dsa.Verify` accepts only 0 < r < q and 0 < s < q. -/
theorem dsa_range {p q g y : Nat} {hash : Bytes} {r s : Int} (h : dsaVerify p q g y hash r s = true) :
    0 < r ∧ r < q ∧ 0 < s ∧ s < q := by
  unfold dsaVerify at h
  split at h
  · contradiction
  · split at h
    · contradiction
    · next hr =>
      split at h
      · contradiction
      · next hs => omega

theorem csfk_dsa_accept {p q g y algo : Nat} {signed sig : Bytes} {o : Bool}
    (h : checkSignatureFromKey (.dsa p q g y) algo signed sig o = .ok ()) :
    ∃ r s, parseSig sig = some (r, s, []) ∧ 0 < r ∧ r < q ∧ 0 < s ∧ s < q := by
  unfold checkSignatureFromKey at h
  split at h <;> try contradiction
  split at h <;> try contradiction
  simp only [dispatchKey] at h
  obtain ⟨r, s, rest, hp, ht, _, _, ho⟩ := (derArm_accept_iff _ _ _).1 h
  have := ht der_trailing_uniform.1
  subst this
  exact ⟨r, s, hp, dsa_range ho⟩

/-! ### RSA: reduction to the C23 verifier -/

/-- hash binding: for a PKCS #1 v1.5 algorithm the verdict on an RSA key is the C23 verifier's verdict on
    the digest of the signed bytes — the signed bytes matter only through their digest. -/
theorem csfk_rsa_pkcs1 {pub : C23.Pub} {algo h : Nat} {ha : HashAlg} (signed sig : Bytes) (o : Bool)
    (halgo : algoHash algo = some (some h)) (hh : h ≠ 0) (hha : C23.hashAlg h = some ha)
    (hpss : isPSS algo = false) :
    checkSignatureFromKey (.rsa pub) algo signed sig o = C23.verifyPKCS1v15 pub h (ha.hash signed) sig := by
  unfold checkSignatureFromKey
  rw [halgo]
  simp [digestOf, dispatchKey, hh, hha, hpss]

/-- at most one signature is accepted per (key, algorithm, message) when the public operation is injective
    (which `C23.rsa_injective` proves for every valid key). -/
theorem csfk_rsa_unique {pub : C23.Pub} {algo h n e : Nat} {ha : HashAlg} {signed s₁ s₂ : Bytes} {o₁ o₂ : Bool}
    (halgo : algoHash algo = some (some h)) (hh : h ≠ 0) (hha : C23.hashAlg h = some ha)
    (hpss : isPSS algo = false) (hpub : C23.checkPub pub = .ok (n, e)) (hinj : C23.RsaInj n e)
    (h1 : checkSignatureFromKey (.rsa pub) algo signed s₁ o₁ = .ok ())
    (h2 : checkSignatureFromKey (.rsa pub) algo signed s₂ o₂ = .ok ()) : s₁ = s₂ := by
  rw [csfk_rsa_pkcs1 signed s₁ o₁ halgo hh hha hpss] at h1
  rw [csfk_rsa_pkcs1 signed s₂ o₂ halgo hh hha hpss] at h2
  exact C23.pkcs1_unique hpub hinj h1 h2

/-- a signature accepted for two messages forces a digest collision (for a hash with fixed output length). -/
theorem csfk_rsa_message_binding {pub : C23.Pub} {algo h : Nat} {ha : HashAlg} {m₁ m₂ sig : Bytes} {o₁ o₂ : Bool}
    (halgo : algoHash algo = some (some h)) (hh : h ≠ 0) (hha : C23.hashAlg h = some ha)
    (hpss : isPSS algo = false) (hlen : ∀ x, (ha.hash x).length = ha.outSize)
    (h1 : checkSignatureFromKey (.rsa pub) algo m₁ sig o₁ = .ok ())
    (h2 : checkSignatureFromKey (.rsa pub) algo m₂ sig o₂ = .ok ()) : ha.hash m₁ = ha.hash m₂ := by
  rw [csfk_rsa_pkcs1 m₁ sig o₁ halgo hh hha hpss] at h1
  rw [csfk_rsa_pkcs1 m₂ sig o₂ halgo hh hha hpss] at h2
  exact C23.pkcs1_digest_binding (by rw [hlen, hlen]) h1 h2

/-- algorithms outside the switch (Unknown, values ≥ 17) and MD2WithRSA are rejected for every key. -/
theorem csfk_unsupported (key : Key) (algo : Nat) (signed sig : Bytes) (o : Bool)
    (h : algoHash algo = none ∨ algoHash algo = some none) :
    checkSignatureFromKey key algo signed sig o = .err := by
  unfold checkSignatureFromKey
  rcases h with h | h <;> rw [h]

/-- a public key of any Go type outside the type switch (crypto/rsa's key, a key passed by value, nil) verifies
    nothing, under any algorithm. -/
theorem csfk_other_key (algo : Nat) (signed sig : Bytes) (o : Bool) :
    checkSignatureFromKey .other algo signed sig o = .err := by
  unfold checkSignatureFromKey
  split <;> try rfl
  split <;> rfl

/-! ### hypotheses are satisfiable -/
example : algoHash 4 = some (some 5) ∧ (5 : Nat) ≠ 0 ∧ C23.hashAlg 5 = some HashAlg.sha256 ∧ isPSS 4 = false :=
  ⟨by decide, by decide, rfl, by decide⟩
example : algoHash 0 = none ∧ algoHash 1 = some none ∧ algoHash 17 = none := by decide

/-! ### `dsa.Sign` -/

theorem signLoop_range {p q g x n : Nat} {hash : Bytes} (fuel : Nat) (rnd : Bytes) {r s : Nat}
    (hq : 0 < q) (h : signLoop p q g x hash n fuel rnd = .ok (r, s)) : 0 < r ∧ r < q ∧ 0 < s ∧ s < q := by
  induction fuel generalizing rnd with
  | zero => simp [signLoop] at h
  | succ a ih =>
    unfold signLoop at h
    cases hk : readK n q rnd with
    | none => rw [hk] at h; contradiction
    | some kr =>
      obtain ⟨k, rnd'⟩ := kr
      rw [hk] at h
      dsimp only at h
      split at h
      · exact ih rnd' h
      · next hr =>
        split at h
        · exact ih rnd' h
        · next hs =>
          injection h with h
          injection h with h1 h2
          subst h1; subst h2
          refine ⟨Nat.pos_of_ne_zero hr, Nat.mod_lt _ hq, Nat.pos_of_ne_zero hs, Nat.mod_lt _ hq⟩

/-- every signature `dsa.Sign` returns has `0 < r < q` and `0 < s < q`, i.e. it passes the range checks of `dsa.Verify`
    (`dsa_range`) and of `CheckSignatureFromKey` (`csfk_dsa_accept`), whatever the digest length. -/
theorem dsaSign_range {p q g x : Nat} {hash rnd : Bytes} {r s : Nat} (h : dsaSign p q g x hash rnd = .ok (r, s)) :
    0 < r ∧ r < q ∧ 0 < s ∧ s < q := by
  unfold dsaSign at h
  split at h
  · contradiction
  · next hc =>
    exact signLoop_range 10 rnd (by omega) h

/-- `dsa.Sign` refuses parameters whose group order is not a whole number of octets, as `dsa.Verify` does. -/
theorem dsaSign_odd_order {p q g x : Nat} (hash rnd : Bytes) (hq : C23.bitLen q % 8 ≠ 0) :
    dsaSign p q g x hash rnd = .err ∧ ∀ y r s, dsaVerify p q g y hash r s = false := by
  constructor
  · unfold dsaSign; simp [hq]
  · intro y r s
    unfold dsaVerify
    split
    · rfl
    · split
      · rfl
      · split
        · rfl
        · split
          · rfl
          · rfl

/-- neither side truncates the digest: both read it as ONE integer, so a digest and the same digest with leading zero
    octets are the same message to `Sign` and to `Verify` (and a digest longer than `q` is NOT cut to the length of `q`:
    a signer that cuts it and a verifier that does not would disagree on every digest longer than `q`). -/
theorem dsa_digest_as_integer {p q g x y : Nat} (hash rnd : Bytes) (r s : Int) (z : Nat) :
    dsaSign p q g x (List.replicate z 0 ++ hash) rnd = dsaSign p q g x hash rnd ∧
    dsaVerify p q g y (List.replicate z 0 ++ hash) r s = dsaVerify p q g y hash r s := by
  have hz : C23.os2ip (List.replicate z 0 ++ hash) = C23.os2ip hash := by
    unfold C23.os2ip
    rw [List.foldl_append]
    congr 1
    induction z with
    | zero => rfl
    | succ n ih => simp [List.replicate_succ, List.foldl_cons, ih]
  constructor
  · unfold dsaSign
    split
    · rfl
    · generalize (10 : Nat) = fuel
      induction fuel generalizing rnd with
      | zero => rfl
      | succ a ih =>
        unfold signLoop
        cases readK (C23.bitLen q / 8) q rnd with
        | none => rfl
        | some kr =>
          obtain ⟨k, rnd'⟩ := kr
          dsimp only
          rw [hz, ih]
  · unfold dsaVerify
    rw [hz]

/-! ### the signer side -/

/-- FULL (signer side, x509): for EVERY key and EVERY requested algorithm, when `signingParamsForPublicKey` succeeds the
    algorithm `GetSignatureAlgorithmFromAI` reads back from the identifier written into the object (a) belongs to the
    key's family and (b) is verified by `CheckSignatureFromKey` with exactly the padding (PSS or not) and hash that
    CreateCertificate / CreateCertificateRequest / CreateRevocationList hand to the signer. -/
theorem signing_params_match_verify {label : String} {req : Nat} {sp : SignParams}
    (h : signingParams x509Pkg label req = .ok sp) :
    ∃ fam, labelFamily x509Pkg label = some fam ∧
      detailsFamily (algoFromAI sp.oid sp.params) = some fam ∧
      verifyScheme (ktOf fam) (algoFromAI sp.oid sp.params) = some (signerOpts req sp.hash) := by
  have hk := signRowOk_all label req
  unfold signRowOk at hk
  rw [h] at hk
  dsimp only at hk
  split at hk
  · next fam hf =>
    simp only [Bool.and_eq_true, beq_iff_eq] at hk
    exact ⟨fam, hf, hk.1.1, hk.1.2⟩
  · contradiction

theorem signing_params_match_verify_ocsp {label : String} {req : Nat} {sp : SignParams}
    (h : signingParams ocspPkg label req = .ok sp) :
    ∃ fam, labelFamily ocspPkg label = some fam ∧
      detailsFamily (algoFromOID sp.oid) = some fam ∧
      verifyScheme (ktOf fam) (algoFromOID sp.oid) = some (signerOptsOcsp sp.hash) := by
  have hk := signRowOkOcsp_all label req
  unfold signRowOkOcsp at hk
  rw [h] at hk
  dsimp only at hk
  split at hk
  · next fam hf =>
    simp only [Bool.and_eq_true, beq_iff_eq] at hk
    exact ⟨fam, hf, hk.1.1.1, hk.1.1.2⟩
  · contradiction

/-- neither copy of `signingParamsForPublicKey` can panic (`rsaPSSParameters` is only reached with SHA-256/384/512). -/
theorem signing_params_no_panic (label : String) (req : Nat) :
    signingParams x509Pkg label req ≠ .panic ∧ signingParams ocspPkg label req ≠ .panic := by
  constructor
  · intro h
    have hk := signRowOk_all label req
    simp [signRowOk, h] at hk
  · intro h
    have hk := signRowOkOcsp_all label req
    simp [signRowOkOcsp, h] at hk

/-! ### (b) the claimed algorithm reaches the verdict only through its hash and `isRSAPSS` -/

/-- `CheckSignatureFromKey` never looks at the key family of the claimed algorithm: two algorithms with the same hash in
    the first switch and the same `isRSAPSS` get the same verdict on EVERY key, message and signature. -/
theorem csfk_family_blind (key : Key) {a b : Nat} (signed sig : Bytes) (o : Bool)
    (hh : algoHash a = algoHash b) (hp : isPSS a = isPSS b) :
    checkSignatureFromKey key a signed sig o = checkSignatureFromKey key b signed sig o := by
  unfold checkSignatureFromKey
  rw [hh]
  split <;> try rfl
  split <;> try rfl
  cases key <;> simp only [dispatchKey, hp]

/-- the key-family mismatch (known finding, corpus/C03/finding-family-mismatch.line): with an RSA key, ECDSAWithSHA256
    (10) and DSAWithSHA256 (8) are verified exactly as SHA256WithRSA (4): PKCS #1 v1.5 with SHA-256 — so an RSA signature
    relabelled with an ECDSA / DSA identifier is accepted; likewise every RSA or DSA identifier on an ECDSA key.  The
    clause "verification fails whenever the claimed algorithm is changed" therefore holds only up to (hash, isRSAPSS). -/
theorem csfk_family_mismatch (pub : C23.Pub) (signed sig : Bytes) (o : Bool) :
    checkSignatureFromKey (.rsa pub) 10 signed sig o = checkSignatureFromKey (.rsa pub) 4 signed sig o ∧
    checkSignatureFromKey (.rsa pub) 8 signed sig o = checkSignatureFromKey (.rsa pub) 4 signed sig o ∧
    checkSignatureFromKey .ecdsa 4 signed sig o = checkSignatureFromKey .ecdsa 10 signed sig o ∧
    detailsFamily 10 = some "ECDSA" ∧ detailsFamily 8 = some "DSA" ∧ detailsFamily 4 = some "RSA" :=
  ⟨csfk_family_blind _ _ _ _ (by decide) (by decide), csfk_family_blind _ _ _ _ (by decide) (by decide),
   csfk_family_blind _ _ _ _ (by decide) (by decide), by decide, by decide, by decide⟩

/-- what the family of the claimed algorithm DOES guarantee: an RSA-PSS verification is only ever run for an
    algorithm of the RSA family (`pss_algos_total`), and the PSS / PKCS #1 v1.5 choice is the only use of the identifier
    beyond its hash. -/
theorem csfk_rsa_scheme {pub : C23.Pub} {algo h : Nat} {ha : HashAlg} (signed sig : Bytes) (o : Bool)
    (halgo : algoHash algo = some (some h)) (hh : h ≠ 0) (hha : C23.hashAlg h = some ha) :
    checkSignatureFromKey (.rsa pub) algo signed sig o =
      if isPSS algo then C23.verifyPSS pub ha (ha.hash signed) sig (-1)
      else C23.verifyPKCS1v15 pub h (ha.hash signed) sig := by
  unfold checkSignatureFromKey
  rw [halgo]
  simp only [digestOf, hh, if_false, hha, dispatchKey]

example : algoHash 13 = some (some 5) ∧ (5 : Nat) ≠ 0 ∧ C23.hashAlg 5 = some HashAlg.sha256 ∧ isPSS 13 = true :=
  ⟨by decide, by decide, rfl, by decide⟩

/-! ### (a) DSA: what `dsa.Sign` makes, `CheckSignatureFromKey` accepts -/

/-- DSA correctness at the level of `CheckSignatureFromKey`: for a prime `q`, `g^q ≡ 1 (mod p)` and the public key
    `y = g^x mod p`, the DER coding of ANY pair `dsa.Sign` returns for the digest of the signed bytes (any random stream)
    is accepted, under every algorithm with a real hash. -/
theorem csfk_dsa_genuine {p q g x algo h r s : Nat} {ha : HashAlg} {signed rnd sig : Bytes} (o : Bool)
    (hq : Nat.Prime q) (hg : g ^ q % p = 1)
    (halgo : algoHash algo = some (some h)) (hh : h ≠ 0) (hha : C23.hashAlg h = some ha)
    (hs : dsaSign p q g x (ha.hash signed) rnd = .ok (r, s))
    (hsig : parseSig sig = some ((r : Int), (s : Int), [])) :
    checkSignatureFromKey (.dsa p q g (C23.modPow g x p)) algo signed sig o = .ok () := by
  unfold checkSignatureFromKey
  rw [halgo]
  simp only [digestOf, hh, if_false, hha, dispatchKey]
  rw [derArm_accept_iff]
  have hr := dsaSign_range hs
  exact ⟨r, s, [], hsig, fun _ => rfl, by omega, by omega, dsaVerify_of_dsaSign hq hg hs⟩

example : Nat.Prime 251 ∧ 4 ^ 251 % 503 = 1 ∧ dsaSign 503 251 4 5 [9] [7] = .ok (37, 207) ∧
    parseSig [0x30, 0x07, 0x02, 0x01, 37, 0x02, 0x02, 0x00, 207] = some (37, 207, []) :=
  ⟨by norm_num, by norm_num, dsaSign_example, by decide⟩

/-! ### (c) the recorded behaviour of the real creation APIs is the model's -/

/-- every row recorded at run time from the REAL CreateCertificate / CreateCertificateRequest / CreateCRL /
    CreateRevocationList / ocsp.CreateResponse (algorithm the parser reads back, options the signer received) is what
    the model of `signingParamsForPublicKey` + `GetSignatureAlgorithmFromAI` + the signer-option rule computes. -/
theorem sign_rows_match_model : (Gen.C03.signRows.all signRowMatches) = true := by
  decide +kernel

/-- every (API, algorithm, key) the real creation APIs refuse is one the model refuses (CreateCRL has no algorithm
    parameter: the harness refuses every non-zero request itself). -/
theorem refused_rows_match_model : (Gen.C03.refusedRows.all refusedRowMatches) = true := by
  decide +kernel

/-- DSA correctness, all inputs: whatever the digest and the random stream, a pair `dsa.Sign` returns is accepted by
    `dsa.Verify` under the matching public key `y = g^x mod p`, for `q` prime and `g^q ≡ 1 (mod p)` (proof in
    ZV.Proofs.C03Dsa: Bezout for the model's extended Euclid, Fermat in `ZMod q`, exponent reduction mod `q`). -/
theorem dsa_sign_verify {p q g x : Nat} {hash rnd : Bytes} {r s : Nat}
    (hq : Nat.Prime q) (hg : g ^ q % p = 1) (h : dsaSign p q g x hash rnd = .ok (r, s)) :
    dsaVerify p q g (C23.modPow g x p) hash (r : Int) (s : Int) = true :=
  dsaVerify_of_dsaSign hq hg h

/-- an object created with an RSA key is verified with the padding and hash its signer was asked for: for every
    requested algorithm the x509 creation APIs accept with an RSA key, `CheckSignatureFromKey` on the algorithm read back
    from the object IS `VerifyPSS` (salt length = hash length) when the signer got `*rsa.PSSOptions`, `VerifyPKCS1v15`
    otherwise, with the signer's hash, on the digest of the signed bytes under that hash. -/
theorem created_rsa_verified_as_signed {req : Nat} {sp : SignParams}
    (h : signingParams x509Pkg "*rsa.PublicKey" req = .ok sp) :
    ∃ ha, C23.hashAlg sp.hash = some ha ∧ ∀ (pub : C23.Pub) (signed sig : Bytes) (o : Bool),
      checkSignatureFromKey (.rsa pub) (algoFromAI sp.oid sp.params) signed sig o =
        if (signerOpts req sp.hash).1 then C23.verifyPSS pub ha (ha.hash signed) sig (-1)
        else C23.verifyPKCS1v15 pub sp.hash (ha.hash signed) sig := by
  have hk := signRowOk_all "*rsa.PublicKey" req
  unfold signRowOk at hk
  rw [h] at hk
  have hf : labelFamily x509Pkg "*rsa.PublicKey" = some "RSA" := by decide
  rw [hf] at hk
  dsimp only at hk
  simp only [Bool.and_eq_true] at hk
  obtain ⟨⟨_, h2⟩, h3⟩ := hk
  have hrsa : ("RSA" != "RSA") = false := by decide
  rw [hrsa, Bool.false_or, Bool.and_eq_true] at h3
  have hne : sp.hash ≠ 0 := bne_iff_ne.1 h3.1
  obtain ⟨ha, hha⟩ := Option.isSome_iff_exists.1 h3.2
  have hv := eq_of_beq h2
  refine ⟨ha, hha, ?_⟩
  intro pub signed sig o
  have hkt : ktOf "RSA" = "rsa" := by decide
  rw [hkt] at hv
  unfold verifyScheme at hv
  split at hv
  · next h' halgo =>
    have hv := Option.some.inj hv
    have hkk : ("rsa" == "rsa") = true := by decide
    simp only [signerOpts, Prod.mk.injEq, hkk, Bool.true_and] at hv
    obtain ⟨hp, rfl⟩ := hv
    rw [csfk_rsa_scheme signed sig o halgo hne hha]
    simp only [signerOpts, ← hp]
  · contradiction

example : ∃ sp, signingParams x509Pkg "*rsa.PublicKey" 13 = .ok sp ∧ algoFromAI sp.oid sp.params = 13 ∧
    signerOpts 13 sp.hash = (true, 5) := ⟨⟨5, Gen.C03.pssOid, .pss 5⟩, by decide, by decide, by decide⟩
example : ∃ sp, signingParams x509Pkg "*ecdsa.PublicKey:P384" 0 = .ok sp ∧ algoFromAI sp.oid sp.params = 11 :=
  ⟨⟨6, [1, 2, 840, 10045, 4, 3, 3], .absent⟩, by decide, by decide⟩
example : ∃ sp, signingParams ocspPkg "*rsa.PublicKey" 4 = .ok sp ∧ algoFromOID sp.oid = 4 :=
  ⟨⟨5, [1, 2, 840, 113549, 1, 1, 11], .null⟩, by decide, by decide⟩
/-- what the signer side refuses: another family's algorithm, MD2, RSA-PSS in ocsp, unknown curve / key type -/
example : signingParams x509Pkg "*rsa.PublicKey" 10 = .err ∧ signingParams x509Pkg "*rsa.PublicKey" 1 = .err ∧
    signingParams ocspPkg "*rsa.PublicKey" 13 = .err ∧ signingParams ocspPkg "ed25519.PublicKey" 0 = .err ∧
    signingParams x509Pkg "*ecdsa.PublicKey:other" 0 = .err := by decide

end ZV.C03
