import ZV.Model.C28
import ZV.Proofs.C28
import ZV.Proofs.C28Ext
import ZV.Proofs.C28CH
import ZV.Proofs.C28SH
import ZV.Proofs.C28Sched
/-!
  C28 — the client handshake log records what was actually exchanged.

  What is proved here, for ALL byte strings: the log-mapping model (the real parsers followed by the real
  `MakeLog` builders, tied to the Go code by the T2 stream `c28`) is faithful to the wire:

  * `skx_sighash_eq_wire`     ECDHE, TLS 1.2: the logged (signature, hash) pair is the one NAMED by the two
                              SignatureScheme bytes on the wire (`tlsHashOf` / `sigKindOf` are the spec-side reading of
                              those bytes); for the classic `(hash, signature)` layout the logged hash IS wire byte 0.
                              (False before the D11 fix: the model of the old code logged `crypto.Hash` numbers.)
  * `skx_sighash_eq_wire_dhe` DHE, TLS 1.2: logged hash = wire byte 0 and logged signature = wire byte 1, literally.
  * `skx_log_bytes_complete`  ECDHE: the message is exactly  03 ‖ curve ‖ len ‖ point ‖ [alg] ‖ len ‖ logged signature,
                              the logged curve id is the wire curve id and the logged signature has the wire length.
  * `skx_dhe_log_eq_wire`     DHE: the message is  len‖p ‖ len‖g ‖ len‖Ys ‖ signature block, and the logged p, g, Ys are those
                              byte strings (as numbers: leading zeros dropped).
  * `skx_pre12_no_sighash`    before TLS 1.2 no signature_and_hash_type is logged (none is on the wire).
  * `sh_log_eq_wire`          ServerHello: version, random (32 bytes), session id, cipher suite and compression method of
                              the log are the corresponding wire fields.
  * `cert_log_eq_wire`        Certificate: leaf ‖ chain of the log are exactly the 24-bit-framed entries of the message.
  * `fin_log_eq_wire`         Finished: verify_data is the whole body.
  * `ch_log_eq_wire`          ClientHello, for every accepted byte string: the message is exactly
                              hdr(4) ‖ version ‖ random(32) ‖ len8‖session id ‖ len16‖suites ‖ len8‖compression methods ‖ ext,
                              the logged version / random / session id / suites (big-endian pairs, `pairsBE`, even length) /
                              compression methods are those fields, `ext` is empty or len16 ‖ blk with blk EXACTLY the
                              concatenation of id ‖ len ‖ data of an extension list `es` (`FramedExts`; the list is unique,
                              `ext_block_determined`), the extension loop ran over `es` starting from
                              `renegSup := SCSV offered`, and every extension-derived log field is the function of `es`
                              spelled out in `CHExtSpec` (= `ch_log_ext_eq_wire`), field by field, duplicates included
                              (no distinctness hypothesis):
      `ch_log_ext_shapes`       wire shape of every logged extension (`CHExtShape`: length prefixes, non-emptiness, evenness)
      `ch_log_ext_curves` / `ch_log_ext_versions`   supported_groups (10) / supported_versions (43): concatenation, in wire
                                order, of the uint16 lists of ALL such extensions
      `ch_log_ext_sighashes`    signature_algorithms (13): likewise, then mapped through `sigAlgLookup` with unknown schemes
                                dropped; `sigAlgLookup_table`: the lookup is membership in `sigAlgTable`
      `ch_log_ext_alpn`         ALPN (16): concatenation of the protocol lists (8-bit-length-prefixed, non-empty) of all ALPN exts
      `ch_log_ext_points` / `ch_log_ext_xrand`      ec_point_formats (11) / extended_random (0x28): the LAST one wins
      `ch_log_ext_ticket`       session_ticket (35): flag = presence; ticket record = (length, data) of the LAST one, present
                                iff that data is non-empty
      `ch_log_ext_reneg`        renegotiation_info (0xff01): as MakeLog computes it (supported ∧ last payload non-empty), which
                                is: the last such extension carries more than its length byte; the SCSV alone or an empty
                                renegotiation_info is logged as false
      `ch_log_ext_ocsp`         status_request (5): NOT presence — `status_type = 1` of the LAST status_request
      `ch_log_ext_flags`        SCT (18), extended_master_secret (23): presence
      `ch_log_ext_sni`          server_name (0): the name loop runs over the lists of ALL server_name extensions; either no
                                host_name entry (nothing logged) or exactly ONE, non-empty, without trailing dot = the log
      `ch_log_no_ext`           no extensions: every one of these fields has its default value
  * `sh_log_ext_eq_wire`      ServerHello incl. extensions: fixed part as in `sh_log_eq_wire`, the block framing as above, the
                              logged extension identifiers are exactly the identifiers of `es` in wire order, and every
                              extension-derived field is the function of `es` in `SHExtSpec`:
      `sh_log_ext_shapes`, `sh_log_ext_flags` (5 / 35 / 23 = presence), `sh_log_ext_reneg`, `sh_log_ext_alpn` (the single
      protocol of the last ALPN ext), `sh_log_ext_scts` (all SCT lists concatenated), `sh_log_ext_version_keyshare` (43: last
      wins; 51: as MakeLog computes it), `sh_log_ext_unknown` (every extension without an arm of its own, VERBATIM wire bytes,
      in order).
  * `ext_lists_determined`    the decoded ALPN / SNI / SCT lists in the statements above are determined by the bytes.
  Nothing of the ClientHello / ServerHello log mapping is correspondence-only any more.  What the theorems do not say:
  the converse (which byte strings are ACCEPTED) is only given as necessary shapes, not as an iff; the extensions that
  never reach the log (ClientHello 50, 44, 51, 42, 45, 41; ServerHello 44, 41, 11) are proved to leave the record unchanged
  (`chExt_other`, `shExt_nolog`) but their own syntax checks are exercised by T2 only.
-/
namespace ZV.C28

/-- position-based (spec-side) reading of the wire: the two algorithm bytes that follow the ECDHE parameters -/
def ecdheAlgBytes (key : Bytes) : Option (UInt8 × UInt8) :=
  match key with
  | _ :: _ :: _ :: pl :: rest =>
    match rest.drop pl.toNat with
    | a :: b :: _ => some (a, b)
    | _ => none
  | _ => none

theorem skx_sighash_eq_wire {vers : Nat} {isRSA : Bool} {kt : KeyType} {algs : List Nat} {ok : Bool}
    {cr sr key : Bytes} {l : ECDHELog}
    (h : ecdheLog vers isRSA kt algs ok cr sr key = some l) (hv : vers ≥ 0x0303) :
    ∃ a b, ecdheAlgBytes key = some (a, b) ∧ l.sig.hasSigHash = true ∧
      l.sig.hash = tlsHashOf a b ∧ l.sig.sig = sigKindOf a b ∧
      (a.toNat ≤ 6 → l.sig.hash = a.toNat) := by
  obtain ⟨c1, c2, pl, pub, algB, sigType, hashId, l1, l2, hkey, hpub, _, _, h12, _, hs, hh, hhas, _, _, _⟩ :=
    ecdheLog_inv h
  obtain ⟨a, b, rfl, hta, _⟩ := h12 hv
  obtain ⟨e1, e2⟩ := typeAndHash_wire hta
  refine ⟨a, b, ?_, ?_, ?_, ?_, ?_⟩
  · rw [hkey]
    simp only [ecdheAlgBytes]
    rw [List.append_assoc, ← hpub, List.drop_left]
    rfl
  · rw [hhas]; simpa using hv
  · rw [hh, e1]
  · rw [hs, e2]
  · intro ha; rw [hh, e1]; simp [tlsHashOf, ha]

example : ecdheLog 0x0303 true .rsa [0x0804] true [] [] [3, 0, 29, 1, 9, 8, 4, 0, 1, 7] ≠ none := by decide

theorem skx_pre12_no_sighash {vers : Nat} {isRSA : Bool} {kt : KeyType} {algs : List Nat} {ok : Bool}
    {cr sr key : Bytes} {l : ECDHELog}
    (h : ecdheLog vers isRSA kt algs ok cr sr key = some l) (hv : vers < 0x0303) :
    l.sig.hasSigHash = false := by
  obtain ⟨_, _, _, _, _, _, _, _, _, _, _, _, _, _, _, _, _, hhas, _, _, _⟩ := ecdheLog_inv h
  rw [hhas]; simpa using hv

/-- the message is reconstructed from the log: nothing is truncated, nothing invented -/
theorem skx_log_bytes_complete {vers : Nat} {isRSA : Bool} {kt : KeyType} {algs : List Nat} {ok : Bool}
    {cr sr key : Bytes} {l : ECDHELog}
    (h : ecdheLog vers isRSA kt algs ok cr sr key = some l) :
    ∃ c1 c2 pl pub algB l1 l2,
      key = 3 :: c1 :: c2 :: pl :: (pub ++ algB ++ (l1 :: l2 :: l.sig.raw)) ∧
      pub.length = pl.toNat ∧ l.curve = u16 c1 c2 ∧ u16 l1 l2 = l.sig.raw.length ∧
      algB.length = (if vers ≥ 0x0303 then 2 else 0) ∧ l.sig.version = vers := by
  obtain ⟨c1, c2, pl, pub, algB, sigType, hashId, l1, l2, hkey, hpub, hc, hl, h12, h10, _, _, _, hver, _, _⟩ :=
    ecdheLog_inv h
  refine ⟨c1, c2, pl, pub, algB, l1, l2, hkey, hpub, hc, hl, ?_, hver⟩
  by_cases hv : vers ≥ 0x0303
  · obtain ⟨a, b, rfl, _, _⟩ := h12 hv
    simp [hv]
  · have := (h10 (by omega)).1
    subst this
    simp [hv]

theorem skx_dhe_log_eq_wire {vers : Nat} {cr sr key : Bytes} {l : DHELog} (h : dheLog vers cr sr key = some l) :
    ∃ p g ys sigBlock a1 a2 b1 b2 c1 c2,
      key = a1 :: a2 :: (p ++ b1 :: b2 :: (g ++ c1 :: c2 :: (ys ++ sigBlock))) ∧
      u16 a1 a2 = p.length ∧ u16 b1 b2 = g.length ∧ u16 c1 c2 = ys.length ∧
      l.p = stripZeros p ∧ l.g = stripZeros g ∧ l.ys = stripZeros ys ∧
      l.sig = (dheSigPart vers cr sr (key.take (key.length - sigBlock.length)) sigBlock).1 := by
  obtain ⟨p, g, ys, sig0, a1, a2, b1, b2, c1, c2, hk, e1, e2, e3, hp, hg, hy, _, _, hs⟩ := dheLog_inv h
  exact ⟨p, g, ys, sig0, a1, a2, b1, b2, c1, c2, hk, e1, e2, e3, hp, hg, hy, (Prod.mk.inj hs).1⟩

/-- DHE, TLS 1.2: the two logged algorithm ids are literally the two wire bytes that follow the parameters, and the
    logged signature (when one is logged) is the complete length-prefixed byte string after them -/
theorem skx_sighash_eq_wire_dhe {vers : Nat} {cr sr key : Bytes} {l : DHELog}
    (h : dheLog vers cr sr key = some l) (hv : vers ≥ 0x0303) :
    ∃ p g ys a1 a2 b1 b2 c1 c2 sigBlock,
      key = a1 :: a2 :: (p ++ b1 :: b2 :: (g ++ c1 :: c2 :: (ys ++ sigBlock))) ∧
      ∀ hb sb rest, sigBlock = hb :: sb :: rest →
        l.sig.hasSigHash = true ∧ l.sig.hash = hb.toNat ∧ l.sig.sig = sb.toNat ∧
        (l.sig.raw = [] ∨ ∃ x y, rest = x :: y :: l.sig.raw ∧ u16 x y = l.sig.raw.length) := by
  obtain ⟨p, g, ys, sig0, a1, a2, b1, b2, c1, c2, hk, _, _, _, _, _, _, _, _, hs⟩ := dheLog_inv h
  refine ⟨p, g, ys, a1, a2, b1, b2, c1, c2, sig0, hk, ?_⟩
  intro hb sb rest hsig
  subst hsig
  have := dheSigPart_tls12 (cr := cr) (sr := sr) (params := key.take (key.length - (hb :: sb :: rest).length))
    (rest := rest) (hb := hb) (sb := sb) hv
  have hl : l.sig = (dheSigPart vers cr sr (key.take (key.length - (hb :: sb :: rest).length)) (hb :: sb :: rest)).1 :=
    (Prod.mk.inj hs).1
  rw [hl]
  exact this

example : dheLog 0x0303 [] [] [0, 1, 7, 0, 1, 2, 0, 1, 3, 4, 1, 0, 1, 9] ≠ none := by decide

theorem sh_log_eq_wire {msg : Bytes} {f : SHFixed} {m : SHMsg} {ids : Option (List Nat)}
    (h : parseSH msg = some (f, m, ids)) :
    ∃ hdr v1 v2 sl c1 c2 cm ext,
      msg = hdr ++ (v1 :: v2 :: ((shLog f m ids).random ++ (sl :: ((shLog f m ids).sessionID ++ (c1 :: c2 :: cm :: ext))))) ∧
      hdr.length = 4 ∧ (shLog f m ids).version = u16 v1 v2 ∧ (shLog f m ids).random.length = 32 ∧
      sl.toNat = (shLog f m ids).sessionID.length ∧ (shLog f m ids).cipherSuite = u16 c1 c2 ∧
      (shLog f m ids).compression = cm.toNat ∧ (ext = [] → (shLog f m ids).extIds = []) := by
  obtain ⟨hdr, v1, v2, sl, c1, c2, cm, ext, h1, h2, h3, h4, h5, h6, h7, h8⟩ := parseSH_fixed h
  refine ⟨hdr, v1, v2, sl, c1, c2, cm, ext, h1, h2, h3, h4, h5, h6, h7, ?_⟩
  intro he
  rw [h8 he]
  rfl

theorem cert_log_eq_wire {msg : Bytes} {cs : List Bytes} (h : parseCerts msg = some cs) :
    Framed24 (msg.drop 7) cs ∧ msg.length ≥ 7 ∧
      (cs ≠ [] → (certLog cs).leaf :: (certLog cs).chain = cs) := by
  unfold parseCerts at h
  by_cases h7 : msg.length < 7
  · rw [if_pos h7] at h; cases h
  rw [if_neg h7] at h
  match h1 : readU24 (msg.drop 4), h with
  | some (n, d), h =>
    simp only at h
    by_cases hn : msg.length ≠ n + 7
    · rw [if_pos hn] at h; cases h
    rw [if_neg hn] at h
    obtain ⟨a, b, c, e, _⟩ := readU24_spec h1
    have hd : d = msg.drop 7 := by
      have : (msg.drop 4).drop 3 = d := by rw [e]; rfl
      rw [← this, List.drop_drop]
    refine ⟨hd ▸ certEntries_framed d cs h, by omega, ?_⟩
    intro hne
    cases cs with
    | nil => exact absurd rfl hne
    | cons x xs => rfl

/-- TLS 1.3 Certificate: the message is  4 header bytes ‖ 00 (empty request context) ‖ len24 ‖ entries,  the entries are
    exactly `len24 ‖ cert_data ‖ len16 ‖ extensions` back to back, and the logged leaf ‖ chain are the `cert_data` fields
    of ALL entries, in wire order (nothing skipped, shifted or duplicated). -/
theorem cert13_log_eq_wire {msg : Bytes} {r : Cert13} (h : parseCerts13 msg = some r) :
    ∃ hdr a b c lst es, msg = hdr ++ (0 :: a :: b :: c :: lst) ∧ hdr.length = 4 ∧
      a.toNat * 65536 + b.toNat * 256 + c.toNat = lst.length ∧ Framed13 lst es ∧
      (es ≠ [] → (cert13Log r).leaf :: (cert13Log r).chain = es.map (·.1)) ∧
      (es = [] → (cert13Log r).leaf = [] ∧ (cert13Log r).chain = []) := by
  obtain ⟨hdr, a, b, c, lst, es, h1, h2, h3, h4, h5⟩ := parseCerts13_spec h
  refine ⟨hdr, a, b, c, lst, es, h1, h2, h3, h4, ?_, ?_⟩
  · intro hne
    unfold cert13Log
    rw [h5]
    cases es with
    | nil => exact absurd rfl hne
    | cons x xs => rfl
  · intro he
    unfold cert13Log
    rw [h5, he]
    exact ⟨rfl, rfl⟩

theorem fin_log_eq_wire {msg v : Bytes} (h : parseFin msg = some v) :
    ∃ t a b c, msg = t :: a :: b :: c :: v ∧ a.toNat * 65536 + b.toNat * 256 + c.toNat = v.length := by
  unfold parseFin at h
  match msg, h with
  | t :: r, h =>
    simp only at h
    match h1 : readVec24 r, h with
    | some (v', []), h =>
      simp only [Option.some.injEq] at h
      subst h
      obtain ⟨a, b, c, rfl, hl⟩ := readVec24_spec h1
      exact ⟨t, a, b, c, by simp, hl⟩

/-! ## ClientHello: `clientHelloMsg.unmarshal` + `MakeLog`, extension by extension

  Throughout, `es` is the list of (identifier, data) pairs of the extension block in WIRE ORDER (`FramedExts blk es`,
  see `ch_log_eq_wire`), duplicates included: no "identifiers are distinct" hypothesis anywhere.
  `es.filter (isId k)` = the extensions with identifier `k`, in wire order; `lastExt (isId k) es` = the data of the
  last one.  The hypothesis `chExts { renegSup := r } es = some m` is what `parseCH` establishes (`r` = SCSV offered). -/

/-- every logged-extension's data has the shape its RFC prescribes (anything else makes the parser fail) -/
theorem ch_log_ext_shapes {r : Bool} {es : List (Nat × Bytes)} {m : CHMsg}
    (h : chExts { renegSup := r } es = some m) : ∀ e ∈ es, CHExtShape e := by
  rw [chExts_eq_fold] at h
  exact fold_all_mem (fun _ _ _ _ _ hs => chExt_shape hs) h

/-- supported_groups (10): the logged curve list is the concatenation, in wire order, of the big-endian uint16 lists of
    ALL supported_groups extensions (each `len16 ‖ body`, see `ch_log_ext_shapes`) -/
theorem ch_log_ext_curves {r : Bool} {es : List (Nat × Bytes)} {f : CHFixed} {m : CHMsg}
    (h : chExts { renegSup := r } es = some m) :
    (chLog f m).curves = ((es.filter (isId 10)).map (fun e => pairsBE (e.2.drop 2))).flatten := by
  rw [chExts_eq_fold] at h
  have := fold_acc_map_id (step := chExt) CHMsg.curves 10 (fun d => pairsBE (d.drop 2))
    (fun m d l m' hs => by rw [(chExt_curves hs).2]) (fun m id d l m' hne hs => (chExt_frame hs).2.2.1 hne) h
  simpa [chLog] using this

/-- signature_algorithms (13): the logged (signature, hash) pairs are the schemes of ALL signature_algorithms
    extensions, in wire order, looked up in `signatureAlgorithms` (`sigAlgTable`); schemes not in the table are dropped -/
theorem ch_log_ext_sighashes {r : Bool} {es : List (Nat × Bytes)} {f : CHFixed} {m : CHMsg}
    (h : chExts { renegSup := r } es = some m) :
    (chLog f m).sigHashes =
      (((es.filter (isId 13)).map (fun e => pairsBE (e.2.drop 2))).flatten).filterMap sigAlgLookup := by
  rw [chExts_eq_fold] at h
  have := fold_acc_map_id (step := chExt) CHMsg.sigAlgs 13 (fun d => pairsBE (d.drop 2))
    (fun m d l m' hs => by rw [(chExt_sigAlgs hs).2])
    (fun m id d l m' hne hs => (chExt_frame hs).2.2.2.2.2.1 hne) h
  simp only [chLog, this, List.nil_append]

/-- what `sigAlgLookup` is: the first (and only) row of the table with that scheme -/
theorem sigAlgLookup_table (s sg hh : Nat) : sigAlgLookup s = some (sg, hh) ↔ (s, sg, hh) ∈ sigAlgTable := by
  unfold sigAlgLookup
  constructor
  · intro h
    cases hf : sigAlgTable.find? (fun e => e.1 == s) with
    | none => simp only [hf] at h; cases h
    | some t =>
      obtain ⟨s', sg', h'⟩ := t
      simp only [hf, Option.some.injEq, Prod.mk.injEq] at h
      obtain ⟨rfl, rfl⟩ := h
      have hm := List.mem_of_find?_eq_some hf
      have hs := List.find?_some hf
      simp only [beq_iff_eq] at hs
      subst hs
      exact hm
  · intro h
    simp only [sigAlgTable, List.mem_cons, Prod.mk.injEq, List.not_mem_nil, or_false] at h
    rcases h with ⟨rfl, rfl, rfl⟩ | ⟨rfl, rfl, rfl⟩ | ⟨rfl, rfl, rfl⟩ | ⟨rfl, rfl, rfl⟩ | ⟨rfl, rfl, rfl⟩ |
      ⟨rfl, rfl, rfl⟩ | ⟨rfl, rfl, rfl⟩ | ⟨rfl, rfl, rfl⟩ | ⟨rfl, rfl, rfl⟩ | ⟨rfl, rfl, rfl⟩ | ⟨rfl, rfl, rfl⟩ |
      ⟨rfl, rfl, rfl⟩ <;> rfl

/-- supported_versions (43): concatenation, in wire order, of the uint16 lists (`len8 ‖ body`) of all such extensions -/
theorem ch_log_ext_versions {r : Bool} {es : List (Nat × Bytes)} {f : CHFixed} {m : CHMsg}
    (h : chExts { renegSup := r } es = some m) :
    (chLog f m).sv = ((es.filter (isId 43)).map (fun e => pairsBE (e.2.drop 1))).flatten := by
  rw [chExts_eq_fold] at h
  have := fold_acc_map_id (step := chExt) CHMsg.sv 43 (fun d => pairsBE (d.drop 1))
    (fun m d l m' hs => by rw [(chExt_sv hs).2])
    (fun m id d l m' hne hs => (chExt_frame hs).2.2.2.2.2.2.2.2.2.1 hne) h
  simpa [chLog] using this

/-- ALPN (16): the logged protocol list is the concatenation, in wire order, of the protocol lists of all ALPN
    extensions; each is `len16 ‖ (len8 ‖ proto)*` with non-empty protocols (`AlpnExt`, which determines the list) -/
theorem ch_log_ext_alpn {r : Bool} {es : List (Nat × Bytes)} {f : CHFixed} {m : CHMsg}
    (h : chExts { renegSup := r } es = some m) :
    ∃ ls, ListRel (fun e l => AlpnExt e.2 l) (es.filter (isId 16)) ls ∧ (chLog f m).alpn = ls.flatten := by
  rw [chExts_eq_fold] at h
  obtain ⟨xs, hrel, heq⟩ := fold_acc_id (step := chExt) CHMsg.alpn 16 AlpnExt
    (fun m d l m' hs => by
      obtain ⟨p, hp, e⟩ := chExt_alpn hs
      exact ⟨p, hp, by rw [e]⟩)
    (fun m id d l m' hne hs => (chExt_frame hs).2.2.2.2.2.2.2.1 hne) h
  exact ⟨xs, hrel, by simpa [chLog] using heq⟩

/-- ec_point_formats (11): the LAST extension wins; its data is `len8 ‖ formats` and `formats` is logged -/
theorem ch_log_ext_points {r : Bool} {es : List (Nat × Bytes)} {f : CHFixed} {m : CHMsg}
    (h : chExts { renegSup := r } es = some m) :
    (chLog f m).points = (match lastExt (isId 11) es with | some d => d.drop 1 | none => []) := by
  rw [chExts_eq_fold] at h
  exact fold_last_id (step := chExt) CHMsg.points 11 (fun d => d.drop 1)
    (fun m d l m' hs => by rw [(chExt_points hs).2]) (fun m id d l m' hne hs => (chExt_frame hs).2.2.2.1 hne) h

/-- session_ticket (35): the flag is mere presence; the logged ticket is the data of the LAST extension, and a ticket
    record exists iff that data is non-empty -/
theorem ch_log_ext_ticket {r : Bool} {es : List (Nat × Bytes)} {f : CHFixed} {m : CHMsg}
    (h : chExts { renegSup := r } es = some m) :
    (chLog f m).ticket = es.any (isId 35) ∧
    (chLog f m).sessionTicket =
      (match lastExt (isId 35) es with
       | some d => if d.length > 0 then some (d.length, d) else none
       | none => none) ∧
    (∀ n v, (chLog f m).sessionTicket = some (n, v) ↔ lastExt (isId 35) es = some v ∧ v ≠ [] ∧ n = v.length) := by
  rw [chExts_eq_fold] at h
  have h1 := fold_flag_id (step := chExt) CHMsg.tick 35
    (fun m d l m' hs => by rw [chExt_ticket hs]) (fun m id d l m' hne hs => ((chExt_frame hs).2.2.2.2.1 hne).1) h
  have h2 := fold_last_id (step := chExt) CHMsg.ticket 35 (fun d => d)
    (fun m d l m' hs => by rw [chExt_ticket hs]) (fun m id d l m' hne hs => ((chExt_frame hs).2.2.2.2.1 hne).2) h
  have h3 : (chLog f m).sessionTicket =
      (match lastExt (isId 35) es with
       | some d => if d.length > 0 then some (d.length, d) else none
       | none => none) := by
    simp only [chLog, h2]
    cases lastExt (isId 35) es with
    | none => rfl
    | some d => rfl
  refine ⟨by simpa [chLog] using h1, h3, ?_⟩
  intro n v
  rw [h3]
  cases lastExt (isId 35) es with
  | none => simp
  | some d =>
    simp only [Option.some.injEq]
    by_cases hd : d.length > 0
    · rw [if_pos hd]
      simp only [Option.some.injEq, Prod.mk.injEq]
      constructor
      · rintro ⟨rfl, rfl⟩
        exact ⟨rfl, fun hn => by rw [hn] at hd; exact Nat.lt_irrefl 0 hd, rfl⟩
      · rintro ⟨rfl, _, rfl⟩
        exact ⟨rfl, rfl⟩
    · rw [if_neg hd]
      have : d = [] := List.eq_nil_of_length_eq_zero (by omega)
      subst this
      constructor
      · intro hc; cases hc
      · rintro ⟨rfl, hne, _⟩; exact absurd rfl hne

/-- renegotiation_info (0xff01): exactly as `MakeLog` computes it — "supported" (SCSV among the suites, or any
    renegotiation_info extension) AND the renegotiated_connection of the LAST extension non-empty — which boils down
    to: the last renegotiation_info extension carries more than its length byte.  NOTE what this says: an initial
    handshake's empty renegotiation_info (`ff01 0001 00`), and the SCSV alone, are both logged as `false`. -/
theorem ch_log_ext_reneg {r : Bool} {es : List (Nat × Bytes)} {f : CHFixed} {m : CHMsg}
    (h : chExts { renegSup := r } es = some m) :
    (chLog f m).secureReneg =
      ((r || es.any (isId 0xff01)) &&
        decide (0 < (match lastExt (isId 0xff01) es with | some d => d.drop 1 | none => []).length)) ∧
    (chLog f m).secureReneg = (match lastExt (isId 0xff01) es with | some d => decide (1 < d.length) | none => false) := by
  rw [chExts_eq_fold] at h
  have h1 := fold_flag_id (step := chExt) CHMsg.renegSup 0xff01
    (fun m d l m' hs => by rw [(chExt_reneg hs).2]) (fun m id d l m' hne hs => ((chExt_frame hs).2.2.2.2.2.2.1 hne).2) h
  have h2 := fold_last_id (step := chExt) CHMsg.reneg 0xff01 (fun d => d.drop 1)
    (fun m d l m' hs => by rw [(chExt_reneg hs).2]) (fun m id d l m' hne hs => ((chExt_frame hs).2.2.2.2.2.2.1 hne).1) h
  have e1 : (chLog f m).secureReneg =
      ((r || es.any (isId 0xff01)) &&
        decide (0 < (match lastExt (isId 0xff01) es with | some d => d.drop 1 | none => []).length)) := by
    show (m.renegSup && decide (m.reneg.length > 0)) = _
    rw [h1, h2]; rfl
  refine ⟨e1, ?_⟩
  rw [e1]
  cases hl : lastExt (isId 0xff01) es with
  | none => simp
  | some d =>
    simp only [(any_isId_true_of_lastExt_some hl).1, Bool.or_true, Bool.true_and]
    exact drop_one_length_pos d

/-- extended_random (0x28): the LAST extension wins; `len16 ‖ value`, `value` is logged -/
theorem ch_log_ext_xrand {r : Bool} {es : List (Nat × Bytes)} {f : CHFixed} {m : CHMsg}
    (h : chExts { renegSup := r } es = some m) :
    (chLog f m).xrand = (match lastExt (isId 0x28) es with | some d => d.drop 2 | none => []) := by
  rw [chExts_eq_fold] at h
  exact fold_last_id (step := chExt) CHMsg.xrand 0x28 (fun d => d.drop 2)
    (fun m d l m' hs => by rw [(chExt_xrand hs).2])
    (fun m id d l m' hne hs => (chExt_frame hs).2.2.2.2.2.2.2.2.2.2.1 hne) h

/-- status_request (5): what holds is NOT "present ⇒ true": the logged flag is `status_type = 1` of the LAST
    status_request extension (false when there is none) -/
theorem ch_log_ext_ocsp {r : Bool} {es : List (Nat × Bytes)} {f : CHFixed} {m : CHMsg}
    (h : chExts { renegSup := r } es = some m) :
    (chLog f m).ocsp = (match lastExt (isId 5) es with | some d => ocspStatusIs1 d | none => false) := by
  rw [chExts_eq_fold] at h
  exact fold_last_id (step := chExt) CHMsg.ocsp 5 ocspStatusIs1
    (fun m d l m' hs => by rw [(chExt_ocsp hs).2]) (fun m id d l m' hne hs => (chExt_frame hs).2.1 hne) h

/-- signed_certificate_timestamp (18) and extended_master_secret (23): presence flags (the data must be empty) -/
theorem ch_log_ext_flags {r : Bool} {es : List (Nat × Bytes)} {f : CHFixed} {m : CHMsg}
    (h : chExts { renegSup := r } es = some m) :
    (chLog f m).scts = es.any (isId 18) ∧ (chLog f m).ems = es.any (isId 23) := by
  rw [chExts_eq_fold] at h
  have h1 := fold_flag_id (step := chExt) CHMsg.scts 18
    (fun m d l m' hs => by rw [(chExt_scts hs).2])
    (fun m id d l m' hne hs => (chExt_frame hs).2.2.2.2.2.2.2.2.1 hne) h
  have h2 := fold_flag_id (step := chExt) CHMsg.ems 23
    (fun m d l m' hs => by rw [(chExt_ems hs).2])
    (fun m id d l m' hne hs => (chExt_frame hs).2.2.2.2.2.2.2.2.2.2.2 hne) h
  exact ⟨by simpa [chLog] using h1, by simpa [chLog] using h2⟩

/-- server_name (0): the name loop runs over the name lists of ALL server_name extensions, in wire order
    (`xs` = those lists, each `len16 ‖ (type ‖ len16 ‖ name)*` with non-empty names).  Either there is no host_name
    (type 0) entry at all and nothing is logged, or there is EXACTLY ONE in all the lists together, it is non-empty,
    does not end in '.', and is the logged name. -/
theorem ch_log_ext_sni {r : Bool} {es : List (Nat × Bytes)} {f : CHFixed} {m : CHMsg}
    (h : chExts { renegSup := r } es = some m) :
    ∃ xs, ListRel (fun e ents => SniExt e.2 ents) (es.filter (isId 0)) xs ∧
      ((sniHosts xs.flatten = [] ∧ (chLog f m).sni = []) ∨
       (sniHosts xs.flatten = [(chLog f m).sni] ∧ (chLog f m).sni ≠ [] ∧ (chLog f m).sni.getLast? ≠ some 46)) := by
  obtain ⟨xs, hrel, hpick⟩ := chExts_sni es _ m h
  refine ⟨xs, hrel, ?_⟩
  have hne : ∀ e ∈ xs.flatten, e.2 ≠ [] := by
    clear hpick
    generalize es.filter (isId 0) = l0 at hrel
    induction hrel with
    | nil => intro e he; cases he
    | cons hab _ ih =>
      intro e he
      rw [List.flatten_cons, List.mem_append] at he
      rcases he with he | he
      · obtain ⟨_, _, _, _, _, _, hf⟩ := hab
        exact framedSNI_names_ne hf e he
      · exact ih e he
  exact sniPick_spec hne hpick

/-- the extension-derived part of the ClientHello log as a function of the wire extension list -/
structure CHExtSpec (es : List (Nat × Bytes)) (L : CHLog) : Prop where
  shapes : ∀ e ∈ es, CHExtShape e
  curves : L.curves = ((es.filter (isId 10)).map (fun e => pairsBE (e.2.drop 2))).flatten
  sigHashes : L.sigHashes = (((es.filter (isId 13)).map (fun e => pairsBE (e.2.drop 2))).flatten).filterMap sigAlgLookup
  sv : L.sv = ((es.filter (isId 43)).map (fun e => pairsBE (e.2.drop 1))).flatten
  alpn : ∃ ls, ListRel (fun e l => AlpnExt e.2 l) (es.filter (isId 16)) ls ∧ L.alpn = ls.flatten
  points : L.points = (match lastExt (isId 11) es with | some d => d.drop 1 | none => [])
  ticket : L.ticket = es.any (isId 35)
  sessionTicket : L.sessionTicket =
    (match lastExt (isId 35) es with
     | some d => if d.length > 0 then some (d.length, d) else none
     | none => none)
  secureReneg : L.secureReneg = (match lastExt (isId 0xff01) es with | some d => decide (1 < d.length) | none => false)
  xrand : L.xrand = (match lastExt (isId 0x28) es with | some d => d.drop 2 | none => [])
  ocsp : L.ocsp = (match lastExt (isId 5) es with | some d => ocspStatusIs1 d | none => false)
  scts : L.scts = es.any (isId 18)
  ems : L.ems = es.any (isId 23)
  sni : ∃ xs, ListRel (fun e ents => SniExt e.2 ents) (es.filter (isId 0)) xs ∧
      ((sniHosts xs.flatten = [] ∧ L.sni = []) ∨
       (sniHosts xs.flatten = [L.sni] ∧ L.sni ≠ [] ∧ L.sni.getLast? ≠ some 46))

/-- all extension-derived ClientHello log fields at once -/
theorem ch_log_ext_eq_wire {r : Bool} {es : List (Nat × Bytes)} {f : CHFixed} {m : CHMsg}
    (h : chExts { renegSup := r } es = some m) : CHExtSpec es (chLog f m) :=
  { shapes := ch_log_ext_shapes h, curves := ch_log_ext_curves h, sigHashes := ch_log_ext_sighashes h,
    sv := ch_log_ext_versions h, alpn := ch_log_ext_alpn h, points := ch_log_ext_points h,
    ticket := (ch_log_ext_ticket h).1, sessionTicket := (ch_log_ext_ticket h).2.1,
    secureReneg := (ch_log_ext_reneg h).2, xrand := ch_log_ext_xrand h, ocsp := ch_log_ext_ocsp h,
    scts := (ch_log_ext_flags h).1, ems := (ch_log_ext_flags h).2, sni := ch_log_ext_sni h }

/-- without extensions every extension-derived field has its default value (in particular `secureReneg = false`
    even when the SCSV 0x00ff is among the suites) -/
theorem ch_log_no_ext {L : CHLog} (h : CHExtSpec [] L) :
    L.curves = [] ∧ L.sigHashes = [] ∧ L.sv = [] ∧ L.alpn = [] ∧ L.points = [] ∧ L.ticket = false ∧
    L.sessionTicket = none ∧ L.secureReneg = false ∧ L.xrand = [] ∧ L.ocsp = false ∧ L.scts = false ∧
    L.ems = false ∧ L.sni = [] := by
  refine ⟨h.curves, h.sigHashes, h.sv, ?_, h.points, h.ticket, h.sessionTicket, h.secureReneg, h.xrand, h.ocsp,
    h.scts, h.ems, ?_⟩
  · obtain ⟨ls, hrel, e⟩ := h.alpn
    cases hrel
    exact e
  · obtain ⟨xs, hrel, hs⟩ := h.sni
    cases hrel
    rcases hs with ⟨_, e⟩ | ⟨e, _⟩
    · exact e
    · cases e

/-- ClientHello, whole message: the bytes are exactly
      hdr(4) ‖ version ‖ random(32) ‖ len8‖session_id ‖ len16‖suites ‖ len8‖compression_methods ‖ ext
    with the logged version / random / session id / suites (big-endian pairs, even length) / compression methods being
    those fields; `ext` is empty (then `es = []`) or `len16 ‖ blk` where `blk` is EXACTLY the concatenation of
    id ‖ len ‖ data of the extension list `es`; and every extension-derived log field is the function of `es` given
    by `CHExtSpec`. -/
theorem ch_log_eq_wire {msg : Bytes} {f : CHFixed} {m : CHMsg} (h : parseCH msg = some (f, m)) :
    ∃ hdr v1 v2 sl s1 s2 suiteBytes cl ext es,
      msg = hdr ++ (v1 :: v2 :: ((chLog f m).random ++ (sl :: ((chLog f m).sessionID ++
              (s1 :: s2 :: (suiteBytes ++ (cl :: ((chLog f m).comps ++ ext)))))))) ∧
      hdr.length = 4 ∧ (chLog f m).version = u16 v1 v2 ∧ (chLog f m).random.length = 32 ∧
      sl.toNat = (chLog f m).sessionID.length ∧ u16 s1 s2 = suiteBytes.length ∧
      u16s suiteBytes = some (chLog f m).suites ∧ (chLog f m).suites = pairsBE suiteBytes ∧
      suiteBytes.length % 2 = 0 ∧ cl.toNat = (chLog f m).comps.length ∧
      ((ext = [] ∧ es = []) ∨
       (∃ e1 e2 blk, ext = e1 :: e2 :: blk ∧ u16 e1 e2 = blk.length ∧ FramedExts blk es ∧
          blk = (es.map (fun e => extBytes e.1 e.2)).flatten)) ∧
      chExts { renegSup := (chLog f m).suites.contains 0x00ff } es = some m ∧
      CHExtSpec es (chLog f m) := by
  obtain ⟨hdr, v1, v2, sl, s1, s2, sb, cl, ext, hmsg, hl, hv, hr, hsl, hs, hsu, hcl, hext⟩ := parseCH_inv h
  obtain ⟨hp, hev⟩ := u16s_spec sb f.suites hsu
  rcases hext with ⟨rfl, hm⟩ | ⟨e1, e2, blk, es, rfl, hb, hfr, hch⟩
  · have hch : chExts { renegSup := f.suites.contains 0x00ff } [] = some m := by rw [hm]; rfl
    exact ⟨hdr, v1, v2, sl, s1, s2, sb, cl, [], [], hmsg, hl, hv, hr, hsl, hs, hsu, hp, hev, hcl,
      Or.inl ⟨rfl, rfl⟩, hch, ch_log_ext_eq_wire hch⟩
  · exact ⟨hdr, v1, v2, sl, s1, s2, sb, cl, e1 :: e2 :: blk, es, hmsg, hl, hv, hr, hsl, hs, hsu, hp, hev, hcl,
      Or.inr ⟨e1, e2, blk, rfl, hb, hfr, framedExts_bytes hfr⟩, hch, ch_log_ext_eq_wire hch⟩

/-! ## ServerHello: the extension part of `serverHelloMsg.unmarshal` + `MakeLog` -/

theorem sh_log_ext_shapes {es : List (Nat × Bytes)} {m : SHMsg} (h : shExts {} es = some m) :
    ∀ e ∈ es, SHExtShape e := by
  rw [shExts_eq_fold] at h
  exact fold_all_mem (fun _ _ _ _ _ hs => shExt_shape hs) h

/-- status_request (5), session_ticket (35), extended_master_secret (23): presence (data must be empty) -/
theorem sh_log_ext_flags {es : List (Nat × Bytes)} {f : SHFixed} {m : SHMsg} {ids : Option (List Nat)}
    (h : shExts {} es = some m) :
    (shLog f m ids).ocsp = es.any (isId 5) ∧ (shLog f m ids).ticket = es.any (isId 35) ∧
    (shLog f m ids).ems = es.any (isId 23) := by
  rw [shExts_eq_fold] at h
  have h1 := fold_flag_id (step := fun m id d _ => shExt m id d) SHMsg.ocsp 5
    (fun m d l m' hs => by rw [(shExt_ocsp hs).2]) (fun m id d l m' hne hs => (shExt_frame hs).1 hne) h
  have h2 := fold_flag_id (step := fun m id d _ => shExt m id d) SHMsg.tick 35
    (fun m d l m' hs => by rw [(shExt_tick hs).2]) (fun m id d l m' hne hs => (shExt_frame hs).2.1 hne) h
  have h3 := fold_flag_id (step := fun m id d _ => shExt m id d) SHMsg.ems 23
    (fun m d l m' hs => by rw [(shExt_ems hs).2])
    (fun m id d l m' hne hs => (shExt_frame hs).2.2.2.2.2.2.2.1 hne) h
  exact ⟨by simpa [shLog] using h1, by simpa [shLog] using h2, by simpa [shLog] using h3⟩

/-- renegotiation_info (0xff01): as `MakeLog` computes it, and what that amounts to on the wire -/
theorem sh_log_ext_reneg {es : List (Nat × Bytes)} {f : SHFixed} {m : SHMsg} {ids : Option (List Nat)}
    (h : shExts {} es = some m) :
    (shLog f m ids).secureReneg =
      (es.any (isId 0xff01) &&
        decide (0 < (match lastExt (isId 0xff01) es with | some d => d.drop 1 | none => []).length)) ∧
    (shLog f m ids).secureReneg =
      (match lastExt (isId 0xff01) es with | some d => decide (1 < d.length) | none => false) := by
  rw [shExts_eq_fold] at h
  have h1 := fold_flag_id (step := fun m id d _ => shExt m id d) SHMsg.renegSup 0xff01
    (fun m d l m' hs => by rw [(shExt_reneg hs).2]) (fun m id d l m' hne hs => ((shExt_frame hs).2.2.1 hne).2) h
  have h2 := fold_last_id (step := fun m id d _ => shExt m id d) SHMsg.reneg 0xff01 (fun d => d.drop 1)
    (fun m d l m' hs => by rw [(shExt_reneg hs).2]) (fun m id d l m' hne hs => ((shExt_frame hs).2.2.1 hne).1) h
  have e1 : (shLog f m ids).secureReneg =
      (es.any (isId 0xff01) &&
        decide (0 < (match lastExt (isId 0xff01) es with | some d => d.drop 1 | none => []).length)) := by
    show (m.renegSup && decide (m.reneg.length > 0)) = _
    rw [h1, h2]; rfl
  refine ⟨e1, ?_⟩
  rw [e1]
  cases hl : lastExt (isId 0xff01) es with
  | none => simp
  | some d =>
    simp only [(any_isId_true_of_lastExt_some hl).1, Bool.true_and]
    exact drop_one_length_pos d

/-- ALPN (16): the single protocol of the LAST ALPN extension (`len16 ‖ len8 ‖ proto`) -/
theorem sh_log_ext_alpn {es : List (Nat × Bytes)} {f : SHFixed} {m : SHMsg} {ids : Option (List Nat)}
    (h : shExts {} es = some m) :
    (shLog f m ids).alpn = (match lastExt (isId 16) es with | some d => d.drop 3 | none => []) := by
  rw [shExts_eq_fold] at h
  exact fold_last_id (step := fun m id d _ => shExt m id d) SHMsg.alpn 16 (fun d => d.drop 3)
    (fun m d l m' hs => by rw [(shExt_alpn hs).2]) (fun m id d l m' hne hs => (shExt_frame hs).2.2.2.1 hne) h

/-- signed_certificate_timestamp (18): the SCT lists of all such extensions, concatenated in wire order -/
theorem sh_log_ext_scts {es : List (Nat × Bytes)} {f : SHFixed} {m : SHMsg} {ids : Option (List Nat)}
    (h : shExts {} es = some m) :
    ∃ ls, ListRel (fun e l => SctExt e.2 l) (es.filter (isId 18)) ls ∧ (shLog f m ids).scts = ls.flatten := by
  rw [shExts_eq_fold] at h
  obtain ⟨xs, hrel, heq⟩ := fold_acc_id (step := fun m id d _ => shExt m id d) SHMsg.scts 18 SctExt
    (fun m d l m' hs => by
      obtain ⟨p, hp, e⟩ := shExt_scts hs
      exact ⟨p, hp, by rw [e]⟩)
    (fun m id d l m' hne hs => (shExt_frame hs).2.2.2.2.1 hne) h
  exact ⟨xs, hrel, by simpa [shLog] using heq⟩

/-- supported_versions (43): the LAST one wins.  key_share (51): as `MakeLog` computes it — only when a
    selected version is present; the group of the last key_share carrying a key, else (if that is absent or names
    group 0) the group of the last 2-byte (HelloRetryRequest-style) key_share. -/
theorem sh_log_ext_version_keyshare {es : List (Nat × Bytes)} {f : SHFixed} {m : SHMsg} {ids : Option (List Nat)}
    (h : shExts {} es = some m) :
    (shLog f m ids).selectedVersion = (match lastExt (isId 43) es with | some d => be16 d | none => 0) ∧
    (shLog f m ids).keyShareGroup =
      (if (shLog f m ids).selectedVersion ≠ 0 then
         (if lastGroup isShare es ≠ 0 then lastGroup isShare es else lastGroup isSel es)
       else 0) := by
  rw [shExts_eq_fold] at h
  have h1 := fold_last_id (step := fun m id d _ => shExt m id d) SHMsg.sv 43 be16
    (fun m d l m' hs => by rw [(shExt_sv hs).2]) (fun m id d l m' hne hs => (shExt_frame hs).2.2.2.2.2.1 hne) h
  have h2 := shExts_shareGroup h
  have h3 := shExts_selGroup h
  refine ⟨h1, ?_⟩
  have e2 : m.shareGroup = lastGroup isShare es := h2
  have e3 : m.selGroup = lastGroup isSel es := h3
  simp only [shLog, e2, e3]

/-- every extension without an arm of its own is logged VERBATIM (`extBytes` = its wire bytes, see
    `sh_log_ext_eq_wire`), in wire order; the others never are -/
theorem sh_log_ext_unknown {es : List (Nat × Bytes)} {f : SHFixed} {m : SHMsg} {ids : Option (List Nat)}
    (h : shExts {} es = some m) :
    (shLog f m ids).unknown = (es.filter isUnknown).map (fun e => extBytes e.1 e.2) := by
  rw [shExts_eq_fold] at h
  have := shExts_unknown h
  simpa [shLog] using this

/-- the extension-derived part of the ServerHello log as a function of the wire extension list -/
structure SHExtSpec (es : List (Nat × Bytes)) (L : SHLog) : Prop where
  shapes : ∀ e ∈ es, SHExtShape e
  extIds : L.extIds = es.map (·.1)
  ocsp : L.ocsp = es.any (isId 5)
  ticket : L.ticket = es.any (isId 35)
  ems : L.ems = es.any (isId 23)
  secureReneg : L.secureReneg = (match lastExt (isId 0xff01) es with | some d => decide (1 < d.length) | none => false)
  alpn : L.alpn = (match lastExt (isId 16) es with | some d => d.drop 3 | none => [])
  scts : ∃ ls, ListRel (fun e l => SctExt e.2 l) (es.filter (isId 18)) ls ∧ L.scts = ls.flatten
  selectedVersion : L.selectedVersion = (match lastExt (isId 43) es with | some d => be16 d | none => 0)
  keyShareGroup : L.keyShareGroup =
    (if L.selectedVersion ≠ 0 then (if lastGroup isShare es ≠ 0 then lastGroup isShare es else lastGroup isSel es)
     else 0)
  unknown : L.unknown = (es.filter isUnknown).map (fun e => extBytes e.1 e.2)

/-- ServerHello, whole message incl. extensions: after the fixed part (`sh_log_eq_wire`) comes `ext`, which is empty
    (no identifiers logged) or `len16 ‖ blk` with `blk` EXACTLY the concatenation of id ‖ len ‖ data of the list `es`;
    the logged extension identifiers are those of `es` in wire order, and every extension-derived log field is the
    function of `es` given by `SHExtSpec`. -/
theorem sh_log_ext_eq_wire {msg : Bytes} {f : SHFixed} {m : SHMsg} {ids : Option (List Nat)}
    (h : parseSH msg = some (f, m, ids)) :
    ∃ hdr v1 v2 sl c1 c2 cm ext es,
      msg = hdr ++ (v1 :: v2 :: ((shLog f m ids).random ++ (sl :: ((shLog f m ids).sessionID ++ (c1 :: c2 :: cm :: ext))))) ∧
      hdr.length = 4 ∧ (shLog f m ids).version = u16 v1 v2 ∧ (shLog f m ids).random.length = 32 ∧
      sl.toNat = (shLog f m ids).sessionID.length ∧ (shLog f m ids).cipherSuite = u16 c1 c2 ∧
      (shLog f m ids).compression = cm.toNat ∧
      ((ext = [] ∧ es = [] ∧ ids = none) ∨
       (∃ e1 e2 blk, ext = e1 :: e2 :: blk ∧ u16 e1 e2 = blk.length ∧ FramedExts blk es ∧
          blk = (es.map (fun e => extBytes e.1 e.2)).flatten ∧ ids = some (es.map (·.1)))) ∧
      shExts {} es = some m ∧
      SHExtSpec es (shLog f m ids) := by
  obtain ⟨hdr, v1, v2, sl, c1, c2, cm, ext, hmsg, hl, hv, hr, hsl, hsu, hcm, hext⟩ := parseSH_inv h
  have spec : ∀ es, shExts {} es = some m → (shLog f m ids).extIds = es.map (·.1) → SHExtSpec es (shLog f m ids) :=
    fun es hs hid =>
      { shapes := sh_log_ext_shapes hs, extIds := hid, ocsp := (sh_log_ext_flags hs).1,
        ticket := (sh_log_ext_flags hs).2.1, ems := (sh_log_ext_flags hs).2.2,
        secureReneg := (sh_log_ext_reneg hs).2, alpn := sh_log_ext_alpn hs, scts := sh_log_ext_scts hs,
        selectedVersion := (sh_log_ext_version_keyshare hs).1, keyShareGroup := (sh_log_ext_version_keyshare hs).2,
        unknown := sh_log_ext_unknown hs }
  rcases hext with ⟨rfl, hm, hids⟩ | ⟨e1, e2, blk, es, rfl, hb, hfr, hsh, hids⟩
  · have hsh : shExts {} [] = some m := by rw [hm]; rfl
    exact ⟨hdr, v1, v2, sl, c1, c2, cm, [], [], hmsg, hl, hv, hr, hsl, hsu, hcm, Or.inl ⟨rfl, rfl, hids⟩, hsh,
      spec [] hsh (by rw [hids]; rfl)⟩
  · exact ⟨hdr, v1, v2, sl, c1, c2, cm, e1 :: e2 :: blk, es, hmsg, hl, hv, hr, hsl, hsu, hcm,
      Or.inr ⟨e1, e2, blk, rfl, hb, hfr, framedExts_bytes hfr, hids⟩, hsh, spec es hsh (by rw [hids]; rfl)⟩


/-- the decoded lists are DETERMINED by the wire bytes: the existentials in `CHExtSpec.alpn`, `CHExtSpec.sni` and
    `SHExtSpec.scts` have exactly one witness -/
theorem ext_lists_determined {l : List (Nat × Bytes)} :
    (∀ {ls ls'}, ListRel (fun e x => AlpnExt e.2 x) l ls → ListRel (fun e x => AlpnExt e.2 x) l ls' → ls = ls') ∧
    (∀ {xs xs'}, ListRel (fun e x => SniExt e.2 x) l xs → ListRel (fun e x => SniExt e.2 x) l xs' → xs = xs') ∧
    (∀ {ls ls'}, ListRel (fun e x => SctExt e.2 x) l ls → ListRel (fun e x => SctExt e.2 x) l ls' → ls = ls') := by
  refine ⟨?_, ?_, ?_⟩
  · intro ls ls' h h'
    exact ListRel.unique (fun (e : Nat × Bytes) x x' (h1 : AlpnExt e.2 x) (h2 : AlpnExt e.2 x') => alpnExt_unique h1 h2) h h'
  · intro xs xs' h h'
    exact ListRel.unique (fun (e : Nat × Bytes) x x' (h1 : SniExt e.2 x) (h2 : SniExt e.2 x') => sniExt_unique h1 h2) h h'
  · intro ls ls' h h'
    exact ListRel.unique (fun (e : Nat × Bytes) x x' (h1 : SctExt e.2 x) (h2 : SctExt e.2 x') => sctExt_unique h1 h2) h h'

/-- … and so is the extension list itself: a block has one framing -/
theorem ext_block_determined {blk : Bytes} {es es' : List (Nat × Bytes)} (h : FramedExts blk es)
    (h' : FramedExts blk es') : es = es' := framedExts_unique h h'

/-! ### the hypotheses are satisfiable: a ClientHello and a ServerHello with many (also repeated) extensions -/

/-- ClientHello: SNI "ab.c", renegotiation_info (empty), supported_groups [29,23], ec_point_formats, signature_algorithms
    (one unknown scheme), ALPN h2 + http/1.1, supported_versions, session_ticket 010203, EMS, SCT, status_request,
    extended_random, a SECOND supported_groups [24], an unknown extension, key_share, a SECOND renegotiation_info (07) -/
def chEx : Bytes :=
    [1, 0, 0, 186, 3, 3, 0, 1, 2, 3, 4, 5, 6, 7, 8, 9, 10, 11, 12, 13, 14, 15, 16, 17, 18, 19, 20, 21, 22, 23, 24,
   25, 26, 27, 28, 29, 30, 31, 2, 170, 187, 0, 6, 19, 1, 192, 47, 0, 255, 1, 0, 0, 137, 0, 0, 0, 9, 0, 7, 0, 0, 4,
   97, 98, 46, 99, 255, 1, 0, 1, 0, 0, 10, 0, 6, 0, 4, 0, 29, 0, 23, 0, 11, 0, 2, 1, 0, 0, 13, 0, 8, 0, 6, 8, 4, 4,
   3, 18, 52, 0, 16, 0, 14, 0, 12, 2, 104, 50, 8, 104, 116, 116, 112, 47, 49, 46, 49, 0, 43, 0, 5, 4, 3, 4, 3, 3, 0,
   35, 0, 3, 1, 2, 3, 0, 23, 0, 0, 0, 18, 0, 0, 0, 5, 0, 5, 1, 0, 0, 0, 0, 0, 40, 0, 4, 0, 2, 170, 187, 0, 10, 0, 4,
   0, 2, 0, 24, 18, 52, 0, 2, 222, 173, 0, 51, 0, 8, 0, 6, 0, 29, 0, 2, 9, 9, 255, 1, 0, 2, 1, 7]
def chExEs : List (Nat × Bytes) :=
    [(0, [0, 7, 0, 0, 4, 97, 98, 46, 99]), (65281, [0]), (10, [0, 4, 0, 29, 0, 23]), (11, [1, 0]), (13, [0, 6, 8, 4,
   4, 3, 18, 52]), (16, [0, 12, 2, 104, 50, 8, 104, 116, 116, 112, 47, 49, 46, 49]), (43, [4, 3, 4, 3, 3]), (35, [1,
   2, 3]), (23, []), (18, []), (5, [1, 0, 0, 0, 0]), (40, [0, 2, 170, 187]), (10, [0, 2, 0, 24]), (4660, [222,
   173]), (51, [0, 6, 0, 29, 0, 2, 9, 9]), (65281, [1, 7])]

def chExMsg : CHMsg :=
  { renegSup := true, reneg := [7], ocsp := true, tick := true, ticket := [1, 2, 3], sni := [97, 98, 46, 99],
    scts := true, curves := [29, 23, 24], points := [0], sv := [772, 771], sigAlgs := [2052, 1027, 4660],
    alpn := [[104, 50], [104, 116, 116, 112, 47, 49, 46, 49]], ems := true, xrand := [170, 187] }

set_option maxRecDepth 8000 in
example : parseCH chEx =
    some ({ vers := 771, random := (List.range 32).map UInt8.ofNat, sid := [170, 187], suites := [4865, 49199, 255],
            comps := [0] }, chExMsg) := by
  simp [chEx, chExMsg, parseCH, splitExts, chExts, chExt, wholeVec16, wholeVec8, readVec16, readVec8, readU16, readU8,
    takeN, u16, u16s, sniEntries, sniPick, splitVec8s, keyShares, List.range, List.range.loop]

example : chExts { renegSup := true } chExEs = some chExMsg := by
  simp [chExEs, chExMsg, chExts, chExt, wholeVec16, wholeVec8, readVec16, readVec8, readU16, readU8, takeN, u16, u16s,
    sniEntries, sniPick, splitVec8s, keyShares]

-- the spec side on that list: both supported_groups extensions contribute, the LAST renegotiation_info decides
example : ((chExEs.filter (isId 10)).map (fun e => pairsBE (e.2.drop 2))).flatten = [29, 23, 24] := by decide
example : lastExt (isId 0xff01) chExEs = some [1, 7] ∧ lastExt (isId 35) chExEs = some [1, 2, 3] := by decide
example : (((chExEs.filter (isId 13)).map (fun e => pairsBE (e.2.drop 2))).flatten).filterMap sigAlgLookup
    = [(sigRSA, hSHA256), (sigECDSA, hSHA256)] := by decide

/-- ServerHello: renegotiation_info (empty), ALPN h2, an unknown extension, SCT list (2), supported_versions 0304,
    key_share x25519, EMS, session_ticket, status_request, a second unknown extension, a SECOND SCT list (1), a SECOND
    renegotiation_info (07 08) -/
def shEx : Bytes :=
    [2, 0, 0, 126, 3, 3, 0, 1, 2, 3, 4, 5, 6, 7, 8, 9, 10, 11, 12, 13, 14, 15, 16, 17, 18, 19, 20, 21, 22, 23, 24,
   25, 26, 27, 28, 29, 30, 31, 2, 170, 187, 19, 1, 0, 0, 84, 255, 1, 0, 1, 0, 0, 16, 0, 5, 0, 3, 2, 104, 50, 18, 52,
   0, 2, 222, 173, 0, 18, 0, 10, 0, 8, 0, 3, 1, 2, 3, 0, 1, 4, 0, 43, 0, 2, 3, 4, 0, 51, 0, 7, 0, 29, 0, 3, 9, 9, 9,
   0, 23, 0, 0, 0, 35, 0, 0, 0, 5, 0, 0, 86, 120, 0, 0, 0, 18, 0, 6, 0, 4, 0, 2, 5, 6, 255, 1, 0, 3, 2, 7, 8]
def shExEs : List (Nat × Bytes) :=
    [(65281, [0]), (16, [0, 3, 2, 104, 50]), (4660, [222, 173]), (18, [0, 8, 0, 3, 1, 2, 3, 0, 1, 4]), (43, [3, 4]),
   (51, [0, 29, 0, 3, 9, 9, 9]), (23, []), (35, []), (5, []), (22136, []), (18, [0, 4, 0, 2, 5, 6]), (65281, [2, 7,
   8])]

def shExMsg : SHMsg :=
  { ocsp := true, tick := true, renegSup := true, reneg := [7, 8], ems := true, alpn := [104, 50],
    scts := [[1, 2, 3], [4], [5, 6]], sv := 772, shareGroup := 29, selGroup := 0,
    unknown := [[18, 52, 0, 2, 222, 173], [86, 120, 0, 0]] }

set_option maxRecDepth 8000 in
example : parseSH shEx =
    some ({ vers := 771, random := (List.range 32).map UInt8.ofNat, sid := [170, 187], suite := 4865, comp := 0 },
      shExMsg, some [65281, 16, 4660, 18, 43, 51, 23, 35, 5, 22136, 18, 65281]) := by
  simp [shEx, shExMsg, parseSH, splitExts, shExts, shExt, wholeVec16, wholeVec8, readVec16, readVec8, readU16, readU8,
    takeN, u16, splitVec16s, extBytes, List.range, List.range.loop]

example : shExts {} shExEs = some shExMsg := by
  simp [shExEs, shExMsg, shExts, shExt, wholeVec16, wholeVec8, readVec16, readVec8, readU16, readU8, takeN, u16,
    splitVec16s, extBytes]

example : (shExEs.filter isUnknown).map (fun e => extBytes e.1 e.2) = [[18, 52, 0, 2, 222, 173], [86, 120, 0, 0]] ∧
    lastGroup isShare shExEs = 29 ∧ lastExt (isId 16) shExEs = some [0, 3, 2, 104, 50] := by decide

-- a framed block and a CHExtSpec / ListRel instance exist (hypotheses of `ext_block_determined`, `ch_log_no_ext`,
-- `ext_lists_determined`)
example : FramedExts [0, 23, 0, 0, 0, 10, 0, 4, 0, 2, 0, 29] [(23, []), (10, [0, 2, 0, 29])] :=
  splitExts_framed _ _ (by simp [splitExts, u16])
example : CHExtSpec [] (chLog ⟨771, [], [], [], []⟩ {}) := ch_log_ext_eq_wire (r := false) rfl
example : ListRel (fun (e : Nat × Bytes) x => AlpnExt e.2 x) [(16, [0, 3, 2, 104, 50])] [[[104, 50]]] :=
  ListRel.cons ⟨0, 3, [2, 104, 50], rfl, rfl, by simp, Framed8s.cons 2 [104, 50] [] [] rfl Framed8s.nil, by simp⟩
    ListRel.nil

example : parseCerts [11, 0, 0, 7, 0, 0, 4, 0, 0, 1, 9] = some [[9]] := by
  simp [parseCerts, readU24, certEntries]
example : parseFin [20, 0, 0, 2, 1, 2] = some [1, 2] := by decide
-- two entries (leaf `09` with an ignored extension, then `07 08`): leaf and chain come out in wire order
example : parseCerts13 [11, 0, 0, 0, 0, 0, 0, 17, 0, 0, 1, 9, 0, 4, 0x12, 0x34, 0, 0, 0, 0, 2, 7, 8, 0, 0]
    = some ⟨[[9], [7, 8]], false, false⟩ := by
  simp [parseCerts13, readVec8, readU8, readVec24, readU24, takeN, cert13Entries, splitExts, cert13LeafExts, u16]

end ZV.C28

/-! ## The logging schedule of the client handshake (model `ZV.C28.clientLog`, tied by the T2 op `c28 sched`)

`ins` is the sequence of items the record layer hands to the handshake code (with the outcome of the checks the
code makes on each); positions are positions in `ins`. -/
namespace ZV.C28

/-- Nothing is logged — not even the ClientHello that was sent — when the first read fails. -/
theorem sched_nothing_before_first_read (offered : Bool) : clientLog offered [] = {} := rfl

/-- The ServerHello record is built from the FIRST item, and that item is a ServerHello. -/
theorem sched_sh_src (offered : Bool) (ins : List Item) (i : Nat)
    (h : (clientLog offered ins).serverHello = some i) : i = 0 ∧ ∃ a, ins[0]? = some (.serverHello a) := by
  have key := run_inv (fun pre s => s.n = pre.length ∧ (s.phase = .start → pre = []) ∧
      ∀ i, s.log.serverHello = some i → i = 0 ∧ ∃ a, pre[0]? = some (.serverHello a))
    (by
      intro pre s m ⟨hn, hst, hsh⟩
      refine ⟨by simp [step_n, hn], ?_, ?_⟩
      · intro hp
        exfalso
        have := step_n s m
        revert hp
        unfold step
        cases s.phase <;> cases m <;> simp [St.abort, St.goto, St.finish, onShd, onCreq, onKx, onCert13] <;>
          (repeat' split) <;> simp
      · intro i hi
        rcases step_sh s m with heq | ⟨hp, ⟨a, rfl⟩, hset⟩
        · obtain ⟨h0, a, ha⟩ := hsh i (heq ▸ hi)
          exact ⟨h0, a, snoc_old _ _ _ _ ha⟩
        · have hpre := hst hp
          subst hpre
          rw [hset] at hi
          simp at hn
          simp [hn] at hi
          exact ⟨hi.symm, a, by simp⟩)
    ins [] (St.init offered) ⟨rfl, fun _ => rfl, by intro i hi; simp [St.init] at hi⟩
  simpa using key.2.2 i h

/-- The ServerKeyExchange record is built from an item that IS a ServerKeyExchange which the key agreement accepted. -/
theorem sched_skx_src (offered : Bool) (ins : List Item) (i : Nat)
    (h : (clientLog offered ins).skx = some i) : ins[i]? = some (.serverKeyExchange true) := by
  have key := run_inv (fun pre s => s.n = pre.length ∧ ∀ i, s.log.skx = some i → pre[i]? = some (.serverKeyExchange true))
    (by
      intro pre s m ⟨hn, hk⟩
      refine ⟨by simp [step_n, hn], ?_⟩
      intro i hi
      rcases step_skx s m with heq | ⟨rfl, hset⟩
      · exact snoc_old _ _ _ _ (hk i (heq ▸ hi))
      · rw [hset] at hi
        cases hi
        exact snoc_len _ _ _ hn)
    ins [] (St.init offered) ⟨rfl, by intro i hi; simp [St.init] at hi⟩
  simpa using key.2 i h

/-- The server Finished record is built from an item that IS a Finished message. -/
theorem sched_sfin_src (offered : Bool) (ins : List Item) (i : Nat)
    (h : (clientLog offered ins).serverFin = some i) : ∃ ok, ins[i]? = some (.finished ok) := by
  have key := run_inv (fun pre s => s.n = pre.length ∧ ∀ i, s.log.serverFin = some i → ∃ ok, pre[i]? = some (.finished ok))
    (by
      intro pre s m ⟨hn, hk⟩
      refine ⟨by simp [step_n, hn], ?_⟩
      intro i hi
      rcases step_sfin s m with heq | ⟨⟨ok, rfl⟩, hset⟩
      · obtain ⟨ok, hok⟩ := hk i (heq ▸ hi)
        exact ⟨ok, snoc_old _ _ _ _ hok⟩
      · rw [hset] at hi
        cases hi
        exact ⟨ok, snoc_len _ _ _ hn⟩)
    ins [] (St.init offered) ⟨rfl, by intro i hi; simp [St.init] at hi⟩
  simpa using key.2 i h

/-- The session-ticket record is only written by a handshake that completed; it is either the ticket of a
    NewSessionTicket message that was received (position `i` holds one), or — when no new ticket came — the
    ticket of the cached session the client offered (`offered`), never anything else. -/
theorem sched_ticket_src (offered : Bool) (ins : List Item) :
    ((clientLog offered ins).ticket ≠ .none → (clientLog offered ins).done = true) ∧
    (∀ i, (clientLog offered ins).ticket = .msg i → ins[i]? = some .newSessionTicket) ∧
    ((clientLog offered ins).ticket = .cache → offered = true) := by
  have key := run_inv (fun pre s => s.n = pre.length ∧ (s.log.done = true → s.phase = .complete) ∧
      (∀ i, s.sess = .msg i → pre[i]? = some .newSessionTicket) ∧ (s.sess = .cache → offered = true) ∧
      (s.log.ticket = .none ∨ (s.log.ticket = s.sess ∧ s.log.done = true)))
    (by
      intro pre s m ⟨hn, hd, hs, hc, ht⟩
      have hdone := step_done s m hd
      refine ⟨by simp [step_n, hn], hdone.1, ?_, ?_, ?_⟩
      · intro i hi
        rcases step_sess s m with heq | ⟨rfl, hset⟩
        · exact snoc_old _ _ _ _ (hs i (heq ▸ hi))
        · rw [hset] at hi
          cases hi
          exact snoc_len _ _ _ hn
      · intro hi
        rcases step_sess s m with heq | ⟨_, hset⟩
        · exact hc (heq ▸ hi)
        · rw [hset] at hi; cases hi
      · rcases step_ticket s m with heq | ⟨h1, h2, h3⟩
        · rcases ht with h0 | ⟨h1, h2⟩
          · exact Or.inl (heq ▸ h0)
          · obtain ⟨hl, hs'⟩ := hdone.2 h2
            exact Or.inr ⟨by rw [hl, hs']; exact h1, by rw [hl]; exact h2⟩
        · exact Or.inr ⟨h1.trans h2.symm, h3⟩)
    ins [] (St.init offered)
    ⟨rfl, (by simp [St.init]), (by intro i hi; cases offered <;> simp [St.init] at hi),
      (by intro h; cases offered <;> simp_all [St.init]), Or.inl rfl⟩
  obtain ⟨_, _, h3, h4, h5⟩ := key
  simp only [List.nil_append] at h3
  have hL : (clientLog offered ins) = (run (St.init offered) ins).log := rfl
  rw [hL]
  refine ⟨?_, ?_, ?_⟩
  · intro hne
    rcases h5 with h0 | ⟨_, hd⟩
    · exact absurd h0 hne
    · exact hd
  · intro i hi
    rcases h5 with h0 | ⟨he, _⟩
    · rw [h0] at hi; cases hi
    · exact h3 i (he ▸ hi)
  · intro hi
    rcases h5 with h0 | ⟨he, _⟩
    · rw [h0] at hi; cases hi
    · exact h4 (he ▸ hi)

/-- Key material (master secret) is logged only by a handshake that completed, i.e. after the key exchange and
    after a server Finished with the expected verify data was received and logged. -/
theorem sched_km_after_finished (offered : Bool) (ins : List Item)
    (h : (clientLog offered ins).keyMaterial = true) :
    (clientLog offered ins).done = true ∧
      ∃ i, (clientLog offered ins).serverFin = some i ∧ ins[i]? = some (.finished true) := by
  have key := run_inv (fun pre s => s.n = pre.length ∧ (s.log.done = true → s.phase = .complete) ∧
      (s.log.keyMaterial = true → s.log.done = true ∧ ∃ i, s.log.serverFin = some i ∧ pre[i]? = some (.finished true)))
    (by
      intro pre s m ⟨hn, hd, hk⟩
      have hdone := step_done s m hd
      refine ⟨by simp [step_n, hn], hdone.1, ?_⟩
      intro hkm
      rcases step_km s m with heq | ⟨_, h2, rfl, h4⟩
      · obtain ⟨h1, i, h2, h3⟩ := hk (heq ▸ hkm)
        have hl := (hdone.2 h1).1
        exact ⟨by rw [hl]; exact h1, i, by rw [hl]; exact h2, snoc_old _ _ _ _ h3⟩
      · exact ⟨h2, s.n, h4, snoc_len _ _ _ hn⟩)
    ins [] (St.init offered) ⟨rfl, by simp [St.init], by simp [St.init]⟩
  simpa [clientLog] using key.2.2 h

/-- hypotheses satisfiable / the theorems are not vacuous: a full ECDHE handshake with a ticket, and cuts of it -/
def schedEx : List Item :=
  [.serverHello ⟨true, false, true, false, false, true, false, false, .ecdhe⟩, .certificate ⟨true, true, true, true⟩,
   .serverKeyExchange true, .serverHelloDone, .newSessionTicket, .ccs, .finished true]

example : clientLog false schedEx =
    { clientHello := true, serverHello := some 0, certs := some 1, parsed := true, skx := some 2, ckx := true,
      clientFin := true, serverFin := some 6, ticket := .msg 4, keyMaterial := true, done := true } := by decide
example : (clientLog false (schedEx.take 5)).ticket = .none ∧ (clientLog false (schedEx.take 5)).keyMaterial = false := by decide
example : (clientLog false (schedEx.take 2)).certs = none ∧ (clientLog false (schedEx.take 3)).certs = some 1 := by decide
example : (clientLog true [.serverHello ⟨true, false, true, true, false, false, false, false, .ecdhe⟩, .ccs, .finished true]).ticket
    = .cache := by decide

end ZV.C28
