import ZV.Model.C28
import ZV.Proofs.C28
/-!
  C28 — the client handshake log records what was actually exchanged.

  What is proved here, for ALL byte strings: the log-mapping model (the real parsers followed by the real
  `MakeLog` builders, tied to the Go code by the T2 stream `c28`) is faithful to the wire:

  * `skx_sighash_eq_wire`     ECDHE, TLS 1.2: the logged (signature, hash) pair is the one NAMED by the two
                              SignatureScheme bytes on the wire (`tlsHashOf` / `sigKindOf` are the spec-side reading of
                              those bytes); for the classic `(hash, signature)` layout the logged hash IS wire byte 0.
                              (False before the D11 fix: the model of the old code logged `crypto.Hash` numbers.)
  * `skx_sighash_eq_wire_dhe` DHE, TLS 1.2: logged hash = wire byte 0 and logged signature = wire byte 1, literally.
  * `skx_log_bytes_complete`  ECDHE: the message is exactly  03 ‖ curve ‖ len ‖ point ‖ [alg] ‖ len ‖ logged signature,
                              the logged curve id is the wire curve id and the logged signature has the wire length.
  * `skx_dhe_log_eq_wire`     DHE: the message is  len‖p ‖ len‖g ‖ len‖Ys ‖ signature block, and the logged p, g, Ys are those
                              byte strings (as numbers: leading zeros dropped).
  * `skx_pre12_no_sighash`    before TLS 1.2 no signature_and_hash_type is logged (none is on the wire).
  * `sh_log_eq_wire`          ServerHello: version, random (32 bytes), session id, cipher suite and compression method of
                              the log are the corresponding wire fields.
  * `cert_log_eq_wire`        Certificate: leaf ‖ chain of the log are exactly the 24-bit-framed entries of the message.
  * `fin_log_eq_wire`         Finished: verify_data is the whole body.
  The remaining ServerHello / ClientHello extension mappings are exercised by T2 only (no theorem).
-/
namespace ZV.C28

/-- position-based (spec-side) reading of the wire: the two algorithm bytes that follow the ECDHE parameters -/
def ecdheAlgBytes (key : Bytes) : Option (UInt8 × UInt8) :=
  match key with
  | _ :: _ :: _ :: pl :: rest =>
    match rest.drop pl.toNat with
    | a :: b :: _ => some (a, b)
    | _ => none
  | _ => none

theorem skx_sighash_eq_wire {vers : Nat} {isRSA : Bool} {kt : KeyType} {algs : List Nat} {ok : Bool}
    {cr sr key : Bytes} {l : ECDHELog}
    (h : ecdheLog vers isRSA kt algs ok cr sr key = some l) (hv : vers ≥ 0x0303) :
    ∃ a b, ecdheAlgBytes key = some (a, b) ∧ l.sig.hasSigHash = true ∧
      l.sig.hash = tlsHashOf a b ∧ l.sig.sig = sigKindOf a b ∧
      (a.toNat ≤ 6 → l.sig.hash = a.toNat) := by
  obtain ⟨c1, c2, pl, pub, algB, sigType, hashId, l1, l2, hkey, hpub, _, _, h12, _, hs, hh, hhas, _, _, _⟩ :=
    ecdheLog_inv h
  obtain ⟨a, b, rfl, hta, _⟩ := h12 hv
  obtain ⟨e1, e2⟩ := typeAndHash_wire hta
  refine ⟨a, b, ?_, ?_, ?_, ?_, ?_⟩
  · rw [hkey]
    simp only [ecdheAlgBytes]
    rw [List.append_assoc, ← hpub, List.drop_left]
    rfl
  · rw [hhas]; simpa using hv
  · rw [hh, e1]
  · rw [hs, e2]
  · intro ha; rw [hh, e1]; simp [tlsHashOf, ha]

example : ecdheLog 0x0303 true .rsa [0x0804] true [] [] [3, 0, 29, 1, 9, 8, 4, 0, 1, 7] ≠ none := by decide

theorem skx_pre12_no_sighash {vers : Nat} {isRSA : Bool} {kt : KeyType} {algs : List Nat} {ok : Bool}
    {cr sr key : Bytes} {l : ECDHELog}
    (h : ecdheLog vers isRSA kt algs ok cr sr key = some l) (hv : vers < 0x0303) :
    l.sig.hasSigHash = false := by
  obtain ⟨_, _, _, _, _, _, _, _, _, _, _, _, _, _, _, _, _, hhas, _, _, _⟩ := ecdheLog_inv h
  rw [hhas]; simpa using hv

/-- the message is reconstructed from the log: nothing is truncated, nothing invented -/
theorem skx_log_bytes_complete {vers : Nat} {isRSA : Bool} {kt : KeyType} {algs : List Nat} {ok : Bool}
    {cr sr key : Bytes} {l : ECDHELog}
    (h : ecdheLog vers isRSA kt algs ok cr sr key = some l) :
    ∃ c1 c2 pl pub algB l1 l2,
      key = 3 :: c1 :: c2 :: pl :: (pub ++ algB ++ (l1 :: l2 :: l.sig.raw)) ∧
      pub.length = pl.toNat ∧ l.curve = u16 c1 c2 ∧ u16 l1 l2 = l.sig.raw.length ∧
      algB.length = (if vers ≥ 0x0303 then 2 else 0) ∧ l.sig.version = vers := by
  obtain ⟨c1, c2, pl, pub, algB, sigType, hashId, l1, l2, hkey, hpub, hc, hl, h12, h10, _, _, _, hver, _, _⟩ :=
    ecdheLog_inv h
  refine ⟨c1, c2, pl, pub, algB, l1, l2, hkey, hpub, hc, hl, ?_, hver⟩
  by_cases hv : vers ≥ 0x0303
  · obtain ⟨a, b, rfl, _, _⟩ := h12 hv
    simp [hv]
  · have := (h10 (by omega)).1
    subst this
    simp [hv]

theorem skx_dhe_log_eq_wire {vers : Nat} {cr sr key : Bytes} {l : DHELog} (h : dheLog vers cr sr key = some l) :
    ∃ p g ys sigBlock a1 a2 b1 b2 c1 c2,
      key = a1 :: a2 :: (p ++ b1 :: b2 :: (g ++ c1 :: c2 :: (ys ++ sigBlock))) ∧
      u16 a1 a2 = p.length ∧ u16 b1 b2 = g.length ∧ u16 c1 c2 = ys.length ∧
      l.p = stripZeros p ∧ l.g = stripZeros g ∧ l.ys = stripZeros ys ∧
      l.sig = (dheSigPart vers cr sr (key.take (key.length - sigBlock.length)) sigBlock).1 := by
  obtain ⟨p, g, ys, sig0, a1, a2, b1, b2, c1, c2, hk, e1, e2, e3, hp, hg, hy, _, _, hs⟩ := dheLog_inv h
  exact ⟨p, g, ys, sig0, a1, a2, b1, b2, c1, c2, hk, e1, e2, e3, hp, hg, hy, (Prod.mk.inj hs).1⟩

/-- DHE, TLS 1.2: the two logged algorithm ids are literally the two wire bytes that follow the parameters, and the
    logged signature (when one is logged) is the complete length-prefixed byte string after them -/
theorem skx_sighash_eq_wire_dhe {vers : Nat} {cr sr key : Bytes} {l : DHELog}
    (h : dheLog vers cr sr key = some l) (hv : vers ≥ 0x0303) :
    ∃ p g ys a1 a2 b1 b2 c1 c2 sigBlock,
      key = a1 :: a2 :: (p ++ b1 :: b2 :: (g ++ c1 :: c2 :: (ys ++ sigBlock))) ∧
      ∀ hb sb rest, sigBlock = hb :: sb :: rest →
        l.sig.hasSigHash = true ∧ l.sig.hash = hb.toNat ∧ l.sig.sig = sb.toNat ∧
        (l.sig.raw = [] ∨ ∃ x y, rest = x :: y :: l.sig.raw ∧ u16 x y = l.sig.raw.length) := by
  obtain ⟨p, g, ys, sig0, a1, a2, b1, b2, c1, c2, hk, _, _, _, _, _, _, _, _, hs⟩ := dheLog_inv h
  refine ⟨p, g, ys, a1, a2, b1, b2, c1, c2, sig0, hk, ?_⟩
  intro hb sb rest hsig
  subst hsig
  have := dheSigPart_tls12 (cr := cr) (sr := sr) (params := key.take (key.length - (hb :: sb :: rest).length))
    (rest := rest) (hb := hb) (sb := sb) hv
  have hl : l.sig = (dheSigPart vers cr sr (key.take (key.length - (hb :: sb :: rest).length)) (hb :: sb :: rest)).1 :=
    (Prod.mk.inj hs).1
  rw [hl]
  exact this

example : dheLog 0x0303 [] [] [0, 1, 7, 0, 1, 2, 0, 1, 3, 4, 1, 0, 1, 9] ≠ none := by decide

theorem sh_log_eq_wire {msg : Bytes} {f : SHFixed} {m : SHMsg} {ids : Option (List Nat)}
    (h : parseSH msg = some (f, m, ids)) :
    ∃ hdr v1 v2 sl c1 c2 cm ext,
      msg = hdr ++ (v1 :: v2 :: ((shLog f m ids).random ++ (sl :: ((shLog f m ids).sessionID ++ (c1 :: c2 :: cm :: ext))))) ∧
      hdr.length = 4 ∧ (shLog f m ids).version = u16 v1 v2 ∧ (shLog f m ids).random.length = 32 ∧
      sl.toNat = (shLog f m ids).sessionID.length ∧ (shLog f m ids).cipherSuite = u16 c1 c2 ∧
      (shLog f m ids).compression = cm.toNat ∧ (ext = [] → (shLog f m ids).extIds = []) := by
  obtain ⟨hdr, v1, v2, sl, c1, c2, cm, ext, h1, h2, h3, h4, h5, h6, h7, h8⟩ := parseSH_fixed h
  refine ⟨hdr, v1, v2, sl, c1, c2, cm, ext, h1, h2, h3, h4, h5, h6, h7, ?_⟩
  intro he
  rw [h8 he]
  rfl

theorem cert_log_eq_wire {msg : Bytes} {cs : List Bytes} (h : parseCerts msg = some cs) :
    Framed24 (msg.drop 7) cs ∧ msg.length ≥ 7 ∧
      (cs ≠ [] → (certLog cs).leaf :: (certLog cs).chain = cs) := by
  unfold parseCerts at h
  by_cases h7 : msg.length < 7
  · rw [if_pos h7] at h; cases h
  rw [if_neg h7] at h
  match h1 : readU24 (msg.drop 4), h with
  | some (n, d), h =>
    simp only at h
    by_cases hn : msg.length ≠ n + 7
    · rw [if_pos hn] at h; cases h
    rw [if_neg hn] at h
    obtain ⟨a, b, c, e, _⟩ := readU24_spec h1
    have hd : d = msg.drop 7 := by
      have : (msg.drop 4).drop 3 = d := by rw [e]; rfl
      rw [← this, List.drop_drop]
    refine ⟨hd ▸ certEntries_framed d cs h, by omega, ?_⟩
    intro hne
    cases cs with
    | nil => exact absurd rfl hne
    | cons x xs => rfl

/-- TLS 1.3 Certificate: the message is  4 header bytes ‖ 00 (empty request context) ‖ len24 ‖ entries,  the entries are
    exactly `len24 ‖ cert_data ‖ len16 ‖ extensions` back to back, and the logged leaf ‖ chain are the `cert_data` fields
    of ALL entries, in wire order (nothing skipped, shifted or duplicated). -/
theorem cert13_log_eq_wire {msg : Bytes} {r : Cert13} (h : parseCerts13 msg = some r) :
    ∃ hdr a b c lst es, msg = hdr ++ (0 :: a :: b :: c :: lst) ∧ hdr.length = 4 ∧
      a.toNat * 65536 + b.toNat * 256 + c.toNat = lst.length ∧ Framed13 lst es ∧
      (es ≠ [] → (cert13Log r).leaf :: (cert13Log r).chain = es.map (·.1)) ∧
      (es = [] → (cert13Log r).leaf = [] ∧ (cert13Log r).chain = []) := by
  obtain ⟨hdr, a, b, c, lst, es, h1, h2, h3, h4, h5⟩ := parseCerts13_spec h
  refine ⟨hdr, a, b, c, lst, es, h1, h2, h3, h4, ?_, ?_⟩
  · intro hne
    unfold cert13Log
    rw [h5]
    cases es with
    | nil => exact absurd rfl hne
    | cons x xs => rfl
  · intro he
    unfold cert13Log
    rw [h5, he]
    exact ⟨rfl, rfl⟩

theorem fin_log_eq_wire {msg v : Bytes} (h : parseFin msg = some v) :
    ∃ t a b c, msg = t :: a :: b :: c :: v ∧ a.toNat * 65536 + b.toNat * 256 + c.toNat = v.length := by
  unfold parseFin at h
  match msg, h with
  | t :: r, h =>
    simp only at h
    match h1 : readVec24 r, h with
    | some (v', []), h =>
      simp only [Option.some.injEq] at h
      subst h
      obtain ⟨a, b, c, rfl, hl⟩ := readVec24_spec h1
      exact ⟨t, a, b, c, by simp, hl⟩

example : parseCerts [11, 0, 0, 7, 0, 0, 4, 0, 0, 1, 9] = some [[9]] := by
  simp [parseCerts, readU24, certEntries]
example : parseFin [20, 0, 0, 2, 1, 2] = some [1, 2] := by decide
-- two entries (leaf `09` with an ignored extension, then `07 08`): leaf and chain come out in wire order
example : parseCerts13 [11, 0, 0, 0, 0, 0, 0, 17, 0, 0, 1, 9, 0, 4, 0x12, 0x34, 0, 0, 0, 0, 2, 7, 8, 0, 0]
    = some ⟨[[9], [7, 8]], false, false⟩ := by
  simp [parseCerts13, readVec8, readU8, readVec24, readU24, takeN, cert13Entries, splitExts, cert13LeafExts, u16]

end ZV.C28
