import ZV.Props.C35
