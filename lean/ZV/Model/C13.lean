import ZV.Base
/-!
  Model of `x509/revocation/ocsp/ocsp.go`: the acceptance DECISION LOGIC of
  `ParseResponseForCert` (and of `ParseResponse` = `ParseResponseForCert bytes nil issuer`),
  branch for branch and in the order of the Go code, over an already-decoded
  response, plus the status / certID part of `CreateResponse`.

  What is abstract (trusted, see tools/props/C13.json):
  * ASN.1 decoding: `outerOk`, `basicOk`, `responderOk`, the decoded single
    responses and the result of `x509.ParseCertificate` on the first embedded
    certificate arrive as fields of `Input`;
  * the signature primitive: `verify key alg signed signature` is a parameter
    (`x509.CheckSignatureFromKey`), over arbitrary key / byte-string types `K`, `B`.
-/
namespace ZV.C13

/-- `time.Time{}` (year 1) as Unix seconds: what `RevokedAt` holds when no RevokedInfo was decoded. -/
def zeroTime : Int := -62135596800

/-- one decoded `singleResponse` (the fields the Go code looks at). -/
structure Single where
  serial     : Int
  good       : Bool   -- `Good asn1.Flag` ([0] present)
  unknown    : Bool   -- `Unknown asn1.Flag` ([2] present)
  thisUpdate : Int
  nextUpdate : Int
  revokedAt  : Int    -- `Revoked.RevocationTime` (`zeroTime` when [1] absent)
  reason     : Int    -- `Revoked.Reason`
  hash       : Nat    -- crypto.Hash matching `CertID.HashAlgorithm.Algorithm` in `hashOIDs`; 0 = none
  critical   : Bool   -- some SingleExtension has `Critical`
  deriving Repr, DecidableEq

/-- an embedded certificate after `x509.ParseCertificate`: public key, signature algorithm,
    RawTBSCertificate, Signature. -/
structure ECert (K B : Type) where
  key : K
  alg : Nat
  tbs : B
  sig : B
  deriving Repr, DecidableEq

structure Input (K B : Type) where
  outerOk      : Bool          -- asn1.Unmarshal(bytes,&resp) succeeded and left no trailing data
  status       : Nat           -- OCSPResponseStatus
  typeOk       : Bool          -- ResponseType.Equal(idPKIXOCSPBasic)
  basicOk      : Bool          -- asn1.Unmarshal(resp.Response.Response,&basicResp) ok, no trailing data
  tbs          : B             -- TBSResponseData.Raw
  sig          : B             -- Signature.RightAlign()
  alg          : Nat           -- getSignatureAlgorithmFromOID(SignatureAlgorithm.Algorithm)
  responderTag : Nat           -- RawResponderID.Tag
  responderOk  : Bool          -- the inner Unmarshal of the responder id (name or key hash) succeeded, no rest
  singles      : List Single   -- TBSResponseData.Responses
  certs        : List (Option (ECert K B))  -- basicResp.Certificates, each with its would-be parse result
  deriving Repr

inductive CertStatus where
  | good
  | revoked (revokedAt reason : Int)
  | unknown
  deriving Repr, DecidableEq

/-- the part of `*Response` the property talks about. -/
structure Out (K B : Type) where
  idx         : Nat            -- position of the selected single response in `Responses`
  single      : Single
  status      : CertStatus
  byName      : Bool           -- RawResponderName set (else ResponderKeyHash)
  certificate : Option (ECert K B)
  deriving Repr

section
variable {K B : Type}

/-- the `for _, resp := range Responses { if cert.SerialNumber.Cmp(resp.CertID.SerialNumber) == 0 … break }` loop -/
def findSerial (s : Int) : List Single → Nat → Option (Nat × Single)
  | [], _ => none
  | x :: xs, i => if s = x.serial then some (i, x) else findSerial s xs (i + 1)

/-- selection of the single response; `Responses[0]` on an empty slice would be a Go panic. -/
def selectSingle (cert : Option Int) (l : List Single) : Res (Nat × Single) :=
  match cert with
  | none =>
    match l with
    | [] => .panic
    | x :: _ => .ok (0, x)
  | some s =>
    match findSerial s l 0 with
    | some r => .ok r
    | none => .err

/-- the `switch rawResponderID.Tag`: `some true` = by name, `some false` = by key hash. -/
def responder (tag : Nat) (ok : Bool) : Option Bool :=
  if tag = 1 then (if ok then some true else none)
  else if tag = 2 then (if ok then some false else none)
  else none

/-- the `if len(basicResp.Certificates) > 0 { … } else if issuer != nil { … }` block.
    `none` = error; `some c` = passed, `ret.Certificate = c`. -/
def checkSigs (verify : K → Nat → B → B → Bool) (inp : Input K B) (issuer : Option K) :
    Option (Option (ECert K B)) :=
  match inp.certs with
  | c :: _ =>
    match c with
    | none => none                                        -- x509.ParseCertificate failed
    | some e =>
      if verify e.key inp.alg inp.tbs inp.sig = false then none   -- ret.CheckSignatureFrom(ret.Certificate)
      else
        match issuer with
        | some ik => if verify ik e.alg e.tbs e.sig = false then none else some (some e)
        | none => some (some e)
  | [] =>
    match issuer with
    | some ik => if verify ik inp.alg inp.tbs inp.sig = false then none else some none
    | none => some none

/-- the final `switch { case Good … case Unknown … default … }` -/
def statusOf (s : Single) : CertStatus :=
  if s.good then .good
  else if s.unknown then .unknown
  else .revoked s.revokedAt s.reason

/-- `ParseResponseForCert(bytes, cert, issuer)` on the decoded input; `cert` = the serial of the
    certificate asked for (`none` = nil), `issuer` = the issuer's public key (`none` = nil). -/
def parse (verify : K → Nat → B → B → Bool) (inp : Input K B) (cert : Option Int) (issuer : Option K) :
    Res (Out K B) :=
  if inp.outerOk = false then .err
  else if inp.status ≠ 0 then .err
  else if inp.typeOk = false then .err
  else if inp.basicOk = false then .err
  else if inp.singles.length = 0 ∨ (cert = none ∧ inp.singles.length > 1) then .err
  else
    match selectSingle cert inp.singles with
    | .err => .err
    | .panic => .panic
    | .ok (idx, sr) =>
      match responder inp.responderTag inp.responderOk with
      | none => .err
      | some byName =>
        match checkSigs verify inp issuer with
        | none => .err
        | some c =>
          if sr.critical then .err
          else if sr.hash = 0 then .err
          else .ok { idx := idx, single := sr, status := statusOf sr, byName := byName, certificate := c }

/-! ### `CreateResponse`: what it puts into the single response, and who signs -/

/-- `hashOIDs` key set (crypto.SHA1, SHA256, SHA384, SHA512). -/
def hashSupported (h : Nat) : Bool := h = 3 ∨ h = 5 ∨ h = 6 ∨ h = 7

structure Template where
  status     : Int    -- template.Status
  serial     : Int
  thisUpdate : Int
  nextUpdate : Int
  revokedAt  : Int
  reason     : Int
  hash       : Nat    -- template.IssuerHash (0 ⇒ SHA1)
  critical   : Bool   -- some ExtraExtension is critical
  deriving Repr, DecidableEq

/-- the `innerResponse` built by `CreateResponse` (`switch template.Status`: only Good/Revoked/Unknown
    set anything — any other status leaves all three CHOICE arms empty). -/
def createSingle (t : Template) : Res Single :=
  let h := if t.hash = 0 then 3 else t.hash
  if hashSupported h = false then .err
  else .ok {
    serial := t.serial
    good := t.status = 0
    unknown := t.status = 2
    thisUpdate := t.thisUpdate
    nextUpdate := t.nextUpdate
    revokedAt := if t.status = 1 then t.revokedAt else zeroTime
    reason := if t.status = 1 then t.reason else 0
    hash := h
    critical := t.critical }

/-- `CreateResponse` at the level of the decoded structure: one single response, responder by name,
    `encode` = DER of the TBSResponseData, signature by `sign signer`, the template's certificate embedded
    when present; `algOk` = `signingParamsForPublicKey` accepted the key / requested algorithm. -/
def create (encode : List Single → B) (sign : K → B → B) (algOk : Bool) (alg : Nat)
    (t : Template) (signer : K) (embed : Option (ECert K B)) : Res (Input K B) :=
  match createSingle t with
  | .err => .err
  | .panic => .panic
  | .ok s =>
    if algOk = false then .err
    else .ok {
      outerOk := true, status := 0, typeOk := true, basicOk := true
      tbs := encode [s], sig := sign signer (encode [s]), alg := alg
      responderTag := 1, responderOk := true
      singles := [s]
      certs := match embed with | none => [] | some e => [some e] }

end

/-! ### `signingParamsForPublicKey`: which digest is signed, which algorithm identifier is written

  `x509.SignatureAlgorithm` numbers: 1 MD2-RSA, 2 MD5-RSA, 3 SHA1-RSA, 4 SHA256-RSA, 5 SHA384-RSA, 6 SHA512-RSA,
  7 DSA-SHA1, 8 DSA-SHA256, 9 ECDSA-SHA1, 10 ECDSA-SHA256, 11 ECDSA-SHA384, 12 ECDSA-SHA512, 13..15 RSA-PSS,
  16 Ed25519.  `crypto.Hash` numbers: 2 MD5, 3 SHA-1, 5 SHA-256, 6 SHA-384, 7 SHA-512.
  `x509.PublicKeyAlgorithm`: 1 RSA, 2 DSA, 3 ECDSA.
  The OID column of `signatureAlgorithmDetails` is represented by the row's `algo`: `getSignatureAlgorithmFromOID`
  maps a row's OID back to its `algo`, and that is what a parsed `Response.SignatureAlgorithm` shows. -/

/-- the arms of the type switch on the signer's public key and of the curve switch. -/
inductive KeyKind where
  | rsa | p224 | p256 | p384 | p521 | otherCurve | otherKey
  deriving Repr, DecidableEq

structure SigRow where
  algo : Nat   -- x509.SignatureAlgorithm (stands for the row's OID as well)
  pka  : Nat   -- x509.PublicKeyAlgorithm
  hash : Nat   -- crypto.Hash; 0 = "no value" (MD2)
  deriving Repr, DecidableEq

/-- `signatureAlgorithmDetails` of ocsp.go, row for row. -/
def sigDetails : List SigRow :=
  [⟨1, 1, 0⟩, ⟨2, 1, 2⟩, ⟨3, 1, 3⟩, ⟨4, 1, 5⟩, ⟨5, 1, 6⟩, ⟨6, 1, 7⟩,
   ⟨7, 2, 3⟩, ⟨8, 2, 5⟩,
   ⟨9, 3, 3⟩, ⟨10, 3, 5⟩, ⟨11, 3, 6⟩, ⟨12, 3, 7⟩]

/-- the defaults of the type / curve switch: (public-key algorithm, digest, algorithm written). -/
def defaultParams : KeyKind → Option (Nat × Nat × Nat)
  | .rsa => some (1, 5, 4)
  | .p224 => some (3, 5, 10)
  | .p256 => some (3, 5, 10)
  | .p384 => some (3, 6, 11)
  | .p521 => some (3, 7, 12)
  | .otherCurve => none     -- "x509: unknown elliptic curve"
  | .otherKey => none       -- "x509: only RSA and ECDSA keys supported"

/-- `for _, details := range signatureAlgorithmDetails { if details.algo == requestedSigAlgo {…; break} }` -/
def findRow (req : Nat) : List SigRow → Option SigRow
  | [] => none
  | r :: rs => if r.algo = req then some r else findRow req rs

/-- `signingParamsForPublicKey(pub, requestedSigAlgo)`: `ok (digest to sign, algorithm written)` or an error. -/
def signingParams (k : KeyKind) (req : Nat) : Res (Nat × Nat) :=
  match defaultParams k with
  | none => .err
  | some (pka, h, a) =>
    if req = 0 then .ok (h, a)
    else
      match findRow req sigDetails with
      | none => .err                                   -- "unknown SignatureAlgorithm"
      | some r =>
        if r.pka ≠ pka then .err                       -- "does not match private key type"
        else if r.hash = 0 then .err                   -- "cannot sign with hash function requested"
        else .ok (r.hash, r.algo)

/-- the `switch algo` at the head of `x509.CheckSignatureFromKey`: the digest the VERIFIER computes
    (`some 0` = Ed25519, no pre-hash; `none` = insecure / unsupported). -/
def verifyHash (algo : Nat) : Option Nat :=
  if algo = 2 then some 2
  else if algo = 3 ∨ algo = 7 ∨ algo = 9 then some 3
  else if algo = 4 ∨ algo = 13 ∨ algo = 8 ∨ algo = 10 then some 5
  else if algo = 5 ∨ algo = 14 ∨ algo = 11 then some 6
  else if algo = 6 ∨ algo = 15 ∨ algo = 12 then some 7
  else if algo = 16 then some 0
  else none

end ZV.C13
