import ZV.Base
/-!
  Models for C01 (parsers of untrusted bytes never panic, hang or over-allocate).

  Every Go slice index / slice expression is written with `idx` / `slice`, which return
  `Res.panic` when out of range — exactly Go's run-time check. "No panic" is therefore a
  theorem about the guards in front of them, not an artefact of the encoding.

  Modelled cores (one Lean function per Go function, same order of checks):
  * encoding/asn1:  parseBase128Int, parseTagAndLength (strict / permissive), invalidLength,
                    the element loop of parseSequenceOf and the `[]RawValue` path of parseField
  * cryptobyte:     String.read, readUnsigned, readLengthPrefixed, readASN1 (uint32 overflow guard)
  * x509/revocation/microsoft: parse (SST entry loop + per-certificate loop), with an allocation counter
  * x509/revocation/google:    getHeader + Parse entry loop, with an allocation counter
  * x509/revocation/mozilla:   Entry.UnmarshalJSON over an abstract decoded record, Parse loop
  * x509: parsePublicKey (Ed25519 / X25519 arm) and the Ed25519 arm of CheckSignatureFromKey with the
          precondition of ed25519.Verify explicit
  * rsa:  checkPub, encrypt (preconditions of math/big explicit), VerifyPKCS1v15 / VerifyPSS /
          EncryptPKCS1v15 skeletons
-/
namespace ZV.C01

/-- Go `bytes[i]`: run-time panic when out of range. -/
def idx (bs : Bytes) (i : Nat) : Res UInt8 :=
  match bs[i]? with
  | some b => .ok b
  | none => .panic

/-- Go `bytes[lo:hi]` (for `hi ≤ len`, `lo ≤ hi`), panic otherwise. -/
def slice (bs : Bytes) (lo hi : Nat) : Res Bytes :=
  if lo ≤ hi ∧ hi ≤ bs.length then .ok ((bs.drop lo).take (hi - lo)) else .panic

/-! ## encoding/asn1 -/

/-- `parseBase128Int` loop; `shifted` counts iterations, `acc` is `ret64`. -/
def b128Loop (bs : Bytes) (shifted acc off : Nat) : Res (Nat × Nat) :=
  if h : off < bs.length then
    if shifted = 5 then .err
    else
      match idx bs off with
      | .ok b =>
        if shifted = 0 ∧ b = 0x80 then .err
        else
          let acc' := acc * 128 + (b &&& 0x7f).toNat
          if b &&& 0x80 = 0 then
            (if acc' > 2147483647 then .err else .ok (acc', off + 1))
          else b128Loop bs (shifted + 1) acc' (off + 1)
      | .err => .err
      | .panic => .panic
  else .err
termination_by bs.length - off

def parseBase128Int (bs : Bytes) (off : Nat) : Res (Nat × Nat) := b128Loop bs 0 0 off

structure TL where
  cls : Nat
  tag : Nat
  len : Nat
  compound : Bool
  deriving Repr, DecidableEq

/-- the long-form length loop `for i := 0; i < numBytes; i++` -/
def lenLoop (bs : Bytes) : (numBytes : Nat) → (len off : Nat) → Res (Nat × Nat)
  | 0, len, off => .ok (len, off)
  | n + 1, len, off =>
    if off ≥ bs.length then .err
    else
      match idx bs off with
      | .ok b =>
        if len ≥ 8388608 then .err
        else
          let len' := len * 256 + b.toNat
          if len' = 0 then .err else lenLoop bs n len' (off + 1)
      | .err => .err
      | .panic => .panic

/-- second half of `parseTagAndLength`: the length octets. -/
def parseLength (perm : Bool) (bs : Bytes) (cls tag : Nat) (comp : Bool) (off : Nat) : Res (TL × Nat) :=
  if off ≥ bs.length then .err
  else
    match idx bs off with
    | .ok b =>
      if b &&& 0x80 = 0 then .ok (⟨cls, tag, (b &&& 0x7f).toNat, comp⟩, off + 1)
      else
        let numBytes := (b &&& 0x7f).toNat
        if numBytes = 0 then .err
        else
          match lenLoop bs numBytes 0 (off + 1) with
          | .ok (len, off') =>
            if !perm ∧ len < 0x80 then .err else .ok (⟨cls, tag, len, comp⟩, off')
          | .err => .err
          | .panic => .panic
    | .err => .err
    | .panic => .panic

/-- `parseTagAndLength(bytes, initOffset)`; `perm` = `AllowPermissiveParsing`. -/
def parseTagAndLength (perm : Bool) (bs : Bytes) (init : Nat) : Res (TL × Nat) :=
  if init ≥ bs.length then .err
  else
    match idx bs init with
    | .ok b =>
      let cls := (b >>> 6).toNat
      let comp := b &&& 0x20 = 0x20
      let tag := (b &&& 0x1f).toNat
      if tag = 0x1f then
        match parseBase128Int bs (init + 1) with
        | .ok (t, off) => if t < 0x1f then .err else parseLength perm bs cls t comp off
        | .err => .err
        | .panic => .panic
      else parseLength perm bs cls tag comp (init + 1)
    | .err => .err
    | .panic => .panic

/-- Go `int` arithmetic is 64-bit two's complement. -/
def wrap64 (x : Int) : Int := (x + 9223372036854775808) % 18446744073709551616 - 9223372036854775808

/-- `invalidLength(offset, length, sliceLength)`: `offset+length < offset || offset+length > sliceLength`
    on Go's wrapping 64-bit `int` (used by the `il` correspondence stream, arbitrary int64 arguments). -/
def invalidLengthInt (offset length sliceLength : Int) : Bool :=
  wrap64 (offset + length) < offset || wrap64 (offset + length) > sliceLength

/-- the same for the arguments the parsers pass (non-negative, below 2^63): the sum wraps to a negative
    number exactly when it reaches 2^63 (`invalidLength_eq_int` in Proofs/C01). -/
def invalidLength (offset length sliceLength : Nat) : Bool :=
  offset + length ≥ 9223372036854775808 || offset + length > sliceLength

/-- first loop of `parseSequenceOf` for an element type that matches any tag (`RawValue`):
    count the elements, checking each header and length. The recursion is justified by the fact
    that `parseTagAndLength` returns an offset strictly beyond the one it was given. -/
def countElems (perm : Bool) (bs : Bytes) (off n : Nat) : Res Nat :=
  if h : off < bs.length then
    match hp : parseTagAndLength perm bs off with
    | .ok (t, o) =>
      if invalidLength o t.len bs.length then .err
      else if hlt : off < o + t.len then countElems perm bs (o + t.len) (n + 1)
      else .panic -- unreachable: the header reader always advances (theorem `countElems_no_panic`)
    | .err => .err
    | .panic => .panic
  else .ok n
termination_by bs.length - off
decreasing_by omega

/-- `Unmarshal(b, &[]RawValue{})`: parseField on a slice type, then parseSequenceOf.
    Result: (number of elements, length of `rest`). -/
def unmarshalRawSeq (perm : Bool) (bs : Bytes) : Res (Nat × Nat) :=
  if bs.length = 0 then .err
  else
    match parseTagAndLength perm bs 0 with
    | .ok (t, off) =>
      if t.cls ≠ 0 ∨ t.tag ≠ 16 ∨ !t.compound then .err
      else if invalidLength off t.len bs.length then .err
      else
        match slice bs off (off + t.len) with
        | .ok inner =>
          match countElems perm inner 0 0 with
          | .ok n => .ok (n, bs.length - (off + t.len))
          | .err => .err
          | .panic => .panic
        | .err => .err
        | .panic => .panic
    | .err => .err
    | .panic => .panic

/-! ## cryptobyte -/

/-- `(*String).read(n)`: `none` = Go's nil result. Returns (value, remaining string). -/
def cbRead (s : Bytes) (n : Int) : Option (Bytes × Bytes) :=
  if (s.length : Int) < n ∨ n < 0 then none else some (s.take n.toNat, s.drop n.toNat)

/-- big-endian fold of `readUnsigned` / `readLengthPrefixed` (uint32 arithmetic) -/
def beU32 (bs : Bytes) : Nat := bs.foldl (fun acc b => (acc * 256 + b.toNat) % 4294967296) 0

/-- `readLengthPrefixed(lenLen, out)`: (child, rest) -/
def cbReadLengthPrefixed (s : Bytes) (lenLen : Nat) : Option (Bytes × Bytes) :=
  match cbRead s lenLen with
  | none => none
  | some (lenBytes, s1) => cbRead s1 (beU32 lenBytes)

/-- the length octets of `readASN1`: (length including the header, headerLen) as uint32 values. -/
def cbHeader (s : Bytes) (lenByte : UInt8) : Res (Nat × Nat) :=
  if lenByte &&& 0x80 = 0 then .ok (lenByte.toNat + 2, 2)
  else
    let lenLen := (lenByte &&& 0x7f).toNat
    if lenLen = 0 ∨ lenLen > 4 ∨ s.length < 2 + lenLen then .err
    else
      match slice s 2 (2 + lenLen) with
      | .ok lenBytes =>
        match cbRead lenBytes lenLen with
        | none => .err
        | some (v, _) =>
          let len32 := beU32 v
          if len32 < 128 then .err
          else if len32 >>> ((lenLen - 1) * 8) = 0 then .err
          else
            let headerLen := 2 + lenLen
            if (headerLen + len32) % 4294967296 < len32 then .err   -- uint32 overflow guard
            else .ok (headerLen + len32, headerLen)
      | .err => .err
      | .panic => .panic

/-- `(*String).readASN1(out, outTag, skipHeader)`: (tag, out, rest). -/
def cbReadASN1 (s : Bytes) (skipHeader : Bool) : Res (UInt8 × Bytes × Bytes) :=
  if s.length < 2 then .err
  else
    match idx s 0, idx s 1 with
    | .ok tag, .ok lenByte =>
      if tag &&& 0x1f = 0x1f then .err
      else
        match cbHeader s lenByte with
        | .ok (length, headerLen) =>
          -- `int(length) < 0` cannot hold on 64-bit; ReadBytes = read
          match cbRead s length with
          | none => .err
          | some (out, rest) =>
            if skipHeader then
              match cbRead out headerLen with
              | none => .panic             -- panic("cryptobyte: internal error")
              | some (_, body) => .ok (tag, body, rest)
            else .ok (tag, out, rest)
        | .err => .err
        | .panic => .panic
    | .panic, _ => .panic
    | _, .panic => .panic
    | _, _ => .err

/-! ## Microsoft SST (`x509/revocation/microsoft.parse`) — behaviour after the D4 fix -/

def le32 (b0 b1 b2 b3 : UInt8) : Nat :=
  b0.toNat + 256 * b1.toNat + 65536 * b2.toNat + 16777216 * b3.toNat

/-- `binary.Read(reader, LittleEndian, &u32)` with the error ignored: a short read leaves the
    variable 0 and drains the reader. -/
def rdU32 : Bytes → Nat × Bytes
  | b0 :: b1 :: b2 :: b3 :: rest => (le32 b0 b1 b2 b3, rest)
  | _ => (0, [])

structure SstOut where
  certs : List Bytes      -- certificate blobs in order
  alloc : Nat             -- bytes requested by make([]byte, len) and by binary.Read's buffer
  deriving Repr

theorem rdU32_snd_len (rd : Bytes) : (rdU32 rd).2.length ≤ rd.length := by
  unfold rdU32; split <;> simp; omega

theorem rdU32_fst_ne_zero (rd : Bytes) (h : (rdU32 rd).1 ≠ 0) : (rdU32 rd).2.length + 4 = rd.length := by
  unfold rdU32 at *; split at h <;> simp_all

/-- the entry loop `for { … }`. It terminates because an iteration that continues has read a
    non-zero id, i.e. has consumed at least 4 bytes of the reader (`rdU32_fst_ne_zero`). -/
def sstLoop (rd : Bytes) (acc : SstOut) : Res SstOut :=
  if h0 : (rdU32 rd).1 = 0 then .ok acc      -- EndElementMarkerEntry (or nothing left to read)
  else
    let r2 := rdU32 (rdU32 rd).2               -- format
    let r3 := rdU32 r2.2                       -- len
    if (rdU32 rd).1 = 32 then
      if r2.1 ≠ 1 then .err
      else if r3.1 > r3.2.length then .err     -- fix D4: declared length beyond the input
      else sstLoop (r3.2.drop r3.1) { certs := acc.certs ++ [r3.2.take r3.1], alloc := acc.alloc + 2 * r3.1 }
    else sstLoop (r3.2.drop r3.1) acc          -- io.CopyN(Discard, r, len): skips what is there
termination_by rd.length
decreasing_by
  all_goals
    have h1 := rdU32_fst_ne_zero rd h0
    have h2 := rdU32_snd_len (rdU32 rd).2
    have h3 := rdU32_snd_len (rdU32 (rdU32 rd).2).2
    simp only [List.length_drop]
    omega

/-- per-certificate loop after the fix: the first blob that `ParseCertificate` rejects is an error;
    `certOK` abstracts the certificate parser. Before the fix a rejected blob was a nil dereference. -/
def sstPost (certOK : Bytes → Bool) : List Bytes → Nat → Res Nat
  | [], n => .ok n
  | c :: cs, n => if certOK c then sstPost certOK cs (n + 1) else .err

def sstParse (certOK : Bytes → Bool) (bs : Bytes) : Res (Nat × Nat) :=
  let (version, r1) := rdU32 bs
  let (magic, r2) := (r1.take 4, r1.drop 4)
  if magic ≠ [0x43, 0x45, 0x52, 0x54] ∨ version ≠ 0 then .err
  else
    match sstLoop r2 { certs := [], alloc := 0 } with
    | .ok o =>
      match sstPost certOK o.certs 0 with
      | .ok n => .ok (n, o.alloc)
      | .err => .err
      | .panic => .panic
    | .err => .err
    | .panic => .panic

/-! ## Google CRLSet (`x509/revocation/google.Parse`) -/

structure CrlOut where
  lists : List (Bytes × Nat)   -- IssuerLists: key (32-byte hash) ↦ number of entries (map: last write wins)
  alloc : Nat
  deriving Repr

def mapPut (m : List (Bytes × Nat)) (k : Bytes) (v : Nat) : List (Bytes × Nat) :=
  (k, v) :: m.filter (fun e => e.1 != k)

/-- serial loop `for i := 0; i < NumSerials; i++`: returns (entries read, rest, alloc). -/
def serialLoop : (numSerials : Nat) → (rest : Bytes) → (n alloc : Nat) → Res (Nat × Bytes × Nat)
  | 0, rest, n, a => .ok (n, rest, a)
  | k + 1, rest, n, a =>
    match rest with
    | [] => .err                                  -- "truncated at serial length"
    | l :: rest1 =>
      if rest1.length < l.toNat then .err         -- "truncated at serial"
      else serialLoop k (rest1.drop l.toNat) (n + 1) (a + 64 + 2 * l.toNat)

theorem serialLoop_len : ∀ (k : Nat) (rest : Bytes) (n a : Nat) (n' : Nat) (r' : Bytes) (a' : Nat),
    serialLoop k rest n a = .ok (n', r', a') → r'.length ≤ rest.length := by
  intro k
  induction k with
  | zero => intro rest n a n' r' a' h; simp [serialLoop] at h; rw [h.2.1]; exact Nat.le_refl _
  | succ k ih =>
    intro rest n a n' r' a' h
    cases rest with
    | nil => simp [serialLoop] at h
    | cons l rest1 =>
      simp only [serialLoop] at h
      split at h
      · simp at h
      · have := ih _ _ _ _ _ _ h
        simp only [List.length_drop, List.length_cons] at *
        omega

/-- outer loop `for rest.Len() > 0`: every iteration consumes the 32-byte hash and the 4-byte count
    (and the serial loop never gives bytes back, `serialLoop_len`), so it terminates. -/
def crlLoop (rest : Bytes) (acc : CrlOut) : Res CrlOut :=
  if hz : rest.length = 0 then .ok acc
  else if h32 : rest.length < 32 then .err       -- binary.Read(SPKIHash) fails
  else
    let hash := rest.take 32
    match hr : rest.drop 32 with
    | b0 :: b1 :: b2 :: b3 :: r2 =>
      match hs : serialLoop (le32 b0 b1 b2 b3) r2 0 0 with
      | .ok (n, r3, a) => crlLoop r3 { lists := mapPut acc.lists hash n, alloc := acc.alloc + 128 + a }
      | .err => .err
      | .panic => .panic
    | _ => .err                                  -- binary.Read(NumSerials) fails
termination_by rest.length
decreasing_by
  have h1 := serialLoop_len _ _ _ _ _ _ _ hs
  have h2 : (rest.drop 32).length = r2.length + 4 := by rw [hr]; simp
  simp only [List.length_drop] at h2
  omega

/-- `getHeader` + `Parse`; `headerOK` = the JSON header decodes (encoding/json is trusted). -/
def crlsetParse (headerOK : Bool) (bs : Bytes) : Res (Nat × Nat × Nat) :=
  if bs.length < 2 then .err
  else
    match idx bs 0, idx bs 1 with
    | .ok l0, .ok l1 =>
      let headerLen := l0.toNat + 256 * l1.toNat
      match slice bs 2 bs.length with
      | .ok c =>
        if c.length < headerLen then .err
        else
          match slice c 0 headerLen, slice c headerLen c.length with
          | .ok _, .ok rest =>
            if !headerOK then .err
            else
              match crlLoop rest { lists := [], alloc := 0 } with
              | .ok o => .ok (o.lists.length, (o.lists.map (·.2)).foldl (· + ·) 0, o.alloc)
              | .err => .err
              | .panic => .panic
          | .panic, _ => .panic
          | _, .panic => .panic
          | _, _ => .err
      | .err => .err
      | .panic => .panic
    | .panic, _ => .panic
    | _, .panic => .panic
    | _, _ => .err

/-! ## Mozilla OneCRL (`Entry.UnmarshalJSON`, `Parse`) over an abstract decoded record -/

/-- what a string field of the JSON record can be, as far as the code distinguishes -/
inductive Fld where
  | absent      -- missing or ""
  | badB64      -- not base64
  | notName     -- base64, but not a DER RDNSequence
  | good        -- base64 of a DER RDNSequence (for names) / any base64 (for hashes, serials)
  deriving Repr, DecidableEq

inductive Rec where
  | null
  | obj (subject pubKeyHash issuer serial : Fld)
  deriving Repr, DecidableEq

inductive Entry where
  | blocked               -- SubjectAndPublicKey ≠ nil
  | serial (issuerSet : Bool)   -- Issuer / SerialNumber
  deriving Repr, DecidableEq

/-- `decodePkixName`: base64 then asn1.Unmarshal into an RDNSequence -/
def decodeName : Fld → Bool
  | .good => true
  | _ => false

/-- `Entry.UnmarshalJSON` (after the D5 fix: a JSON null record is an error). -/
def entryUnmarshal : Rec → Res Entry
  | .null => .err
  | .obj subject pkh issuer _serial =>
    if subject ≠ .absent ∧ pkh ≠ .absent then
      if !decodeName subject then .err
      else if pkh = .badB64 then .err
      else .ok .blocked
    else
      -- serial: base64 errors ignored; issuer must decode (the empty string does not)
      if !decodeName issuer then .err else .ok (.serial true)

/-- the loop of `mozilla.Parse`: `entry.Issuer.String()` dereferences the issuer of every
    non-blocked entry. -/
def onecrlLoop : List Entry → Nat → Res Nat
  | [], n => .ok n
  | .blocked :: es, n => onecrlLoop es (n + 1)
  | .serial true :: es, n => onecrlLoop es (n + 1)
  | .serial false :: _, _ => .panic

def onecrlParse (recs : List Rec) : Res Nat :=
  match recs.mapM (fun r => match entryUnmarshal r with | .ok e => some e | _ => none) with
  | none => .err
  | some es => onecrlLoop es 0

/-! ## Ed25519 / X25519 keys: `parsePublicKey` and the Ed25519 arm of `CheckSignatureFromKey` -/

inductive PubKey where
  | ed (len : Nat)      -- ed25519.PublicKey of that length
  | x25519 (len : Nat)  -- X25519PublicKey
  deriving Repr, DecidableEq

/-- `parsePublicKey`, arms `Ed25519` (after the D3 fix) and `X25519`; `isEd` selects the arm. -/
def parseEdKey (isEd : Bool) (keyLen : Nat) : Res PubKey :=
  if isEd then
    if keyLen > 32 then .err
    else if keyLen ≠ 32 then .err      -- fix D3
    else .ok (.ed keyLen)
  else
    if keyLen > 32 then .err else .ok (.x25519 keyLen)

/-- `ed25519.Verify(pub, msg, sig)`: panics unless `len(pub) = 32`; any signature length is fine. -/
def ed25519Verify (pubLen : Nat) (_sigLen : Nat) : Res Bool :=
  if pubLen ≠ 32 then .panic else .ok false

/-- `CheckSignatureFromKey(pub, Ed25519Sig, …)` for these key types: returns (some error or nil). -/
def checkSigEd : PubKey → Nat → Res Unit
  | .ed l, sigLen =>
    match ed25519Verify l sigLen with
    | .ok _ => .ok ()
    | .err => .err
    | .panic => .panic
  | .x25519 _, _ => .ok ()          -- not in the type switch: ErrUnsupportedAlgorithm

/-- what the harness observes: parse error / the check returned / panic -/
def edKeyFlow (isEd : Bool) (keyLen sigLen : Nat) : Res Unit :=
  match parseEdKey isEd keyLen with
  | .ok k => checkSigEd k sigLen
  | .err => .err
  | .panic => .panic

/-! ## RSA public operations -/

structure RsaPub where
  n : Option Int      -- none = nil *big.Int
  e : Option Int
  deriving Repr, DecidableEq

/-- `checkPub` (after the D8 fix): missing / non-positive modulus, missing exponent or exponent < 2. -/
def checkPub (p : RsaPub) : Bool :=
  match p.n, p.e with
  | some n, some e => n > 0 ∧ e ≥ 2
  | _, _ => false

/-- `encrypt(pub, plaintext)` with the preconditions of math/big explicit:
    `m.Cmp(nil)`, `Exp(_, nil, _)` and `N.BitLen()` on nil dereference nil;
    `Exp(m, e, n)` with `e < 0` returns nil when `gcd(m, n) ≠ 1`, and `c.Bytes()` then dereferences nil. -/
def encrypt (p : RsaPub) (m : Nat) : Res Unit :=
  match p.n with
  | none => .panic
  | some n =>
    if (m : Int) ≥ n then .err
    else
      match p.e with
      | none => .panic
      | some e =>
        if e < 0 ∧ Nat.gcd m n.toNat ≠ 1 then .panic
        else .ok ()

/-- `pub.Size()` -/
def size (p : RsaPub) : Res Nat :=
  match p.n with
  | none => .panic
  | some n => .ok ((Nat.log2 n.natAbs + (if n = 0 then 0 else 1) + 7) / 8)

/-- `VerifyPKCS1v15` / `VerifyPSS` skeleton (after the D8 fix): checkPub, size check, encrypt.
    `.ok ()` = the function returned (with nil or an error). -/
def verify (p : RsaPub) (sigLen : Nat) (sig : Nat) : Res Unit :=
  if !checkPub p then .ok ()
  else
    match size p with
    | .ok k =>
      if k ≠ sigLen then .ok ()
      else
        match encrypt p sig with
        | .panic => .panic
        | _ => .ok ()
    | .err => .ok ()
    | .panic => .panic

/-- the same without the guard (the code before the fix). -/
def verifyUnguarded (p : RsaPub) (sigLen : Nat) (sig : Nat) : Res Unit :=
  match size p with
  | .ok k =>
    if k ≠ sigLen then .ok ()
    else
      match encrypt p sig with
      | .panic => .panic
      | _ => .ok ()
  | .err => .ok ()
  | .panic => .panic

/-- `EncryptPKCS1v15(rand, pub, msg)`: true = ciphertext returned, false = error.
    The padded message `00 02 PS 00 msg` is < N whenever checkPub holds. -/
def encryptPKCS1v15 (p : RsaPub) (msgLen : Nat) : Res Bool :=
  if !checkPub p then .ok false
  else
    match size p with
    | .ok k => if msgLen + 11 > k then .ok false else .ok true
    | .err => .ok false
    | .panic => .panic

end ZV.C01
