import ZV.Model.Der0
/-!
  ZV.Model.Time — shared executable model of ASN.1 time values (core Lean only).

  What is modelled, and of which code:

  * `Civil`, `isLeap`, `daysIn`, `daysFromCivil`, `civilFromDays`, `toUnix`, `civil` — the proleptic Gregorian
    calendar and its conversion to/from Unix seconds ("days from civil" algorithm).  This stands for Go's
    `time.Date` (for already normalised month / clock fields; the day is linear, as in `time.Date`) and for
    `Time.Date()/Clock()/Year()` of a `time.Time` with a fixed zone offset.  A Go `time.Time` is modelled to the
    second by `GoTime = (unix seconds, zone offset in seconds, nanoseconds)`; Go itself normalises every
    constructed time through that representation.
  * `step` / `parseLoop` / `parse` — `time.Parse` (go1.23 `time/format.go: parse`) for exactly the layouts
    `"0601021504Z0700"`, `"060102150405Z0700"` and `"20060102150405Z0700"`, written as the lists of std chunks
    that `nextStdChunk` cuts them into (`stdYear, stdLongYear, stdZeroMonth, stdZeroDay, stdHour, stdZeroMinute,
    stdZeroSecond, stdISO8601TZ`; the prefix between two chunks is empty in all three).  Helpers `atoi`,
    `leadingInt`, `getnum`, `parseNanoseconds` mirror the functions of the same name, including the optional
    sign accepted by `atoi` in a two-digit year, the one-digit hour accepted by `getnum(…, false)`, the
    "fractional second in the input but not in the layout" special case, and the `> 24` / `> 60` zone range tests.
  * `format` — `Time.Format` (`appendFormat`, `appendInt`) for the same chunks.
  * `EA.*` — `encoding/asn1`: `parseUTCTime`, `parseGeneralizedTime` (asn1.go; `perm` is
    `AllowPermissiveParsing`), `appendTwoDigits`, `appendFourDigits`, `appendTimeCommon`, `appendUTCTime`,
    `appendGeneralizedTime`, `outsideUTCRange`, and the UTCTime/GeneralizedTime choice of `makeField` / `makeBody`
    (marshal.go).
  * `CB.*` — `cryptobyte`: `ReadASN1GeneralizedTime`, `AddASN1GeneralizedTime`, `ReadASN1UTCTime` (asn1.go;
    note that zcrypto's `generalizedTimeFormatStr` is `"20060102150405Z0700"`, so numeric zones are accepted).

  Not modelled: `*time.Location` beyond its offset (a parsed numeric zone becomes `Local` when the offsets agree,
  a nameless `FixedZone` otherwise: same offset either way), monotonic clock readings, years outside Go's
  internal range.  Where Go would index out of range the model has no such site: every slice expression of the
  modelled code is guarded by a length test that is modelled too.
-/
namespace ZV.Time
open ZV ZV.Der0

/-! ## calendar -/

/-- `time.isLeap` -/
def isLeap (y : Int) : Bool := decide (y % 4 = 0 ∧ (y % 100 ≠ 0 ∨ y % 400 = 0))

/-- `time.daysIn(m, year)`; months outside 1..12 (never passed by the modelled callers) have 0 days. -/
def daysIn (m : Nat) (y : Int) : Nat :=
  match m with
  | 1 => 31 | 2 => (if isLeap y then 29 else 28) | 3 => 31 | 4 => 30 | 5 => 31 | 6 => 30
  | 7 => 31 | 8 => 31 | 9 => 30 | 10 => 31 | 11 => 30 | 12 => 31
  | _ => 0

/-- days from 1970-01-01 to year-month-day (month 1..12; the day is used linearly, so day 0 / day 32
    normalise as in `time.Date`). -/
def daysFromCivil (y : Int) (m d : Nat) : Int :=
  let y' : Int := if m ≤ 2 then y - 1 else y
  let era := y' / 400
  let yoe := y' - era * 400
  let mp : Int := if m ≤ 2 then (m : Int) + 9 else (m : Int) - 3
  let doy := (153 * mp + 2) / 5 + (d : Int) - 1
  let doe := yoe * 365 + yoe / 4 - yoe / 100 + doy
  era * 146097 + doe - 719468

/-- (year of the 400-year era, day of that year) of day `doe` (0 ≤ doe < 146097) of an era that starts on
    1 March of a year divisible by 400: 100-, 4- and 1-year cycles as in Go's `absDate` (`n -= n >> 2` is
    "a quotient of 4 means the last day of the cycle, which belongs to cycle 3"); with years that start on
    1 March the leap day is the last day of its cycle. -/
def yoeDoy (doe : Int) : Int × Int :=
  let c0 := doe / 36524
  let c := if c0 = 4 then 3 else c0
  let d1 := doe - 36524 * c
  let q := d1 / 1461
  let d2 := d1 - 1461 * q
  let a0 := d2 / 365
  let a := if a0 = 4 then 3 else a0
  (100 * c + 4 * q + a, d2 - 365 * a)

/-- year, month, day of the day `z` days after 1970-01-01 -/
def civilFromDays (z : Int) : Int × Nat × Nat :=
  let z' := z + 719468
  let era := z' / 146097
  let yd := yoeDoy (z' - era * 146097)
  let mp := (5 * yd.2 + 2) / 153
  let d := yd.2 - (153 * mp + 2) / 5 + 1
  let m := if mp < 10 then mp + 3 else mp - 9
  (yd.1 + era * 400 + (if m ≤ 2 then 1 else 0), m.toNat, d.toNat)

/-- broken-down time in a zone `off` seconds east of UTC (`Time.Date()`, `Time.Clock()`, `Time.Zone()`). -/
structure Civil where
  year : Int
  month : Nat
  day : Nat
  hour : Nat
  min : Nat
  sec : Nat
  off : Int
  deriving DecidableEq, Repr, Inhabited

/-- normalised fields: what `time.Date` leaves unchanged -/
def Civil.valid (c : Civil) : Bool :=
  decide (1 ≤ c.month ∧ c.month ≤ 12 ∧ 1 ≤ c.day ∧ c.day ≤ daysIn c.month c.year ∧
    c.hour < 24 ∧ c.min < 60 ∧ c.sec < 60)

/-- a Go `time.Time` to the nanosecond: the instant and the zone offset in force -/
structure GoTime where
  unix : Int
  off : Int
  nsec : Nat := 0
  deriving DecidableEq, Repr, Inhabited

/-- `time.Date(year, month, day, hour, min, sec, 0, FixedZone("", off)).Unix()` -/
def toUnix (c : Civil) : Int :=
  daysFromCivil c.year c.month c.day * 86400 + (c.hour : Int) * 3600 + (c.min : Int) * 60 + (c.sec : Int) - c.off

/-- `time.Unix(unix, 0).In(FixedZone("", off))` broken down -/
def ofUnix (unix off : Int) : Civil :=
  let l := unix + off
  let days := l / 86400
  let rem := l % 86400
  let ymd := civilFromDays days
  { year := ymd.1, month := ymd.2.1, day := ymd.2.2,
    hour := (rem / 3600).toNat, min := (rem % 3600 / 60).toNat, sec := (rem % 60).toNat, off := off }

def GoTime.civil (t : GoTime) : Civil := ofUnix t.unix t.off
/-- `t.Year()` -/
def GoTime.year (t : GoTime) : Int := t.civil.year

/-- `time.Date(…, nsec, loc)` for a location with constant offset -/
def date (y : Int) (mo d h mi s ns : Nat) (off : Int) : GoTime :=
  { unix := toUnix { year := y, month := mo, day := d, hour := h, min := mi, sec := s, off := off },
    off := off, nsec := ns }

/-- `t.AddDate(years, 0, 0)` = `Date(year+years, month, day, hour, min, sec, nsec, t.Location())` -/
def addYears (t : GoTime) (years : Int) : GoTime :=
  let c := t.civil
  date (c.year + years) c.month c.day c.hour c.min c.sec t.nsec t.off

/-- what the ASN.1 text forms preserve of a time: whole seconds, and the zone offset truncated (towards zero) to whole
    minutes; the local clock reading is kept, so the instant moves by the dropped seconds of the offset.
    For an offset of whole minutes this is the same instant in the same zone. -/
def readBack (t : GoTime) : GoTime :=
  { unix := t.unix + Int.tmod t.off 60, off := t.off - Int.tmod t.off 60, nsec := 0 }

/-! ## `time.Parse` for the three layouts -/

def isDigit (b : UInt8) : Bool := decide (48 ≤ b.toNat ∧ b.toNat ≤ 57)

/-- `isDigit(s, i)` (false beyond the end) -/
def isDigitAt (s : Bytes) (i : Nat) : Bool :=
  match s.drop i with
  | b :: _ => isDigit b
  | [] => false

/-- `leadingInt`: the leading `[0-9]*` with the two overflow tests (`none` = `errLeadingInt`). -/
def leadingInt : (x : Nat) → Bytes → Option (Nat × Bytes)
  | x, [] => some (x, [])
  | x, c :: r =>
    if c.toNat < 48 ∨ c.toNat > 57 then some (x, c :: r)
    else if x > 9223372036854775808 / 10 then none
    else if x * 10 + (c.toNat - 48) > 9223372036854775808 then none
    else leadingInt (x * 10 + (c.toNat - 48)) r

/-- `atoi`: optional sign, then digits only (callers pass at most 9 characters: no `int` overflow). -/
def atoi (s : Bytes) : Option Int :=
  let neg : Bool := match s with | c :: _ => c.toNat = 45 | [] => false
  let s1 : Bytes := match s with | c :: r => if c.toNat = 45 ∨ c.toNat = 43 then r else s | [] => s
  match leadingInt 0 s1 with
  | none => none
  | some (q, rem) => if !rem.isEmpty then none else some (if neg then - (q : Int) else (q : Int))

/-- `getnum(s, fixed)` -/
def getnum (s : Bytes) (fixed : Bool) : Option (Nat × Bytes) :=
  match s with
  | [] => none
  | a :: r =>
    if !isDigit a then none
    else match r with
      | [] => if fixed then none else some (a.toNat - 48, r)
      | b :: r2 =>
        if !isDigit b then (if fixed then none else some (a.toNat - 48, r))
        else some ((a.toNat - 48) * 10 + (b.toNat - 48), r2)

def commaOrPeriod (b : UInt8) : Bool := decide (b.toNat = 46 ∨ b.toNat = 44)

/-- number of leading digits (`for ; n < len(value) && isDigit(value, n); n++ {}`) -/
def digitRun : Bytes → Nat
  | [] => 0
  | b :: r => if isDigit b then digitRun r + 1 else 0

/-- value of a digit string -/
def digitsVal (acc : Nat) : Bytes → Nat
  | [] => acc
  | b :: r => digitsVal (acc * 10 + (b.toNat - 48)) r

/-- `parseNanoseconds(value, nbytes)` for `value[0]` a comma or period and `value[1:nbytes]` digits
    (`atoi` of at most 9 digits cannot fail, the result cannot be negative). -/
def parseNanoseconds (value : Bytes) (nbytes : Nat) : Nat :=
  let nb := if nbytes > 10 then 10 else nbytes
  digitsVal 0 ((value.take nb).drop 1) * 10 ^ (10 - nb)

/-- the std chunks of the three layouts -/
inductive Std where
  | year | longYear | zeroMonth | zeroDay | hour | zeroMinute | zeroSecond | isoTZ
  deriving DecidableEq, Repr

/-- `"0601021504Z0700"` -/
def layoutUTCMin : List Std := [.year, .zeroMonth, .zeroDay, .hour, .zeroMinute, .isoTZ]
/-- `"060102150405Z0700"` -/
def layoutUTCSec : List Std := [.year, .zeroMonth, .zeroDay, .hour, .zeroMinute, .zeroSecond, .isoTZ]
/-- `"20060102150405Z0700"` -/
def layoutGen : List Std := [.longYear, .zeroMonth, .zeroDay, .hour, .zeroMinute, .zeroSecond, .isoTZ]

/-- the variables of `parse` ("Time being constructed") -/
structure PState where
  year : Int := 0
  month : Int := -1
  day : Int := -1
  hour : Nat := 0
  min : Nat := 0
  sec : Nat := 0
  nsec : Nat := 0
  utc : Bool := false          -- `z = UTC`
  zoneOffset : Int := -1       -- `-1` = not seen, as in the Go code
  deriving DecidableEq, Repr

/-- one iteration of the loop of `parse` for chunk `c`; `none` = the call returns an error
    (`errBad`, or a non-empty `rangeErrString`). -/
def step (c : Std) (st : PState) (v : Bytes) : Option (PState × Bytes) :=
  match c with
  | .year =>
    if v.length < 2 then none
    else match atoi (v.take 2) with
      | none => none
      | some y => some ({ st with year := if y ≥ 69 then y + 1900 else y + 2000 }, v.drop 2)
  | .longYear =>
    if v.length < 4 ∨ !isDigitAt v 0 then none
    else match atoi (v.take 4) with
      | none => none
      | some y => some ({ st with year := y }, v.drop 4)
  | .zeroMonth =>
    match getnum v true with
    | none => none
    | some (m, r) => if m = 0 ∨ 12 < m then none else some ({ st with month := m }, r)
  | .zeroDay =>
    match getnum v true with
    | none => none
    | some (d, r) => some ({ st with day := d }, r)   -- validated after the loop
  | .hour =>
    match getnum v false with
    | none => none
    | some (h, r) => if 24 ≤ h then none else some ({ st with hour := h }, r)
  | .zeroMinute =>
    match getnum v true with
    | none => none
    | some (m, r) => if 60 ≤ m then none else some ({ st with min := m }, r)
  | .zeroSecond =>
    match getnum v true with
    | none => none
    | some (s, r) =>
      if 60 ≤ s then none
      else
        match r with
        | c0 :: c1 :: r2 =>
          if commaOrPeriod c0 && isDigit c1 then
            -- the next chunk of all three layouts is Z0700, not a fractional-second chunk:
            -- "No fractional second in the layout but we have one in the input."
            let n := 2 + digitRun r2
            some ({ st with sec := s, nsec := parseNanoseconds r n }, r.drop n)
          else some ({ st with sec := s }, r)
        | _ => some ({ st with sec := s }, r)
  | .isoTZ =>
    match v with
    | [] => none
    | c0 :: r =>
      if c0.toNat = 90 then some ({ st with utc := true }, r)
      else if v.length < 5 then none
      else
        match getnum ((v.drop 1).take 2) true, getnum ((v.drop 3).take 2) true with
        | some (hr, _), some (mm, _) =>
          if hr > 24 ∨ mm > 60 then none
          else if c0.toNat = 43 then some ({ st with zoneOffset := (((hr * 60 + mm) * 60 : Nat) : Int) }, v.drop 5)
          else if c0.toNat = 45 then some ({ st with zoneOffset := - (((hr * 60 + mm) * 60 : Nat) : Int) }, v.drop 5)
          else none
        | _, _ => none

/-- the loop of `parse`: after the last chunk the value must be exhausted ("extra text"). -/
def parseLoop : List Std → PState → Bytes → Option PState
  | [], st, v => if v.isEmpty then some st else none
  | c :: cs, st, v =>
    match step c st v with
    | none => none
    | some (st', v') => parseLoop cs st' v'

/-- the tail of `parse`: day-of-month validation and construction of the result -/
def finish (st : PState) : Option GoTime :=
  let month : Int := if st.month < 0 then 1 else st.month
  let day : Int := if st.day < 0 then 1 else st.day
  if day < 1 ∨ day > (daysIn month.toNat st.year : Int) then none
  else if st.utc then some (date st.year month.toNat day.toNat st.hour st.min st.sec st.nsec 0)
  else if st.zoneOffset ≠ -1 then
    -- `t := Date(…, UTC); t.addSec(-zoneOffset); t.setLoc(local or FixedZone("", zoneOffset))`
    some { unix := (date st.year month.toNat day.toNat st.hour st.min st.sec st.nsec 0).unix - st.zoneOffset,
           off := st.zoneOffset, nsec := st.nsec }
  else some (date st.year month.toNat day.toNat st.hour st.min st.sec st.nsec 0)

/-- `time.Parse(layout, s)`; `none` = error -/
def parse (layout : List Std) (s : Bytes) : Option GoTime :=
  match parseLoop layout {} s with
  | none => none
  | some st => finish st

/-! ## `Time.Format` for the same chunks -/

def digit (n : Nat) : UInt8 := UInt8.ofNat (48 + n % 10)

/-- decimal digits of `n`, most significant first, at least one -/
def natDigits (n : Nat) : Bytes :=
  if h : n < 10 then [digit n] else natDigits (n / 10) ++ [digit n]
decreasing_by omega

/-- `appendInt(b, x, width)` (only `width` 2 and 4 are used) -/
def appendInt (x : Int) (width : Nat) : Bytes :=
  let u := x.natAbs
  let sign : Bytes := if x < 0 then [45] else []
  if width = 2 ∧ u < 100 then sign ++ [digit (u / 10), digit u]
  else if width = 4 ∧ u < 10000 then sign ++ [digit (u / 1000), digit (u / 100), digit (u / 10), digit u]
  else
    let ds := natDigits u
    sign ++ List.replicate (width - ds.length) 48 ++ ds

def formatChunk (c : Std) (cv : Civil) : Bytes :=
  match c with
  | .year => appendInt ((cv.year.natAbs : Int) % 100) 2
  | .longYear => appendInt cv.year 4
  | .zeroMonth => appendInt cv.month 2
  | .zeroDay => appendInt cv.day 2
  | .hour => appendInt cv.hour 2
  | .zeroMinute => appendInt cv.min 2
  | .zeroSecond => appendInt cv.sec 2
  | .isoTZ =>
    if cv.off = 0 then [90]
    else
      let zone := Int.tdiv cv.off 60
      if zone < 0 then 45 :: (appendInt ((-zone) / 60) 2 ++ appendInt ((-zone) % 60) 2)
      else 43 :: (appendInt (zone / 60) 2 ++ appendInt (zone % 60) 2)

/-- `t.Format(layout)` -/
def format (layout : List Std) (t : GoTime) : Bytes :=
  (layout.map (fun c => formatChunk c t.civil)).flatten

/-! ## `encoding/asn1` -/
namespace EA

/-- the common tail of `parseUTCTime` / `parseGeneralizedTime` after a successful `time.Parse`:
    the strict re-serialisation test. -/
def reserialises (perm : Bool) (layout : List Std) (ret : GoTime) (s : Bytes) : Bool :=
  perm || format layout ret == s

/-- `parseUTCTime` -/
def parseUTCTime (perm : Bool) (s : Bytes) : Res GoTime :=
  let r : Option (List Std × GoTime) :=
    match parse layoutUTCMin s with
    | some t => some (layoutUTCMin, t)
    | none =>
      match parse layoutUTCSec s with
      | some t => some (layoutUTCSec, t)
      | none => none
  match r with
  | none => .err
  | some (layout, ret) =>
    if !reserialises perm layout ret s then .err
    else if ret.year ≥ 2050 then .ok (addYears ret (-100))
    else .ok ret

/-- `parseGeneralizedTime` -/
def parseGeneralizedTime (perm : Bool) (s : Bytes) : Res GoTime :=
  match parse layoutGen s with
  | none => .err
  | some ret => if !reserialises perm layoutGen ret s then .err else .ok ret

/-- `appendTwoDigits(dst, v)` for `v ≥ 0` -/
def twoDigits (v : Nat) : Bytes := [digit (v / 10), digit v]

/-- `appendFourDigits(dst, v)` for `v ≥ 0` (the loop writes `v%10` right to left, four times) -/
def fourDigits (v : Nat) : Bytes := [digit (v / 1000), digit (v / 100), digit (v / 10), digit v]

/-- `appendTimeCommon` -/
def appendTimeCommon (t : GoTime) : Bytes :=
  let c := t.civil
  let body := twoDigits c.month ++ twoDigits c.day ++ twoDigits c.hour ++ twoDigits c.min ++ twoDigits c.sec
  if Int.tdiv c.off 60 = 0 then body ++ [90]
  else
    let sign : UInt8 := if c.off > 0 then 43 else 45
    let offsetMinutes := (Int.tdiv c.off 60).natAbs
    body ++ [sign] ++ twoDigits (offsetMinutes / 60) ++ twoDigits (offsetMinutes % 60)

/-- `outsideUTCRange` -/
def outsideUTCRange (t : GoTime) : Bool := decide (t.year < 1950 ∨ t.year ≥ 2050)

/-- `appendUTCTime` -/
def appendUTCTime (t : GoTime) : Res Bytes :=
  let year := t.year
  if 1950 ≤ year ∧ year < 2000 then .ok (twoDigits (year - 1900).toNat ++ appendTimeCommon t)
  else if 2000 ≤ year ∧ year < 2050 then .ok (twoDigits (year - 2000).toNat ++ appendTimeCommon t)
  else .err

/-- `appendGeneralizedTime` -/
def appendGeneralizedTime (t : GoTime) : Res Bytes :=
  let year := t.year
  if year < 0 ∨ year > 9999 then .err
  else .ok (fourDigits year.toNat ++ appendTimeCommon t)

/-- the test shared by `makeField` (tag) and `makeBody` (content):
    `params.timeType == TagGeneralizedTime || outsideUTCRange(t)` -/
def useGeneralized (timeType : Nat) (t : GoTime) : Bool := timeType == 24 || outsideUTCRange t

/-- `makeField`, `case TagUTCTime`: the universal tag written for a `time.Time` -/
def timeTag (timeType : Nat) (t : GoTime) : Nat := if useGeneralized timeType t then 24 else 23

/-- `makeBody`, `case timeType` -/
def makeTimeBody (timeType : Nat) (t : GoTime) : Res Bytes :=
  if useGeneralized timeType t then appendGeneralizedTime t else appendUTCTime t

/-- `parseField`, `case *time.Time` (by the substituted universal tag) -/
def parseTimeBody (perm : Bool) (universalTag : Nat) (inner : Bytes) : Res GoTime :=
  if universalTag = 23 then parseUTCTime perm inner else parseGeneralizedTime perm inner

end EA

/-! ## `cryptobyte` -/
namespace CB

/-- `(*String).ReadASN1GeneralizedTime` -/
def readGeneralizedTime (s : Bytes) : Res (GoTime × Bytes) :=
  match Der0.CB.readASN1Tag s 0x18 with
  | .ok (body, rest) =>
    (match parse layoutGen body with
     | none => .err
     | some res => if format layoutGen res != body then .err else .ok (res, rest))
  | .err => .err
  | .panic => .panic

/-- `(*Builder).AddASN1GeneralizedTime` -/
def addGeneralizedTime (t : GoTime) : Res Bytes :=
  if t.year < 0 ∨ t.year > 9999 then .err
  else Der0.CB.element 0x18 (format layoutGen t)

/-- `(*String).ReadASN1UTCTime` (seconds first, then the minute-precision fallback) -/
def readUTCTime (s : Bytes) : Res (GoTime × Bytes) :=
  match Der0.CB.readASN1Tag s 0x17 with
  | .ok (body, rest) =>
    let r : Option (List Std × GoTime) :=
      match parse layoutUTCSec body with
      | some t => some (layoutUTCSec, t)
      | none =>
        match parse layoutUTCMin body with
        | some t => some (layoutUTCMin, t)
        | none => none
    (match r with
     | none => .err
     | some (layout, res) =>
       if format layout res != body then .err
       else if res.year ≥ 2050 then .ok (addYears res (-100), rest)
       else .ok (res, rest))
  | .err => .err
  | .panic => .panic

end CB

end ZV.Time
