import ZV.Model.C32
/-!
  C32 — the key-exchange parameter parsers of `tls/key_agreement.go` (and the two `unmarshal` functions of
  `tls/handshake_messages.go` that feed them) as total `Res`-valued functions.

  EVERY Go index expression `s[i]` is an `idx`, every slice expression `s[lo:]`, `s[:hi]` a `sliceFrom` / `sliceTo`
  of ZV.Model.C32 — all three yield `.panic` when Go would panic — so that "a peer cannot make the parser panic,
  whatever bytes it sends" is a theorem about the guards of the Go code (`skx_parse_no_panic`, `ckx_parse_no_panic`),
  not an artefact of pattern matching.  Same case split and same order of checks as the Go functions.

  What is NOT parsing is an input of the model: whether the peer's share is a valid public key (`pointOK`, the
  verdict of `SharedKey(...) != nil`), the client's signature-algorithm lists, the kind of key in the certificate.
  Signature verification itself happens after the last byte was parsed and is not modelled (parse-complete = `.ok`).
-/
namespace ZV.C32

/-- Go `int(a)<<8 | int(b)` -/
def be16 (a b : UInt8) : Nat := a.toNat * 256 + b.toNat

/-- Go `int(a)<<16 | int(b)<<8 | int(c)` -/
def be24 (a b c : UInt8) : Nat := a.toNat * 65536 + b.toNat * 256 + c.toNat

/-- `new(big.Int).SetBytes(b)` as a number -/
def natOf (bs : Bytes) : Nat := bs.foldl (fun a b => a * 256 + b.toNat) 0

/-- `big.Int.Bytes()` of `SetBytes(b)`: leading zero bytes are dropped -/
def stripZeros : Bytes → Bytes
  | [] => []
  | b :: r => if b = 0 then stripZeros r else b :: r

/-! ### constants and tables of tls/common.go, tls/auth.go -/

def versionTLS12 : Nat := 0x0303

def signatureRSA : Nat := 1
def signatureDSA : Nat := 2
def signaturePKCS1v15 : Nat := 227
def signatureRSAPSS : Nat := 228
def signatureECDSA : Nat := 229
def signatureEd25519 : Nat := 230

/-- `supportedHashFunc` has an entry for this TLS HashAlgorithm id (MD5, SHA-1, SHA-224, SHA-256, SHA-384, SHA-512):
    the comma-ok lookup `hashFunc, ok := supportedHashFunc[id]` succeeds. -/
def hashKnown (h : Nat) : Bool := decide (1 ≤ h ∧ h ≤ 6)

/-- `curveForCurveID` succeeds or the curve is X25519 -/
def curveSupported (c : Nat) : Bool := decide (c = 23 ∨ c = 24 ∨ c = 25 ∨ c = 29)

/-- `typeAndHashFromSignatureScheme`: (sigType, `tlsHashID` of the scheme's hash); none = error -/
def typeAndHash (scheme : Nat) : Option (Nat × Nat) :=
  if scheme = 0x0201 then some (signaturePKCS1v15, 2)
  else if scheme = 0x0401 then some (signaturePKCS1v15, 4)
  else if scheme = 0x0501 then some (signaturePKCS1v15, 5)
  else if scheme = 0x0601 then some (signaturePKCS1v15, 6)
  else if scheme = 0x0804 then some (signatureRSAPSS, 4)
  else if scheme = 0x0805 then some (signatureRSAPSS, 5)
  else if scheme = 0x0806 then some (signatureRSAPSS, 6)
  else if scheme = 0x0203 then some (signatureECDSA, 2)
  else if scheme = 0x0403 then some (signatureECDSA, 4)
  else if scheme = 0x0503 then some (signatureECDSA, 5)
  else if scheme = 0x0603 then some (signatureECDSA, 6)
  else if scheme = 0x0807 then some (signatureEd25519, 8)
  else none

/-- the kind of public key in the server certificate -/
inductive KeyType | rsa | ecdsa | ed25519
  deriving Repr, DecidableEq

/-- `legacyTypeAndHashFromPublicKey`: (sigType, `tlsHashID` of the hash: MD5SHA1 has none = 0) -/
def legacyTypeAndHash : KeyType → Option (Nat × Nat)
  | .rsa => some (signaturePKCS1v15, 0)
  | .ecdsa => some (signatureECDSA, 2)
  | .ed25519 => none

/-! ### the two message-level `unmarshal` functions -/

/-- `serverKeyExchangeMsg.unmarshal`: `m.key = data[4:]` (the 24-bit length is not looked at) -/
def skxUnmarshal (data : Bytes) : Res Bytes :=
  if data.length < 4 then .err else sliceFrom data 4

/-- `clientKeyExchangeMsg.unmarshal`: the 24-bit length must be exact; `m.ciphertext = data[4:]` -/
def ckxUnmarshal (data : Bytes) : Res Bytes :=
  if data.length < 4 then .err
  else
    match idx data 1, idx data 2, idx data 3 with
    | .ok a, .ok b, .ok c =>
      if be24 a b c ≠ data.length - 4 then .err else sliceFrom data 4
    | _, _, _ => .panic

/-! ### `(*ecdheKeyAgreement).processServerKeyExchange` (client side) -/

/-- what the client knows when the ServerKeyExchange arrives -/
structure EcdheCtx where
  vers : Nat                  -- ka.version
  isRSA : Bool                -- ka.isRSA (ECDHE_RSA suite)
  keyType : KeyType           -- cert.PublicKey
  clientSigAlgs : List Nat    -- clientHello.supportedSignatureAlgorithms
  pointOK : Bool              -- params.SharedKey(publicKey) != nil
  deriving Repr, DecidableEq

/-- the parsed fields -/
structure EcdheSkx where
  curve : Nat
  pub : Bytes                 -- the server's share
  sigType : Nat
  hashId : Nat
  sig : Bytes                 -- the signature handed to verifyHandshakeSignature
  deriving Repr, DecidableEq

/-- from `sigLen := int(sig[0])<<8 | int(sig[1])` to `sig = sig[2:]` -/
def ecdheSigTail (c : EcdheCtx) (curve : Nat) (pub : Bytes) (t h : Nat) (sig : Bytes) : Res EcdheSkx :=
  if (decide (t = signaturePKCS1v15) || decide (t = signatureRSAPSS)) != c.isRSA then .err
  else
    match idx sig 0, idx sig 1 with
    | .ok l1, .ok l2 =>
      if be16 l1 l2 + 2 ≠ sig.length then .err
      else
        match sliceFrom sig 2 with
        | .ok raw => .ok ⟨curve, pub, t, h, raw⟩
        | _ => .panic
    | _, _ => .panic

/-- the `if ka.version >= VersionTLS12 { … } else { … }` block: which algorithm signs -/
def ecdheSigPart (c : EcdheCtx) (curve : Nat) (pub : Bytes) (sig : Bytes) : Res EcdheSkx :=
  if c.vers ≥ versionTLS12 then
    match idx sig 0, idx sig 1 with
    | .ok a, .ok b =>
      match sliceFrom sig 2 with
      | .ok sig1 =>
        if sig1.length < 2 then .err
        else if !(c.clientSigAlgs.contains (be16 a b)) then .err        -- isSupportedSignatureAlgorithm
        else
          match typeAndHash (be16 a b) with
          | none => .err
          | some (t, h) => ecdheSigTail c curve pub t h sig1
      | _ => .panic
    | _, _ => .panic
  else
    match legacyTypeAndHash c.keyType with
    | none => .err
    | some (t, h) => ecdheSigTail c curve pub t h sig

/-- `key` = `skx.key` -/
def ecdheSKX (c : EcdheCtx) (key : Bytes) : Res EcdheSkx :=
  if key.length < 4 then .err
  else
    match idx key 0 with
    | .ok k0 =>
      if k0.toNat ≠ 3 then .err                                         -- named curve
      else
        match idx key 1, idx key 2, idx key 3 with
        | .ok k1, .ok k2, .ok k3 =>
          if k3.toNat + 4 > key.length then .err
          else
            match sliceTo key (4 + k3.toNat) with                        -- serverECDHEParams
            | .ok params =>
              match sliceFrom params 4, sliceFrom key (4 + k3.toNat) with
              | .ok pub, .ok sig =>
                if sig.length < 2 then .err
                else if !(curveSupported (be16 k1 k2)) then .err
                else if !c.pointOK then .err
                else ecdheSigPart c (be16 k1 k2) pub sig
              | _, _ => .panic
            | _ => .panic
        | _, _, _ => .panic
    | _ => .panic

/-! ### `(*dheKeyAgreement).processServerKeyExchange` + `(*signedKeyAgreement).verifyParameters` (client side) -/

/-- one `// Read dh_x` block: `len(k) < 2`, `xLen := k[0]<<8 | k[1]`, `k = k[2:]`, `len(k) < xLen`, `k[:xLen]`,
    `k = k[xLen:]`.  The Go function repeats this block three times (p, g, Ys). -/
def readDH (k : Bytes) : Res (Bytes × Bytes) :=
  if k.length < 2 then .err
  else
    match idx k 0, idx k 1 with
    | .ok a, .ok b =>
      match sliceFrom k 2 with
      | .ok k1 =>
        if k1.length < be16 a b then .err
        else
          match sliceTo k1 (be16 a b), sliceFrom k1 (be16 a b) with
          | .ok v, .ok k2 => .ok (v, k2)
          | _, _ => .panic
      | _ => .panic
    | _, _ => .panic

structure DheCtx where
  vers : Nat                          -- ka.version of the signedKeyAgreement
  sigType : Nat                       -- signatureRSA (DHE_RSA) or signatureDSA (DHE_DSS)
  clientSigHashes : List (Nat × Nat)  -- config.signatureAndHashesForClient() as (signature, hash)
  deriving Repr, DecidableEq

/-- the default lists of tls/common.go -/
def defaultSKXSignatureAlgorithms : List (Nat × Nat) :=
  [(1, 4), (229, 4), (1, 2), (229, 2), (1, 4), (1, 5), (1, 6)]
def supportedSKXSignatureAlgorithms : List (Nat × Nat) :=
  [(1, 6), (229, 6), (2, 6), (1, 5), (229, 5), (2, 5), (1, 4), (229, 4), (2, 4),
   (1, 3), (229, 3), (2, 3), (1, 2), (229, 2), (2, 2), (1, 1), (229, 1), (2, 1)]

/-- (tls12HashId, ka.raw) -/
abbrev SigBlock := Nat × Bytes

/-- from `sigLen := int(sig[0])<<8 | int(sig[1])` to the digest computation.
    `hashFunc, ok := supportedHashFunc[tls12HashId]`: an id without an entry is an error where the hash is used
    (TLS ≥ 1.2; the signature type of a signedKeyAgreement is never Ed25519) — since the fix of F-C32-skx-hash-lookup;
    before it the zero `crypto.Hash` reached `hashFunc.New()`, which panics. -/
def verifyTail (c : DheCtx) (hid : Nat) (sig : Bytes) : Res SigBlock :=
  match idx sig 0, idx sig 1 with
  | .ok a, .ok b =>
    if be16 a b + 2 ≠ sig.length then .err
    else
      match sliceFrom sig 2 with
      | .ok raw =>
        if c.vers ≥ versionTLS12 ∧ hashKnown hid = false then .err
        else .ok (hid, raw)
      | _ => .panic
  | _, _ => .panic

/-- `verifyParameters` up to the signature check -/
def verifyParameters (c : DheCtx) (sig : Bytes) : Res SigBlock :=
  if sig.length < 2 then .err
  else if c.vers ≥ versionTLS12 then
    match sliceTo sig 2, sliceFrom sig 2 with
    | .ok sah, .ok sig1 =>
      match idx sah 0, idx sah 1 with
      | .ok h, .ok s =>
        if s.toNat ≠ c.sigType then .err
        else if sig1.length < 2 then .err
        else if !(c.clientSigHashes.contains (c.sigType, h.toNat)) then .err   -- isSupportedSignatureAndHash
        else verifyTail c h.toNat sig1
      | _, _ => .panic
    | _, _ => .panic
  else verifyTail c 0 sig

structure DheSkx where
  p : Bytes
  g : Bytes
  ys : Bytes
  params : Bytes              -- serverDHParams, the signed bytes
  hashId : Nat
  sig : Bytes
  deriving Repr, DecidableEq

/-- `key` = `skx.key`; the result is that of `verifyParameters` (no InsecureSkipVerify) up to the signature check -/
def dheSKX (c : DheCtx) (key : Bytes) : Res DheSkx :=
  match readDH key with
  | .ok (p, k1) =>
    match readDH k1 with
    | .ok (g, k2) =>
      match readDH k2 with
      | .ok (ys, sig) =>
        if natOf ys = 0 ∨ natOf ys ≥ natOf p then .err                  -- yTheirs.Sign() <= 0 || yTheirs.Cmp(p) >= 0
        else
          match sliceTo key (key.length - sig.length) with              -- skx.key[:len(skx.key)-len(sig)]
          | .ok params =>
            match verifyParameters c sig with
            | .ok (h, raw) => .ok ⟨p, g, ys, params, h, raw⟩
            | .err => .err
            | .panic => .panic
          | _ => .panic
      | .err => .err
      | .panic => .panic
    | .err => .err
    | .panic => .panic
  | .err => .err
  | .panic => .panic

/-! ### the client step that follows an accepted DHE ServerKeyExchange

  `processServerKeyExchange` only establishes `0 < Ys < p`.  `generateClientKeyExchange` then calls
  `crypto/rand.Int(rand, ka.p)`, which PANICS when its bound is `<= 0`, and `new(big.Int).Exp(·, xOurs, ka.p)` twice
  (total for every modulus: `Exp` with modulus 0 is plain exponentiation).  So what the code needs is `p > 0`; what the
  parser guarantees is `p ≥ 2` (`dhe_parser_guarantees_modulus`), which is enough (`dhe_client_step_no_panic`) — but only
  just: any bound of the form `p - k` handed to `rand.Int` is outside the guarantee. -/

/-- `processServerKeyExchange` of a client with `InsecureSkipVerify`: `verifyParameters` still runs (only a panic in it
    would surface), its verdict is dropped (`if config.InsecureSkipVerify { return nil }`) -/
def dheSKXSkipVerify (c : DheCtx) (key : Bytes) : Res (Bytes × Bytes × Bytes) :=
  match readDH key with
  | .ok (p, k1) =>
    match readDH k1 with
    | .ok (g, k2) =>
      match readDH k2 with
      | .ok (ys, sig) =>
        if natOf ys = 0 ∨ natOf ys ≥ natOf p then .err
        else
          match sliceTo key (key.length - sig.length) with
          | .ok _ =>
            match verifyParameters c sig with
            | .panic => .panic
            | _ => .ok (p, g, ys)
          | _ => .panic
      | .err => .err
      | .panic => .panic
    | .err => .err
    | .panic => .panic
  | .err => .err
  | .panic => .panic

def dheSKXSkipVerifyMsg (c : DheCtx) (msg : Bytes) : Res (Bytes × Bytes × Bytes) :=
  match skxUnmarshal msg with
  | .ok key => dheSKXSkipVerify c key
  | .err => .err
  | .panic => .panic

/-- `big.Int.Bytes()`: big-endian, no leading zero, empty for 0 -/
def bytesOfNat (n : Nat) : Bytes :=
  if _h : n = 0 then [] else bytesOfNat (n / 256) ++ [UInt8.ofNat (n % 256)]
decreasing_by omega

/-- `(*dheKeyAgreement).generateClientKeyExchange` with the drawn exponent `x` as an input:
    (`ckx.ciphertext` = 2-byte length ‖ Yc, pre-master secret).  `.panic` is `rand.Int`'s "argument to Int is <= 0". -/
def dheGenCKX (p g ys : Bytes) (x : Nat) : Res (Bytes × Bytes) :=
  if natOf p = 0 then .panic
  else
    let yc := bytesOfNat (natOf g ^ x % natOf p)
    .ok (UInt8.ofNat (yc.length / 256) :: UInt8.ofNat (yc.length % 256) :: yc, bytesOfNat (natOf ys ^ x % natOf p))

/-! ### ClientKeyExchange (server side) -/

/-- `(*rsaKeyAgreement).processClientKeyExchange` up to `priv.Decrypt`: the encrypted pre-master secret -/
def rsaCKX (ct : Bytes) : Res Bytes :=
  if ct.length < 2 then .err
  else
    match idx ct 0, idx ct 1 with
    | .ok a, .ok b =>
      if be16 a b ≠ ct.length - 2 then .err else sliceFrom ct 2
    | _, _ => .panic

/-- `(*ecdheKeyAgreement).processClientKeyExchange`: the client's share (`len == 0 ||` short-circuits the index) -/
def ecdheCKX (pointOK : Bool) (ct : Bytes) : Res Bytes :=
  if ct.length = 0 then .err
  else
    match idx ct 0 with
    | .ok n =>
      if n.toNat ≠ ct.length - 1 then .err
      else
        match sliceFrom ct 1 with
        | .ok pt => if !pointOK then .err else .ok pt                   -- ka.params.SharedKey(ckx.ciphertext[1:])
        | _ => .panic
    | _ => .panic

/-- `(*dheKeyAgreement).processClientKeyExchange`: Yc; `p` = ka.p -/
def dheCKX (p : Bytes) (ct : Bytes) : Res Bytes :=
  if ct.length < 2 then .err
  else
    match idx ct 0, idx ct 1 with
    | .ok a, .ok b =>
      if be16 a b ≠ ct.length - 2 then .err
      else
        match sliceFrom ct 2 with
        | .ok y => if natOf y = 0 ∨ natOf y ≥ natOf p then .err else .ok y
        | _ => .panic
    | _, _ => .panic

/-! ### whole messages: `unmarshal` followed by the key agreement -/

def ecdheSKXMsg (c : EcdheCtx) (msg : Bytes) : Res EcdheSkx :=
  match skxUnmarshal msg with
  | .ok key => ecdheSKX c key
  | .err => .err
  | .panic => .panic

def dheSKXMsg (c : DheCtx) (msg : Bytes) : Res DheSkx :=
  match skxUnmarshal msg with
  | .ok key => dheSKX c key
  | .err => .err
  | .panic => .panic

inductive CkxKind where
  | rsa
  | ecdhe (pointOK : Bool)
  | dhe (p : Bytes)
  deriving Repr, DecidableEq

def ckxMsg (k : CkxKind) (msg : Bytes) : Res Bytes :=
  match ckxUnmarshal msg with
  | .ok ct =>
    match k with
    | .rsa => rsaCKX ct
    | .ecdhe ok => ecdheCKX ok ct
    | .dhe p => dheCKX p ct
  | .err => .err
  | .panic => .panic

end ZV.C32
