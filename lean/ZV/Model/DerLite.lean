import ZV.Base
/-!
  ZV.Der — a small DER TLV reader / writer (core Lean only).

  Reader = `encoding/asn1/asn1.go: parseTagAndLength` of zcrypto (strict mode,
  `AllowPermissiveParsing = false`), branch for branch:
    * identifier octet: class = b >> 6, compound = b & 0x20, tag = b & 0x1f; tag 0x1f ⇒ base-128
      tag number (`parseBase128Int`: ≤ 5 octets, first ≠ 0x80, value ≤ MaxInt32, and < 0x1f is "non-minimal tag");
    * length: short form, or long form with 1..n octets; `0x80` (indefinite) rejected; accumulator
      ≥ 2^23 before a shift ⇒ "length too large"; accumulator = 0 after an octet ⇒ "superfluous leading
      zeros"; final value < 0x80 ⇒ "non-minimal length";
    * `invalidLength`: the body must fit in the remaining input.
  Writer = `marshal.go: appendTagAndLength` for low tag numbers (what every structure in x509 uses).
-/
namespace ZV.Der

/-- `parseBase128Int` continuing after `shifted` octets with accumulator `acc`. -/
def readBase128 : (fuel : Nat) → (shifted : Nat) → (acc : Nat) → Bytes → Res (Nat × Bytes)
  | 0, _, _, _ => .err                                   -- shifted == 5: too large
  | _ + 1, _, _, [] => .err                              -- truncated
  | f + 1, shifted, acc, b :: rest =>
    if shifted = 0 ∧ b.toNat = 128 then .err             -- not minimally encoded
    else
      let acc' := acc * 128 + b.toNat % 128
      if b.toNat < 128 then
        (if acc' > 2147483647 then .err else .ok (acc', rest))
      else readBase128 f (shifted + 1) acc' rest

/-- long-form length octets. -/
def readLenLoop : Nat → Nat → Bytes → Res (Nat × Bytes)
  | 0, acc, bs => .ok (acc, bs)
  | n + 1, acc, bs =>
    match bs with
    | [] => .err
    | b :: rest =>
      if acc ≥ 8388608 then .err
      else if acc * 256 + b.toNat = 0 then .err
      else readLenLoop n (acc * 256 + b.toNat) rest

def readLen : Bytes → Res (Nat × Bytes)
  | [] => .err
  | b :: rest =>
    if b.toNat < 128 then .ok (b.toNat, rest)
    else if b.toNat = 128 then .err
    else
      match readLenLoop (b.toNat - 128) 0 rest with
      | .ok (len, rest') => if len < 128 then .err else .ok (len, rest')
      | .err => .err
      | .panic => .panic

/-- decoded header: class 0..3, constructed bit, tag number, content length. -/
structure Hdr where
  cls : Nat
  compound : Bool
  tag : Nat
  len : Nat
  deriving Repr, DecidableEq

/-- `parseTagAndLength`: header and the input after the header. -/
def readHdr : Bytes → Res (Hdr × Bytes)
  | [] => .err
  | b :: rest =>
    let cls := b.toNat / 64
    let cmp := decide (b.toNat / 32 % 2 = 1)
    if b.toNat % 32 = 31 then
      match readBase128 5 0 0 rest with
      | .ok (t, rest1) =>
        if t < 31 then .err
        else
          match readLen rest1 with
          | .ok (l, rest2) => .ok (⟨cls, cmp, t, l⟩, rest2)
          | .err => .err
          | .panic => .panic
      | .err => .err
      | .panic => .panic
    else
      match readLen rest with
      | .ok (l, rest2) => .ok (⟨cls, cmp, b.toNat % 32, l⟩, rest2)
      | .err => .err
      | .panic => .panic

/-- one element: header, body (`innerBytes`), full encoding (`bytes[initOffset:offset]`). -/
structure Elem where
  hdr : Hdr
  body : Bytes
  full : Bytes
  deriving Repr, DecidableEq

/-- header + `invalidLength` check + split. -/
def readElem (bs : Bytes) : Res (Elem × Bytes) :=
  match readHdr bs with
  | .ok (h, after) =>
    if after.length < h.len then .err
    else .ok (⟨h, after.take h.len, bs.take (bs.length - after.length + h.len)⟩, after.drop h.len)
  | .err => .err
  | .panic => .panic

/-- all elements of a content string, in order (`parseSequenceOf`'s first pass / a struct walk).
    Fuel = number of input bytes (every element consumes at least two). -/
def readElemsFuel : Nat → Bytes → Res (List Elem)
  | 0, bs => if bs.isEmpty then .ok [] else .err
  | f + 1, bs =>
    if bs.isEmpty then .ok []
    else
      match readElem bs with
      | .ok (e, rest) =>
        (match readElemsFuel f rest with
         | .ok es => .ok (e :: es)
         | .err => .err
         | .panic => .panic)
      | .err => .err
      | .panic => .panic

def readElems (bs : Bytes) : Res (List Elem) := readElemsFuel bs.length bs

/-! ### writer -/

/-- minimal big-endian base-256 digits of a length ≥ 128 (Go: `appendLength`), up to 4 octets. -/
def lenDigits (n : Nat) : Bytes :=
  if n < 256 then [UInt8.ofNat n]
  else if n < 65536 then [UInt8.ofNat (n / 256), UInt8.ofNat (n % 256)]
  else if n < 16777216 then [UInt8.ofNat (n / 65536), UInt8.ofNat (n / 256 % 256), UInt8.ofNat (n % 256)]
  else [UInt8.ofNat (n / 16777216 % 256), UInt8.ofNat (n / 65536 % 256), UInt8.ofNat (n / 256 % 256), UInt8.ofNat (n % 256)]

def encLen (n : Nat) : Bytes :=
  if n < 128 then [UInt8.ofNat n]
  else UInt8.ofNat (128 + (lenDigits n).length) :: lenDigits n

/-- identifier octet for a low tag number (< 31). -/
def identOctet (cls : Nat) (compound : Bool) (tag : Nat) : UInt8 :=
  UInt8.ofNat (cls * 64 + (if compound then 32 else 0) + tag)

def writeTLV (t : UInt8) (body : Bytes) : Bytes := t :: (encLen body.length ++ body)

/-- the header `readHdr` reports for identifier octet `t` (low tag) and length `n`. -/
def hdrOf (t : UInt8) (n : Nat) : Hdr := ⟨t.toNat / 64, decide (t.toNat / 32 % 2 = 1), t.toNat % 32, n⟩

/-! ### content decoders used by the X.509 models -/

/-- `checkInteger` (strict): non-empty, minimal two's complement. -/
def checkInteger : Bytes → Bool
  | [] => false
  | [_] => true
  | a :: b :: _ => !((a.toNat = 0 ∧ b.toNat < 128) ∨ (a.toNat = 255 ∧ b.toNat ≥ 128))

def natOfBytes (bs : Bytes) : Nat := bs.foldl (fun acc b => acc * 256 + b.toNat) 0

/-- two's-complement big-endian value (`parseBigInt` / `parseInt64` before range checks). -/
def intOfBytes (bs : Bytes) : Int :=
  match bs with
  | [] => 0
  | a :: _ => if a.toNat ≥ 128 then (natOfBytes bs : Int) - (2 ^ (8 * bs.length) : Nat) else (natOfBytes bs : Int)

/-- `parseInt64`. -/
def parseInt64 (bs : Bytes) : Res Int :=
  if !checkInteger bs then .err else if bs.length > 8 then .err else .ok (intOfBytes bs)

/-- `parseBitString`: (padding bits, data) -/
def parseBitString : Bytes → Res (Nat × Bytes)
  | [] => .err
  | p :: data =>
    if p.toNat > 7 then .err
    else if data.isEmpty ∧ p.toNat > 0 then .err
    else
      match (p :: data).getLast? with
      | none => .err
      | some l => if l.toNat % (2 ^ p.toNat) ≠ 0 then .err else .ok (p.toNat, data)

/-- `parseBool` (strict DER). -/
def parseBool : Bytes → Res Bool
  | [b] => if b.toNat = 0 then .ok false else if b.toNat = 255 then .ok true else .err
  | _ => .err

/-! ### encoders of simple contents (`marshal.go`) -/

/-- minimal base-256 digits, most significant first (empty for 0). -/
def natDigits256 : Nat → Nat → Bytes
  | 0, _ => []
  | f + 1, n => if n = 0 then [] else natDigits256 f (n / 256) ++ [UInt8.ofNat (n % 256)]

/-- DER INTEGER contents of a natural number (`marshalBigInt` for n ≥ 0). -/
def encNatInt (n : Nat) : Bytes :=
  let ds := natDigits256 (n + 1) n
  match ds with
  | [] => [0]
  | a :: _ => if a.toNat ≥ 128 then 0 :: ds else ds

/-- base-128 digits, most significant first, continuation bit on all but the last (`appendBase128Int`). -/
def base128Aux : Nat → Nat → Bytes → Bytes
  | 0, _, acc => acc
  | f + 1, n, acc => if n = 0 then acc else base128Aux f (n / 128) (UInt8.ofNat (128 + n % 128) :: acc)

def encBase128 (n : Nat) : Bytes := base128Aux (n + 1) (n / 128) [UInt8.ofNat (n % 128)]

/-- OBJECT IDENTIFIER contents (`marshalObjectIdentifier`): needs ≥ 2 arcs, first ≤ 2, second < 40 when first < 2. -/
def encOID : List Nat → Option Bytes
  | a :: b :: rest =>
    if a > 2 ∨ (a < 2 ∧ b ≥ 40) then none
    else some (encBase128 (a * 40 + b) ++ (rest.map encBase128).flatten)
  | _ => none

end ZV.Der
