import ZV.Base
import ZV.Hash.SHA1
import ZV.Hash.SHA256
import ZV.Hash.SHA512
import ZV.Hash.MD5
/-!
  C28 — the client handshake log records what was exchanged.

  Model of the LOG MAPPING: for each handshake message that the client logs, the real parser
  (`tls/handshake_messages.go` unmarshal functions, `tls/key_agreement.go` processServerKeyExchange /
  verifyParameters) followed by the real log builder (`tls/tls_handshake.go` MakeLog, `tls/tls_ka.go`), as a
  pure function from the wire bytes of the message to the log record.  Signature verification and the
  "point is on the curve" test are abstract (arguments); everything else is computed.
-/
namespace ZV.C28

/-! ### cryptobyte-style readers -/

def u16 (a b : UInt8) : Nat := a.toNat * 256 + b.toNat

def takeN (n : Nat) (bs : Bytes) : Option (Bytes × Bytes) :=
  if n ≤ bs.length then some (bs.take n, bs.drop n) else none

def readU8 : Bytes → Option (Nat × Bytes)
  | [] => none
  | b :: r => some (b.toNat, r)

def readU16 : Bytes → Option (Nat × Bytes)
  | a :: b :: r => some (u16 a b, r)
  | _ => none

def readU24 : Bytes → Option (Nat × Bytes)
  | a :: b :: c :: r => some (a.toNat * 65536 + b.toNat * 256 + c.toNat, r)
  | _ => none

def readVec8 (bs : Bytes) : Option (Bytes × Bytes) :=
  match readU8 bs with
  | none => none
  | some (n, r) => takeN n r

def readVec16 (bs : Bytes) : Option (Bytes × Bytes) :=
  match readU16 bs with
  | none => none
  | some (n, r) => takeN n r

def readVec24 (bs : Bytes) : Option (Bytes × Bytes) :=
  match readU24 bs with
  | none => none
  | some (n, r) => takeN n r

/-- a vector that must fill its container exactly -/
def wholeVec8 (bs : Bytes) : Option Bytes :=
  match readVec8 bs with
  | some (v, []) => some v
  | _ => none

def wholeVec16 (bs : Bytes) : Option Bytes :=
  match readVec16 bs with
  | some (v, []) => some v
  | _ => none

/-- list of big-endian uint16 (odd length fails) -/
def u16s : Bytes → Option (List Nat)
  | [] => some []
  | [_] => none
  | a :: b :: r =>
    match u16s r with
    | none => none
    | some l => some (u16 a b :: l)

/-- extension block → list of (type, data) -/
def splitExts : (bs : Bytes) → Option (List (Nat × Bytes))
  | [] => some []
  | a :: b :: c :: d :: rest =>
    if u16 c d ≤ rest.length then
      match splitExts (rest.drop (u16 c d)) with
      | none => none
      | some l => some ((u16 a b, rest.take (u16 c d)) :: l)
    else none
  | _ => none
termination_by bs => bs.length
decreasing_by simp [List.length_drop]; omega

/-- sequence of uint16-length-prefixed items -/
def splitVec16s : (bs : Bytes) → Option (List Bytes)
  | [] => some []
  | c :: d :: rest =>
    if u16 c d ≤ rest.length then
      match splitVec16s (rest.drop (u16 c d)) with
      | none => none
      | some l => some (rest.take (u16 c d) :: l)
    else none
  | _ => none
termination_by bs => bs.length
decreasing_by simp [List.length_drop]; omega

/-- sequence of uint8-length-prefixed items -/
def splitVec8s : (bs : Bytes) → Option (List Bytes)
  | [] => some []
  | c :: rest =>
    if c.toNat ≤ rest.length then
      match splitVec8s (rest.drop c.toNat) with
      | none => none
      | some l => some (rest.take c.toNat :: l)
    else none
termination_by bs => bs.length
decreasing_by simp [List.length_drop]; omega

/-! ### ServerHello: `serverHelloMsg.unmarshal` + `MakeLog` -/

/-- the fixed part of a ServerHello -/
structure SHFixed where
  vers : Nat
  random : Bytes
  sid : Bytes
  suite : Nat
  comp : Nat
  deriving Repr, DecidableEq

/-- the fields of `serverHelloMsg` filled in by the extension loop -/
structure SHMsg where
  ocsp : Bool := false
  tick : Bool := false
  renegSup : Bool := false
  reneg : Bytes := []
  ems : Bool := false
  alpn : Bytes := []
  scts : List Bytes := []
  sv : Nat := 0
  shareGroup : Nat := 0
  selGroup : Nat := 0
  unknown : List Bytes := []
  deriving Repr, DecidableEq

def extBytes (id : Nat) (data : Bytes) : Bytes :=
  [UInt8.ofNat (id / 256), UInt8.ofNat id, UInt8.ofNat (data.length / 256), UInt8.ofNat data.length] ++ data

/-- one iteration of the ServerHello extension switch (including the trailing `!extData.Empty()` check) -/
def shExt (m : SHMsg) (id : Nat) (d : Bytes) : Option SHMsg :=
  if id = 5 then (if d.isEmpty then some { m with ocsp := true } else none)
  else if id = 35 then (if d.isEmpty then some { m with tick := true } else none)
  else if id = 0xff01 then
    match wholeVec8 d with
    | some v => some { m with reneg := v, renegSup := true }
    | none => none
  else if id = 16 then
    match wholeVec16 d with
    | some pl =>
      if pl.isEmpty then none else
      match wholeVec8 pl with
      | some p => if p.isEmpty then none else some { m with alpn := p }
      | none => none
    | none => none
  else if id = 18 then
    match wholeVec16 d with
    | some sl =>
      if sl.isEmpty then none else
      match splitVec16s sl with
      | some l => if l.any (·.isEmpty) then none else some { m with scts := m.scts ++ l }
      | none => none
    | none => none
  else if id = 43 then
    match readU16 d with
    | some (v, []) => some { m with sv := v }
    | _ => none
  else if id = 44 then
    match wholeVec16 d with
    | some c => if c.isEmpty then none else some m
    | none => none
  else if id = 51 then
    if d.length = 2 then
      match readU16 d with
      | some (g, _) => some { m with selGroup := g }
      | none => none
    else
      match readU16 d with
      | some (g, r) =>
        match wholeVec16 r with
        | some _ => some { m with shareGroup := g }
        | none => none
      | none => none
  else if id = 41 then
    match readU16 d with
    | some (_, []) => some m
    | _ => none
  else if id = 11 then
    match wholeVec8 d with
    | some p => if p.isEmpty then none else some m
    | none => none
  else if id = 23 then (if d.isEmpty then some { m with ems := true } else none)
  else
    -- default arm: recorded verbatim and skipped (`continue`), whatever data it carries
    some { m with unknown := m.unknown ++ [extBytes id d] }

def shExts (m : SHMsg) : List (Nat × Bytes) → Option SHMsg
  | [] => some m
  | (id, d) :: rest =>
    match shExt m id d with
    | none => none
    | some m' => shExts m' rest

/-- `serverHelloMsg.unmarshal` on a whole handshake message (4-byte header skipped, not checked);
    second component: the extension identifiers of `extractExtensions` (none = no extension block) -/
def parseSH (msg : Bytes) : Option (SHFixed × SHMsg × Option (List Nat)) :=
  match takeN 4 msg with
  | none => none
  | some (_, b0) =>
  match readU16 b0 with
  | none => none
  | some (vers, b1) =>
  match takeN 32 b1 with
  | none => none
  | some (random, b2) =>
  match readVec8 b2 with
  | none => none
  | some (sid, b3) =>
  match readU16 b3 with
  | none => none
  | some (suite, b4) =>
  match readU8 b4 with
  | none => none
  | some (comp, b5) =>
    let f : SHFixed := { vers := vers, random := random, sid := sid, suite := suite, comp := comp }
    let m : SHMsg := {}
    if b5.isEmpty then some (f, m, none) else
    match wholeVec16 b5 with
    | none => none
    | some blk =>
      match splitExts blk with
      | none => none
      | some es =>
        match shExts m es with
        | none => none
        | some m' => some (f, m', some (es.map (·.1)))

structure SHLog where
  version : Nat
  random : Bytes
  sessionID : Bytes
  cipherSuite : Nat
  compression : Nat
  ocsp : Bool
  ticket : Bool
  secureReneg : Bool
  ems : Bool
  alpn : Bytes
  selectedVersion : Nat      -- 0 = no supported_versions record
  keyShareGroup : Nat        -- 0 = no key_share record
  extIds : List Nat
  scts : List Bytes
  unknown : List Bytes
  deriving Repr, DecidableEq

/-- `serverHelloMsg.MakeLog` -/
def shLog (f : SHFixed) (m : SHMsg) (ids : Option (List Nat)) : SHLog :=
  { version := f.vers, random := f.random, sessionID := f.sid, cipherSuite := f.suite, compression := f.comp,
    ocsp := m.ocsp, ticket := m.tick, secureReneg := m.renegSup && decide (m.reneg.length > 0), ems := m.ems,
    alpn := m.alpn,
    selectedVersion := m.sv,
    keyShareGroup := if m.sv ≠ 0 then (if m.shareGroup ≠ 0 then m.shareGroup else m.selGroup) else 0,
    extIds := match ids with | some l => l | none => [],
    scts := m.scts, unknown := m.unknown }

/-! ### Certificate (TLS ≤ 1.2): `certificateMsg.unmarshal` + `MakeLog` -/

/-- the counting loop of `certificateMsg.unmarshal`: every entry needs `len(d) ≥ 4` -/
def certEntries : (d : Bytes) → Option (List Bytes)
  | [] => some []
  | a :: b :: c :: rest =>
    if rest.length < 1 then none
    else if a.toNat * 65536 + b.toNat * 256 + c.toNat ≤ rest.length then
      match certEntries (rest.drop (a.toNat * 65536 + b.toNat * 256 + c.toNat)) with
      | none => none
      | some l => some (rest.take (a.toNat * 65536 + b.toNat * 256 + c.toNat) :: l)
    else none
  | _ => none
termination_by d => d.length
decreasing_by simp [List.length_drop]; omega

def parseCerts (msg : Bytes) : Option (List Bytes) :=
  if msg.length < 7 then none else
  match readU24 (msg.drop 4) with
  | none => none
  | some (n, d) => if msg.length ≠ n + 7 then none else certEntries d

structure CertLog where
  leaf : Bytes
  chain : List Bytes
  deriving Repr, DecidableEq

/-- `certificateMsg.MakeLog` -/
def certLog : List Bytes → CertLog
  | [] => ⟨[], []⟩
  | c :: rest => ⟨c, rest⟩

/-! ### Finished -/
def parseFin (msg : Bytes) : Option Bytes :=
  match msg with
  | [] => none
  | _ :: r =>
    match readVec24 r with
    | some (v, []) => some v
    | _ => none

/-! ### ServerKeyExchange -/

/-- big.Int.SetBytes().Bytes(): leading zero bytes are dropped -/
def stripZeros : Bytes → Bytes
  | [] => []
  | b :: r => if b = 0 then stripZeros r else b :: r

def natOf (bs : Bytes) : Nat := bs.foldl (fun a b => a * 256 + b.toNat) 0

inductive KeyType | rsa | ecdsa | ed25519
  deriving Repr, DecidableEq

/-- internal signature-type constants of tls/common.go -/
def sigRSA : Nat := 1
def sigPKCS1v15 : Nat := 227
def sigRSAPSS : Nat := 228
def sigECDSA : Nat := 229
def sigEd25519 : Nat := 230

/-- TLS HashAlgorithm ids (RFC 5246 7.4.1.4.1) -/
def hSHA1 : Nat := 2
def hSHA256 : Nat := 4
def hSHA384 : Nat := 5
def hSHA512 : Nat := 6
def hIntrinsic : Nat := 8
def hMD5SHA1 : Nat := 0   -- pre-TLS1.2 default (crypto.MD5SHA1 has no TLS id; never logged)

/-- `typeAndHashFromSignatureScheme`: (sigType, TLS hash id of the scheme's hash) -/
def typeAndHash (scheme : Nat) : Option (Nat × Nat) :=
  if scheme = 0x0201 then some (sigPKCS1v15, hSHA1)
  else if scheme = 0x0401 then some (sigPKCS1v15, hSHA256)
  else if scheme = 0x0501 then some (sigPKCS1v15, hSHA384)
  else if scheme = 0x0601 then some (sigPKCS1v15, hSHA512)
  else if scheme = 0x0804 then some (sigRSAPSS, hSHA256)
  else if scheme = 0x0805 then some (sigRSAPSS, hSHA384)
  else if scheme = 0x0806 then some (sigRSAPSS, hSHA512)
  else if scheme = 0x0203 then some (sigECDSA, hSHA1)
  else if scheme = 0x0403 then some (sigECDSA, hSHA256)
  else if scheme = 0x0503 then some (sigECDSA, hSHA384)
  else if scheme = 0x0603 then some (sigECDSA, hSHA512)
  else if scheme = 0x0807 then some (sigEd25519, hIntrinsic)
  else none

/-- `legacyTypeAndHashFromPublicKey` -/
def legacyTypeAndHash : KeyType → Option (Nat × Nat)
  | .rsa => some (sigPKCS1v15, hMD5SHA1)
  | .ecdsa => some (sigECDSA, hSHA1)
  | .ed25519 => none

/-- the digest of `hashForServerKeyExchange` for the ECDHE path (hash given by TLS id; 0 = MD5‖SHA1) -/
def skxDigest (sigType hashId : Nat) (tls12 : Bool) (signed : Bytes) : Bytes :=
  if sigType = sigEd25519 then signed
  else if tls12 then
    (if hashId = hSHA1 then ZV.Hash.sha1 signed
     else if hashId = hSHA256 then ZV.Hash.sha256 signed
     else if hashId = hSHA384 then ZV.Hash.sha384 signed
     else if hashId = hSHA512 then ZV.Hash.sha512 signed
     else if hashId = 1 then ZV.Hash.md5 signed
     else if hashId = 3 then ZV.Hash.sha224 signed
     else [])
  else if sigType = sigECDSA then ZV.Hash.sha1 signed
  else ZV.Hash.md5 signed ++ ZV.Hash.sha1 signed

structure SigLog where
  type : String           -- `Type`: from the cipher suite's key agreement ("rsa" / "ecdsa")
  hasSigHash : Bool       -- SigHashExtension present (TLS ≥ 1.2)
  sig : Nat               -- SigHashExtension.Signature
  hash : Nat              -- SigHashExtension.Hash
  raw : Bytes
  version : Nat
  deriving Repr, DecidableEq

structure ECDHELog where
  curve : Nat
  x : Bytes               -- big-endian magnitude of X (leading zeros stripped)
  y : Option Bytes        -- none for X25519
  sig : SigLog
  digest : Bytes
  deriving Repr, DecidableEq

def coordLen (curve : Nat) : Option Nat :=
  if curve = 23 then some 32 else if curve = 24 then some 48 else if curve = 25 then some 66 else none

/-- `(*ecdheKeyAgreement).processServerKeyExchange` + `serverKeyExchangeMsg.MakeLog` + `Signature()`.
    `key` = body of the message (after the 4-byte header); `pointOK` = the share is a valid public key;
    result `none` = rejected before the signature check (nothing is logged). -/
def ecdheLog (vers : Nat) (isRSA : Bool) (kt : KeyType) (clientSigAlgs : List Nat) (pointOK : Bool)
    (cr sr : Bytes) (key : Bytes) : Option ECDHELog :=
  match key with
  | ct :: c1 :: c2 :: pl :: rest =>
    if ct ≠ 3 then none else
    if pl.toNat > rest.length then none else
    let curve := u16 c1 c2
    let pub := rest.take pl.toNat
    let sig0 := rest.drop pl.toNat
    if sig0.length < 2 then none else
    if curve ≠ 29 ∧ (coordLen curve).isNone then none else
    if !pointOK then none else
    let params := ct :: c1 :: c2 :: pl :: pub
    let tls12 := decide (vers ≥ 0x0303)
    -- signature algorithm
    let algo : Option (Nat × Nat × Bytes) :=
      if tls12 then
        match sig0 with
        | a :: b :: sig1 =>
          if sig1.length < 2 then none
          else if !(clientSigAlgs.contains (u16 a b)) then none
          else match typeAndHash (u16 a b) with
            | none => none
            | some (t, h) => some (t, h, sig1)
        | _ => none
      else
        match legacyTypeAndHash kt with
        | none => none
        | some (t, h) => some (t, h, sig0)
    match algo with
    | none => none
    | some (sigType, hashId, sig1) =>
      if (decide (sigType = sigPKCS1v15) || decide (sigType = sigRSAPSS)) != isRSA then none else
      match sig1 with
      | l1 :: l2 :: sig =>
        if u16 l1 l2 ≠ sig.length then none else
        let xy : Bytes × Option Bytes :=
          if curve = 29 then (stripZeros pub, none)
          else match coordLen curve with
            | some n => (stripZeros ((pub.drop 1).take n), some (stripZeros (pub.drop (1 + n))))
            | none => ([], none)
        some { curve := curve, x := xy.1, y := xy.2,
               sig := { type := if isRSA then "rsa" else "ecdsa", hasSigHash := tls12, sig := sigType, hash := hashId,
                        raw := sig, version := vers },
               digest := skxDigest sigType hashId tls12 (cr ++ sr ++ params) }
      | _ => none
  | _ => none

structure DHELog where
  p : Bytes
  g : Bytes
  ys : Bytes
  sig : SigLog
  digest : Bytes
  deriving Repr, DecidableEq

/-- `defaultSKXSignatureAlgorithms` restricted to RSA: the hashes a default client accepts for DHE_RSA -/
def dheClientHashes : List Nat := [hSHA256, hSHA1, hSHA384, hSHA512]

/-- `(*signedKeyAgreement).verifyParameters` as far as it fills the log: (sig, hash, raw, digest);
    the record exists whenever the parameters parsed (client running with InsecureSkipVerify). -/
def dheSigPart (vers : Nat) (cr sr params sig0 : Bytes) : SigLog × Bytes :=
  let tls12 := decide (vers ≥ 0x0303)
  let blank : SigLog := { type := "rsa", hasSigHash := tls12, sig := 0, hash := 0, raw := [], version := vers }
  if sig0.length < 2 then (blank, []) else
  if tls12 then
    match sig0 with
    | h :: s :: sig1 =>
      let l1 : SigLog := { blank with sig := s.toNat, hash := h.toNat }
      if s.toNat ≠ sigRSA then (l1, [])
      else if sig1.length < 2 then (l1, [])
      else if !(dheClientHashes.contains h.toNat) then (l1, [])
      else
        match sig1 with
        | a :: b :: sig =>
          if u16 a b ≠ sig.length then (l1, [])
          else ({ l1 with raw := sig }, skxDigest sigRSA h.toNat true (cr ++ sr ++ params))
        | _ => (l1, [])
    | _ => (blank, [])
  else
    match sig0 with
    | a :: b :: sig =>
      if u16 a b ≠ sig.length then (blank, [])
      else ({ blank with raw := sig }, skxDigest sigRSA 0 false (cr ++ sr ++ params))
    | _ => (blank, [])

/-- `(*dheKeyAgreement).processServerKeyExchange` + MakeLog -/
def dheLog (vers : Nat) (cr sr : Bytes) (key : Bytes) : Option DHELog :=
  match readVec16 key with
  | none => none
  | some (p, k1) =>
  match readVec16 k1 with
  | none => none
  | some (g, k2) =>
  match readVec16 k2 with
  | none => none
  | some (ys, sig0) =>
    if natOf ys = 0 ∨ natOf ys ≥ natOf p then none else
    let params := key.take (key.length - sig0.length)
    let sp := dheSigPart vers cr sr params sig0
    some { p := stripZeros p, g := stripZeros g, ys := stripZeros ys, sig := sp.1, digest := sp.2 }

/-! ### ClientHello: `clientHelloMsg.unmarshal` + `MakeLog` -/

/-- the fixed part of a ClientHello -/
structure CHFixed where
  vers : Nat
  random : Bytes
  sid : Bytes
  suites : List Nat
  comps : Bytes
  deriving Repr, DecidableEq

/-- the fields of `clientHelloMsg` that depend on the extensions (and the SCSV) -/
structure CHMsg where
  renegSup : Bool := false
  reneg : Bytes := []
  ocsp : Bool := false
  tick : Bool := false
  ticket : Bytes := []
  sni : Bytes := []
  scts : Bool := false
  curves : List Nat := []
  points : Bytes := []
  sv : List Nat := []
  sigAlgs : List Nat := []
  alpn : List Bytes := []
  ems : Bool := false
  xrand : Bytes := []
  deriving Repr, DecidableEq

/-- SNI name list entries: (type, name) with non-empty names -/
def sniEntries : (bs : Bytes) → Option (List (Nat × Bytes))
  | [] => some []
  | t :: c :: d :: rest =>
    if u16 c d = 0 then none
    else if u16 c d ≤ rest.length then
      match sniEntries (rest.drop (u16 c d)) with
      | none => none
      | some l => some ((t.toNat, rest.take (u16 c d)) :: l)
    else none
  | _ => none
termination_by bs => bs.length
decreasing_by simp [List.length_drop]; omega

/-- the name loop: only type 0 counts, a second one is an error, a trailing dot is an error.
    (The Go loop interleaves reading and checking; all failures are the same `false`.) -/
def sniPick (cur : Bytes) : List (Nat × Bytes) → Option Bytes
  | [] => some cur
  | (t, n) :: rest =>
    if t ≠ 0 then sniPick cur rest
    else if cur.length ≠ 0 then none
    else if n.getLast? = some 46 then none
    else sniPick n rest

/-- key_share entries: group, non-empty data -/
def keyShares : (bs : Bytes) → Option Unit
  | [] => some ()
  | _ :: _ :: c :: d :: rest =>
    if u16 c d = 0 then none
    else if u16 c d ≤ rest.length then keyShares (rest.drop (u16 c d))
    else none
  | _ => none
termination_by bs => bs.length
decreasing_by simp [List.length_drop]; omega

/-- PSK identities: label (non-empty, uint16 length) + uint32 age -/
def pskIds : (bs : Bytes) → Option Unit
  | [] => some ()
  | c :: d :: rest =>
    if u16 c d = 0 then none
    else if u16 c d + 4 ≤ rest.length then pskIds (rest.drop (u16 c d + 4))
    else none
  | _ => none
termination_by bs => bs.length
decreasing_by simp [List.length_drop]; omega

def chExt (m : CHMsg) (id : Nat) (d : Bytes) (isLast : Bool) : Option CHMsg :=
  if id = 0 then
    match wholeVec16 d with
    | some nl =>
      if nl.isEmpty then none else
      match sniEntries nl with
      | some es =>
        match sniPick m.sni es with
        | some n => some { m with sni := n }
        | none => none
      | none => none
    | none => none
  else if id = 5 then
    match readU8 d with
    | some (st, r) =>
      match readVec16 r with
      | some (_, r2) =>
        match wholeVec16 r2 with
        | some _ => some { m with ocsp := decide (st = 1) }
        | none => none
      | none => none
    | none => none
  else if id = 10 then
    match wholeVec16 d with
    | some cs =>
      if cs.isEmpty then none else
      match u16s cs with
      | some l => some { m with curves := m.curves ++ l }
      | none => none
    | none => none
  else if id = 11 then
    match wholeVec8 d with
    | some p => if p.isEmpty then none else some { m with points := p }
    | none => none
  else if id = 35 then some { m with tick := true, ticket := d }
  else if id = 13 then
    match wholeVec16 d with
    | some cs =>
      if cs.isEmpty then none else
      match u16s cs with
      | some l => some { m with sigAlgs := m.sigAlgs ++ l }
      | none => none
    | none => none
  else if id = 50 then
    match wholeVec16 d with
    | some cs => if cs.isEmpty then none else (match u16s cs with | some _ => some m | none => none)
    | none => none
  else if id = 0xff01 then
    match wholeVec8 d with
    | some v => some { m with reneg := v, renegSup := true }
    | none => none
  else if id = 16 then
    match wholeVec16 d with
    | some pl =>
      if pl.isEmpty then none else
      match splitVec8s pl with
      | some l => if l.any (·.isEmpty) then none else some { m with alpn := m.alpn ++ l }
      | none => none
    | none => none
  else if id = 18 then (if d.isEmpty then some { m with scts := true } else none)
  else if id = 43 then
    match wholeVec8 d with
    | some vl =>
      if vl.isEmpty then none else
      match u16s vl with
      | some l => some { m with sv := m.sv ++ l }
      | none => none
    | none => none
  else if id = 44 then
    match wholeVec16 d with
    | some c => if c.isEmpty then none else some m
    | none => none
  else if id = 51 then
    match wholeVec16 d with
    | some ks => (match keyShares ks with | some _ => some m | none => none)
    | none => none
  else if id = 42 then (if d.isEmpty then some m else none)
  else if id = 45 then (match wholeVec8 d with | some _ => some m | none => none)
  else if id = 41 then
    if !isLast then none else
    match readVec16 d with
    | some (ids, r) =>
      if ids.isEmpty then none else
      match pskIds ids with
      | none => none
      | some _ =>
        match wholeVec16 r with
        | some bl =>
          if bl.isEmpty then none else
          match splitVec8s bl with
          | some l => if l.any (·.isEmpty) then none else some m
          | none => none
        | none => none
    | none => none
  else if id = 0x28 then
    match wholeVec16 d with
    | some er => if er.isEmpty then none else some { m with xrand := er }
    | none => none
  else if id = 23 then (if d.isEmpty then some { m with ems := true } else none)
  else some m   -- unknown extensions are ignored (`continue`)

def chExts (m : CHMsg) : List (Nat × Bytes) → Option CHMsg
  | [] => some m
  | (id, d) :: rest =>
    match chExt m id d rest.isEmpty with
    | none => none
    | some m' => chExts m' rest

def parseCH (msg : Bytes) : Option (CHFixed × CHMsg) :=
  match takeN 4 msg with
  | none => none
  | some (_, b0) =>
  match readU16 b0 with
  | none => none
  | some (vers, b1) =>
  match takeN 32 b1 with
  | none => none
  | some (random, b2) =>
  match readVec8 b2 with
  | none => none
  | some (sid, b3) =>
  match readVec16 b3 with
  | none => none
  | some (cs, b4) =>
  match u16s cs with
  | none => none
  | some suites =>
  match readVec8 b4 with
  | none => none
  | some (comps, b5) =>
    let f : CHFixed := { vers := vers, random := random, sid := sid, suites := suites, comps := comps }
    let m : CHMsg := { renegSup := suites.contains 0x00ff }
    if b5.isEmpty then some (f, m) else
    match wholeVec16 b5 with
    | none => none
    | some blk =>
      match splitExts blk with
      | none => none
      | some es =>
        match chExts m es with
        | none => none
        | some m' => some (f, m')

/-- `signatureAlgorithms` table of tls/common.go: scheme → (Signature, Hash) of the log -/
def sigAlgTable : List (Nat × Nat × Nat) :=
  [ (0x0804, sigRSA, hSHA256), (0x0403, sigECDSA, hSHA256), (0x0807, sigEd25519, hSHA256),
    (0x0805, sigRSA, hSHA384), (0x0806, sigRSA, hSHA512), (0x0401, sigRSA, hSHA256),
    (0x0501, sigRSA, hSHA384), (0x0601, sigRSA, hSHA512), (0x0503, sigECDSA, hSHA384),
    (0x0603, sigECDSA, hSHA512), (0x0201, sigRSA, hSHA1), (0x0203, sigECDSA, hSHA1) ]

def sigAlgLookup (s : Nat) : Option (Nat × Nat) :=
  match sigAlgTable.find? (fun e => e.1 == s) with
  | some (_, sg, h) => some (sg, h)
  | none => none

structure CHLog where
  version : Nat
  random : Bytes
  sessionID : Bytes
  suites : List Nat
  comps : Bytes
  ocsp : Bool
  ticket : Bool
  secureReneg : Bool
  sni : Bytes
  scts : Bool
  curves : List Nat
  points : Bytes
  sv : List Nat
  sessionTicket : Option (Nat × Bytes)   -- (Length, Value)
  sigHashes : List (Nat × Nat)
  alpn : List Bytes
  ems : Bool
  xrand : Bytes
  deriving Repr, DecidableEq

/-- `clientHelloMsg.MakeLog` (Heartbeat is never filled in; ExtendedMasterSecret / ExtendedRandom are copied
    from the message since the D39 fix) -/
def chLog (f : CHFixed) (m : CHMsg) : CHLog :=
  { version := f.vers, random := f.random, sessionID := f.sid, suites := f.suites, comps := f.comps,
    ocsp := m.ocsp, ticket := m.tick, secureReneg := m.renegSup && decide (m.reneg.length > 0),
    sni := m.sni, scts := m.scts, curves := m.curves, points := m.points, sv := m.sv,
    sessionTicket := if m.ticket.length > 0 then some (m.ticket.length, m.ticket) else none,
    sigHashes := m.sigAlgs.filterMap sigAlgLookup,
    alpn := m.alpn, ems := m.ems, xrand := m.xrand }

/-! ### Certificate (TLS 1.3): `certificateMsgTLS13.unmarshal` (`unmarshalCertificate`) + `MakeLog` -/

/-- the entry loop of `unmarshalCertificate`: `cert_data<0..2^24-1> ‖ extensions<0..2^16-1>` per entry -/
def cert13Entries : (d : Bytes) → Option (List (Bytes × Bytes))
  | [] => some []
  | a :: b :: c :: rest =>
    if a.toNat * 65536 + b.toNat * 256 + c.toNat ≤ rest.length then
      match rest.drop (a.toNat * 65536 + b.toNat * 256 + c.toNat) with
      | e1 :: e2 :: r2 =>
        if u16 e1 e2 ≤ r2.length then
          -- the remaining input `r2.drop (u16 e1 e2)`, written as a suffix of `rest`
          match cert13Entries (rest.drop (a.toNat * 65536 + b.toNat * 256 + c.toNat + 2 + u16 e1 e2)) with
          | none => none
          | some l => some ((rest.take (a.toNat * 65536 + b.toNat * 256 + c.toNat), r2.take (u16 e1 e2)) :: l)
        else none
      | _ => none
    else none
  | _ => none
termination_by d => d.length
decreasing_by simp [List.length_drop]; omega

/-- extensions of the LEAF entry (`len(certificate.Certificate) == 1`): status_request must carry a non-empty OCSP
    response, signed_certificate_timestamp a non-empty list of non-empty SCTs; others are ignored.
    Returns (OCSPStaple != nil, SignedCertificateTimestamps != nil). -/
def cert13LeafExts (ocsp scts : Bool) : List (Nat × Bytes) → Option (Bool × Bool)
  | [] => some (ocsp, scts)
  | (id, d) :: rest =>
    if id = 5 then
      match d with
      | [] => none
      | st :: r =>
        if st.toNat ≠ 1 then none else
        match readVec24 r with
        | some (staple, []) => if staple.isEmpty then none else cert13LeafExts true scts rest
        | _ => none
    else if id = 18 then
      match wholeVec16 d with
      | none => none
      | some lst =>
        if lst.isEmpty then none else
        match splitVec16s lst with
        | none => none
        | some items => if items.any (·.isEmpty) then none else cert13LeafExts ocsp true rest
    else cert13LeafExts ocsp scts rest

structure Cert13 where
  certs : List Bytes
  ocsp : Bool
  scts : Bool
  deriving Repr, DecidableEq

/-- `certificateMsgTLS13.unmarshal`: 4 header bytes skipped (the length field is not looked at), empty
    certificate_request_context, one 24-bit list filling the rest; the extension block of EVERY entry must be
    well-formed, only the leaf's extensions are interpreted. -/
def parseCerts13 (msg : Bytes) : Option Cert13 :=
  if msg.length < 4 then none else
  match readVec8 (msg.drop 4) with
  | some ([], r) =>
    match readVec24 r with
    | some (lst, []) =>
      match cert13Entries lst with
      | none => none
      | some es =>
        if es.all (fun e => (splitExts e.2).isSome) then
          match es with
          | [] => some ⟨[], false, false⟩
          | (_, ex) :: _ =>
            match splitExts ex with
            | none => none
            | some xs =>
              match cert13LeafExts false false xs with
              | none => none
              | some (o, s) => some ⟨es.map (·.1), o, s⟩
        else none
    | _ => none
  | _ => none

/-- `certificateMsgTLS13.MakeLog` is the same leaf / chain split as `certificateMsg.MakeLog` -/
def cert13Log (r : Cert13) : CertLog := certLog r.certs

end ZV.C28
