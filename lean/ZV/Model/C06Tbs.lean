import ZV.Model.C06
import ZV.Model.Time
/-!
  C06, second entry point and the TBS-derived scalar fields.

  * `parseTbsCert` — `x509.ParseTBSCertificate`: `asn1.Unmarshal` into a `tbsCertificate` (the SAME field walk as the
    TBS inside `ParseCertificate`: `parseTbs`), trailing data rejected, then
    `parseCertificate(&certificate{Raw: tbs.Raw, TBSCertificate: tbs})`: `Raw` AND `RawTBSCertificate` are the TBS
    element, the outer signature algorithm / value are zero values.
  * `parseValidity` — `asn1.Unmarshal` of `validity{NotBefore, NotAfter time.Time}` inside `parseField`: each field is a
    universal primitive UTCTime (23) or GeneralizedTime (24) element, decoded by `parseUTCTime` /
    `parseGeneralizedTime` (shared model `ZV.Time.EA`, strict: `AllowPermissiveParsing = false`); trailing elements of
    the SEQUENCE are ignored.
  * `validityPeriod` — `int(out.NotAfter.Sub(out.NotBefore).Seconds())`: `Time.Sub` saturates at ±(2^63−1) ns.
  * `sigAlgOID` — `out.SignatureAlgorithmOID = in.TBSCertificate.SignatureAlgorithm.Algorithm`: the INNER
    AlgorithmIdentifier (the outer one is not consulted by `parseCertificate`).
-/
namespace ZV.C06
open ZV ZV.Der

/-- `ParseTBSCertificate`, structural part: one SEQUENCE, no trailing data, the TBS field walk. -/
def parseTbsCert (bs : Bytes) : Res (Elem × Tbs) :=
  (someElem (field (.univ 16 true) false bs)).bind fun t =>
  if !t.2.isEmpty then .err else
  (parseTbs t.1.body).bind fun tbs => .ok (t.1, tbs)

/-- zero `asn1.RawValue` / `asn1.BitString` -/
def noElem : Elem := ⟨⟨0, false, 0, 0⟩, [], []⟩

/-- the `certificate` value `ParseTBSCertificate` hands to `parseCertificate`: `Raw = tbs.Raw`. -/
def tbsAsCert (t : Elem) (tbs : Tbs) : Cert := ⟨t, t, tbs, noElem, noElem⟩

/-- offsets of the raw fields inside `Raw` when `Raw` is the TBS element itself -/
def tbsOffIssuer (t : Elem) (tbs : Tbs) : Nat :=
  hlen t + tbs.verRaw.length + tbs.serial.full.length + tbs.sigalg.full.length
def tbsOffSubject (t : Elem) (tbs : Tbs) : Nat :=
  tbsOffIssuer t tbs + tbs.issuer.full.length + tbs.validity.full.length
def tbsOffSPKI (t : Elem) (tbs : Tbs) : Nat := tbsOffSubject t tbs + tbs.subject.full.length

/-! ### Validity -/

/-- `parseField` for a `time.Time` struct field (not optional): `getUniversalType` says UTCTime, a universal
    GeneralizedTime header switches the expected tag to 24; class, tag and the primitive bit are compared. -/
def timeField (bs : Bytes) : Res (Time.GoTime × Bytes) :=
  if bs.isEmpty then .err
  else
    match readHdr bs with
    | .ok (h, _) =>
      let ut : Nat := if h.cls == 0 && h.tag == 24 then 24 else 23
      if !(Want.univ ut false).ok h then .err
      else
        match readElem bs with
        | .ok (e, rest) =>
          (match Time.EA.parseTimeBody false ut e.body with
           | .ok t => .ok (t, rest)
           | .err => .err
           | .panic => .panic)
        | .err => .err
        | .panic => .panic
    | .err => .err
    | .panic => .panic

/-- `validity{NotBefore, NotAfter}` from the contents of the Validity SEQUENCE (trailing elements ignored). -/
def parseValidity (body : Bytes) : Res (Time.GoTime × Time.GoTime) :=
  (timeField body).bind fun nb =>
  (timeField nb.2).bind fun na => .ok (nb.1, na.1)

def maxDuration : Int := 9223372036854775807
def minDuration : Int := -9223372036854775808

/-- `t.Sub(u)` in nanoseconds: the exact difference when it fits a `Duration`, else saturated. -/
def timeSub (t u : Time.GoTime) : Int :=
  let d : Int := (t.unix - u.unix) * 1000000000 + ((t.nsec : Int) - (u.nsec : Int))
  if d > maxDuration then maxDuration else if d < minDuration then minDuration else d

/-- `int(d.Seconds())`: truncation towards zero (exact for the whole-second durations strict DER times give). -/
def validityPeriod (nb na : Time.GoTime) : Int :=
  let d := timeSub na nb
  if d ≥ 0 then d / 1000000000 else -((-d) / 1000000000)

/-! ### inner signature AlgorithmIdentifier -/

/-- arcs of an OBJECT IDENTIFIER contents string after the first sub-identifier (`parseObjectIdentifier` loop) -/
def oidArcsFuel : Nat → Bytes → Res (List Nat)
  | 0, bs => if bs.isEmpty then .ok [] else .err
  | f + 1, bs =>
    if bs.isEmpty then .ok []
    else
      match readBase128 5 0 0 bs with
      | .ok (v, rest) =>
        (match oidArcsFuel f rest with
         | .ok vs => .ok (v :: vs)
         | .err => .err
         | .panic => .panic)
      | .err => .err
      | .panic => .panic

/-- `parseObjectIdentifier`: first sub-identifier v ↦ (v/40, v%40) below 80, (2, v−80) from 80 on. -/
def parseOID (bs : Bytes) : Res (List Nat) :=
  if bs.isEmpty then .err
  else
    match readBase128 5 0 0 bs with
    | .ok (v, rest) =>
      (match oidArcsFuel rest.length rest with
       | .ok vs => if v < 80 then .ok (v / 40 :: v % 40 :: vs) else .ok (2 :: (v - 80) :: vs)
       | .err => .err
       | .panic => .panic)
    | .err => .err
    | .panic => .panic

/-- `AlgorithmIdentifier.Algorithm` of an AlgorithmIdentifier element (first field, OBJECT IDENTIFIER). -/
def algOID (e : Elem) : Res (List Nat) :=
  match field (.univ 6 false) false e.body with
  | .ok (some id, _) => parseOID id.body
  | .ok (none, _) => .err
  | .err => .err
  | .panic => .panic

/-! ### the scalar fields `parseCertificate` derives from the TBS alone -/

structure TbsInfo where
  notBefore : Int          -- NotBefore.Unix()
  notAfter : Int           -- NotAfter.Unix()
  period : Int             -- ValidityPeriod
  sigAlgOID : List Nat     -- SignatureAlgorithmOID (inner AlgorithmIdentifier)
  deriving Repr, DecidableEq

def tbsInfo (tbs : Tbs) : Res TbsInfo :=
  (parseValidity tbs.validity.body).bind fun v =>
  (algOID tbs.sigalg).bind fun o =>
  .ok ⟨v.1.unix, v.2.unix, validityPeriod v.1 v.2, o⟩

/-- `ParseTBSCertificate` including the two decoders above (`parseCertificate` returns their errors). -/
def parseTbsCertFull (bs : Bytes) : Res (Elem × Tbs × TbsInfo) :=
  (parseTbsCert bs).bind fun x =>
  (tbsInfo x.2).bind fun i => .ok (x.1, x.2, i)

end ZV.C06
