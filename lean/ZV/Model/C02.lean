import ZV.Model.C01
/-!
  Models for C02 (operations on any parsed certificate are total and deterministic).

  * the policy loop of `parseCertificate` (x509/x509.go, case 32) producing the parallel arrays
    `PolicyIdentifiers / CPSuri / ParsedExplicitTexts / ParsedNoticeRefOrganization / NoticeRefNumbers /
    UserNotices`, and `(*CertificatePoliciesData).MarshalJSON` (x509/extensions.go) over them — the
    current code (iterating `UserNotices`, fix D6) and the previous index logic (`policiesJSONOld`);
  * `purgeNameDuplicates` (x509/json.go): Go builds a map and sorts its keys; the map iteration order
    is arbitrary, so the model is given as insertion into a strictly sorted list, and the theorem says
    the result does not depend on the order of the input;
  * the key-type dispatch of `CheckSignatureFromKey` for the keys `parsePublicKey` can return.
-/
namespace ZV.C02
open ZV.C01

/-! ## certificate policies -/

/-- one decoded `userNotice`: explicit text (`some ""` = present but empty) and notice reference -/
structure NoticeIn where
  text : Option String
  ref  : Option (String × List Nat)
  deriving Repr, DecidableEq

/-- one decoded `policyInformation`: number of CPS-URI qualifiers and the user notices, in order -/
structure PolicyIn where
  cps : List String
  notices : List NoticeIn
  deriving Repr, DecidableEq

/-- `x509.UserNotice` -/
structure UserNotice where
  explicitText : Option String
  noticeRef : Option (String × List Nat)
  deriving Repr, DecidableEq

/-- the arrays `parseCertificate` fills (all indexed by the policy position) -/
structure PolData where
  policyIds : List Nat                 -- one entry per policy (the OID is irrelevant here)
  cpsUri : List (List String)
  explicitTexts : List (List String)
  noticeRefOrg : List (List String)
  noticeRefNumbers : List (List (List Nat))
  userNotices : List (List UserNotice)
  deriving Repr, DecidableEq

/-- `if len(un.ExplicitText.Bytes) != 0`: an explicit text that is present but empty counts as absent -/
def textOf (n : NoticeIn) : Option String :=
  match n.text with
  | some t => if t.length = 0 then none else some t
  | none => none

/-- the inner qualifier loop for one policy -/
def noticeArrays (ns : List NoticeIn) : List String × List String × List (List Nat) × List UserNotice :=
  ns.foldl (fun (acc : List String × List String × List (List Nat) × List UserNotice) n =>
    let (texts, orgs, nums, uns) := acc
    let texts' := match textOf n with | some t => texts ++ [t] | none => texts
    let (orgs', nums') := match n.ref with
      | some (o, k) => (orgs ++ [o], nums ++ [k])
      | none => (orgs, nums)
    (texts', orgs', nums', uns ++ [{ explicitText := textOf n, noticeRef := n.ref }])) ([], [], [], [])

/-- `parseCertificate`, case 32: `make(…, len(policies))` for every array, then the loops -/
def parsePolicies (ps : List PolicyIn) : PolData :=
  { policyIds := (List.range ps.length),
    cpsUri := ps.map (·.cps),
    explicitTexts := ps.map (fun p => (noticeArrays p.notices).1),
    noticeRefOrg := ps.map (fun p => (noticeArrays p.notices).2.1),
    noticeRefNumbers := ps.map (fun p => (noticeArrays p.notices).2.2.1),
    userNotices := ps.map (fun p => (noticeArrays p.notices).2.2.2) }

/-- Go `a[i]` on a list-modelled slice -/
def at? {α} (l : List α) (i : Nat) : Res α :=
  match l[i]? with
  | some a => .ok a
  | none => .panic

/-- JSON view of one user notice: (explicit_text, notice_reference) -/
abbrev NoticeOut := Option String × Option (String × List Nat)

/-- `(*CertificatePoliciesData).MarshalJSON` after fix D6: per policy `cp.CPSUri[idx]` and
    `cp.UserNotices[idx]` are indexed by the policy position; notices with neither field are skipped. -/
def policiesJSON (d : PolData) : Res (List (Nat × List NoticeOut)) :=
  (List.range d.policyIds.length).foldl (fun (acc : Res (List (Nat × List NoticeOut))) idx =>
    match acc with
    | .ok out =>
      match at? d.cpsUri idx, at? d.userNotices idx with
      | .ok cps, .ok uns =>
        let notices : List NoticeOut := (uns.filter (fun u => u.explicitText.isSome || u.noticeRef.isSome)).map
          (fun u => (u.explicitText, u.noticeRef))
        .ok (out ++ [(cps.length, notices)])
      | .panic, _ => .panic
      | _, .panic => .panic
      | _, _ => .err
    | r => r) (.ok [])

/-- the index logic before the fix: `NoticeRefOrganization[idx][idx2]` and `NoticeRefNumbers[idx][idx2]`
    with `idx2` ranging over the explicit texts. -/
def noticesOld (texts orgs : List String) (nums : List (List Nat)) : Res (List NoticeOut) :=
  (List.range texts.length).foldl (fun (acc : Res (List NoticeOut)) idx2 =>
    match acc with
    | .ok out =>
      match at? texts idx2 with
      | .ok t =>
        if orgs.length > 0 then
          match at? orgs idx2, at? nums idx2 with
          | .ok o, .ok k => .ok (out ++ [(some t, some (o, k))])
          | _, _ => .panic
        else .ok (out ++ [(some t, none)])
      | _ => .panic
    | r => r) (.ok [])

def policiesJSONOld (d : PolData) : Res (List (Nat × List NoticeOut)) :=
  (List.range d.policyIds.length).foldl (fun (acc : Res (List (Nat × List NoticeOut))) idx =>
    match acc with
    | .ok out =>
      match at? d.cpsUri idx, at? d.explicitTexts idx, at? d.noticeRefOrg idx, at? d.noticeRefNumbers idx with
      | .ok cps, .ok texts, .ok orgs, .ok nums =>
        match noticesOld texts orgs nums with
        | .ok ns => .ok (out ++ [(cps.length, ns)])
        | .err => .err
        | .panic => .panic
      | _, _, _, _ => .panic
    | r => r) (.ok [])

/-! ## deterministic name list -/

/-- insert into a strictly increasing list, dropping duplicates -/
def insertSet {α} [LT α] [DecidableRel (α := α) (· < ·)] [DecidableEq α] (a : α) : List α → List α
  | [] => [a]
  | b :: l => if a < b then a :: b :: l else if a = b then b :: l else b :: insertSet a l

/-- `purgeNameDuplicates`: the set of names, sorted. -/
def purge {α} [LT α] [DecidableRel (α := α) (· < ·)] [DecidableEq α] (names : List α) : List α :=
  names.foldr insertSet []

/-! ## signature-check dispatch on a parsed key -/

/-- what `parsePublicKey` can return, as far as `CheckSignatureFromKey` distinguishes -/
inductive Key where
  | rsa (p : RsaPub)
  | ed (k : PubKey)
  | other             -- DSA / ECDSA / unknown: verified by primitives without preconditions on the key shape
  deriving Repr, DecidableEq

/-- `parsePublicKey`, RSA arm: strict mode rejects a non-positive modulus or exponent, permissive mode
    accepts any pair of INTEGERs. -/
def parseRsaKey (perm : Bool) (n e : Int) : Res Key :=
  if !perm ∧ (n ≤ 0 ∨ e ≤ 0) then .err else .ok (.rsa { n := some n, e := some e })

/-- `CheckSignatureFromKey(parentKey, algo, tbs, sig)` for a parsed parent key;
    `.ok ()` = returned (nil or an error). -/
def checkSig (k : Key) (sigLen sig : Nat) : Res Unit :=
  match k with
  | .rsa p => verify p sigLen sig
  | .ed pk => checkSigEd pk sigLen
  | .other => .ok ()

end ZV.C02
