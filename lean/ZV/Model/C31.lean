import ZV.Base
import ZV.Hash.SHA512
/-!
  Model of the session-ticket code of zcrypto, branch for branch:

  * `tls/common.go`  : `ticketKeyFromBytes`, `SetSessionTicketKeys`, `initLegacySessionTicketKeyRLocked`,
                       `Config.ticketKeys` (explicit keys / configForClient / auto-rotation)
  * `tls/ticket.go`  : `encryptTicket`, `decryptTicket`, `sessionState.marshal/unmarshal`,
                       `sessionStateTLS13.marshal/unmarshal` (with `marshalCertificate` /
                       `unmarshalCertificate` of handshake_messages.go)
  * `tls/handshake_server.go`       : `checkForResumption` (+ `selectCipherSuite`, `cipherSuiteOk`)
  * `tls/handshake_server_tls13.go` : `checkForResumption` (PSK identities loop)

  Not modelled, passed in as PARAMETERS so that every theorem holds for all of them:
  `hmac : key → msg → tag` (HMAC-SHA-256 in the code; the driver instantiates ZV.Hash),
  `ctr : aesKey → iv → n → keystream` (AES-CTR), the cipher-suite tables (`suiteByID`,
  `hash13`; the driver instantiates the tables extracted from the tree), the TLS 1.3 binder
  verification (`binderOk`).
-/
namespace ZV.C31

/-! ### ticket keys -/

structure TicketKey where
  name : Bytes   -- keyName [16]byte
  aes  : Bytes   -- aesKey  [16]byte
  mac  : Bytes   -- hmacKey [16]byte
  deriving Repr, DecidableEq

def ticketKeyNameLen : Nat := 16
def ivLen : Nat := 16          -- aes.BlockSize
def macLen : Nat := 32         -- sha256.Size

/-- `Config.ticketKeyFromBytes`: SHA-512 of the 32 external bytes, sliced 16/16/16 (`created` is kept
    separately, see `AKey`). -/
def ticketKeyFromBytes (b : Bytes) : TicketKey :=
  let hashed := ZV.Hash.sha512 b
  { name := hashed.take 16, aes := (hashed.drop 16).take 16, mac := (hashed.drop 32).take 16 }

/-- a ticket key together with its `created` time (unix seconds) -/
abbrev AKey := TicketKey × Int

/-- `Config.SetSessionTicketKeys`: panics on the empty list; first = encryption key, all accepted. -/
def setSessionTicketKeys (keys : List Bytes) (now : Int) : Res (List AKey) :=
  match keys with
  | [] => .panic
  | _ => .ok (keys.map (fun b => (ticketKeyFromBytes b, now)))

def ticketKeyRotation : Int := 24 * 3600
def ticketKeyLifetime : Int := 7 * 24 * 3600
def maxSessionTicketLifetime : Int := 7 * 24 * 3600

/-- the part of a `Config` the ticket-key logic reads and writes -/
structure KeyCfg where
  disabled : Bool            -- SessionTicketsDisabled
  legacy   : Bytes           -- SessionTicketKey [32]byte
  explicit : List AKey       -- sessionTicketKeys
  auto     : List AKey       -- autoSessionTicketKeys
  deriving Repr, DecidableEq

def deprecatedPrefix : Bytes := [0x44, 0x45, 0x50, 0x52, 0x45, 0x43, 0x41, 0x54, 0x45, 0x44]  -- "DEPRECATED"

def hasPrefix (b p : Bytes) : Bool := b.take p.length == p
def isZero (b : Bytes) : Bool := b.all (· == 0)

/-- `initLegacySessionTicketKeyRLocked`.  `rand` is the stream of 32-byte blocks `config.rand()` yields;
    running dry makes `io.ReadFull` fail, which the code turns into a panic. -/
def initLegacy (c : KeyCfg) (rand : List Bytes) (now : Int) : Res (KeyCfg × List Bytes) :=
  if !isZero c.legacy && (hasPrefix c.legacy deprecatedPrefix || !c.explicit.isEmpty) then .ok (c, rand)
  else if isZero c.legacy then
    match rand with
    | [] => .panic
    | r :: rest => .ok ({ c with legacy := deprecatedPrefix ++ r.drop deprecatedPrefix.length }, rest)
  else if !hasPrefix c.legacy deprecatedPrefix && c.explicit.isEmpty then
    .ok ({ c with explicit := [(ticketKeyFromBytes c.legacy, now)] }, rand)
  else .ok (c, rand)

/-- `len(c.autoSessionTicketKeys) > 0 && c.time().Sub(c.autoSessionTicketKeys[0].created) < ticketKeyRotation` -/
def autoFresh (auto : List AKey) (now : Int) : Bool :=
  match auto with
  | [] => false
  | k :: _ => decide (now - k.2 < ticketKeyRotation)

/-- the auto-rotation step at the end of `Config.ticketKeys` (fast path and re-check are the same test). -/
def rotateAuto (c : KeyCfg) (rand : List Bytes) (now : Int) : Res (KeyCfg × List Bytes × List AKey) :=
  if autoFresh c.auto now then .ok (c, rand, c.auto)
  else
    match rand with
    | [] => .panic
    | r :: rest =>
      let valid := (ticketKeyFromBytes r, now) :: c.auto.filter (fun k => decide (now - k.2 < ticketKeyLifetime))
      .ok ({ c with auto := valid }, rest, valid)

/-- the second half of `Config.ticketKeys` (the server's own config). -/
def ticketKeysOwn (c : KeyCfg) (rand : List Bytes) (now : Int) : Res (KeyCfg × List Bytes × List AKey) :=
  if c.disabled then .ok (c, rand, [])
  else
    match initLegacy c rand now with
    | .panic => .panic
    | .err => .err
    | .ok (c1, rand1) =>
      if !c1.explicit.isEmpty then .ok (c1, rand1, c1.explicit)
      else rotateAuto c1 rand1 now

/-- `Config.ticketKeys(configForClient)`: explicit keys of the per-client config win, otherwise the keys
    of the original config (explicit, else auto-rotated).  Returns both configs (they are mutated),
    the remaining random stream and the key list. -/
def ticketKeys (c : KeyCfg) (cfc : Option KeyCfg) (rand : List Bytes) (now : Int) :
    Res (KeyCfg × Option KeyCfg × List Bytes × List AKey) :=
  match cfc with
  | none =>
    match ticketKeysOwn c rand now with
    | .ok (c1, rand1, ks) => .ok (c1, none, rand1, ks)
    | .err => .err
    | .panic => .panic
  | some f =>
    if f.disabled then .ok (c, some f, rand, [])
    else
      match initLegacy f rand now with
      | .panic => .panic
      | .err => .err
      | .ok (f1, rand1) =>
        if !f1.explicit.isEmpty then .ok (c, some f1, rand1, f1.explicit)
        else
          match ticketKeysOwn c rand1 now with
          | .ok (c1, rand2, ks) => .ok (c1, some f1, rand2, ks)
          | .err => .err
          | .panic => .panic

/-! ### ticket sealing -/

/-- `cipher.Stream.XORKeyStream(dst, src)` with the keystream given as a value: byte-wise xor; bytes for
    which the keystream value has no byte are left unchanged (so that `xorWith (xorWith d k) k = d`
    holds for every `k`; the real keystream always has `src` length). -/
def xorWith : Bytes → Bytes → Bytes
  | [], _ => []
  | d :: ds, [] => d :: xorWith ds []
  | d :: ds, k :: ks => (d ^^^ k) :: xorWith ds ks

section sealing
variable (hmac : Bytes → Bytes → Bytes) (ctr : Bytes → Bytes → Nat → Bytes)

/-- `(*Conn).encryptTicket`; `iv` is what `io.ReadFull(c.config.rand(), iv)` delivered.
    Layout: key name(16) ‖ IV(16) ‖ AES-CTR(state) ‖ HMAC-SHA256(everything before). -/
def encryptTicket (keys : List TicketKey) (iv state : Bytes) : Res Bytes :=
  match keys with
  | [] => .err
  | key :: _ =>
    let body := key.name ++ iv ++ xorWith state (ctr key.aes iv state.length)
    .ok (body ++ hmac key.mac body)

/-- the key-search loop of `decryptTicket`: first key whose name equals `name`, with its index. -/
def findKey (name : Bytes) : List TicketKey → Nat → Option (Nat × TicketKey)
  | [], _ => none
  | k :: ks, i => if name = k.name then some (i, k) else findKey name ks (i + 1)

def ticketName (enc : Bytes) : Bytes := enc.take ticketKeyNameLen
def ticketIV (enc : Bytes) : Bytes := (enc.drop ticketKeyNameLen).take ivLen
/-- everything before the MAC -/
def ticketBody (enc : Bytes) : Bytes := enc.take (enc.length - macLen)
def ticketTag (enc : Bytes) : Bytes := enc.drop (enc.length - macLen)
def ticketCiphertext (enc : Bytes) : Bytes := (ticketBody enc).drop (ticketKeyNameLen + ivLen)

/-- `(*Conn).decryptTicket`: `none` = `(nil, false)`; `some (plaintext, usedOldKey)` otherwise.
    The MAC is checked BEFORE decryption; `subtle.ConstantTimeCompare` = equality of byte strings. -/
def decryptTicket (keys : List TicketKey) (enc : Bytes) : Option (Bytes × Bool) :=
  if enc.length < ticketKeyNameLen + ivLen + macLen then none
  else
    match findKey (ticketName enc) keys 0 with
    | none => none
    | some (i, key) =>
      if ticketTag enc = hmac key.mac (ticketBody enc) then
        let ct := ticketCiphertext enc
        some (xorWith ct (ctr key.aes (ticketIV enc) ct.length), decide (i > 0))
      else none

end sealing

/-! ### cryptobyte readers / builders -/

def beNat : Bytes → Nat → Nat
  | [], acc => acc
  | b :: bs, acc => beNat bs (acc * 256 + b.toNat)

/-- `n` big-endian bytes of `v` (most significant first), `v` taken modulo `256^n`. -/
def natBE : Nat → Nat → Bytes
  | 0, _ => []
  | n + 1, v => UInt8.ofNat (v / 256 ^ n) :: natBE n v

/-- read an `n`-byte big-endian integer -/
def readUint (n : Nat) (s : Bytes) : Option (Nat × Bytes) :=
  if s.length < n then none else some (beNat (s.take n) 0, s.drop n)

/-- `ReadUint{8,16,24}LengthPrefixed` -/
def readVec (lenBytes : Nat) (s : Bytes) : Option (Bytes × Bytes) :=
  match readUint lenBytes s with
  | none => none
  | some (l, rest) => if rest.length < l then none else some (rest.take l, rest.drop l)

/-- `Builder.AddUint{8,16,24}LengthPrefixed`: a child that does not fit its length prefix sets the builder
    error, and `BytesOrPanic` then panics. -/
def addVec (lenBytes : Nat) (content : Res Bytes) : Res Bytes :=
  match content with
  | .ok c => if c.length < 256 ^ lenBytes then .ok (natBE lenBytes c.length ++ c) else .panic
  | .err => .err
  | .panic => .panic

def resAppend (a b : Res Bytes) : Res Bytes :=
  match a, b with
  | .ok x, .ok y => .ok (x ++ y)
  | .panic, _ => .panic
  | _, .panic => .panic
  | _, _ => .err

/-! ### sessionState (TLS ≤ 1.2) -/

structure SessionState where
  vers         : Nat
  cipherSuite  : Nat
  createdAt    : Nat
  masterSecret : Bytes
  certificates : List Bytes
  usedOldKey   : Bool
  deriving Repr, DecidableEq

def marshalCerts12 : List Bytes → Res Bytes
  | [] => .ok []
  | c :: cs => resAppend (addVec 3 (.ok c)) (marshalCerts12 cs)

/-- `sessionState.marshal` -/
def SessionState.marshal (m : SessionState) : Res Bytes :=
  resAppend (.ok (natBE 2 m.vers ++ natBE 2 m.cipherSuite ++ natBE 8 m.createdAt))
    (resAppend (addVec 2 (.ok m.masterSecret)) (addVec 3 (marshalCerts12 m.certificates)))

/-- the `for !certList.Empty()` loop of `sessionState.unmarshal`; every round consumes ≥ 3 bytes, so
    `fuel = length` is never exhausted (`parseCerts12_fuel` in Proofs). -/
def parseCerts12 : Nat → Bytes → Option (List Bytes)
  | _, [] => some []
  | 0, _ :: _ => none
  | fuel + 1, s =>
    match readVec 3 s with
    | none => none
    | some (cert, rest) =>
      match parseCerts12 fuel rest with
      | none => none
      | some cs => some (cert :: cs)

/-- `sessionState.unmarshal` (`usedOldKey` is preserved from the receiver). -/
def SessionState.unmarshal (usedOldKey : Bool) (data : Bytes) : Option SessionState :=
  match readUint 2 data with
  | none => none
  | some (vers, s1) =>
    match readUint 2 s1 with
    | none => none
    | some (suite, s2) =>
      match readUint 8 s2 with
      | none => none
      | some (created, s3) =>
        match readVec 2 s3 with
        | none => none
        | some (ms, s4) =>
          if ms.isEmpty then none
          else
            match readVec 3 s4 with
            | none => none
            | some (certList, s5) =>
              match parseCerts12 certList.length certList with
              | none => none
              | some certs =>
                if s5.isEmpty then
                  some { vers := vers, cipherSuite := suite, createdAt := created, masterSecret := ms,
                         certificates := certs, usedOldKey := usedOldKey }
                else none

/-! ### sessionStateTLS13 -/

/-- `tls.Certificate` as far as tickets carry it; `none` = nil slice. -/
structure Cert13 where
  certificates : List Bytes
  ocsp : Option Bytes
  scts : Option (List Bytes)
  deriving Repr, DecidableEq

structure SessionState13 where
  cipherSuite      : Nat
  createdAt        : Nat
  resumptionSecret : Bytes
  certificate      : Cert13
  deriving Repr, DecidableEq

def extensionStatusRequest : Nat := 5
def extensionSCT : Nat := 18
def statusTypeOCSP : Nat := 1

def marshalSCTs : List Bytes → Res Bytes
  | [] => .ok []
  | s :: ss => resAppend (addVec 2 (.ok s)) (marshalSCTs ss)

/-- the extension block of the leaf certificate in `marshalCertificate` -/
def leafExtensions (c : Cert13) : Res Bytes :=
  resAppend
    (match c.ocsp with
     | none => .ok []
     | some st => resAppend (.ok (natBE 2 extensionStatusRequest))
                    (addVec 2 (resAppend (.ok (natBE 1 statusTypeOCSP)) (addVec 3 (.ok st)))))
    (match c.scts with
     | none => .ok []
     | some l => resAppend (.ok (natBE 2 extensionSCT)) (addVec 2 (addVec 2 (marshalSCTs l))))

def marshalCertEntries (c : Cert13) : Bool → List Bytes → Res Bytes
  | _, [] => .ok []
  | first, cert :: rest =>
    resAppend (resAppend (addVec 3 (.ok cert)) (addVec 2 (if first then leafExtensions c else .ok [])))
      (marshalCertEntries c false rest)

/-- `marshalCertificate` -/
def marshalCertificate (c : Cert13) : Res Bytes := addVec 3 (marshalCertEntries c true c.certificates)

/-- `sessionStateTLS13.marshal` -/
def SessionState13.marshal (m : SessionState13) : Res Bytes :=
  resAppend (.ok (natBE 2 0x0304 ++ natBE 1 0 ++ natBE 2 m.cipherSuite ++ natBE 8 m.createdAt))
    (resAppend (addVec 1 (.ok m.resumptionSecret)) (marshalCertificate m.certificate))

/-- the `for !sctList.Empty()` loop -/
def parseSCTs : Nat → Bytes → Option (List Bytes)
  | _, [] => some []
  | 0, _ :: _ => none
  | fuel + 1, s =>
    match readVec 2 s with
    | none => none
    | some (sct, rest) =>
      if sct.isEmpty then none
      else
        match parseSCTs fuel rest with
        | none => none
        | some l => some (sct :: l)

/-- the `for !extensions.Empty()` loop of `unmarshalCertificate`; `leaf` = `len(certificate.Certificate) ≤ 1`.
    State: (OCSPStaple, SignedCertificateTimestamps). -/
def parseExtensions : Nat → Bool → Bytes → Option Bytes × List Bytes → Option (Option Bytes × List Bytes)
  | _, _, [], st => some st
  | 0, _, _ :: _, _ => none
  | fuel + 1, leaf, s, st =>
    match readUint 2 s with
    | none => none
    | some (ext, s1) =>
      match readVec 2 s1 with
      | none => none
      | some (extData, rest) =>
        if !leaf then parseExtensions fuel leaf rest st
        else if ext = extensionStatusRequest then
          match readUint 1 extData with
          | none => none
          | some (statusType, d1) =>
            if statusType ≠ statusTypeOCSP then none
            else
              match readVec 3 d1 with
              | none => none
              | some (staple, d2) =>
                if staple.isEmpty then none
                else if !d2.isEmpty then none
                else parseExtensions fuel leaf rest (some staple, st.2)
        else if ext = extensionSCT then
          match readVec 2 extData with
          | none => none
          | some (sctList, d1) =>
            if sctList.isEmpty then none
            else
              match parseSCTs sctList.length sctList with
              | none => none
              | some l =>
                if !d1.isEmpty then none
                else parseExtensions fuel leaf rest (st.1, st.2 ++ l)
        else parseExtensions fuel leaf rest st

/-- the `for !certList.Empty()` loop of `unmarshalCertificate`; `n` = certificates read so far. -/
def parseCertEntries : Nat → Nat → Bytes → Option Bytes × List Bytes → Option (List Bytes × Option Bytes × List Bytes)
  | _, _, [], st => some ([], st.1, st.2)
  | 0, _, _ :: _, _ => none
  | fuel + 1, n, s, st =>
    match readVec 3 s with
    | none => none
    | some (cert, s1) =>
      match readVec 2 s1 with
      | none => none
      | some (exts, rest) =>
        match parseExtensions exts.length (decide (n + 1 ≤ 1)) exts st with
        | none => none
        | some st1 =>
          match parseCertEntries fuel (n + 1) rest st1 with
          | none => none
          | some (cs, o, l) => some (cert :: cs, o, l)

/-- `unmarshalCertificate` on a cryptobyte string: result and the rest of the string. -/
def unmarshalCertificate (s : Bytes) : Option (Cert13 × Bytes) :=
  match readVec 3 s with
  | none => none
  | some (certList, rest) =>
    match parseCertEntries certList.length 0 certList (none, []) with
    | none => none
    | some (cs, o, l) => some ({ certificates := cs, ocsp := o, scts := if l.isEmpty then none else some l }, rest)

/-- `sessionStateTLS13.unmarshal` -/
def SessionState13.unmarshal (data : Bytes) : Option SessionState13 :=
  match readUint 2 data with
  | none => none
  | some (version, s1) =>
    if version ≠ 0x0304 then none
    else
      match readUint 1 s1 with
      | none => none
      | some (revision, s2) =>
        if revision ≠ 0 then none
        else
          match readUint 2 s2 with
          | none => none
          | some (suite, s3) =>
            match readUint 8 s3 with
            | none => none
            | some (created, s4) =>
              match readVec 1 s4 with
              | none => none
              | some (secret, s5) =>
                if secret.isEmpty then none
                else
                  match unmarshalCertificate s5 with
                  | none => none
                  | some (cert, s6) =>
                    if s6.isEmpty then
                      some { cipherSuite := suite, createdAt := created, resumptionSecret := secret, certificate := cert }
                    else none

/-! ### ticket age -/

def wrap64 (x : Int) : Int := (x + 2 ^ 63) % 2 ^ 64 - 2 ^ 63   -- two's-complement int64
def unixToInternal : Int := 62135596800

/-- `c.config.time().Sub(time.Unix(int64(createdAt), 0)) > maxSessionTicketLifetime`, with `now` = the unix
    seconds of `c.config.time()` (whole seconds).  `int64(uint64)` and `time.Unix` wrap around;
    `Time.Sub` saturates, which preserves the comparison with 7 days. -/
def ticketExpired (now : Int) (createdAt : Nat) : Bool :=
  decide (wrap64 (now + unixToInternal) - wrap64 (wrap64 (Int.ofNat createdAt) + unixToInternal) > maxSessionTicketLifetime)

/-! ### TLS 1.2 resumption decision -/

/-- what `cipherSuiteOk` reads of a `cipherSuite` -/
structure SuiteInfo where
  ecdhe  : Bool   -- flags & suiteECDHE
  ecSign : Bool   -- flags & suiteECSign
  tls12  : Bool   -- flags & suiteTLS12
  deriving Repr, DecidableEq

def VersionTLS12 : Nat := 0x0303
def VersionTLS13 : Nat := 0x0304

/-- connection / config / client-hello inputs of `serverHandshakeState.checkForResumption` -/
structure Ctx12 where
  ticketsDisabled : Bool        -- c.config.SessionTicketsDisabled
  now             : Int         -- c.config.time()
  vers            : Nat         -- c.vers: the version NEGOTIATED for this connection
  helloVers       : Nat         -- hs.clientHello.vers: the version the client OFFERED (its maximum, capped at
                                -- 1.2); ≥ c.vers in a real handshake, > c.vers when the server is capped lower.
                                -- The decision must be made on `vers`; `helloVers` is carried so that model and
                                -- code are compared on inputs where the two differ (it is read by nothing).
  clientSuites    : List Nat    -- hs.clientHello.cipherSuites
  serverSuites    : List Nat    -- c.config.cipherSuites()
  clientAuth      : Nat         -- c.config.ClientAuth
  ecdheOk         : Bool
  ecSignOk        : Bool
  rsaSignOk       : Bool
  rsaDecryptOk    : Bool
  deriving Repr, DecidableEq

/-- the key-capability part of `cipherSuiteOk` (first `if` cascade) -/
def keyOk (x : Ctx12) (c : SuiteInfo) : Bool :=
  if c.ecdhe then
    if !x.ecdheOk then false
    else if c.ecSign then x.ecSignOk
    else x.rsaSignOk
  else x.rsaDecryptOk

/-- `serverHandshakeState.cipherSuiteOk` -/
def cipherSuiteOk (x : Ctx12) (c : SuiteInfo) : Bool :=
  if !keyOk x c then false
  else if x.vers < VersionTLS12 && c.tls12 then false
  else true

/-- `selectCipherSuite(ids, supportedIDs, ok)`; `suiteByID` = `cipherSuiteByID`. -/
def selectCipherSuite (suiteByID : Nat → Option SuiteInfo) (ok : SuiteInfo → Bool) (supported : List Nat) : List Nat → Option Nat
  | [] => none
  | id :: ids =>
    match suiteByID id with
    | none => selectCipherSuite suiteByID ok supported ids
    | some c =>
      if !ok c then selectCipherSuite suiteByID ok supported ids
      else if supported.contains id then some id
      else selectCipherSuite suiteByID ok supported ids

def NoClientCert : Nat := 0
/-- `requiresClientCert`: RequireAnyClientCert (2), RequireAndVerifyClientCert (4) -/
def requiresClientCert (a : Nat) : Bool := a == 2 || a == 4

section decisions
variable (hmac : Bytes → Bytes → Bytes) (ctr : Bytes → Bytes → Nat → Bytes)

/-- `serverHandshakeState.checkForResumption`: `none` = false (full handshake);
    `some (sessionState, hs.suite.id)` = true. -/
def checkForResumption12 (suiteByID : Nat → Option SuiteInfo) (x : Ctx12) (keys : List TicketKey) (ticket : Bytes) :
    Option (SessionState × Nat) :=
  if x.ticketsDisabled then none
  else
    match decryptTicket hmac ctr keys ticket with
    | none => none
    | some (plaintext, usedOldKey) =>
      match SessionState.unmarshal usedOldKey plaintext with
      | none => none
      | some st =>
        if ticketExpired x.now st.createdAt then none
        else if x.vers ≠ st.vers then none      -- c.vers (negotiated), NOT hs.clientHello.vers (offered)
        else if !x.clientSuites.contains st.cipherSuite then none
        else
          match selectCipherSuite suiteByID (cipherSuiteOk x) x.serverSuites [st.cipherSuite] with
          | none => none
          | some suite =>
            if requiresClientCert x.clientAuth && st.certificates.isEmpty then none
            else if !st.certificates.isEmpty && x.clientAuth == NoClientCert then none
            else some (st, suite)

/-! ### TLS 1.3 PSK decision -/

def maxClientPSKIdentities : Nat := 5
def pskModeDHE : UInt8 := 1

structure Ctx13 where
  ticketsDisabled : Bool
  now             : Int
  negHash         : Nat          -- hs.suite.hash
  pskModes        : Bytes
  nBinders        : Nat          -- len(hs.clientHello.pskBinders)
  clientAuth      : Nat
  deriving Repr, DecidableEq

inductive Dec13 where
  | noPSK                                   -- return nil, usingPSK = false
  | errBinders                              -- "invalid or missing PSK binders" (illegal_parameter)
  | errBinder (i : Nat)                     -- "invalid PSK binder" (decrypt_error)
  | accept (i : Nat) (st : SessionState13)  -- binder verified: c.didResume = true; processCertsFromClient follows
  deriving Repr, DecidableEq

/-- the identities loop; `hash13` = hash of `cipherSuiteTLS13ByID`, `binderOk i st` = the binder of identity `i`
    verifies under the resumption secret of `st`. -/
def pskLoop (hash13 : Nat → Option Nat) (binderOk : Nat → SessionState13 → Bool) (x : Ctx13) (keys : List TicketKey) :
    Nat → List Bytes → Dec13
  | _, [] => .noPSK
  | i, label :: rest =>
    if i ≥ maxClientPSKIdentities then .noPSK
    else
      match decryptTicket hmac ctr keys label with
      | none => pskLoop hash13 binderOk x keys (i + 1) rest
      | some (plaintext, _) =>
        match SessionState13.unmarshal plaintext with
        | none => pskLoop hash13 binderOk x keys (i + 1) rest
        | some st =>
          if ticketExpired x.now st.createdAt then pskLoop hash13 binderOk x keys (i + 1) rest
          else
            match hash13 st.cipherSuite with
            | none => pskLoop hash13 binderOk x keys (i + 1) rest
            | some h =>
              if h ≠ x.negHash then pskLoop hash13 binderOk x keys (i + 1) rest
              else if requiresClientCert x.clientAuth && st.certificate.certificates.isEmpty then
                pskLoop hash13 binderOk x keys (i + 1) rest
              else if !st.certificate.certificates.isEmpty && x.clientAuth == NoClientCert then
                pskLoop hash13 binderOk x keys (i + 1) rest
              else if binderOk i st then .accept i st
              else .errBinder i

/-- `serverHandshakeStateTLS13.checkForResumption` up to and including the binder check. -/
def checkForResumption13 (hash13 : Nat → Option Nat) (binderOk : Nat → SessionState13 → Bool) (x : Ctx13)
    (keys : List TicketKey) (identities : List Bytes) : Dec13 :=
  if x.ticketsDisabled then .noPSK
  else if !x.pskModes.contains pskModeDHE then .noPSK
  else if identities.length ≠ x.nBinders then .errBinders
  else if identities.isEmpty then .noPSK
  else pskLoop hmac ctr hash13 binderOk x keys 0 identities

/-- `pskIdentity` of the client hello (`handshake_messages.go`): the ticket and the client-reported,
    obfuscated age of it (uint32, milliseconds + ticket_age_add). -/
structure PskIdentity where
  label               : Bytes
  obfuscatedTicketAge : Nat
  deriving Repr, DecidableEq

/-- `serverHandshakeStateTLS13.checkForResumption` on the identities as the hello carries them.  AS THE CODE IS:
    only `identity.label` is read ("We don't check the obfuscated ticket age because it's affected by clock
    skew …"); the freshness decision is the server-side `createdAt` inside the authenticated ticket alone. -/
def checkForResumption13Id (hash13 : Nat → Option Nat) (binderOk : Nat → SessionState13 → Bool) (x : Ctx13)
    (keys : List TicketKey) (ids : List PskIdentity) : Dec13 :=
  checkForResumption13 hmac ctr hash13 binderOk x keys (ids.map (·.label))

end decisions

/-! ### ticket issuance (what `sendSessionTicket` seals) -/

/-- the `sessionState` that `serverHandshakeState.sendSessionTicket` marshals: a resumed session keeps its
    `createdAt` (`prev`), a fresh one gets the clock. -/
def issuedState12 (vers suite : Nat) (now : Nat) (prev : Option SessionState) (masterSecret : Bytes)
    (certs : List Bytes) : SessionState :=
  { vers := vers, cipherSuite := suite,
    createdAt := (match prev with | some p => p.createdAt | none => now),
    masterSecret := masterSecret, certificates := certs, usedOldKey := false }

section leak
variable (hmac : Bytes → Bytes → Bytes) (ctr : Bytes → Bytes → Nat → Bytes)

/-- `hs.sessionState` as the rest of the handshake (`sendSessionTicket`) sees it after the TLS ≤ 1.2
    `checkForResumption` — AS THE CODE IS: it is assigned as soon as the ticket decrypts, and stays set when the
    decision is "do not resume" (too old, other version, suite not offered, …).  (When `unmarshal` fails the Go
    struct is left partially filled; that sub-case is not modelled: `none`.) -/
def sessionStateAfterCheck12 (x : Ctx12) (keys : List TicketKey) (ticket : Bytes) : Option SessionState :=
  if x.ticketsDisabled then none
  else
    match decryptTicket hmac ctr keys ticket with
    | none => none
    | some (plaintext, usedOldKey) => SessionState.unmarshal usedOldKey plaintext

end leak

end ZV.C31
