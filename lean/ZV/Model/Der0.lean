import ZV.Base
/-!
  ZV.Model.Der0 — shared executable model of the layer-0 DER primitives of BOTH
  ASN.1 codecs of zcrypto, strict mode (`AllowPermissiveParsing = false`):

  * `ZV.Der0.EA.*`  — `encoding/asn1/asn1.go` (parseBool, checkInteger, parseInt64,
    parseInt32, parseBigInt, parseBitString, parseBase128Int, parseObjectIdentifier,
    parseTagAndLength) and `encoding/asn1/marshal.go` (int64Encoder, makeBigInt,
    appendBase128Int, appendLength/lengthLength, appendTagAndLength, bitStringEncoder,
    oidEncoder/makeObjectIdentifier);
  * `ZV.Der0.CB.*`  — `cryptobyte/asn1.go` (readASN1, checkASN1Integer, asn1Signed,
    asn1Unsigned, readASN1BigInt, ReadASN1Boolean, readBase128Int,
    ReadASN1ObjectIdentifier, ReadASN1BitString) and the pure content of the matching
    Builder methods (addASN1Signed, AddASN1Uint64, AddASN1BigInt, addBase128Int,
    AddASN1ObjectIdentifier, AddASN1Boolean, the DER length chosen by `flushChild`).

  Conventions.  A Go `[]byte` is a `List UInt8`; a parser that works with an offset
  into a slice is modelled on the remaining suffix and returns the unread rest (the
  offset is `len input - len rest`).  Arithmetic is in `Nat`/`Int`: byte tests such as
  `b&0x80 == 0` are written `b.toNat < 128`, `x <<= 8; x |= b` is `x*256 + b`,
  `x >> 8k` is `x / 256^k` (floor division, also for negative `Int`s, which is what
  Go's arithmetic shift does).  The one place where `uint32` wrap-around matters
  (`readASN1`'s overflow guard) is written with an explicit `% 2^32`.
  Used by C19 (canonical decoding) and C21 (Builder/String inverses); proofs about
  these functions live in `ZV/Proofs/Der0.lean`.
-/
namespace ZV.Der0

/-! ## bytes ↔ numbers -/

/-- `x <<= 8; x |= b` over all bytes (big-endian unsigned value; `big.Int.SetBytes`). -/
def natOfBytesAux (acc : Nat) : Bytes → Nat
  | [] => acc
  | b :: bs => natOfBytesAux (acc * 256 + b.toNat) bs

def natOfBytes (bs : Bytes) : Nat := natOfBytesAux 0 bs

/-- `big.Int.Bytes()`: minimal big-endian representation, empty for 0. -/
def natToBytes (n : Nat) : Bytes :=
  if h : n = 0 then [] else natToBytes (n / 256) ++ [UInt8.ofNat (n % 256)]
decreasing_by omega

/-- `^b` / `b ^ 0xff` -/
def notB (b : UInt8) : UInt8 := UInt8.ofNat (255 - b.toNat)

/-- low byte of an integer: Go's `byte(x)` conversion. -/
def byteOfInt (v : Int) : UInt8 := UInt8.ofNat (v % 256).toNat

/-- k-byte big-endian field as written by `flushChild`'s loop
    `for i := k-1; i >= 0; i-- { buf[off+i] = uint8(l); l >>= 8 }`. -/
def beBytes : Nat → Nat → Bytes
  | 0, _ => []
  | k + 1, n => beBytes k (n / 256) ++ [UInt8.ofNat (n % 256)]

/-! ## INTEGER -/

/-- `checkInteger` (strict) and `checkASN1Integer` — the two functions are the same code. -/
def checkInteger : Bytes → Bool
  | [] => false
  | [_] => true
  | b0 :: b1 :: _ =>
    if (b0 == 0 && b1.toNat < 128) || (b0 == 0xff && b1.toNat ≥ 128) then false else true

/-- the loop `ret <<= 8; ret |= b` followed by the sign-extending shift pair
    `ret <<= 64-8n; ret >>= 64-8n` (n ≤ 8 bytes): two's-complement value. -/
def twos (bs : Bytes) : Int :=
  match bs with
  | [] => 0
  | b0 :: _ =>
    if b0.toNat ≥ 128 then (natOfBytes bs : Int) - (256 ^ bs.length : Nat) else (natOfBytes bs : Int)

/-- `parseBigInt` / `readASN1BigInt` value: negative numbers are complemented byte-wise,
    `SetBytes`, `+1`, negated. -/
def bigOfBytes (bs : Bytes) : Int :=
  match bs with
  | [] => 0
  | b0 :: _ =>
    if b0.toNat ≥ 128 then - ((natOfBytes (bs.map notB) : Int) + 1) else (natOfBytes bs : Int)

/-- number of content octets of a signed integer: `int64Encoder.Len`
    (`for i > 127 {n++; i >>= 8}; for i < -128 {n++; i >>= 8}`) and `addASN1Signed`
    (`for i := v; i >= 0x80 || i < -0x80; i >>= 8 {length++}`). -/
def intLen (v : Int) : Nat :=
  if h : v > 127 ∨ v < -128 then intLen (v / 256) + 1 else 1
termination_by v.natAbs
decreasing_by omega

/-- `for j := 0; j < n; j++ { dst[j] = byte(i >> ((n-1-j)*8)) }` — most significant first. -/
def intBytes (v : Int) : Nat → Bytes
  | 0 => []
  | n + 1 => byteOfInt (v / (256 ^ n : Nat)) :: intBytes v n

/-- `makeBigInt` and `AddASN1BigInt` (identical code): minimal two's complement of any integer. -/
def bigIntBytes (n : Int) : Bytes :=
  if n < 0 then
    let bytes := (natToBytes (-n - 1).toNat).map notB
    match bytes with
    | [] => [0xff]
    | b0 :: _ => if b0.toNat < 128 then 0xff :: bytes else bytes
  else if n = 0 then [0]
  else
    let bytes := natToBytes n.toNat
    match bytes with
    | [] => bytes
    | b0 :: _ => if b0.toNat ≥ 128 then 0 :: bytes else bytes

/-! ## base-128 -/

/-- `base128IntLength` for n > 0: `for i := n; i > 0; i >>= 7 { l++ }`. -/
def b128Count (n : Nat) : Nat :=
  if h : n = 0 then 0 else b128Count (n / 128) + 1
decreasing_by omega

/-- `base128IntLength` (encoding/asn1) and the length loop of `addBase128Int` (cryptobyte). -/
def b128Len (n : Nat) : Nat := if n = 0 then 1 else b128Count n

/-- `for i := l-1; i >= 0; i-- { o := byte(n >> (i*7)) & 0x7f; if i != 0 { o |= 0x80 }; append }` -/
def b128Groups (n : Nat) : Nat → Bytes
  | 0 => []
  | i + 1 => UInt8.ofNat ((n / 128 ^ i) % 128 + (if i = 0 then 0 else 128)) :: b128Groups n i

/-- `appendBase128Int(nil, n)` / `addBase128Int(n)` for n ≥ 0. -/
def appendBase128 (n : Nat) : Bytes := b128Groups n (b128Len n)

/-! ## BOOLEAN content -/

def boolOfContent : Bytes → Res Bool
  | [b] => if b == 0 then .ok false else if b == 0xff then .ok true else .err
  | _ => .err

def boolContent (v : Bool) : Bytes := if v then [0xff] else [0]

/-! ## OBJECT IDENTIFIER helpers -/

/-- first sub-identifier → first two arcs -/
def splitFirst (v : Nat) : List Nat := if v < 80 then [v / 40, v % 40] else [2, v - 80]

/-- the body written for a (validated) OID: `base128(oid[0]*40+oid[1])` then every further arc. -/
def oidBody : List Nat → Bytes
  | a :: b :: rest => appendBase128 (a * 40 + b) ++ (rest.map appendBase128).flatten
  | _ => []

def lastByte : Bytes → UInt8
  | [] => 0
  | [b] => b
  | _ :: bs => lastByte bs

/-! ## encoding/asn1 -/
namespace EA

def parseBool (bs : Bytes) : Res Bool := boolOfContent bs

def parseInt64 (bs : Bytes) : Res Int :=
  if !checkInteger bs then .err
  else if bs.length > 8 then .err
  else .ok (twos bs)

def parseInt32 (bs : Bytes) : Res Int :=
  if !checkInteger bs then .err
  else match parseInt64 bs with
    | .ok v => if v < -2147483648 ∨ v > 2147483647 then .err else .ok v
    | .err => .err
    | .panic => .panic

def parseBigInt (bs : Bytes) : Res Int :=
  if !checkInteger bs then .err else .ok (bigOfBytes bs)

/-- `int64Encoder.Len` + `Encode` -/
def encodeInt64 (v : Int) : Bytes := intBytes v (intLen v)

def makeBigInt (n : Int) : Bytes := bigIntBytes n

/-- `parseBase128Int` on the suffix starting at `offset`; `shifted` = bytes read so far,
    `ret` = `ret64`.  Returns the value and the unread rest. -/
def b128Loop : Bytes → Nat → Nat → Res (Nat × Bytes)
  | [], _, _ => .err                                   -- truncated base 128 integer
  | b :: rest, shifted, ret =>
    if shifted = 5 then .err                           -- too large
    else if shifted = 0 ∧ b = 0x80 then .err           -- not minimally encoded
    else
      let ret' := ret * 128 + b.toNat % 128
      if b.toNat < 128 then
        (if ret' > 2147483647 then .err else .ok (ret', rest))
      else b128Loop rest (shifted + 1) ret'

def parseBase128Int (bs : Bytes) : Res (Nat × Bytes) := b128Loop bs 0 0

/-- the `for ; offset < len(bytes); i++` loop of `parseObjectIdentifier`. -/
def oidArcs : (fuel : Nat) → Bytes → Res (List Nat)
  | _, [] => .ok []
  | 0, _ :: _ => .err    -- unreachable: every iteration consumes ≥ 1 byte and fuel = len
  | fuel + 1, b :: bs =>
    match parseBase128Int (b :: bs) with
    | .ok (v, rest) =>
      (match oidArcs fuel rest with
       | .ok vs => .ok (v :: vs)
       | .err => .err
       | .panic => .panic)
    | .err => .err
    | .panic => .panic

def parseObjectIdentifier (bs : Bytes) : Res (List Nat) :=
  match bs with
  | [] => .err
  | _ :: _ =>
    match parseBase128Int bs with
    | .ok (v, rest) =>
      (match oidArcs rest.length rest with
       | .ok vs => .ok (splitFirst v ++ vs)
       | .err => .err
       | .panic => .panic)
    | .err => .err
    | .panic => .panic

/-- `makeObjectIdentifier` (validity check) + `oidEncoder.Encode`. -/
def encodeOID (oid : List Nat) : Res Bytes :=
  match oid with
  | a :: b :: _ => if a > 2 ∨ (a < 2 ∧ b ≥ 40) then .err else .ok (oidBody oid)
  | _ => .err

structure BitString where
  bitLength : Int
  bytes : Bytes
  deriving Repr, DecidableEq

def parseBitString (bs : Bytes) : Res BitString :=
  match bs with
  | [] => .err
  | b0 :: tl =>
    let pad := b0.toNat
    if pad > 7 then .err
    else if bs.length = 1 ∧ pad > 0 then .err
    else if (lastByte bs).toNat % 2 ^ pad ≠ 0 then .err
    else .ok { bitLength := ((bs.length : Int) - 1) * 8 - pad, bytes := tl }

/-- `bitStringEncoder`: `dst[0] = byte((8 - BitLength%8) % 8)`, then the bytes.
    (Go's `%` truncates; it is only ever applied to BitLength ≥ 0 here, where it agrees with `Int.emod`;
    for negative BitLength we mirror Go with `Int.tmod`.) -/
def encodeBitString (b : BitString) : Bytes :=
  byteOfInt ((8 - b.bitLength.tmod 8).tmod 8) :: b.bytes

structure TagAndLength where
  cls : Nat
  compound : Bool
  tag : Nat
  length : Nat
  deriving Repr, DecidableEq

/-- the `for i := 0; i < numBytes; i++` loop of `parseTagAndLength`. -/
def lenLoop : Bytes → Nat → Nat → Res (Nat × Bytes)
  | r, 0, acc => .ok (acc, r)
  | [], _ + 1, _ => .err                               -- truncated tag or length
  | b :: r, n + 1, acc =>
    if acc ≥ 8388608 then .err                         -- length too large (1<<23)
    else
      let acc' := acc * 256 + b.toNat
      if acc' = 0 then .err                            -- superfluous leading zeros
      else lenLoop r n acc'

def parseLength (r : Bytes) : Res (Nat × Bytes) :=
  match r with
  | [] => .err                                         -- truncated tag or length
  | b :: r' =>
    if b.toNat < 128 then .ok (b.toNat, r')
    else
      let numBytes := b.toNat % 128
      if numBytes = 0 then .err                        -- indefinite length
      else match lenLoop r' numBytes 0 with
        | .ok (l, r'') => if l < 128 then .err else .ok (l, r'')   -- non-minimal length
        | .err => .err
        | .panic => .panic

/-- `parseTagAndLength(bytes, 0)`; returns the header and the unread rest. -/
def parseTagAndLength (bs : Bytes) : Res (TagAndLength × Bytes) :=
  match bs with
  | [] => .err
  | b :: r1 =>
    let cls := b.toNat / 64
    let compound := (b.toNat / 32) % 2 == 1
    let tag := b.toNat % 32
    if tag = 31 then
      match parseBase128Int r1 with
      | .ok (t, r2) =>
        if t < 31 then .err                            -- non-minimal tag
        else (match parseLength r2 with
          | .ok (l, r3) => .ok ({ cls := cls, compound := compound, tag := t, length := l }, r3)
          | .err => .err
          | .panic => .panic)
      | .err => .err
      | .panic => .panic
    else
      match parseLength r1 with
      | .ok (l, r3) => .ok ({ cls := cls, compound := compound, tag := tag, length := l }, r3)
      | .err => .err
      | .panic => .panic

/-- `lengthLength`: `numBytes = 1; for i > 255 { numBytes++; i >>= 8 }`. -/
def lengthLength (i : Nat) : Nat :=
  if h : i > 255 then lengthLength (i / 256) + 1 else 1
decreasing_by omega

/-- `appendLength`: `for ; n > 0; n-- { append(byte(i >> ((n-1)*8))) }`. -/
def lengthBytes (i : Nat) : Nat → Bytes
  | 0 => []
  | n + 1 => UInt8.ofNat ((i / 256 ^ n) % 256) :: lengthBytes i n

def appendLength (i : Nat) : Bytes := lengthBytes i (lengthLength i)

/-- `appendTagAndLength(nil, t)`. -/
def appendTagAndLength (t : TagAndLength) : Bytes :=
  let b := (t.cls * 64) % 256 + (if t.compound then 32 else 0)
  let ident :=
    if t.tag ≥ 31 then UInt8.ofNat (b + 31) :: appendBase128 t.tag
    else [UInt8.ofNat (b + t.tag)]
  let len :=
    if t.length ≥ 128 then UInt8.ofNat (128 + lengthLength t.length) :: appendLength t.length
    else [UInt8.ofNat t.length]
  ident ++ len

end EA

/-! ## cryptobyte -/
namespace CB

structure Elem where
  tag : UInt8
  headerLen : Nat
  body : Bytes          -- contents octets (header skipped)
  rest : Bytes          -- unread remainder of the String
  deriving Repr, DecidableEq

/-- `(*String).readASN1(out, outTag, skipHeader = true)`.
    `.panic` mirrors `panic("cryptobyte: internal error")` when `out.Skip(headerLen)` fails. -/
def readASN1 (s : Bytes) : Res Elem :=
  match s with
  | tag :: lenByte :: after =>
    if tag.toNat % 32 = 31 then .err                   -- high-tag-number form unsupported
    else
      let hdr : Res (Nat × Nat) :=                     -- (length incl. header, headerLen), uint32
        if lenByte.toNat < 128 then .ok (lenByte.toNat + 2, 2)
        else
          let lenLen := lenByte.toNat % 128
          if lenLen = 0 ∨ lenLen > 4 ∨ s.length < 2 + lenLen then .err
          else
            let len32 := natOfBytes (after.take lenLen)   -- readUnsigned
            if len32 < 128 then .err                   -- should have used short form
            else if len32 / 256 ^ (lenLen - 1) = 0 then .err   -- leading octet is 0
            else
              let headerLen := 2 + lenLen
              if (headerLen + len32) % 4294967296 < len32 then .err   -- uint32 overflow
              else .ok ((headerLen + len32) % 4294967296, headerLen)
      match hdr with
      | .ok (length, headerLen) =>
        if s.length < length then .err                 -- ReadBytes
        else
          let out := s.take length
          if out.length < headerLen then .panic        -- Skip(headerLen) failed
          else .ok { tag := tag, headerLen := headerLen, body := out.drop headerLen, rest := s.drop length }
      | .err => .err
      | .panic => .panic
  | _ => .err                                          -- len(*s) < 2

/-- `ReadASN1(out, tag)`: `ReadAnyASN1` then the tag comparison. -/
def readASN1Tag (s : Bytes) (tag : UInt8) : Res (Bytes × Bytes) :=
  match readASN1 s with
  | .ok e => if e.tag ≠ tag then .err else .ok (e.body, e.rest)
  | .err => .err
  | .panic => .panic

/-- DER length octets chosen by `Builder.flushChild` for an ASN.1 child of `length` bytes. -/
def derLength (length : Nat) : Res Bytes :=
  if length > 0xfffffffe then .err
  else if length > 0xffffff then .ok (0x84 :: beBytes 4 length)
  else if length > 0xffff then .ok (0x83 :: beBytes 3 length)
  else if length > 0xff then .ok (0x82 :: beBytes 2 length)
  else if length > 0x7f then .ok (0x81 :: beBytes 1 length)
  else .ok [UInt8.ofNat length]

/-- the bytes produced by `AddASN1(tag, func(c){ c.AddBytes(body) })` (specification level;
    `ZV.C21` proves that the low-level Builder model with back-patching produces exactly this). -/
def element (tag : UInt8) (body : Bytes) : Res Bytes :=
  if tag.toNat % 32 = 31 then .err
  else match derLength body.length with
    | .ok l => .ok (tag :: l ++ body)
    | .err => .err
    | .panic => .panic

/-- `asn1Signed`. -/
def asn1Signed (bs : Bytes) : Res Int := if bs.length > 8 then .err else .ok (twos bs)

/-- `asn1Unsigned` (called after `checkASN1Integer`, so `bs` is non-empty). -/
def asn1Unsigned (bs : Bytes) : Res Nat :=
  match bs with
  | [] => .panic                                       -- n[0] on an empty slice
  | b0 :: _ =>
    if bs.length > 9 ∨ (bs.length = 9 ∧ b0 ≠ 0) then .err
    else if b0.toNat ≥ 128 then .err
    else .ok (natOfBytes bs)

def readInt64Tag (s : Bytes) (tag : UInt8) : Res (Int × Bytes) :=
  match readASN1Tag s tag with
  | .ok (body, rest) =>
    if !checkInteger body then .err
    else (match asn1Signed body with
      | .ok v => .ok (v, rest)
      | .err => .err
      | .panic => .panic)
  | .err => .err
  | .panic => .panic

/-- `ReadASN1Integer(*int64)` -/
def readInt64 (s : Bytes) : Res (Int × Bytes) := readInt64Tag s 2

/-- `ReadASN1Integer(*uint64)` -/
def readUint64 (s : Bytes) : Res (Nat × Bytes) :=
  match readASN1Tag s 2 with
  | .ok (body, rest) =>
    if !checkInteger body then .err
    else (match asn1Unsigned body with
      | .ok v => .ok (v, rest)
      | .err => .err
      | .panic => .panic)
  | .err => .err
  | .panic => .panic

/-- `ReadASN1Integer(*big.Int)` -/
def readBigInt (s : Bytes) : Res (Int × Bytes) :=
  match readASN1Tag s 2 with
  | .ok (body, rest) => if !checkInteger body then .err else .ok (bigOfBytes body, rest)
  | .err => .err
  | .panic => .panic

/-- length loop of `AddASN1Uint64`: `for i := v; i >= 0x80; i >>= 8 { length++ }`. -/
def uintLen (v : Nat) : Nat :=
  if h : v ≥ 128 then uintLen (v / 256) + 1 else 1
decreasing_by omega

def signedContent (v : Int) : Bytes := intBytes v (intLen v)
def unsignedContent (v : Nat) : Bytes := intBytes (v : Int) (uintLen v)

def addASN1Int64Tag (tag : UInt8) (v : Int) : Res Bytes := element tag (signedContent v)
def addASN1Int64 (v : Int) : Res Bytes := element 2 (signedContent v)
def addASN1Uint64 (v : Nat) : Res Bytes := element 2 (unsignedContent v)
def addASN1BigInt (v : Int) : Res Bytes := element 2 (bigIntBytes v)

/-- `ReadASN1Boolean` -/
def readBool (s : Bytes) : Res (Bool × Bytes) :=
  match readASN1Tag s 1 with
  | .ok (body, rest) =>
    (match boolOfContent body with
     | .ok v => .ok (v, rest)
     | .err => .err
     | .panic => .panic)
  | .err => .err
  | .panic => .panic

def addASN1Boolean (v : Bool) : Res Bytes := element 1 (boolContent v)

/-- `readBase128Int` AFTER the fixes for D2 (leading 0x80 rejected) and D28 (five bytes,
    guard `ret >= 1<<24` before the shift), i.e. as in upstream x/crypto. `i` = bytes read. -/
def b128Loop : Bytes → Nat → Nat → Res (Nat × Bytes)
  | [], _, _ => .err                                   -- truncated
  | b :: rest, i, ret =>
    if i = 5 then .err
    else if ret ≥ 16777216 then .err                   -- would overflow a 32-bit int
    else if i = 0 ∧ b = 0x80 then .err                 -- non-minimal sub-identifier
    else
      let ret' := ret * 128 + b.toNat % 128
      if b.toNat < 128 then .ok (ret', rest) else b128Loop rest (i + 1) ret'

def readBase128Int (s : Bytes) : Res (Nat × Bytes) := b128Loop s 0 0

def oidArcs : (fuel : Nat) → Bytes → Res (List Nat)
  | _, [] => .ok []
  | 0, _ :: _ => .err    -- unreachable (fuel = len)
  | fuel + 1, b :: bs =>
    match readBase128Int (b :: bs) with
    | .ok (v, rest) =>
      (match oidArcs fuel rest with
       | .ok vs => .ok (v :: vs)
       | .err => .err
       | .panic => .panic)
    | .err => .err
    | .panic => .panic

/-- `ReadASN1ObjectIdentifier` -/
def readOID (s : Bytes) : Res (List Nat × Bytes) :=
  match readASN1Tag s 6 with
  | .ok (body, rest) =>
    (match body with
     | [] => .err
     | _ :: _ =>
       match readBase128Int body with
       | .ok (v, r) =>
         (match oidArcs r.length r with
          | .ok vs => .ok (splitFirst v ++ vs, rest)
          | .err => .err
          | .panic => .panic)
       | .err => .err
       | .panic => .panic)
  | .err => .err
  | .panic => .panic

/-- `isValidOID` (arcs are non-negative in the model). -/
def isValidOID : List Nat → Bool
  | a :: b :: _ => !(a > 2 || (a ≤ 1 && b ≥ 40))
  | _ => false

/-- `AddASN1ObjectIdentifier` -/
def addASN1OID (oid : List Nat) : Res Bytes :=
  if !isValidOID oid then .err else element 6 (oidBody oid)

/-- `ReadASN1BitString` -/
def readBitString (s : Bytes) : Res (EA.BitString × Bytes) :=
  match readASN1Tag s 3 with
  | .ok (body, rest) =>
    (match body with
     | [] => .err
     | b0 :: data =>
       let pad := b0.toNat
       if pad > 7 then .err
       else if data.length = 0 ∧ pad ≠ 0 then .err
       else if data.length > 0 ∧ (lastByte data).toNat % 2 ^ pad ≠ 0 then .err
       else .ok ({ bitLength := (data.length : Int) * 8 - pad, bytes := data }, rest))
  | .err => .err
  | .panic => .panic

/-- the element `[BIT STRING, pad, bytes…]` (`AddASN1BitString` for pad = 0). -/
def addASN1BitString (pad : UInt8) (data : Bytes) : Res Bytes := element 3 (pad :: data)

end CB
end ZV.Der0
