import ZV.Model.C33
/-!
  Models of the STRUCTURED JSON types of C33, branch for branch:

  * `pkix.AuxOID` (x509/pkix/oid.go), `x509.CertificateFingerprint` (x509/fingerprint.go),
    `ct.SHA256Hash`, `ct.DigitallySigned` (ct/types.go, ct/serialization.go) — bare JSON strings;
  * `pkix.AttributeTypeAndValue`, `pkix.OtherName`, `pkix.Extension` (x509/pkix/json.go),
    `json.RSAPublicKey`, `json.RSAClientParams` (json/rsa.go), `json.ECDHParams` (json/ecdhe.go) — JSON objects.

  The functions of the Go standard library the code goes through are modelled too (small):
  `encoding/hex` (EncodeToString / DecodeString), `encoding/base64` StdEncoding (EncodeToString / DecodeString,
  non-strict, CR/LF skipped — also what `encoding/json` uses for `[]byte` members), `strconv.Itoa` / `Atoi`,
  `strings.Split(s, ".")`, `(*big.Int).String` / `SetString(s, 10)`, `Bytes` / `SetBytes`.

  A JSON value where the Go code expects a scalar is a `JV`; an object is the record of its members
  (`none` = member absent).  The typed accessors `memStr` … are what `json.Unmarshal` does for a member
  of that Go type (JSON null leaves the zero value; a value of another kind is an error).
  A Go `[]byte` is `Option Bytes` (`none` = nil slice) wherever nil and empty are distinguishable.
-/
namespace ZV.C33

/-! ### abstract JSON scalars -/

inductive JV where
  | null
  | str (s : Str)
  /-- the literal text of a (syntactically valid) JSON number -/
  | num (lit : Str)
  | bool (b : Bool)
  /-- an array or an object where a scalar is expected -/
  | other
  deriving Repr, DecidableEq

def nilAsEmpty : Option Bytes → Bytes
  | none => []
  | some b => b

/-- normal form of a `[]byte` written with `omitempty`: empty reads back as nil. -/
def emptyAsNil : Option Bytes → Option Bytes
  | none => none
  | some [] => none
  | some (b :: r) => some (b :: r)

/-! ### encoding/hex -/

/-- `hex.EncodeToString` (lower case). -/
def hexEncode : Bytes → Str
  | [] => []
  | b :: r => hexDigit (b.toNat / 16) :: hexDigit (b.toNat % 16) :: hexEncode r

/-- `hex.DecodeString`: both cases accepted; odd length or a non-hex character is an error. -/
def hexDecode (s : Str) : Option Bytes := ofHexChars s

/-! ### encoding/base64, StdEncoding -/

def b64Char (n : Nat) : Char :=
  if n < 26 then Char.ofNat (65 + n)
  else if n < 52 then Char.ofNat (71 + n)
  else if n < 62 then Char.ofNat (n - 4)
  else if n = 62 then '+' else '/'

def b64Val (c : Char) : Option Nat :=
  if 65 ≤ c.toNat ∧ c.toNat ≤ 90 then some (c.toNat - 65)
  else if 97 ≤ c.toNat ∧ c.toNat ≤ 122 then some (c.toNat - 71)
  else if 48 ≤ c.toNat ∧ c.toNat ≤ 57 then some (c.toNat + 4)
  else if c = '+' then some 62
  else if c = '/' then some 63
  else none

/-- `base64.StdEncoding.EncodeToString` -/
def b64Encode : Bytes → Str
  | [] => []
  | [a] => [b64Char (a.toNat / 4), b64Char (a.toNat % 4 * 16), '=', '=']
  | [a, b] => [b64Char (a.toNat / 4), b64Char (a.toNat % 4 * 16 + b.toNat / 16), b64Char (b.toNat % 16 * 4), '=']
  | a :: b :: c :: r =>
    b64Char (a.toNat / 4) :: b64Char (a.toNat % 4 * 16 + b.toNat / 16) ::
      b64Char (b.toNat % 16 * 4 + c.toNat / 64) :: b64Char (c.toNat % 64) :: b64Encode r

/-- the quantum loop of `Encoding.Decode` on input without CR/LF: groups of four; padding only in the
    last group (`xx==` or `xxx=`), nothing after it; left-over bits of a padded group are NOT checked. -/
def b64DecodeQ : Str → Option Bytes
  | [] => some []
  | a :: b :: c :: d :: r =>
    match b64Val a, b64Val b with
    | some x, some y =>
      if c = '=' then
        (if d = '=' ∧ r = [] then some [UInt8.ofNat (x * 4 + y / 16)] else none)
      else
        match b64Val c with
        | none => none
        | some z =>
          if d = '=' then
            (if r = [] then some [UInt8.ofNat (x * 4 + y / 16), UInt8.ofNat (y % 16 * 16 + z / 4)] else none)
          else
            match b64Val d with
            | none => none
            | some w =>
              match b64DecodeQ r with
              | none => none
              | some t =>
                some (UInt8.ofNat (x * 4 + y / 16) :: UInt8.ofNat (y % 16 * 16 + z / 4) :: UInt8.ofNat (z % 4 * 64 + w) :: t)
    | _, _ => none
  | _ => none

def notCRLF (c : Char) : Bool := c ≠ '\n' ∧ c ≠ '\r'

/-- `base64.StdEncoding.DecodeString`: `'\r'` and `'\n'` are skipped wherever they stand. -/
def b64Decode (s : Str) : Option Bytes := b64DecodeQ (s.filter notCRLF)

/-! ### typed member access (`json.Unmarshal` into a member of that Go type) -/

/-- `string` member / bare string target: null or absent leaves `""`. -/
def memStr : Option JV → Res Str
  | none => .ok []
  | some .null => .ok []
  | some (.str s) => .ok s
  | some _ => .err

/-- `[]byte` member: a JSON string holding base64; null or absent leaves nil. -/
def memBytes : Option JV → Res (Option Bytes)
  | none => .ok none
  | some .null => .ok none
  | some (.str s) =>
    match b64Decode s with
    | some b => .ok (some b)
    | none => .err
  | some _ => .err

def memBool : Option JV → Res Bool
  | none => .ok false
  | some .null => .ok false
  | some (.bool b) => .ok b
  | some _ => .err

/-- an integer literal as `strconv.ParseInt` reads it (no fraction, no exponent; JSON has no `+`). -/
def litInt (s : Str) : Option Int :=
  match s with
  | '-' :: r =>
    match parseDigits r with
    | some n => some (- Int.ofNat n)
    | none => none
  | _ =>
    match parseDigits s with
    | some n => some (Int.ofNat n)
    | none => none

/-- signed integer member of the given range (`int`: the int64 range). -/
def memInt (lo hi : Int) : Option JV → Res Int
  | none => .ok 0
  | some .null => .ok 0
  | some (.num l) =>
    match litInt l with
    | some i => if inRange lo hi i then .ok i else .err
    | none => .err
  | some _ => .err

/-- unsigned integer member (`strconv.ParseUint`: a sign, even `-0`, is an error). -/
def memUint (hi : Nat) : Option JV → Res Nat
  | none => .ok 0
  | some .null => .ok 0
  | some (.num l) =>
    match parseDigits l with
    | some n => if n ≤ hi then .ok n else .err
    | none => .err
  | some _ => .err

/-- `omitempty` on a string member. -/
def omitStr (s : Str) : Option JV :=
  match s with
  | [] => none
  | c :: r => some (.str (c :: r))

/-- `omitempty` on a `[]byte` member (nil and empty are both left out). -/
def omitBytes (b : Option Bytes) : Option JV :=
  match b with
  | none => none
  | some [] => none
  | some (x :: r) => some (.str (b64Encode (x :: r)))

/-- a `[]byte` member without `omitempty`: nil is `null`, empty is `""`. -/
def jBytes (b : Option Bytes) : JV :=
  match b with
  | none => .null
  | some x => .str (b64Encode x)

/-- `omitempty` on an integer member. -/
def omitInt (i : Int) : Option JV := if i = 0 then none else some (.num (intToDec i))

/-! ### OIDs in dot notation -/

/-- `asn1.ObjectIdentifier.String()` on a Go `[]int`. -/
def oidStringI (o : List Int) : Str := joinDot (o.map intToDec)

/-- `for _, part := range strings.Split(s, ".") { i, err := strconv.Atoi(part) … append }` — no sign check
    (AttributeTypeAndValue, OtherName, Extension). -/
def atoiAll : List Str → Option (List Int)
  | [] => some []
  | p :: ps =>
    match atoi p with
    | none => none
    | some n =>
      match atoiAll ps with
      | none => none
      | some r => some (n :: r)

/-! ### pkix.AuxOID — a bare string -/

def auxOIDMarshal (o : List Int) : Str := oidStringI o

/-- `AuxOID.UnmarshalJSON` (the same `auxOIDDecode` the SignatureAlgorithm model goes through):
    every part must be a non-negative `int`; `""` — the encoding of the empty OID — is rejected (D24). -/
def auxOIDUnmarshal (j : JV) : Res (List Nat) :=
  match memStr (some j) with
  | .ok s =>
    match auxOIDDecode s with
    | some o => .ok o
    | none => .err
  | .err => .err
  | .panic => .panic

/-! ### x509.CertificateFingerprint — a bare hex string -/

def fingerprintMarshal (f : Option Bytes) : Str := hexEncode (nilAsEmpty f)

/-- the decoded slice is never nil (`hex.DecodeString("")` allocates). -/
def fingerprintUnmarshal (j : JV) : Res Bytes :=
  match memStr (some j) with
  | .ok s =>
    match hexDecode s with
    | some b => .ok b
    | none => .err
  | .err => .err
  | .panic => .panic

/-! ### ct.SHA256Hash — a bare base64 string, exactly 32 bytes -/

def sha256HashMarshal (h : Bytes) : Str := b64Encode h

def sha256HashUnmarshal (j : JV) : Res Bytes :=
  match memStr (some j) with
  | .ok s =>
    match b64Decode s with
    | none => .err
    | some b => if b.length ≠ 32 then .err else .ok b
  | .err => .err
  | .panic => .panic

/-! ### ct.DigitallySigned — base64 of `hash ‖ sig ‖ uint16 length ‖ signature` -/

/-- `MarshalDigitallySigned` + `Base64String`: a signature longer than 65535 bytes is an error. -/
def dsMarshal (h s : UInt8) (sig : Option Bytes) : Res Str :=
  if (nilAsEmpty sig).length > 65535 then .err
  else
    .ok (b64Encode (h :: s :: UInt8.ofNat ((nilAsEmpty sig).length / 256) ::
          UInt8.ofNat ((nilAsEmpty sig).length % 256) :: nilAsEmpty sig))

/-- `UnmarshalDigitallySigned`: two bytes, a 16-bit length, that many bytes (always a fresh non-nil
    slice); anything after them is ignored. -/
def dsParse (raw : Bytes) : Res (UInt8 × UInt8 × Bytes) :=
  match raw with
  | h :: s :: l1 :: l0 :: rest =>
    if rest.length < l1.toNat * 256 + l0.toNat then .err
    else .ok (h, s, rest.take (l1.toNat * 256 + l0.toNat))
  | _ => .err

def dsUnmarshal (j : JV) : Res (UInt8 × UInt8 × Bytes) :=
  match memStr (some j) with
  | .ok s =>
    match b64Decode s with
    | none => .err
    | some raw => dsParse raw
  | .err => .err
  | .panic => .panic

/-! ### pkix.AttributeTypeAndValue -/

structure AtvJSON where
  type : Option JV
  value : Option JV
  deriving Repr, DecidableEq

/-- a value that is not a Go string is written as `""`, i.e. left out. -/
def atvMarshal (t : List Int) (v : Str) : AtvJSON :=
  { type := omitStr (oidStringI t), value := omitStr v }

/-- type `""` (or absent) leaves a nil OID; no sign check on the parts. -/
def atvUnmarshal (j : AtvJSON) : Res (List Int × Str) :=
  match memStr j.type, memStr j.value with
  | .ok t, .ok v =>
    (match t with
     | [] => .ok ([], v)
     | c :: r =>
       match atoiAll (splitDot (c :: r)) with
       | none => .err
       | some o => .ok (o, v))
  | _, _ => .err

/-! ### pkix.OtherName -/

structure OtherNameJSON where
  id : Option JV
  value : Option JV
  deriving Repr, DecidableEq

def otherNameMarshal (t : List Int) (v : Option Bytes) : OtherNameJSON :=
  { id := omitStr (oidStringI t), value := omitBytes v }

/-- an empty id is rejected; the value becomes the content of a `[0]` constructed context-specific
    RawValue (its `FullBytes` are recomputed and not part of the JSON view). -/
def otherNameUnmarshal (j : OtherNameJSON) : Res (List Int × Option Bytes) :=
  match memStr j.id, memBytes j.value with
  | .ok t, .ok v =>
    (match t with
     | [] => .err
     | c :: r =>
       match atoiAll (splitDot (c :: r)) with
       | none => .err
       | some o => .ok (o, v))
  | _, _ => .err

/-! ### pkix.Extension -/

structure ExtJSON where
  id : Option JV
  critical : Option JV
  value : Option JV
  deriving Repr, DecidableEq

def extMarshal (t : List Int) (crit : Bool) (v : Option Bytes) : ExtJSON :=
  { id := omitStr (oidStringI t), critical := some (.bool crit), value := omitBytes v }

/-- into a fresh value; an absent / empty id splits into one empty part, which `Atoi` rejects. -/
def extUnmarshal (j : ExtJSON) : Res (List Int × Bool × Option Bytes) :=
  match memStr j.id, memBool j.critical, memBytes j.value with
  | .ok t, .ok c, .ok v =>
    (match atoiAll (splitDot t) with
     | none => .err
     | some o => .ok (o, c, v))
  | _, _, _ => .err

/-! ### json.RSAPublicKey -/

structure RsaJSON where
  exponent : Option JV     -- json.Number
  modulus : Option JV      -- []byte
  length : Option JV       -- int
  deriving Repr, DecidableEq

/-- `(*big.Int).SetString(s, 10)`: optional sign, one or more digits, nothing else. -/
def bigSetString10 (s : Str) : Option Int :=
  match s with
  | [] => none
  | c :: r =>
    match parseDigits (if c = '+' ∨ c = '-' then r else s) with
    | none => none
    | some n => some (if c = '-' then - Int.ofNat n else Int.ofNat n)

/-- BEFORE `fix:` dd0a2ef (kept for the record): with a key, `rp.N.Bytes()` on a nil modulus was a nil
    dereference (PANIC) and a nil exponent gave the number literal `<nil>`, which `json.Marshal` refuses. -/
def rsaMarshalOld (key : Option (Option Nat × Option Int)) : Res RsaJSON :=
  match key with
  | none => .ok { exponent := some (.num ['0']), modulus := some .null, length := some (.num ['0']) }
  | some (none, _) => .panic
  | some (some _, none) => .err
  | some (some n, some e) =>
    .ok { exponent := some (.num (intToDec e)), modulus := some (jBytes (some (natBytes n))),
          length := some (.num (intToDec (Int.ofNat ((natBytes n).length * 8)))) }

def nilAsZeroI : Option Int → Int
  | none => 0
  | some e => e

/-- the `exponent` member: `json.Number(rp.E.String())`, or the empty `json.Number` (written `0`) for a nil E. -/
def rsaExponentText (e : Option Int) : Str :=
  match e with
  | none => ['0']
  | some ev => intToDec ev

/-- `RSAPublicKey.MarshalJSON` after `fix:` dd0a2ef.  `key = none`: nil `*rsa.PublicKey` — the zero aux
    (`json.Number("")` is written `0`, a nil `[]byte` is `null`).  With a key, a nil exponent leaves the
    empty `json.Number` (written `0`), a nil modulus leaves the nil slice (`null`, length 0): missing
    members are written like zero. -/
def rsaMarshal (key : Option (Option Nat × Option Int)) : Res RsaJSON :=
  match key with
  | none => .ok { exponent := some (.num ['0']), modulus := some .null, length := some (.num ['0']) }
  | some (n, e) =>
    .ok { exponent := some (.num (rsaExponentText e)),
          modulus := some (jBytes (n.map natBytes)),
          length := some (.num (intToDec (Int.ofNat ((nilAsEmpty (n.map natBytes)).length * 8)))) }

def isDigitC (c : Char) : Bool := 48 ≤ c.toNat ∧ c.toNat ≤ 57

def dropDigits : Str → Str
  | [] => []
  | c :: r => if isDigitC c then dropDigits r else c :: r

/-- `encoding/json.isValidNumber`, step for step (used for a QUOTED `json.Number`). -/
def jsonNumberValid (s : Str) : Bool :=
  match (match s with
         | '-' :: r => r
         | _ => s) with
  | [] => false
  | c :: r =>
    if ¬ isDigitC c then false
    else
      let s2 := if c = '0' then r else dropDigits r
      let s3 := match s2 with
        | '.' :: d :: t => if isDigitC d then dropDigits t else s2
        | _ => s2
      match s3 with
      | e :: x :: t =>
        if e = 'e' ∨ e = 'E' then
          (if x = '+' ∨ x = '-' then
             (match t with
              | [] => false
              | _ :: _ => dropDigits t = [])
           else dropDigits (x :: t) = [])
        else false
      | [_] => false
      | [] => true

/-- a `json.Number` member: a number, or a string holding a valid one; null / absent leaves `""`. -/
def memNumber : Option JV → Res Str
  | none => .ok []
  | some .null => .ok []
  | some (.num l) => .ok l
  | some (.str s) => if jsonNumberValid s then .ok s else .err
  | some _ => .err

/-- exponent through `SetString`, modulus through `SetBytes`, then the length cross-check. -/
def rsaUnmarshal (j : RsaJSON) : Res (Nat × Int) :=
  match memNumber j.exponent, memBytes j.modulus, memInt int64Min int64Max j.length with
  | .ok e, .ok m, .ok l =>
    (match bigSetString10 e with
     | none => .err
     | some ev =>
       if Int.ofNat ((nilAsEmpty m).length * 8) ≠ l then .err
       else .ok (bytesNat (nilAsEmpty m), ev))
  | _, _, _ => .err

/-! ### json.RSAClientParams — no methods: the struct tags alone -/

structure RsaClientJSON where
  length : Option JV
  pms : Option JV
  deriving Repr, DecidableEq

def rsaClientMarshal (len : Nat) (pms : Option Bytes) : RsaClientJSON :=
  { length := omitInt (Int.ofNat len), pms := omitBytes pms }

def rsaClientUnmarshal (j : RsaClientJSON) : Res (Nat × Option Bytes) :=
  match memUint 65535 j.length, memBytes j.pms with
  | .ok l, .ok p => .ok (l, p)
  | _, _ => .err

/-! ### json.ECDHParams — struct tags; members with their own (modelled) methods -/

structure PrivJSON where
  value : Option JV
  length : Option JV
  deriving Repr, DecidableEq

structure EcdhJSON where
  curve_id : Option NameID
  server_public : Option PointJSON
  server_private : Option PrivJSON
  client_public : Option PointJSON
  client_private : Option PrivJSON
  deriving Repr, DecidableEq

structure EcdhVal where
  curve : Nat
  server_public : Option (Option Nat × Option Nat)
  server_private : Option (Option Bytes × Int)
  client_public : Option (Option Nat × Option Nat)
  client_private : Option (Option Bytes × Int)
  deriving Repr, DecidableEq

def privMarshal (p : Option Bytes × Int) : PrivJSON :=
  { value := omitBytes p.1, length := omitInt p.2 }

def privUnmarshal (j : PrivJSON) : Res (Option Bytes × Int) :=
  match memBytes j.value, memInt int64Min int64Max j.length with
  | .ok v, .ok l => .ok (v, l)
  | _, _ => .err

/-- `omitempty`: curve 0 and nil pointers are left out; `Curve` is `json:"-"`. -/
def ecdhMarshal (v : EcdhVal) : EcdhJSON :=
  { curve_id := if v.curve = 0 then none else some (tlsCurveIDEncode v.curve),
    server_public := v.server_public.map (fun p => ecPointEncode p.1 p.2),
    server_private := v.server_private.map privMarshal,
    client_public := v.client_public.map (fun p => ecPointEncode p.1 p.2),
    client_private := v.client_private.map privMarshal }

def optRes {α β} (f : α → Res β) : Option α → Res (Option β)
  | none => .ok none
  | some a =>
    match f a with
    | .ok b => .ok (some b)
    | .err => .err
    | .panic => .panic

/-- the `curve_id` member: absent leaves 0. -/
def curveIdMember (c : Option NameID) : Res Nat :=
  match c with
  | none => .ok 0
  | some c => tlsCurveIDDecode c

/-- into a fresh value: absent members stay zero / nil. -/
def ecdhUnmarshal (j : EcdhJSON) : Res EcdhVal :=
  match curveIdMember j.curve_id,
        optRes ecPointDecode j.server_public, optRes privUnmarshal j.server_private,
        optRes ecPointDecode j.client_public, optRes privUnmarshal j.client_private with
  | .ok c, .ok sp, .ok spr, .ok cp, .ok cpr =>
    .ok { curve := c, server_public := sp, server_private := spr, client_public := cp, client_private := cpr }
  | .panic, _, _, _, _ => .panic
  | _, .panic, _, _, _ => .panic
  | _, _, .panic, _, _ => .panic
  | _, _, _, .panic, _ => .panic
  | _, _, _, _, .panic => .panic
  | _, _, _, _, _ => .err

/-- normal forms: a nil X reads back as 0 (`nilAsZero`), an empty private value as nil. -/
def pointNF (p : Option Nat × Option Nat) : Option Nat × Option Nat := (some (nilAsZero p.1), p.2)
def privNF (p : Option Bytes × Int) : Option Bytes × Int := (emptyAsNil p.1, p.2)
def ecdhNF (v : EcdhVal) : EcdhVal :=
  { curve := v.curve,
    server_public := v.server_public.map pointNF, server_private := v.server_private.map privNF,
    client_public := v.client_public.map pointNF, client_private := v.client_private.map privNF }

/-! ### tls.KeyShareExtension (tls_handshake.go) — the group, written as a CurveID; a nil group is `null` -/

/-- `none` on the JSON side = the literal `null`. -/
def keyShareMarshal (k : Option Nat) : Option NameValue := k.map curveEncode

/-- `json.Unmarshal(data, &cid)` runs `CurveID.UnmarshalJSON`; on `null` its aux struct stays zero
    (value 0, name ""), which the name check then refuses. -/
def keyShareUnmarshal (j : Option NameValue) : Res Nat :=
  match j with
  | none => curveDecode { hex := none, name := [], value := 0 }
  | some nv => curveDecode nv

/-! ### x509.GeneralSubtreeIP (x509/json.go) — IPv4 subtrees (a 4-byte address, or its 16-byte IPv4-mapped
    form, with a 4-byte mask).  `net.IP.String`, `net.IPNet.String`, `net.IPMask.Size`, `net.ParseCIDR`
    (`netip.ParseAddr` + `dtoi`), `net.CIDRMask` are modelled for IPv4 text; IPv6 text (a `:` before the
    first `.`) is OUTSIDE this model. -/

/-- `net.IP.String()` of an IPv4 address / `net.IP(mask).String()` of a 4-byte mask. -/
def ipv4String (ip : Bytes) : Str := joinDot (ip.map (fun b => natToDec b.toNat))

/-- a byte made of k leading one bits followed by zeros (k < 8) -/
def ones8 (v : Nat) : Option Nat :=
  match v with
  | 0 => some 0 | 128 => some 1 | 192 => some 2 | 224 => some 3
  | 240 => some 4 | 248 => some 5 | 252 => some 6 | 254 => some 7
  | _ => none

def allZero : Bytes → Bool
  | [] => true
  | b :: r => b = 0 ∧ allZero r

/-- `simpleMaskLength`: the prefix length of a contiguous mask, `none` (Go: -1) otherwise. -/
def simpleMaskLength : Bytes → Option Nat
  | [] => some 0
  | v :: r =>
    if v = 255 then
      (match simpleMaskLength r with
       | some n => some (n + 8)
       | none => none)
    else
      match ones8 v.toNat with
      | none => none
      | some k => if allZero r then some k else none

/-- `net.CIDRMask(ones, 8*len)` -/
def cidrMask : Nat → Nat → Bytes
  | 0, _ => []
  | l + 1, n =>
    if n ≥ 8 then 255 :: cidrMask l (n - 8)
    else UInt8.ofNat (256 - 2 ^ (8 - n)) :: cidrMask l 0

def andBytes : Bytes → Bytes → Bytes
  | a :: r, m :: s => (a &&& m) :: andBytes r s
  | _, _ => []

/-- `orMask(ip, invertMask(mask))` -/
def orNotBytes : Bytes → Bytes → Bytes
  | a :: r, m :: s => (a ||| ~~~ m) :: orNotBytes r s
  | _, _ => []

structure SubtreeIPJSON where
  cidr : Option JV
  begin_ : Option JV
  end_ : Option JV
  mask : Option JV
  deriving Repr, DecidableEq

/-- `GeneralSubtreeIP.MarshalJSON`; `mapped`: the address is held in its 16-byte IPv4-mapped form (what the
    decoder produces) — then `orMask` sees different lengths and `end` is left out.  A mask that is not a prefix
    (`Mask.Size()` = 0,0) is written in hex after the `/` and nothing else is emitted. -/
def subtreeIP4Marshal (mapped : Bool) (ip mask : Bytes) : SubtreeIPJSON :=
  match simpleMaskLength mask with
  | none => { cidr := omitStr (ipv4String ip ++ '/' :: hexEncode mask), begin_ := none, end_ := none, mask := none }
  | some l =>
    { cidr := omitStr (ipv4String ip ++ '/' :: natToDec l),
      begin_ := omitStr (ipv4String (andBytes ip mask)),
      end_ := if mapped then none else omitStr (ipv4String (orNotBytes ip mask)),
      mask := omitStr (ipv4String mask) }

/-- `strings.Cut(s, "/")` -/
def cutSlash : Str → Option (Str × Str)
  | [] => none
  | c :: r =>
    if c = '/' then some ([], r)
    else
      match cutSlash r with
      | none => none
      | some (a, b) => some (c :: a, b)

/-- `netip.ParseAddr` looks for the first `.`, `:` or `%` to choose the syntax. -/
def firstSpecial : Str → Option Char
  | [] => none
  | c :: r => if c = '.' ∨ c = ':' ∨ c = '%' then some c else firstSpecial r

/-- one IPv4 field: 1+ digits, no leading zero, at most 255. -/
def parseOctet (p : Str) : Option UInt8 :=
  match p with
  | [] => none
  | ['0'] => some 0
  | c :: r =>
    if c = '0' then none
    else
      match parseDigits (c :: r) with
      | some n => if n ≤ 255 then some (UInt8.ofNat n) else none
      | none => none

/-- `netip.ParseAddr` on IPv4 text (IPv6 text: not modelled, `none`). -/
def parseV4 (s : Str) : Option Bytes :=
  match firstSpecial s with
  | some '.' =>
    (match splitDot s with
     | [a, b, c, d] =>
       (match parseOctet a, parseOctet b, parseOctet c, parseOctet d with
        | some a, some b, some c, some d => some [a, b, c, d]
        | _, _, _, _ => none)
     | _ => none)
  | _ => none

/-- `As16()` of an IPv4 address -/
def v4in16 (q : Bytes) : Bytes := [0, 0, 0, 0, 0, 0, 0, 0, 0, 0, 255, 255] ++ q

/-- the prefix length of `net.ParseCIDR` for an IPv4 address: `dtoi` (digits only, at least one, leading zeros
    allowed, everything consumed), at most 32. -/
def prefixLen32 (m : Str) : Option Nat :=
  match parseDigits m with
  | some n => if n ≤ 32 then some n else none
  | none => none

/-- BEFORE `fix:` 0939895 (kept for the record) — `GeneralSubtreeIP.UnmarshalJSON`: `net.ParseCIDR` (decimal prefix ≤ 32 through `dtoi`, leading zeros
    allowed) FIRST; only when that fails the `address/hexmask` form. -/
def subtreeIP4UnmarshalOld (j : SubtreeIPJSON) : Res (Bytes × Bytes) :=
  match memStr j.cidr, memStr j.begin_, memStr j.end_, memStr j.mask with
  | .ok s, .ok _, .ok _, .ok _ =>
    (match cutSlash s with
     | none => .err
     | some (a, m) =>
       match parseV4 a with
       | none => .err
       | some q =>
         match prefixLen32 m with
         | some n => .ok (v4in16 q, cidrMask 4 n)
         | none =>
           match hexDecode m with
           | some mk => if mk.length = 4 then .ok (v4in16 q, mk) else .err
           | none => .err)
  | _, _, _, _ => .err

/-- `parseIPWithHexMask` after the `/` for an IPv4 address: exactly eight hex digits (either case). -/
def hexMask4 (m : Str) : Option Bytes :=
  match hexDecode m with
  | some mk => if mk.length = 4 then some mk else none
  | none => none

/-- `GeneralSubtreeIP.UnmarshalJSON` after `fix:` 0939895: the `address/hexmask` form is read FIRST (eight hex
    digits, which no decimal prefix length has); `net.ParseCIDR` (decimal prefix ≤ 32 through `dtoi`, leading
    zeros allowed) is the fallback, and its error is the one returned when both fail. -/
def subtreeIP4Unmarshal (j : SubtreeIPJSON) : Res (Bytes × Bytes) :=
  match memStr j.cidr, memStr j.begin_, memStr j.end_, memStr j.mask with
  | .ok s, .ok _, .ok _, .ok _ =>
    (match cutSlash s with
     | none => .err
     | some (a, m) =>
       match parseV4 a with
       | none => .err
       | some q =>
         match hexMask4 m with
         | some mk => .ok (v4in16 q, mk)
         | none =>
           match prefixLen32 m with
           | some n => .ok (v4in16 q, cidrMask 4 n)
           | none => .err)
  | _, _, _, _ => .err

/-- the masks on which the two text forms collided before `fix:` 0939895 (finding F-C33-subtreeip-hexmask): not a prefix, yet
    their eight hex digits read as a decimal number ≤ 32. -/
def maskAmbiguous (mask : Bytes) : Bool :=
  match simpleMaskLength mask, parseDigits (hexEncode mask) with
  | none, some n => decide (n ≤ 32)
  | _, _ => false

end ZV.C33
