import ZV.Model.C13Der
import ZV.Model.C18Time
import ZV.Generated.C03
/-!
  `CreateResponse` of `x509/revocation/ocsp/ocsp.go` down to the bytes: the values it hands to the three `asn1.Marshal`
  calls (`responseData` — the bytes that are signed —, `basicResponse`, `responseASN1`) as `ZV.Model.C18` values on the
  schema terms of `ZV.Model.C13Der` (reflected from the Go types, T2 `c13 schema`), encoded by `C18.marshal`.

  `time.Time` fields are raw elements in those schema terms; `timeRaw` builds the element `makeField` writes for a
  `time.Time "generalized"` field holding a UTC time (`ZV.Model.C18Time.makeTimeField` on `ZV.Model.Time.EA`:
  GeneralizedTime tag, `appendGeneralizedTime`; refused outside years 0..9999).  RawValues are given with their
  `FullBytes` filled in (`mkRaw`): `makeField` then writes exactly header ++ content, the bytes it writes for the
  `RawValue{Class, Tag, IsCompound, Bytes}` the Go code builds, and `Unmarshal` returns the same value.

  Inputs that are not computed here: the two issuer hashes (`nameHash`, `keyHash`: `hash(RawSubject)`,
  `hash(public key bits)`), `producedAt` (= `time.Now()` truncated to the minute), the signature bytes, the algorithm
  identifier chosen by `signingParamsForPublicKey` (`ZV.Model.C13.signingParams`; its OID and whether NULL parameters
  are written — RSA arm only).  Times are whole seconds, UTC (`template.X.UTC()`; sub-second parts are not written).
-/
namespace ZV.C13
open ZV.C18 (Schema Val Params)

/-- a RawValue with consistent `FullBytes` -/
def mkRaw (cls tag : Nat) (compound : Bool) (bs : Bytes) : Val :=
  .raw cls tag compound bs (C18.appendTL { cls := cls, tag := tag, len := bs.length, compound := compound } ++ bs)

/-- Unix seconds as a Go UTC time -/
def utcTime (u : Int) : ZV.Time.GoTime := { unix := u, off := 0, nsec := 0 }

/-- parameters of a `time.Time "generalized"` field -/
def genP : Params := { timeType := 24 }

/-- the element written for a `time.Time "generalized"` field (`makeField`: tag `EA.timeTag 24 t` = 24,
    `makeBody` = `EA.makeTimeBody 24 t` = `appendGeneralizedTime`) as a raw element -/
def timeRaw (u : Int) : Res Val :=
  match ZV.Time.EA.makeTimeBody 24 (utcTime u) with
  | .ok body => .ok (mkRaw 0 (ZV.Time.EA.timeTag 24 (utcTime u)) false body)
  | .err => .err
  | .panic => .panic

/-- `NextUpdate time.Time "generalized,explicit,tag:0,optional"`: left out for `time.Time{}`, else `[0] { time }` -/
def nextRaw (u : Int) : Res Val :=
  if u = zeroTime then .ok (C18.zeroVal .raw)
  else match timeRaw u with
    | .ok v => .ok (mkRaw 2 0 true (fullOf v))
    | .err => .err
    | .panic => .panic

/-- the full template of `CreateResponse` as far as the TBS bytes depend on it -/
structure RTemplate where
  status     : Int
  serial     : Int
  thisUpdate : Int
  nextUpdate : Int
  revokedAt  : Int
  reason     : Int
  hash       : Nat                                 -- template.IssuerHash (0 ⇒ SHA-1)
  exts       : Option (List (List Int × Bool × Bytes))   -- template.ExtraExtensions (`none` = nil slice)
  deriving Repr, DecidableEq

def extVal (e : List Int × Bool × Bytes) : Val := .vcons (.oid e.1) (.vcons (.bool e.2.1) (.vcons (.bytes e.2.2) .vnil))

def chain : List Val → Val
  | [] => .vnil
  | x :: r => .vcons x (chain r)

/-- `revokedInfo`: set only under `case Revoked`; the zero struct is left out by `makeField` (`tag:1,optional`) -/
def revokedVal (t : RTemplate) : Res Val :=
  if t.status = 1 ∧ ¬ (t.revokedAt = zeroTime ∧ t.reason = 0) then
    match timeRaw t.revokedAt with
    | .ok r => .ok (.vcons r (.vcons (.int t.reason) .vnil))
    | .err => .err
    | .panic => .panic
  else .ok (C18.zeroVal revokedInfoS)

/-- `innerResponse` -/
def singleVal (t : RTemplate) (nameHash keyHash : Bytes) : Res Val :=
  let h := if t.hash = 0 then 3 else t.hash
  match hashOID h with
  | none => .err                                        -- "unsupported issuer hash algorithm"
  | some oid =>
    match revokedVal t, timeRaw t.thisUpdate, nextRaw t.nextUpdate with
    | .ok rev, .ok th, .ok nx =>
      .ok (.vcons (.vcons (.vcons (.oid oid) (.vcons (mkRaw 0 5 false []) .vnil))
                    (.vcons (.bytes nameHash) (.vcons (.bytes keyHash) (.vcons (.int t.serial) .vnil))))
           (.vcons (.bool (t.status = 0))
           (.vcons rev
           (.vcons (.bool (t.status = 2))
           (.vcons th
           (.vcons nx
           (.vcons (match t.exts with | none => .null | some l => chain (l.map extVal)) .vnil)))))))
    | _, _, _ => .err

/-- `tbsResponseData` (Version 0, responder id by NAME: `[1] { responderCert.RawSubject }`) -/
def tbsVal (t : RTemplate) (nameHash keyHash responderName : Bytes) (producedAt : Int) : Res Val :=
  match singleVal t nameHash keyHash, timeRaw producedAt with
  | .ok s, .ok pa =>
    .ok (.vcons (.int 0) (.vcons (mkRaw 2 1 true responderName) (.vcons pa (.vcons (.vcons s .vnil) .vnil))))
  | _, _ => .err

/-- the bytes handed to the signer: `asn1.Marshal(tbsResponseData)` -/
def tbsDER (t : RTemplate) (nameHash keyHash responderName : Bytes) (producedAt : Int) : Res Bytes :=
  match tbsVal t nameHash keyHash responderName producedAt with
  | .ok v => C18.marshal responseDataS {} v
  | .err => .err
  | .panic => .panic

/-- `RawValue{FullBytes: template.Certificate.Raw}` (what Unmarshal gives back for those bytes) -/
def certRaw (full : Bytes) : Val :=
  match C18.parseTL false full with
  | .ok (tl, r) => .raw tl.cls tl.tag tl.compound r full
  | _ => .raw 0 0 false [] full

/-- `basicResponse{TBSResponseData, SignatureAlgorithm, Signature: BitString{signature, 8*len}, Certificates}` -/
def basicVal (tbs : Val) (sigOid : List Int) (nullParams : Bool) (sig : Bytes) (cert : Option Bytes) : Val :=
  .vcons tbs
    (.vcons (.vcons (.oid sigOid) (.vcons (if nullParams then mkRaw 0 5 false [] else C18.zeroVal .raw) .vnil))
    (.vcons (.bits sig (8 * sig.length))
    (.vcons (match cert with | none => .null | some c => .vcons (certRaw c) .vnil) .vnil)))

/-- `responseASN1{Status: Success, Response: {idPKIXOCSPBasic, responseDER}}` -/
def outerVal (basic : Bytes) : Val :=
  .vcons (.int 0) (.vcons (.vcons (.oid idBasic) (.vcons (.bytes basic) .vnil)) .vnil)

/-- `CreateResponse` after `signingParamsForPublicKey` and `priv.Sign`: the DER it returns -/
def createDER (t : RTemplate) (nameHash keyHash responderName : Bytes) (producedAt : Int)
    (sigOid : List Int) (nullParams : Bool) (sig : Bytes) (cert : Option Bytes) : Res Bytes :=
  match tbsVal t nameHash keyHash responderName producedAt with
  | .ok tbs =>
    (match C18.marshal basicResponseS {} (basicVal tbs sigOid nullParams sig cert) with
     | .ok b => C18.marshal responseASN1S {} (outerVal b)
     | .err => .err
     | .panic => .panic)
  | .err => .err
  | .panic => .panic

/-- the OID column of `signatureAlgorithmDetails` (GENERATED table, ZV.Gen.C03.ocspDetailsOid): the OID of the row with
    this `algo` — what `signingParamsForPublicKey` puts into `sigAlgo.Algorithm` for the algorithm number the table
    model `signingParams` answers with -/
def sigOidOf (a : Nat) : Option (List Int) :=
  match Gen.C03.ocspDetailsOid.find? (fun r => r.1 == a) with
  | some r => some (r.2.1.map Int.ofNat)
  | none => none

def kindOfNat (n : Nat) : KeyKind :=
  if n = 0 then .rsa else if n = 1 then .p224 else if n = 2 then .p256 else if n = 3 then .p384 else if n = 4 then .p521
  else if n = 5 then .otherCurve else .otherKey

/-- `CreateResponse` with a signer whose key falls into arm `k` of the type / curve switch and whose `Sign` returns `sig`
    (the TBS is marshalled BEFORE `signingParamsForPublicKey` is called; both failures are plain errors) -/
def createResponse (t : RTemplate) (nameHash keyHash responderName : Bytes) (producedAt : Int)
    (k : KeyKind) (req : Nat) (sig : Bytes) (cert : Option Bytes) : Res Bytes :=
  match tbsDER t nameHash keyHash responderName producedAt with
  | .ok _ =>
    (match signingParams k req with
     | .ok (_, a) =>
       (match sigOidOf a with
        | some oid => createDER t nameHash keyHash responderName producedAt oid (decide (k = .rsa)) sig cert
        | none => .err)
     | .err => .err
     | .panic => .panic)
  | .err => .err
  | .panic => .panic

end ZV.C13
