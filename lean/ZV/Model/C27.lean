import ZV.Base
/-!
  C27 — TLS peers authenticate each other as configured.

  Model of the ACCEPTANCE DECISIONS (the handshake state machines themselves are exercised by real handshakes,
  not modelled).  Cryptographic facts about what the peer presented are abstract Booleans; the decision
  functions mirror the order of checks of
    client: `verifyServerCertificate` (tls/handshake_client.go), `processServerKeyExchange` (tls/key_agreement.go),
            TLS 1.3 `readServerCertificate` (tls/handshake_client_tls13.go), Finished check;
    server: `processCertsFromClient` + the CertificateVerify block of `doFullHandshake` (tls/handshake_server.go),
            `readClientCertificate` (tls/handshake_server_tls13.go).
-/
namespace ZV.C27

inductive Kex | rsa | ecdhe | dhe | tls13
  deriving Repr, DecidableEq

/-- what the server presents, seen from the client -/
structure ServerCred where
  chainOK : Bool      -- the chain verifies to RootCAs at the configured time for the configured ServerName
  keyMatches : Bool   -- the server holds the private key of the leaf certificate
  sigIntact : Bool    -- its ServerKeyExchange signature / CertificateVerify arrives as sent
  deriving Repr, DecidableEq

/-- proof of possession as the client checks it -/
def possession (skip : Bool) (kex : Kex) (c : ServerCred) : Bool :=
  match kex with
  | .rsa => c.keyMatches                         -- key transport: only the key holder derives the master secret (Finished)
  | .ecdhe => c.keyMatches && c.sigIntact        -- `ecdheKeyAgreement.processServerKeyExchange`: always enforced
  | .dhe => skip || (c.keyMatches && c.sigIntact) -- `dheKeyAgreement.processServerKeyExchange`: `if InsecureSkipVerify return nil`
  | .tls13 => c.keyMatches && c.sigIntact        -- CertificateVerify

/-- `verifyServerCertificate`: the chain error is ignored only with InsecureSkipVerify; then the possession proof -/
def clientAccepts (skip : Bool) (kex : Kex) (c : ServerCred) : Bool :=
  if !skip && !c.chainOK then false
  else if !possession skip kex c then false
  else c.sigIntact   -- `readFinished`: a handshake message altered in transit breaks the Finished check on either side

/-- `ClientAuthType` -/
inductive Mode | noClientCert | request | requireAny | verifyIfGiven | requireAndVerify
  deriving Repr, DecidableEq

def Mode.toNat : Mode → Nat
  | .noClientCert => 0 | .request => 1 | .requireAny => 2 | .verifyIfGiven => 3 | .requireAndVerify => 4

/-- `requiresClientCert` -/
def requiresClientCert (m : Mode) : Bool :=
  match m with
  | .requireAny | .requireAndVerify => true
  | _ => false

/-- what the client presents, seen from the server -/
structure ClientOffer where
  hasCert : Bool      -- non-empty certificate list
  chainOK : Bool      -- verifies to ClientCAs at the configured time with ExtKeyUsageClientAuth
  cvValid : Bool      -- a CertificateVerify is sent and verifies under the leaf key
  deriving Repr, DecidableEq

/-- server side: certificate request → `processCertsFromClient` → CertificateVerify requirement -/
def serverAccepts (m : Mode) (o : ClientOffer) : Bool :=
  if m.toNat < 1 then true                                    -- nothing requested, nothing read
  else if !o.hasCert && requiresClientCert m then false       -- "client didn't provide a certificate"
  else if decide (m.toNat ≥ 3) && o.hasCert && !o.chainOK then false  -- "failed to verify client certificate"
  else if o.hasCert then o.cvValid                            -- `len(c.peerCertificates) > 0`: CertificateVerify must verify
  else true

/-- who completes: the client once it accepts the server and (before TLS 1.3) receives the server's Finished, which the
    server only sends after accepting the client; the server only if both accept. -/
def outcome (tls13 : Bool) (ca sa : Bool) : Bool × Bool :=
  (ca && (tls13 || sa), sa && ca)

/-! ## Resumption: a second connection through a session cache / with a session ticket

`loadSession` (tls/handshake_client.go) decides whether a verifying configuration may offer a cached session; once the
server accepts the ticket / PSK the client does not look at certificates again.  The server re-runs
`processCertsFromClient` on the certificates stored in the ticket (`doResumeHandshake`, TLS 1.3 `checkForResumption`). -/

/-- the server's certificate relative to ONE client configuration -/
structure ChainFacts where
  trusted : Bool      -- the issuer chains to this configuration's RootCAs
  fresh : Bool        -- this configuration's time lies in the leaf's validity period
  named : Bool        -- the leaf lists this configuration's ServerName
  deriving Repr, DecidableEq

def ChainFacts.chainOK (f : ChainFacts) : Bool := f.trusted && f.fresh && f.named

/-- `ClientSessionState`, as far as the guard of `loadSession` reads it -/
structure Session where
  hasVerifiedChains : Bool      -- `len(session.verifiedChains) != 0`
  deriving Repr, DecidableEq

/-- The session stored by a completed connection: `verifyServerCertificate` keeps the chains built by `Verify` for the
    roots and time of THAT configuration — also under InsecureSkipVerify, and whatever the name check said
    (`ValidateWithStupidDetail` returns the chains together with the host-name error). -/
def sessionOf (first : ChainFacts) : Session := ⟨first.trusted && first.fresh⟩

/-- the guard in `loadSession`: `if !InsecureSkipVerify { verifiedChains empty → no; leaf expired → no; VerifyHostname → no }` -/
def sessionUsable (skip : Bool) (s : Session) (notExpired named : Bool) : Bool :=
  if !skip then
    if !s.hasVerifiedChains then false
    else if !notExpired then false
    else if !named then false
    else true
  else true

/-- second connection of a client whose cache holds `cached` (the server accepts its own ticket): resumed without any
    certificate check when the guard lets the session through, a full handshake otherwise -/
def clientAcceptsWithCache (skip : Bool) (kex : Kex) (cached : Option Session) (f : ChainFacts) (c : ServerCred) : Bool :=
  match cached with
  | some s => if sessionUsable skip s f.fresh f.named then true else clientAccepts skip kex c
  | none => clientAccepts skip kex c

/-- server side, `checkForResumption`: a ticket is not resumed when certificates are required but the session has none,
    nor when the session has some but none are requested now -/
def serverResumes (m : Mode) (sessHasCert : Bool) : Bool :=
  if requiresClientCert m && !sessHasCert then false
  else if sessHasCert && m.toNat == 0 then false
  else true

/-- second connection of a server presented with its own ticket (`sess = some hasCert`): on resumption
    `processCertsFromClient` runs on the stored certificates under the CURRENT configuration (`chainOKnow`); there is no
    CertificateVerify, and a failure aborts the handshake (no fall-back) -/
def serverAcceptsWithTicket (m : Mode) (sess : Option Bool) (chainOKnow : Bool) (o : ClientOffer) : Bool :=
  match sess with
  | some sessHasCert =>
    if serverResumes m sessHasCert then serverAccepts m ⟨sessHasCert, chainOKnow, true⟩ else serverAccepts m o
  | none => serverAccepts m o

/-! ## Verification hooks of `Config`

`VerifyPeerCertificate` and `VerifyConnection` are considered AFTER normal verification ("if normal verification fails
then the handshake will abort before considering this callback"): they can only add restrictions.  The structural hooks
(`GetCertificate`, `GetConfigForClient`, `GetClientCertificate`) select the certificate / configuration and have no
decision of their own: a hook that returns what the static configuration holds leaves every decision unchanged, so they
do not appear here. -/

/-- a verification callback: not installed, installed and returning nil, installed and returning an error -/
inductive Hook | absent | permit | reject
  deriving Repr, DecidableEq

def Hook.allows : Hook → Bool
  | .reject => false
  | _ => true

def Hook.installed : Hook → Bool
  | .absent => false
  | _ => true

/-- `verifyServerCertificate` with the callbacks: the chain error aborts first (unless InsecureSkipVerify), then
    `VerifyPeerCertificate`, then `VerifyConnection`; then the possession proof as before -/
def clientAcceptsH (vpc vc : Hook) (skip : Bool) (kex : Kex) (c : ServerCred) : Bool :=
  if !skip && !c.chainOK then false
  else if !vpc.allows then false
  else if !vc.allows then false
  else if !possession skip kex c then false
  else c.sigIntact

/-- is the client's `VerifyPeerCertificate` invoked (full handshake)? only when normal verification did not fail -/
def clientVpcRuns (vpc : Hook) (skip : Bool) (c : ServerCred) : Bool :=
  vpc.installed && (skip || c.chainOK)

/-- … and `VerifyConnection` after it, unless `VerifyPeerCertificate` returned an error -/
def clientVcRuns (vpc vc : Hook) (skip : Bool) (c : ServerCred) : Bool :=
  vc.installed && (skip || c.chainOK) && vpc.allows

/-- server side with the callbacks: `processCertsFromClient` ends with `VerifyPeerCertificate` (so it is considered only
    when certificates are requested and the certificate checks passed); `VerifyConnection` follows in every mode, also
    when nothing is requested; the CertificateVerify check comes last -/
def serverAcceptsH (vpc vc : Hook) (m : Mode) (o : ClientOffer) : Bool :=
  if m.toNat < 1 then vc.allows
  else if !o.hasCert && requiresClientCert m then false
  else if decide (m.toNat ≥ 3) && o.hasCert && !o.chainOK then false
  else if !vpc.allows then false
  else if !vc.allows then false
  else if o.hasCert then o.cvValid
  else true

/-- `processCertsFromClient` reaches its callback: certificates requested and the certificate checks passed -/
def serverCertChecksPass (m : Mode) (o : ClientOffer) : Bool :=
  decide (m.toNat ≥ 1) && !(!o.hasCert && requiresClientCert m) && !(decide (m.toNat ≥ 3) && o.hasCert && !o.chainOK)

end ZV.C27
