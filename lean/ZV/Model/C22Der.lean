import ZV.Model.C22
import ZV.Model.C18
import ZV.Model.C18Dom
/-!
  The DER leg of C22: `asn1.Marshal(name.ToRDNSequence())`, `asn1.Unmarshal(der, &seq)`, `FillFromRDNSequence(&seq)`,
  expressed with the deep-embedded model of `encoding/asn1` (`ZV.Model.C18`, unchanged).

  The Go type is

      type RDNSequence []RelativeDistinguishedNameSET          -- SEQUENCE OF
      type RelativeDistinguishedNameSET []AttributeTypeAndValue -- name ends in "SET": SET OF
      type AttributeTypeAndValue struct { Type asn1.ObjectIdentifier; Value interface{} }

  `interface{}` (ANY) is outside `ZV.Model.C18`.  For the values names carry — Go strings — the two directions of
  the code are these:
  * `makeField` replaces an `interface{}` by its dynamic value (`v.Elem()`) and continues with the SAME (empty) field
    parameters, i.e. exactly as for a field of Go type `string`: the universal tag is chosen per value
    (`C18.stringTag {}`: PrintableString if every byte is printable ASCII without `*` and `&`, else UTF8String if the
    bytes are valid UTF-8, else an error);
  * `parseField`, ANY arm: a primitive universal element with tag 19 / 12 is read by `parsePrintableString` /
    `parseUTF8String` and stored as a Go string — the same two functions the `string` arm calls for those tags.
  So the attribute value is represented by the schema kind `.str`; `stringChoice` names the choice function and
  `readBack` the decoder's reading of one (tag, content) pair.  The ANY arm differs from the `string` arm on the OTHER
  tags only (INTEGER, BIT STRING, OID, times, OCTET STRING, BMPString, unknown → nil), which Marshal never writes for a
  string value; the T2 stream `c22 d` ties this file to the real `asn1.Marshal` / `asn1.Unmarshal` on `pkix.RDNSequence`
  (bytes, decoded sequence, filled Name).
-/
namespace ZV.C22

open ZV.C18 (Schema Val)

/-- `pkix.AttributeTypeAndValue` with a string value -/
def atvSchema : Schema := .struct (.fcons {} .oid (.fcons {} .str .fnil))

/-- `pkix.RDNSequence` -/
def rdnSchema : Schema := .seqOf false (.seqOf true atvSchema)

/-- the universal tag `makeField` writes for a string value of a name (PrintableString = 19 / UTF8String = 12 / error) -/
def stringChoice (s : Bytes) : Option Nat := C18.stringTag {} s

/-- what strict `parseField` stores for a primitive universal element with that tag and content -/
def readBack (tag : Nat) (content : Bytes) : Res Val := C18.parseString false tag content

/-- non-nil slice value with the given elements -/
def chain : List Val → Val
  | [] => .vnil
  | x :: r => .vcons x (chain r)

/-- the elements of a slice value -/
def velems : Val → List Val
  | .vcons x r => x :: velems r
  | _ => []

/-- Go value → `Val`.  A non-string attribute value has no counterpart (Marshal of it is outside this model): it is mapped to
    a value the encoder rejects, so that `marshalSeq` answers `err`; `seqOK` excludes it. -/
def atvToVal (a : ATV) : Val :=
  .vcons (.oid (a.type.map Int.ofNat))
    (.vcons (match a.value with | .str s => .bytes s | .other _ _ => .null) .vnil)

def rdnToVal (r : RDN) : Val := chain (r.map atvToVal)

/-- `none` = the nil slice (what `ToRDNSequence` returns for a Name without attributes) -/
def seqToVal : Option RDNSeq → Val
  | none => .null
  | some s => chain (s.map rdnToVal)

/-- `Val` → Go value (the shapes `unmarshal rdnSchema` produces; anything else cannot occur and is mapped to an attribute
    that prints as a non-string) -/
def atvOfVal : Val → ATV
  | .vcons (.oid arcs) (.vcons (.bytes s) .vnil) => { type := arcs.map Int.toNat, value := .str s }
  | _ => { type := [], value := .other 0 [] }

def valToSeq (v : Val) : RDNSeq := (velems v).map (fun r => (velems r).map atvOfVal)

/-- the RDNs of a possibly nil sequence -/
def orNil : Option RDNSeq → RDNSeq
  | none => []
  | some s => s

/-- `asn1.Marshal(seq)` -/
def marshalSeq (seq : Option RDNSeq) : Res Bytes := C18.marshal rdnSchema {} (seqToVal seq)

/-- `var seq pkix.RDNSequence; rest, err := asn1.Unmarshal(der, &seq)` (strict mode); the decoded slice is never nil -/
def unmarshalSeq (der : Bytes) : Res (RDNSeq × Bytes) :=
  match C18.unmarshal false rdnSchema {} der with
  | .ok (v, rest) => .ok (valToSeq v, rest)
  | .err => .err
  | .panic => .panic

/-- the attribute is one Marshal → Unmarshal carries through: a Go string that is valid UTF-8 under an OBJECT IDENTIFIER the
    encoder accepts and the decoder reads back (≥ 2 arcs, first ≤ 2, second < 40 unless the first is 2, every
    sub-identifier < 2^31) -/
def atvOK (a : ATV) : Bool :=
  (match a.value with | .str s => C18.utf8Valid s | .other _ _ => false) && C18.oidOK (a.type.map Int.ofNat)

/-- **the domain of the DER leg** on sequences (decidable) -/
def seqOK (seq : RDNSeq) : Bool := seq.all (fun r => r.all atvOK)

end ZV.C22
