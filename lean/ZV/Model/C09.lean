import ZV.Base
/-!
  Model of `x509/verify.go: toLowerCaseASCII, matchHostnames, VerifyHostname`
  (and of what they call: Go's `range` over a string = `utf8.DecodeRuneInString`,
  `strings.TrimSuffix`, `strings.Split`, `net.ParseIP` = `netip.ParseAddr` minus
  zones, `net.IP.Equal`, `Certificate.hasSANExtension`), branch for branch.

  A Go `string` is a byte sequence: `Str = List UInt8`.
-/
namespace ZV.C09

abbrev Str := List UInt8

/-! ### Go `for _, c := range in` : UTF-8 decoding with RuneError on invalid bytes -/

def runeError : Nat := 0xFFFD

def isCont (b : UInt8) : Bool := 0x80 ≤ b.toNat && b.toNat ≤ 0xBF

/-- `acceptRanges[first[b0] >> 4]`: the admissible range of the second byte. -/
def accLo (n0 : Nat) : Nat := if n0 = 0xE0 then 0xA0 else if n0 = 0xF0 then 0x90 else 0x80
def accHi (n0 : Nat) : Nat := if n0 = 0xED then 0x9F else if n0 = 0xF4 then 0x8F else 0xBF
def inAccept (n0 : Nat) (b1 : UInt8) : Bool := accLo n0 ≤ b1.toNat && b1.toNat ≤ accHi n0

/-- `utf8.DecodeRuneInString (b0 :: rest)` = (rune, size - 1).  Invalid or short
    encodings yield `(RuneError, 0)` (width 1), exactly like the Go decoder
    (`first` table + `acceptRanges`). -/
def decodeRune (b0 : UInt8) (rest : Str) : Nat × Nat :=
  if b0.toNat < 0x80 then (b0.toNat, 0)
  else if b0.toNat < 0xC2 then (runeError, 0)
  else if b0.toNat < 0xE0 then
    match rest with
    | b1 :: _ =>
      if inAccept b0.toNat b1 then ((b0.toNat - 0xC0) * 64 + (b1.toNat - 0x80), 1) else (runeError, 0)
    | [] => (runeError, 0)
  else if b0.toNat < 0xF0 then
    match rest with
    | b1 :: b2 :: _ =>
      if inAccept b0.toNat b1 && isCont b2 then
        ((b0.toNat - 0xE0) * 4096 + (b1.toNat - 0x80) * 64 + (b2.toNat - 0x80), 2)
      else (runeError, 0)
    | _ => (runeError, 0)
  else if b0.toNat < 0xF5 then
    match rest with
    | b1 :: b2 :: b3 :: _ =>
      if inAccept b0.toNat b1 && isCont b2 && isCont b3 then
        ((b0.toNat - 0xF0) * 262144 + (b1.toNat - 0x80) * 4096 + (b2.toNat - 0x80) * 64 + (b3.toNat - 0x80), 3)
      else (runeError, 0)
    | _ => (runeError, 0)
  else (runeError, 0)

def isUpper (b : UInt8) : Bool := 65 ≤ b.toNat && b.toNat ≤ 90

def lowerByte (b : UInt8) : UInt8 := if isUpper b then b + 32 else b

/-- first loop of `toLowerCaseASCII`: the value of `isAlreadyLowerCase` after it.
    `break` on a RuneError (which is also what a well-formed U+FFFD decodes to) or
    on a rune in 'A'..'Z'. -/
def scanLower : Str → Bool
  | [] => true
  | b0 :: rest =>
    let r := decodeRune b0 rest
    if r.1 = runeError then false
    else if 65 ≤ r.1 ∧ r.1 ≤ 90 then false
    else scanLower (rest.drop r.2)
termination_by s => s.length
decreasing_by simp only [List.length_drop, List.length_cons]; omega

/-- `toLowerCaseASCII` -/
def toLowerCaseASCII (s : Str) : Str :=
  if scanLower s then s else s.map lowerByte

/-! ### matchHostnames -/

def dot : UInt8 := 46
def star : UInt8 := 42

/-- `strings.TrimSuffix(s, ".")` -/
def trimDot (s : Str) : Str :=
  match s.getLast? with
  | some c => if c = dot then s.dropLast else s
  | none => s

def consHead (b : UInt8) : List Str → List Str
  | [] => [[b]]
  | l :: ls => (b :: l) :: ls

/-- `strings.Split(s, ".")` (never empty; `Split("", ".") = [""]`). -/
def splitDot : Str → List Str
  | [] => [[]]
  | b :: rest => if b = dot then [] :: splitDot rest else consHead b (splitDot rest)

/-- the `for i, patternPart := range patternParts` loop; `hostParts[i]` past the
    end would be an index-out-of-range panic. -/
def matchParts : List Str → List Str → Res Bool
  | [], _ => .ok true
  | _ :: _, [] => .panic
  | p :: ps, h :: hs =>
    if p = [star] then matchParts ps hs
    else if p ≠ h then .ok false
    else matchParts ps hs

def matchHostnames (pattern host : Str) : Res Bool :=
  let host := trimDot host
  let pattern := trimDot pattern
  if pattern.length = 0 ∨ host.length = 0 then .ok false
  else
    let patternParts := splitDot pattern
    let hostParts := splitDot host
    if patternParts.length ≠ hostParts.length then .ok false
    else matchParts patternParts hostParts

/-! ### net.ParseIP  (Go 1.25: `netip.ParseAddr`, zone ⇒ nil, result `As16`) -/

def isDigit (c : UInt8) : Bool := 48 ≤ c.toNat && c.toNat ≤ 57

/-- loop of `netip.parseIPv4Fields`; `fields` = the octets stored so far (`fields[0..pos)`). -/
def v4Loop (prev : Option UInt8) (val pos digLen : Nat) (fields : List UInt8) : Str → Option (List UInt8)
  | [] => if pos < 3 then none else some (fields ++ [UInt8.ofNat val])
  | c :: rest =>
    if isDigit c then
      if digLen = 1 ∧ val = 0 then none
      else
        let val' := val * 10 + (c.toNat - 48)
        if val' > 255 then none
        else v4Loop (some c) val' pos (digLen + 1) fields rest
    else if c = dot then
      if prev = none ∨ rest = [] ∨ prev = some dot then none
      else if pos = 3 then none
      else v4Loop (some c) 0 (pos + 1) 0 (fields ++ [UInt8.ofNat val]) rest
    else none

def parseIPv4Fields (s : Str) : Option (List UInt8) := v4Loop none 0 0 0 [] s

def v4InV6Prefix : List UInt8 := [0, 0, 0, 0, 0, 0, 0, 0, 0, 0, 0xff, 0xff]

def hexDigitVal (c : UInt8) : Option Nat :=
  let n := c.toNat
  if 48 ≤ n ∧ n ≤ 57 then some (n - 48)
  else if 97 ≤ n ∧ n ≤ 102 then some (n - 97 + 10)
  else if 65 ≤ n ∧ n ≤ 70 then some (n - 65 + 10)
  else none

/-- inner hex loop of `parseIPv6`: `none` = error return, else `(acc, off, s[off:])`. -/
def hexGroup (acc off : Nat) : Str → Option (Nat × Nat × Str)
  | [] => some (acc, off, [])
  | c :: rest =>
    match hexDigitVal c with
    | none => some (acc, off, c :: rest)
    | some d =>
      let acc' := acc * 16 + d
      if off > 3 then none
      else if acc' > 0xFFFF then none
      else hexGroup acc' (off + 1) rest

/-- main loop of `parseIPv6` (`for i < 16`), `ip` = the bytes `ip[0..i)` written so
    far (`ip.length = i`); result `(ip, ellipsis, rest of s)` or `none` on an error return. -/
def v6Loop (ip : List UInt8) (ellipsis : Option Nat) (s : Str) : Option (List UInt8 × Option Nat × Str) :=
  if ip.length < 16 then
    match hexGroup 0 0 s with
    | none => none
    | some (acc, off, s') =>
      if off = 0 then none
      else
        match s' with
        | [] => some (ip ++ [UInt8.ofNat (acc / 256), UInt8.ofNat (acc % 256)], ellipsis, [])
        | c :: rest =>
          if c = dot then
            if ellipsis = none ∧ ip.length ≠ 12 then none
            else if ip.length + 4 > 16 then none
            else
              match parseIPv4Fields s with
              | none => none
              | some f => some (ip ++ f, ellipsis, [])
          else
            let ip' := ip ++ [UInt8.ofNat (acc / 256), UInt8.ofNat (acc % 256)]
            if c ≠ 58 then none
            else
              match rest with
              | [] => none
              | c2 :: rest2 =>
                if c2 = 58 then
                  if ellipsis.isSome then none
                  else
                    match rest2 with
                    | [] => some (ip', some ip'.length, [])
                    | _ => v6Loop ip' (some ip'.length) rest2
                else v6Loop ip' ellipsis rest
  else some (ip, ellipsis, s)
termination_by 16 - ip.length
decreasing_by all_goals (simp only [List.length_append, List.length_cons, List.length_nil]; omega)

/-- `parseIPv6` after the optional leading "::" : the group loop, the "used entire string"
    check and the ellipsis expansion. -/
def v6Finish (ell : Option Nat) (s1 : Str) : Option (List UInt8) :=
  match v6Loop [] ell s1 with
  | none => none
  | some (ip, ell', rest) =>
    if rest ≠ [] then none
    else if ip.length < 16 then
      match ell' with
      | none => none
      | some e => some (ip.take e ++ List.replicate (16 - ip.length) 0 ++ ip.drop e)
    else if ell'.isSome then none
    else some ip

def parseIPv6 (s : Str) : Option (List UInt8) :=
  -- any '%' ⇒ either "zone must be non-empty" or an Addr with a zone, which net.parseIP rejects
  if s.contains 37 then none
  else
    match s with
    | 58 :: 58 :: rest =>          -- leading ellipsis
      if rest = [] then some (List.replicate 16 0) else v6Finish (some 0) rest
    | _ => v6Finish none s

/-- `netip.ParseAddr` dispatch on the first of '.', ':', '%'. -/
def firstSep : Str → Option UInt8
  | [] => none
  | c :: rest => if c = dot ∨ c = 58 ∨ c = 37 then some c else firstSep rest

/-- `net.ParseIP`: `none` = nil, `some` = the 16-byte form. -/
def parseIP (s : Str) : Option (List UInt8) :=
  match firstSep s with
  | none => none
  | some c =>
    if c = dot then
      match parseIPv4Fields s with
      | none => none
      | some f => some (v4InV6Prefix ++ f)
    else if c = 58 then parseIPv6 s
    else none

/-- `net.IP.Equal` -/
def ipEqual (ip x : List UInt8) : Bool :=
  if ip.length = x.length then ip == x
  else if ip.length = 4 ∧ x.length = 16 then x.take 12 == v4InV6Prefix && ip == x.drop 12
  else if ip.length = 16 ∧ x.length = 4 then ip.take 12 == v4InV6Prefix && ip.drop 12 == x
  else false

/-! ### VerifyHostname -/

structure Cert where
  extOids : List (List Nat)     -- Extensions[i].Id
  dnsNames : List Str
  ipAddresses : List (List UInt8)
  commonName : Str
  deriving Repr, DecidableEq

def oidSAN : List Nat := [2, 5, 29, 17]

/-- `hasSANExtension` = `oidInExtensions(oidExtensionSubjectAltName, c.Extensions)` -/
def hasSANExtension (c : Cert) : Bool := c.extOids.any (fun o => o = oidSAN)

inductive Verdict where
  | accept
  | reject (host : Str)      -- HostnameError{c, host}
  deriving Repr, DecidableEq

/-- bracket stripping at the top of `VerifyHostname` -/
def candidateIP (h : Str) : Str :=
  if h.length ≥ 3 ∧ h.head? = some 91 ∧ h.getLast? = some 93 then (h.drop 1).dropLast else h

/-- the `for _, match := range c.DNSNames` loop -/
def matchAny (lowered : Str) : List Str → Res Bool
  | [] => .ok false
  | m :: ms =>
    match matchHostnames (toLowerCaseASCII m) lowered with
    | .ok true => .ok true
    | .ok false => matchAny lowered ms
    | .err => .err
    | .panic => .panic

def verifyHostname (c : Cert) (h : Str) : Res Verdict :=
  let cand := candidateIP h
  match parseIP cand with
  | some ip =>
    if c.ipAddresses.any (fun x => ipEqual ip x) then .ok .accept else .ok (.reject cand)
  | none =>
    let lowered := toLowerCaseASCII h
    if hasSANExtension c then
      match matchAny lowered c.dnsNames with
      | .ok true => .ok .accept
      | .ok false => .ok (.reject h)
      | .err => .err
      | .panic => .panic
    else
      match matchHostnames (toLowerCaseASCII c.commonName) lowered with
      | .ok true => .ok .accept
      | .ok false => .ok (.reject h)
      | .err => .err
      | .panic => .panic

/-! ### HostnameError.Error  (`san.String()` of the IP SANs is an input: `net.IP.String` is not modelled) -/

/-- "x509: cannot validate certificate for " -/
def msgCannot : Str := [120, 53, 48, 57, 58, 32, 99, 97, 110, 110, 111, 116, 32, 118, 97, 108, 105, 100, 97, 116, 101, 32, 99, 101, 114, 116, 105, 102, 105, 99, 97, 116, 101, 32, 102, 111, 114, 32]
/-- " because it doesn't contain any IP SANs" -/
def msgNoIPSANs : Str := [32, 98, 101, 99, 97, 117, 115, 101, 32, 105, 116, 32, 100, 111, 101, 115, 110, 39, 116, 32, 99, 111, 110, 116, 97, 105, 110, 32, 97, 110, 121, 32, 73, 80, 32, 83, 65, 78, 115]
/-- ", " -/
def commaSp : Str := [44, 32]
/-- "x509: certificate is not valid for any names, but wanted to match " -/
def msgNoNames : Str := [120, 53, 48, 57, 58, 32, 99, 101, 114, 116, 105, 102, 105, 99, 97, 116, 101, 32, 105, 115, 32, 110, 111, 116, 32, 118, 97, 108, 105, 100, 32, 102, 111, 114, 32, 97, 110, 121, 32, 110, 97, 109, 101, 115, 44, 32, 98, 117, 116, 32, 119, 97, 110, 116, 101, 100, 32, 116, 111, 32, 109, 97, 116, 99, 104, 32]
/-- "x509: certificate is valid for " -/
def msgValidFor : Str := [120, 53, 48, 57, 58, 32, 99, 101, 114, 116, 105, 102, 105, 99, 97, 116, 101, 32, 105, 115, 32, 118, 97, 108, 105, 100, 32, 102, 111, 114, 32]
/-- ", not " -/
def msgNot : Str := [44, 32, 110, 111, 116, 32]

/-- the `for _, san := range c.IPAddresses` loop: `if len(valid) > 0 { valid += ", " }; valid += san.String()` -/
def joinValid (valid : Str) : List Str → Str
  | [] => valid
  | s :: r => joinValid ((if valid.length > 0 then valid ++ commaSp else valid) ++ s) r

/-- `strings.Join(l, ", ")` -/
def joinComma : List Str → Str
  | [] => []
  | [x] => x
  | x :: y :: r => x ++ commaSp ++ joinComma (y :: r)

/-- the tail of `Error` once `valid` is known -/
def msgTail (valid host : Str) : Str :=
  if valid.length = 0 then msgNoNames ++ host else msgValidFor ++ valid ++ msgNot ++ host

/-- `HostnameError{c, host}.Error()`; `ipStrs` = `san.String()` for each IP SAN, in order. -/
def hostnameErrorMsg (c : Cert) (host : Str) (ipStrs : List Str) : Str :=
  match parseIP host with
  | some _ =>
    if c.ipAddresses.length = 0 then msgCannot ++ host ++ msgNoIPSANs
    else msgTail (joinValid [] ipStrs) host
  | none =>
    if hasSANExtension c then msgTail (joinComma c.dnsNames) host
    else msgTail c.commonName host

end ZV.C09
