import ZV.Base
import ZV.Generated.C08
/-!
  Model of `x509/cert_pool.go` (CertPool), branch for branch.

  Byte strings that are only ever compared (fingerprints, raw names, key ids) are
  abstracted to natural-number identities; `0` stands for the EMPTY key id
  (`len(cert.SubjectKeyId) == 0`).  Go maps are modelled as total functions
  (`Nat → List Nat`: a missing key reads as the nil slice, `Nat → Option Nat` for
  the presence test `_, ok := m[k]`).  `*Certificate` identity is the field `uid`.
-/
namespace ZV.C08

structure Cert where
  uid : Nat       -- which *Certificate object (pointer identity; not used by the pool logic)
  fp : Nat        -- FingerprintSHA256  (for parsed certificates in 1-1 correspondence with Raw)
  subject : Nat   -- RawSubject
  issuer : Nat    -- RawIssuer
  skid : Nat      -- SubjectKeyId   (0 = empty)
  akid : Nat      -- AuthorityKeyId (0 = empty)
  deriving Repr, DecidableEq

structure Pool where
  bySubjectKeyId : Nat → List Nat
  byName : Nat → List Nat
  bySHA256 : Nat → Option Nat
  certs : List Cert

/-- `NewCertPool` -/
def newPool : Pool := { bySubjectKeyId := fun _ => [], byName := fun _ => [], bySHA256 := fun _ => none, certs := [] }

/-- `m[k] = v` -/
def setKey {α : Type} (m : Nat → α) (k : Nat) (v : α) : Nat → α := fun x => if x = k then v else m x

/-- `(*CertPool).AddCert` below the `cert == nil` test (receiver and certificate non-nil). -/
def addCert (s : Pool) (cert : Cert) : Pool :=
  match s.bySHA256 cert.fp with
  | some _ => s
  | none =>
    let n := s.certs.length
    { certs := s.certs ++ [cert]
      bySubjectKeyId :=
        if cert.skid ≠ 0 then setKey s.bySubjectKeyId cert.skid (s.bySubjectKeyId cert.skid ++ [n])
        else s.bySubjectKeyId
      byName := setKey s.byName cert.subject (s.byName cert.subject ++ [n])
      bySHA256 := setKey s.bySHA256 cert.fp (some n) }

/-- `(*CertPool).AddCert` with its two ways to panic: `cert == nil` is tested FIRST (explicit
    `panic("adding nil Certificate to CertPool")`, also on a nil receiver), then `s.bySHA256` dereferences the receiver. -/
def addCertOpt (s : Option Pool) (cert : Option Cert) : Res Pool :=
  match cert with
  | none => .panic
  | some c =>
    match s with
    | none => .panic
    | some p => .ok (addCert p c)

/-- one `*pem.Block` as `AppendCertsFromPEM` sees it: `Type`, `len(Headers)`, and the result of
    `ParseCertificate(block.Bytes)` (`none` = error).  `pem.Decode` itself (encoding/pem: text between
    blocks is skipped, `nil` block = end of input) is the list structure. -/
structure Block where
  typ : String
  nHeaders : Nat
  parsed : Option Cert
  deriving Repr, DecidableEq

/-- the `continue` test `block.Type != "CERTIFICATE" || len(block.Headers) != 0`; literal and bound are the
    T1 facts `ZV.Generated.C08.pemBlockType` / `pemHeaderBound` read from the source on every run. -/
def Block.skipped (b : Block) : Bool :=
  b.typ != ZV.Generated.C08.pemBlockType || b.nHeaders != ZV.Generated.C08.pemHeaderBound

/-- `(*CertPool).AppendCertsFromPEM` on a non-nil receiver: the loop over the blocks `pem.Decode` yields.
    Wrong type or headers: `continue`; `ParseCertificate` error: `continue`; else `s.AddCert(cert); ok = true`. -/
def appendCertsFromPEM (s : Pool) : List Block → Pool × Bool
  | [] => (s, false)
  | b :: bs =>
    if b.skipped then appendCertsFromPEM s bs
    else
      match b.parsed with
      | none => appendCertsFromPEM s bs
      | some c => ((appendCertsFromPEM (addCert s c) bs).1, true)

/-- `AppendCertsFromPEM` on ANY receiver: a nil `*CertPool` is dereferenced (by `AddCert`) at the first block
    that is not skipped and parses; blocks before it are skipped without touching the receiver. -/
def appendCertsFromPEMOpt (s : Option Pool) (bs : List Block) : Res (Option Pool × Bool) :=
  match s with
  | some p => .ok (some (appendCertsFromPEM p bs).1, (appendCertsFromPEM p bs).2)
  | none =>
    if bs.any (fun b => !b.skipped && b.parsed.isSome) then .panic else .ok (none, false)

/-- `(*CertPool).Sum` (receiver and argument may be nil). -/
def sum (s other : Option Pool) : Pool :=
  let p1 := match s with
    | some a => a.certs.foldl addCert newPool
    | none => newPool
  match other with
  | some b => b.certs.foldl addCert p1
  | none => p1

/-- `Size` -/
def size : Option Pool → Nat
  | none => 0
  | some s => s.certs.length

/-- `Contains` -/
def contains (s : Option Pool) (c : Cert) : Bool :=
  match s with
  | none => false
  | some p => (p.bySHA256 c.fp).isSome

/-- `s.Covers(pool)` -/
def covers (s pool : Option Pool) : Bool :=
  match pool with
  | none => true
  | some q => q.certs.all (fun c => contains s c)

/-- `Certificates` -/
def certificates (s : Pool) : List Cert := s.certs

/-- `Subjects` -/
def subjects (s : Pool) : List Nat := s.certs.map (·.subject)

/-- result of `findVerifiedParents`: parent indices, `errCert` (the last rejected
    candidate), and whether the returned `err` is nil (it is the verdict on the LAST candidate). -/
structure Parents where
  parents : List Nat
  errCert : Option Cert
  errNil : Bool
  valid : Bool      -- `cert.ValidSignature` of the CHILD after the call (side effect)
  deriving Repr, DecidableEq

/-- the candidate loop; `s.certs[c]` out of range would be a Go panic. -/
def parentsLoop (chk : Cert → Cert → Bool) (certs : List Cert) (cert : Cert) (acc : Parents) : List Nat → Res Parents
  | [] => .ok acc
  | c :: cs =>
    match certs[c]? with
    | none => .panic
    | some p =>
      if chk cert p then parentsLoop chk certs cert { acc with parents := acc.parents ++ [c], errNil := true, valid := true } cs
      else parentsLoop chk certs cert { acc with errCert := some p, errNil := false } cs

/-- `(*CertPool).findVerifiedParents`; `chk child parent` = `child.CheckSignatureFrom(parent) == nil`,
    `v0` = `cert.ValidSignature` before the call (the loop sets it to true when a candidate verifies, never clears it). -/
def findVerifiedParents (chk : Cert → Cert → Bool) (s : Option Pool) (cert : Cert) (v0 : Bool := false) : Res Parents :=
  match s with
  | none => .ok { parents := [], errCert := none, errNil := true, valid := v0 }
  | some p =>
    let c1 : List Nat := if cert.akid ≠ 0 then p.bySubjectKeyId cert.akid else []
    let candidates := if c1.length = 0 then p.byName cert.issuer else c1
    parentsLoop chk p.certs cert { parents := [], errCert := none, errNil := true, valid := v0 } candidates

/-! ### operation sequences over pool variables -/

inductive Op where
  | add (r : Nat) (c : Option Cert)             -- regs[r].AddCert(c)   (`none` = AddCert(nil))
  | pem (r : Nat) (blocks : List Block)         -- regs[r].AppendCertsFromPEM(…)
  | sum (dst a b : Nat)                          -- regs[dst] = regs[a].Sum(regs[b])
  deriving Repr

abbrev Regs := Nat → Option Pool

/-- one step; a method call that writes through a nil `*CertPool` is a nil-dereference panic.
    The second component is the `ok` result of AppendCertsFromPEM. -/
def step (regs : Regs) : Op → Res (Regs × Option Bool)
  | .add r c =>
    match addCertOpt (regs r) c with
    | .ok p => .ok (setKey regs r (some p), none)
    | .err => .err
    | .panic => .panic
  | .pem r bs =>
    match appendCertsFromPEMOpt (regs r) bs with
    | .ok (p, ok) => .ok (setKey regs r p, some ok)
    | .err => .err
    | .panic => .panic
  | .sum d a b => .ok (setKey regs d (some (sum (regs a) (regs b))), none)

def run (regs : Regs) : List Op → Res (Regs × List Bool)
  | [] => .ok (regs, [])
  | op :: ops =>
    match step regs op with
    | .ok (regs', o) =>
      match run regs' ops with
      | .ok (regs'', os) => .ok (regs'', (match o with | some b => [b] | none => []) ++ os)
      | .err => .err
      | .panic => .panic
    | .err => .err
    | .panic => .panic

/-- initial variables: 0 and 1 are `NewCertPool()`, every other one is a nil `*CertPool`. -/
def init : Regs := fun r => if r < 2 then some newPool else none

end ZV.C08
