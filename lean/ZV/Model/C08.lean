import ZV.Base
/-!
  Model of `x509/cert_pool.go` (CertPool), branch for branch.

  Byte strings that are only ever compared (fingerprints, raw names, key ids) are
  abstracted to natural-number identities; `0` stands for the EMPTY key id
  (`len(cert.SubjectKeyId) == 0`).  Go maps are modelled as total functions
  (`Nat → List Nat`: a missing key reads as the nil slice, `Nat → Option Nat` for
  the presence test `_, ok := m[k]`).  `*Certificate` identity is the field `uid`.
-/
namespace ZV.C08

structure Cert where
  uid : Nat       -- which *Certificate object (pointer identity; not used by the pool logic)
  fp : Nat        -- FingerprintSHA256  (for parsed certificates in 1-1 correspondence with Raw)
  subject : Nat   -- RawSubject
  issuer : Nat    -- RawIssuer
  skid : Nat      -- SubjectKeyId   (0 = empty)
  akid : Nat      -- AuthorityKeyId (0 = empty)
  deriving Repr, DecidableEq

structure Pool where
  bySubjectKeyId : Nat → List Nat
  byName : Nat → List Nat
  bySHA256 : Nat → Option Nat
  certs : List Cert

/-- `NewCertPool` -/
def newPool : Pool := { bySubjectKeyId := fun _ => [], byName := fun _ => [], bySHA256 := fun _ => none, certs := [] }

/-- `m[k] = v` -/
def setKey {α : Type} (m : Nat → α) (k : Nat) (v : α) : Nat → α := fun x => if x = k then v else m x

/-- `(*CertPool).AddCert` (for a non-nil certificate; the nil-argument panic is not modelled). -/
def addCert (s : Pool) (cert : Cert) : Pool :=
  match s.bySHA256 cert.fp with
  | some _ => s
  | none =>
    let n := s.certs.length
    { certs := s.certs ++ [cert]
      bySubjectKeyId :=
        if cert.skid ≠ 0 then setKey s.bySubjectKeyId cert.skid (s.bySubjectKeyId cert.skid ++ [n])
        else s.bySubjectKeyId
      byName := setKey s.byName cert.subject (s.byName cert.subject ++ [n])
      bySHA256 := setKey s.bySHA256 cert.fp (some n) }

/-- `(*CertPool).AppendCertsFromPEM`: the input is the sequence of PEM blocks that
    `pem.Decode` yields; `some c` = a header-less CERTIFICATE block that parses to `c`,
    `none` = any block that is skipped (`continue`: other type, headers, unparseable). -/
def appendCertsFromPEM (s : Pool) : List (Option Cert) → Pool × Bool
  | [] => (s, false)
  | none :: bs => appendCertsFromPEM s bs
  | some c :: bs => ((appendCertsFromPEM (addCert s c) bs).1, true)

/-- `(*CertPool).Sum` (receiver and argument may be nil). -/
def sum (s other : Option Pool) : Pool :=
  let p1 := match s with
    | some a => a.certs.foldl addCert newPool
    | none => newPool
  match other with
  | some b => b.certs.foldl addCert p1
  | none => p1

/-- `Size` -/
def size : Option Pool → Nat
  | none => 0
  | some s => s.certs.length

/-- `Contains` -/
def contains (s : Option Pool) (c : Cert) : Bool :=
  match s with
  | none => false
  | some p => (p.bySHA256 c.fp).isSome

/-- `s.Covers(pool)` -/
def covers (s pool : Option Pool) : Bool :=
  match pool with
  | none => true
  | some q => q.certs.all (fun c => contains s c)

/-- `Certificates` -/
def certificates (s : Pool) : List Cert := s.certs

/-- `Subjects` -/
def subjects (s : Pool) : List Nat := s.certs.map (·.subject)

/-- result of `findVerifiedParents`: parent indices, `errCert` (the last rejected
    candidate), and whether the returned `err` is nil (it is the verdict on the LAST candidate). -/
structure Parents where
  parents : List Nat
  errCert : Option Cert
  errNil : Bool
  deriving Repr, DecidableEq

/-- the candidate loop; `s.certs[c]` out of range would be a Go panic. -/
def parentsLoop (chk : Cert → Cert → Bool) (certs : List Cert) (cert : Cert) (acc : Parents) : List Nat → Res Parents
  | [] => .ok acc
  | c :: cs =>
    match certs[c]? with
    | none => .panic
    | some p =>
      if chk cert p then parentsLoop chk certs cert { acc with parents := acc.parents ++ [c], errNil := true } cs
      else parentsLoop chk certs cert { acc with errCert := some p, errNil := false } cs

/-- `(*CertPool).findVerifiedParents`; `chk child parent` = `child.CheckSignatureFrom(parent) == nil`. -/
def findVerifiedParents (chk : Cert → Cert → Bool) (s : Option Pool) (cert : Cert) : Res Parents :=
  match s with
  | none => .ok { parents := [], errCert := none, errNil := true }
  | some p =>
    let c1 : List Nat := if cert.akid ≠ 0 then p.bySubjectKeyId cert.akid else []
    let candidates := if c1.length = 0 then p.byName cert.issuer else c1
    parentsLoop chk p.certs cert { parents := [], errCert := none, errNil := true } candidates

/-! ### operation sequences over pool variables -/

inductive Op where
  | add (r : Nat) (c : Cert)                    -- regs[r].AddCert(c)
  | pem (r : Nat) (blocks : List (Option Cert))  -- regs[r].AppendCertsFromPEM(…)
  | sum (dst a b : Nat)                          -- regs[dst] = regs[a].Sum(regs[b])
  deriving Repr

abbrev Regs := Nat → Option Pool

/-- one step; a method call that writes through a nil `*CertPool` is a nil-dereference panic.
    The second component is the `ok` result of AppendCertsFromPEM. -/
def step (regs : Regs) : Op → Res (Regs × Option Bool)
  | .add r c =>
    match regs r with
    | none => .panic
    | some p => .ok (setKey regs r (some (addCert p c)), none)
  | .pem r bs =>
    match regs r with
    | none =>
      -- a nil receiver is only dereferenced when a certificate is actually added
      if bs.any Option.isSome then .panic else .ok (regs, some false)
    | some p =>
      let res := appendCertsFromPEM p bs
      .ok (setKey regs r (some res.1), some res.2)
  | .sum d a b => .ok (setKey regs d (some (sum (regs a) (regs b))), none)

def run (regs : Regs) : List Op → Res (Regs × List Bool)
  | [] => .ok (regs, [])
  | op :: ops =>
    match step regs op with
    | .ok (regs', o) =>
      match run regs' ops with
      | .ok (regs'', os) => .ok (regs'', (match o with | some b => [b] | none => []) ++ os)
      | .err => .err
      | .panic => .panic
    | .err => .err
    | .panic => .panic

/-- initial variables: 0 and 1 are `NewCertPool()`, every other one is a nil `*CertPool`. -/
def init : Regs := fun r => if r < 2 then some newPool else none

end ZV.C08
