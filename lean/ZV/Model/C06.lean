import ZV.Model.DerLite
import ZV.Hash.SHA256
import ZV.Hash.SHA1
import ZV.Hash.MD5
/-!
  Model of the *structural* part of `x509/x509.go: ParseCertificate / parseCertificate`:
  how `asn1.Unmarshal` walks

      Certificate ::= SEQ { tbs SEQ { [0] version?, serial, sigalg, issuer, validity, subject, spki,
                                       [1] uid?, [2] uid?, [3] extensions? … }, sigalg, sigvalue … }

  (`encoding/asn1/asn1.go: parseField` — optional fields fall back to their default and do not consume,
  explicit tags read the inner header *from the enclosing buffer*, trailing elements of a SEQUENCE are
  ignored), which byte ranges become `Raw`, `RawTBSCertificate`, `RawIssuer`, `RawSubject`,
  `RawSubjectPublicKeyInfo`, and what `parseCertificate` derives from them: the seven fingerprints,
  `Version`, `SelfSigned`, and the no-CT TBS (extensions filtered, `asn1.Marshal` again).

  Not re-validated here (the model accepts a superset; the property and T2 quantify over certificates the
  Go code accepts): inner syntax of AlgorithmIdentifier, Validity (time strings), SubjectPublicKeyInfo /
  key parsing, Name → RDNSequence decoding, and the per-extension value parsers.
-/
namespace ZV.C06
open ZV.Der

/-- what `parseField` expects of the header (after `getUniversalType` / field parameters). -/
inductive Want where
  | any                                   -- asn1.RawValue
  | univ (tag : Nat) (compound : Bool)    -- universal type
  | ctx (tag : Nat) (compound : Bool)     -- implicit context tag
  | ctxAny (tag : Nat)                    -- implicit context tag on an asn1.RawValue (constructed bit not compared)
  deriving Repr, DecidableEq

def Want.ok : Want → Hdr → Bool
  | .any, _ => true
  | .univ t c, h => h.cls == 0 && h.tag == t && h.compound == c
  | .ctx t c, h => h.cls == 2 && h.tag == t && h.compound == c
  | .ctxAny t, h => h.cls == 2 && h.tag == t

/-- `parseField` for a non-explicit field: end of data / tag mismatch ⇒ default for optional fields
    (nothing consumed), error otherwise; the header is parsed (and may fail) before the tags are compared,
    `invalidLength` is checked after. -/
def field (w : Want) (optional : Bool) (bs : Bytes) : Res (Option Elem × Bytes) :=
  if bs.isEmpty then (if optional then .ok (none, bs) else .err)
  else
    match readHdr bs with
    | .ok (h, _) =>
      if !w.ok h then (if optional then .ok (none, bs) else .err)
      else
        match readElem bs with
        | .ok (e, rest) => .ok (some e, rest)
        | .err => .err
        | .panic => .panic
    | .err => .err
    | .panic => .panic

/-- `parseField` for `optional,explicit,tag:k`: returns the inner element and the bytes consumed
    (wrapper header + inner element — the wrapper's own length is only tested for zero).  A header that is not
    the expected wrapper gives the default without consuming, also when nothing follows it (zcrypto 51a5052:
    "explicit tag has no child" is reported only for a matching wrapper of non-zero length). -/
def explicitField (k : Nat) (inner : Want) (bs : Bytes) : Res (Option (Elem × Bytes) × Bytes) :=
  if bs.isEmpty then .ok (none, bs)
  else
    match readHdr bs with
    | .ok (h, after) =>
      if h.cls == 2 && h.tag == k && (h.len == 0 || h.compound) then
        if h.len == 0 then .err                                    -- zero length explicit tag, not a Flag
        else if after.isEmpty then .err                            -- "explicit tag has no child" (matching, non-empty wrapper only)
        else
          match readHdr after with
          | .ok (h2, _) =>
            if !inner.ok h2 then .ok (none, bs)                    -- default, offset reset
            else
              match readElem after with
              | .ok (e, rest) => .ok (some (e, bs.take (bs.length - rest.length)), rest)
              | .err => .err
              | .panic => .panic
          | .err => .err
          | .panic => .panic
      else .ok (none, bs)
    | .err => .err
    | .panic => .panic

/-- `parseObjectIdentifier` accepts: non-empty, every arc a valid minimal base-128 integer. -/
def validOIDFuel : Nat → Bytes → Bool
  | 0, bs => bs.isEmpty
  | f + 1, bs =>
    if bs.isEmpty then true
    else
      match readBase128 5 0 0 bs with
      | .ok (_, rest) => validOIDFuel f rest
      | _ => false

def validOID (bs : Bytes) : Bool := !bs.isEmpty && validOIDFuel bs.length bs

/-- a decoded `pkix.Extension` together with its own encoding. -/
structure Ext where
  full : Bytes
  oid : Bytes          -- contents octets of `Id`
  critical : Bool
  value : Bytes
  deriving Repr, DecidableEq

/-- `parseField` on a `pkix.Extension` struct: Id, optional Critical, Value; trailing elements ignored. -/
def parseExt (e : Elem) : Res Ext :=
  match field (.univ 6 false) false e.body with
  | .ok (some id, r1) =>
    if !validOID id.body then .err
    else
      match field (.univ 1 false) true r1 with
      | .ok (c, r2) =>
        (match (match c with | none => Res.ok false | some ce => parseBool ce.body) with
         | .ok crit =>
           (match field (.univ 4 false) false r2 with
            | .ok (some v, _) => .ok ⟨e.full, id.body, crit, v.body⟩
            | .ok (none, _) => .err
            | .err => .err
            | .panic => .panic)
         | .err => .err
         | .panic => .panic)
      | .err => .err
      | .panic => .panic
  | .ok (none, _) => .err
  | .err => .err
  | .panic => .panic

def parseExtList : List Elem → Res (List Ext)
  | [] => .ok []
  | e :: es =>
    match parseExt e with
    | .ok x =>
      (match parseExtList es with
       | .ok xs => .ok (x :: xs)
       | .err => .err
       | .panic => .panic)
    | .err => .err
    | .panic => .panic

def isSeqHdr (h : Hdr) : Bool := h.cls == 0 && h.tag == 16 && h.compound

/-- `parseSequenceOf` for `[]pkix.Extension`: first pass checks every header (universal, constructed,
    SEQUENCE) and length; second pass parses each element. -/
def parseExts (bs : Bytes) : Res (List Ext) :=
  match readElems bs with
  | .ok es => if es.all (fun e => isSeqHdr e.hdr) then parseExtList es else .err
  | .err => .err
  | .panic => .panic

structure Tbs where
  version : Int              -- encoded version (default 0)
  verRaw : Bytes             -- bytes consumed by the `[0]` version field ([] when absent)
  serial : Elem
  sigalg : Elem
  issuer : Elem
  validity : Elem
  subject : Elem
  spki : Elem
  pre : Bytes                -- everything consumed before the extensions field
  exts : List Ext
  deriving Repr

def someElem : Res (Option Elem × Bytes) → Res (Elem × Bytes)
  | .ok (some e, r) => .ok (e, r)
  | .ok (none, _) => .err
  | .err => .err
  | .panic => .panic

/-- bytes consumed by an explicit optional field -/
def consumed (r : Option (Elem × Bytes)) : Bytes :=
  match r with
  | none => []
  | some ve => ve.2

/-- optional BIT STRING field (`UniqueId`, `SubjectUniqueId`): present ⇒ must satisfy `parseBitString`. -/
def optBitString (tag : Nat) (bs : Bytes) : Res Bytes :=
  (field (.ctx tag false) true bs).bind fun r =>
    match r.1 with
    | none => .ok r.2
    | some e => (parseBitString e.body).bind fun _ => .ok r.2

structure TbsPre where
  version : Int
  verRaw : Bytes
  serial : Elem
  sigalg : Elem
  issuer : Elem
  validity : Elem
  subject : Elem
  spki : Elem
  deriving Repr

/-- fields of `tbsCertificate` before `Extensions`, in struct order.  Returns the decoded pieces and the
    remaining input (`Res.bind` = "return the error", as every `if err != nil { return }` of `parseField`). -/
def parseTbsPre (body : Bytes) : Res (TbsPre × Bytes) :=
  (explicitField 0 (.univ 2 false) body).bind fun ver =>
  (match ver.1 with | none => Res.ok (0 : Int) | some ve => parseInt64 ve.1.body).bind fun v =>
  (someElem (field (.univ 2 false) false ver.2)).bind fun serial =>
  if !checkInteger serial.1.body then .err else
  (someElem (field (.univ 16 true) false serial.2)).bind fun sigalg =>
  (someElem (field .any false sigalg.2)).bind fun issuer =>
  (someElem (field (.univ 16 true) false issuer.2)).bind fun validity =>
  (someElem (field .any false validity.2)).bind fun subject =>
  (someElem (field (.univ 16 true) false subject.2)).bind fun spki =>
  (optBitString 1 spki.2).bind fun r7 =>
  (optBitString 2 r7).bind fun r8 =>
  .ok (⟨v, consumed ver.1, serial.1, sigalg.1, issuer.1, validity.1,
        subject.1, spki.1⟩, r8)

def parseTbs (body : Bytes) : Res Tbs :=
  (parseTbsPre body).bind fun p =>
  let pre := body.take (body.length - p.2.length)
  (explicitField 3 (.univ 16 true) p.2).bind fun x =>
  (match x.1 with
   | none => Res.ok []
   | some xe => parseExts xe.1.body).bind fun xs =>
  .ok ⟨p.1.version, p.1.verRaw, p.1.serial, p.1.sigalg, p.1.issuer, p.1.validity, p.1.subject, p.1.spki, pre, xs⟩

structure Cert where
  raw : Elem
  tbsE : Elem
  tbs : Tbs
  sigalg : Elem
  sigval : Elem
  deriving Repr

/-- `ParseCertificate` (structure): one SEQUENCE, no trailing data; TBS, AlgorithmIdentifier, BIT STRING;
    whatever follows inside the outer SEQUENCE is ignored. -/
def parseCert (bs : Bytes) : Res Cert :=
  (someElem (field (.univ 16 true) false bs)).bind fun c =>
  if !c.2.isEmpty then .err else
  (someElem (field (.univ 16 true) false c.1.body)).bind fun tbsE =>
  (parseTbs tbsE.1.body).bind fun tbs =>
  (someElem (field (.univ 16 true) false tbsE.2)).bind fun sa =>
  (someElem (field (.univ 3 false) false sa.2)).bind fun sv =>
  (parseBitString sv.1.body).bind fun _ =>
  .ok ⟨c.1, tbsE.1, tbs, sa.1, sv.1⟩

/-! ### what `parseCertificate` derives -/

/-- header length of an element -/
def hlen (e : Elem) : Nat := e.full.length - e.body.length

/-- offset of the TBS element inside `Raw` -/
def Cert.offTbs (c : Cert) : Nat := hlen c.raw
/-- offset of the first TBS field inside `Raw` -/
def Cert.offTbsBody (c : Cert) : Nat := hlen c.raw + hlen c.tbsE
def Cert.offIssuer (c : Cert) : Nat :=
  c.offTbsBody + c.tbs.verRaw.length + c.tbs.serial.full.length + c.tbs.sigalg.full.length
def Cert.offSubject (c : Cert) : Nat :=
  c.offIssuer + c.tbs.issuer.full.length + c.tbs.validity.full.length
def Cert.offSPKI (c : Cert) : Nat := c.offSubject + c.tbs.subject.full.length

def Cert.rawTBS (c : Cert) : Bytes := c.tbsE.full
def Cert.rawIssuer (c : Cert) : Bytes := c.tbs.issuer.full
def Cert.rawSubject (c : Cert) : Bytes := c.tbs.subject.full
def Cert.rawSPKI (c : Cert) : Bytes := c.tbs.spki.full

/-- `out.Version = in.TBSCertificate.Version + 1` on Go's 64-bit `int`. -/
def versionPlusOne (v : Int) : Int := if v = 9223372036854775807 then -9223372036854775808 else v + 1

def oidPoison : Bytes := [0x2b, 0x06, 0x01, 0x04, 0x01, 0xd6, 0x79, 0x02, 0x04, 0x03]
def oidSCTList : Bytes := [0x2b, 0x06, 0x01, 0x04, 0x01, 0xd6, 0x79, 0x02, 0x04, 0x02]

/-- the two `continue`s of the filter loop -/
def isCT (x : Ext) : Bool := x.oid == oidPoison || x.oid == oidSCTList
def notCT (x : Ext) : Bool := !isCT x

def extsFlat (xs : List Ext) : Bytes := (xs.map (·.full)).flatten

/-- `asn1.Marshal(tbs)` with `Raw = nil` and the filtered extension slice — for a canonically encoded
    TBS every other field re-marshals to its own bytes (`pre`); the filtered slice is non-nil, so the
    `[3]` wrapper is ALWAYS emitted, `A3 02 30 00` when nothing is left. -/
def noCTBytes (pre : Bytes) (exts : List Ext) : Bytes :=
  writeTLV 0x30 (pre ++ writeTLV 0xA3 (writeTLV 0x30 (extsFlat (exts.filter notCT))))

structure Meta where
  version : Int
  fpMD5 : Bytes
  fpSHA1 : Bytes
  fpSHA256 : Bytes
  spkiFp : Bytes
  tbsFp : Bytes
  noCTFp : Bytes
  spkiSubjectFp : Bytes
  issuerEqSubject : Bool
  deriving Repr, DecidableEq

def Cert.meta (c : Cert) : Meta :=
  { version := versionPlusOne c.tbs.version
    fpMD5 := ZV.Hash.md5 c.raw.full
    fpSHA1 := ZV.Hash.sha1 c.raw.full
    fpSHA256 := ZV.Hash.sha256 c.raw.full
    spkiFp := ZV.Hash.sha256 c.rawSPKI
    tbsFp := ZV.Hash.sha256 c.rawTBS
    noCTFp := ZV.Hash.sha256 (noCTBytes c.tbs.pre c.tbs.exts)
    spkiSubjectFp := ZV.Hash.sha256 (c.rawSPKI ++ c.rawSubject)
    issuerEqSubject := c.rawSubject == c.rawIssuer }

/-- the byte string `FingerprintNoCT` hashes (`c.meta.noCTFp = sha256 c.noCT` by definition) -/
def Cert.noCT (c : Cert) : Bytes := noCTBytes c.tbs.pre c.tbs.exts

/-- `SelfSigned`: issuer bytes equal subject bytes and the signature verifies under the certificate's own key
    (`verified` = result of `CheckSignature(alg, RawTBS, sig)`, abstract). -/
def selfSigned (m : Meta) (verified : Bool) : Bool := m.issuerEqSubject && verified

/-! ### canonical encoder used by the CT theorems (`asn1.Marshal` of a `tbsCertificate` / `certificate`)

  The encoder is parametrised by the *encodings* of the fields (each one TLV), so that the theorems
  `parseTbs_encTbs` / `parseCert_encCert` (ZV.Props.C06) hold for every well-formed choice of them — not only
  for the ones a particular marshaller would emit.  Only the wrappers the CT property is about (`[0]`, `[3]`,
  the SEQUENCE OF Extension, the TBS and certificate SEQUENCEs) are produced with `writeTLV`. -/

def encExt (oid : Bytes) (critical : Bool) (value : Bytes) : Bytes :=
  writeTLV 0x30 (writeTLV 0x06 oid ++ (if critical then writeTLV 0x01 [0xff] else []) ++ writeTLV 0x04 value)

/-- the `pkix.Extension` value `parseExt` decodes from `encExt oid critical value` -/
def mkExt (oid : Bytes) (critical : Bool) (value : Bytes) : Ext := ⟨encExt oid critical value, oid, critical, value⟩

/-- `[3] EXPLICIT SEQUENCE OF Extension`.  An empty list is omitted (Go: nil slice) unless `wrapEmpty`
    (Go: empty non-nil slice, what `CreateCertificate` leaves for a template without extensions), in which
    case the field is `A3 02 30 00`. -/
def encExtsField (wrapEmpty : Bool) (xs : List Ext) : Bytes :=
  if xs.isEmpty && !wrapEmpty then [] else writeTLV 0xA3 (writeTLV 0x30 (extsFlat xs))

/-- the fields of a `tbsCertificate` other than `Extensions`, each given by its own encoding. -/
structure TbsFields where
  version : Option Bytes      -- the INTEGER element inside `[0] EXPLICIT` (none ⇒ the field is omitted)
  serial : Bytes              -- INTEGER element
  sigalg : Bytes              -- SEQUENCE element
  issuer : Bytes              -- any element (asn1.RawValue)
  validity : Bytes            -- SEQUENCE element
  subject : Bytes             -- any element (asn1.RawValue)
  spki : Bytes                -- SEQUENCE element
  issuerUID : Option Bytes    -- `[1] IMPLICIT BIT STRING` element
  subjectUID : Option Bytes   -- `[2] IMPLICIT BIT STRING` element
  wrapEmpty : Bool            -- write the `[3]` field also for an empty extension list (`A3 02 30 00`)
  deriving Repr, DecidableEq

def encVersion : Option Bytes → Bytes
  | none => []
  | some v => writeTLV 0xA0 v

def optBytes : Option Bytes → Bytes
  | none => []
  | some b => b

/-- everything before the extensions field -/
def encTbsPre (f : TbsFields) : Bytes :=
  encVersion f.version ++ f.serial ++ f.sigalg ++ f.issuer ++ f.validity ++ f.subject ++ f.spki
    ++ optBytes f.issuerUID ++ optBytes f.subjectUID

/-- contents of the TBS SEQUENCE -/
def encTbsBody (f : TbsFields) (xs : List Ext) : Bytes := encTbsPre f ++ encExtsField f.wrapEmpty xs

def encTbs (f : TbsFields) (xs : List Ext) : Bytes := writeTLV 0x30 (encTbsBody f xs)

/-- `Certificate ::= SEQUENCE { tbs, signatureAlgorithm, signatureValue }` from the three encodings -/
def encCert (tbs sigalg sig : Bytes) : Bytes := writeTLV 0x30 (tbs ++ sigalg ++ sig)

def insertAt {α} (i : Nat) (x : α) (l : List α) : List α := l.take i ++ x :: l.drop i

/-! #### decidable well-formedness of the encoder's arguments -/

/-- the element a byte string starts with (`⟨0,false,0,0⟩, [], []` when there is none) -/
def elemAt (bs : Bytes) : Elem :=
  match readElem bs with
  | .ok (e, _) => e
  | _ => ⟨⟨0, false, 0, 0⟩, [], []⟩

/-- `bs` is exactly one element (strict DER header, body of the announced length, nothing after it) whose
    header is what `parseField` wants. -/
def isElem (w : Want) (bs : Bytes) : Bool :=
  match readElem bs with
  | .ok (e, rest) => rest.isEmpty && w.ok e.hdr
  | _ => false

def wfVersion : Option Bytes → Bool
  | none => true
  | some v => isElem (.univ 2 false) v && (parseInt64 (elemAt v).body).isOk

def wfUID (k : Nat) : Option Bytes → Bool
  | none => true
  | some u => isElem (.ctx k false) u && (parseBitString (elemAt u).body).isOk

/-- every field is one element of the tag `parseField` expects at that position, with the content checks
    `parseTbsPre` performs (version fits int64, serial is a minimal INTEGER, unique ids are BIT STRINGs). -/
def wfFields (f : TbsFields) : Bool :=
  wfVersion f.version
    && (isElem (.univ 2 false) f.serial && checkInteger (elemAt f.serial).body)
    && isElem (.univ 16 true) f.sigalg
    && isElem .any f.issuer
    && isElem (.univ 16 true) f.validity
    && isElem .any f.subject
    && isElem (.univ 16 true) f.spki
    && wfUID 1 f.issuerUID
    && wfUID 2 f.subjectUID

/-- `x.full` is exactly one SEQUENCE element and `parseExt` decodes it to `x`. -/
def wfExt (x : Ext) : Bool :=
  match readElem x.full with
  | .ok (e, rest) => rest.isEmpty && isSeqHdr e.hdr && decide (parseExt e = .ok x)
  | _ => false

/-- the outer `signatureAlgorithm` / `signatureValue` encodings -/
def wfSig (sigalg sig : Bytes) : Bool :=
  isElem (.univ 16 true) sigalg && isElem (.univ 3 false) sig && (parseBitString (elemAt sig).body).isOk

/-- all arguments of `encCert (encTbs f xs) sigalg sig` are well-formed and the result is shorter than 2^31
    octets (the bound of `parseTagAndLength`'s length accumulator and of `lenDigits`). -/
def wfCert (f : TbsFields) (xs : List Ext) (sigalg sig : Bytes) : Bool :=
  wfFields f && xs.all wfExt && wfSig sigalg sig && decide ((encTbs f xs ++ sigalg ++ sig).length < 2147483648)

/-- **the certificate has the shape the canonical encoder produces** (decidable, on the parse result): no
    trailing elements after `signatureValue`; the TBS contents are exactly the fields followed by the canonical
    extensions field of the parsed list (for `[]`: absent, or `A3 02 30 00`; nothing after it); and the `[0]`
    version wrapper, when present, has a length consistent with its content (what was consumed is one element). -/
def Cert.shapeOK (c : Cert) : Bool :=
  c.raw.body == c.tbsE.full ++ c.sigalg.full ++ c.sigval.full
    && (c.tbsE.body == c.tbs.pre ++ encExtsField false c.tbs.exts
         || c.tbsE.body == c.tbs.pre ++ encExtsField true c.tbs.exts)
    && (c.tbs.verRaw.isEmpty || isElem (.ctx 0 true) c.tbs.verRaw)

/-- the decoded version (0 when the field is absent) -/
def verInt : Option Bytes → Int
  | none => 0
  | some v => intOfBytes (elemAt v).body

end ZV.C06
