import ZV.Base
/-!
  ZV.Wire — engine E1 (data part): TLS-style wire formats as combinators over
  `structure Fmt α` (a serialiser and a parser with an explicit remaining-input result).
  Core Lean only (the driver links this file).  The LAWS of the combinators (round trip, consumption,
  no panic) are proved once in `ZV.Proofs.Wire` (`Lawful`), so a format assembled from combinators is
  correct by construction.

  Conventions mirrored from the Go readers (`binary.Read`, `io.ReadFull`, `readUint`, `readVarBytes`):
  a read of `n` bytes from a buffer holding fewer than `n` fails with `err` and never panics.
-/
namespace ZV.Wire

/-! ### fixed-width integers -/

/-- `k` bytes little-endian of `v` (reduced mod 256^k, like a Go conversion to a k-byte unsigned type). -/
def leBytes : Nat → Nat → Bytes
  | 0, _ => []
  | k + 1, v => UInt8.ofNat (v % 256) :: leBytes k (v / 256)

def leVal : Bytes → Nat
  | [] => 0
  | b :: rest => b.toNat + 256 * leVal rest

/-- `k` bytes big-endian (Go `writeUint` fills the buffer from the end: the reverse of little-endian). -/
def beBytes (k v : Nat) : Bytes := (leBytes k v).reverse
def beVal (bs : Bytes) : Nat := leVal bs.reverse

/-! ### formats -/

structure Fmt (α : Type) where
  ser : α → Res Bytes
  par : Bytes → Res (α × Bytes)

/-- big-endian `k`-byte unsigned integer.  `ser` fails when the value does not fit (Go `writeUint`:
    "numBytes was insufficiently large"). -/
def uintBE (k : Nat) : Fmt Nat where
  ser v := if v < 256 ^ k then .ok (beBytes k v) else .err
  par bs := if bs.length < k then .err else .ok (beVal (bs.take k), bs.drop k)

def uintLE (k : Nat) : Fmt Nat where
  ser v := if v < 256 ^ k then .ok (leBytes k v) else .err
  par bs := if bs.length < k then .err else .ok (leVal (bs.take k), bs.drop k)

/-- exactly `n` raw bytes (Go fixed-size arrays, `binary.Read(r, …, &[n]byte)`). -/
def bytesN (n : Nat) : Fmt Bytes where
  ser v := if v.length = n then .ok v else .err
  par bs := if bs.length < n then .err else .ok (bs.take n, bs.drop n)

/-- length-prefixed byte string given the format of the length field (`readVarBytes` / `writeVarBytes`). -/
def varBytes (len : Fmt Nat) : Fmt Bytes where
  ser v :=
    match len.ser v.length with
    | .ok l => .ok (l ++ v)
    | .err => .err
    | .panic => .panic
  par bs :=
    match len.par bs with
    | .ok (l, rest) => if rest.length < l then .err else .ok (rest.take l, rest.drop l)
    | .err => .err
    | .panic => .panic

/-- `opaque<0..2^(8k)-1>`: k-byte big-endian length prefix. -/
def opaqueBE (k : Nat) : Fmt Bytes := varBytes (uintBE k)

/-- sequencing: `a` then `b`; the first error wins. -/
def pair {α β : Type} (a : Fmt α) (b : Fmt β) : Fmt (α × β) where
  ser v :=
    match a.ser v.1 with
    | .ok x =>
      match b.ser v.2 with
      | .ok y => .ok (x ++ y)
      | .err => .err
      | .panic => .panic
    | .err => .err
    | .panic => .panic
  par bs :=
    match a.par bs with
    | .ok (x, rest) =>
      match b.par rest with
      | .ok (y, rest') => .ok ((x, y), rest')
      | .err => .err
      | .panic => .panic
    | .err => .err
    | .panic => .panic

/-- change of representation (record ↔ tuple). -/
def iso {α β : Type} (f : α → β) (g : β → α) (c : Fmt α) : Fmt β where
  ser v := c.ser (g v)
  par bs :=
    match c.par bs with
    | .ok (x, rest) => .ok (f x, rest)
    | .err => .err
    | .panic => .panic

/-- partial change of representation: `g` may refuse a value (wrong constructor) -/
def piso {α β : Type} (f : α → β) (g : β → Option α) (c : Fmt α) : Fmt β where
  ser v := match g v with | some a => c.ser a | none => .err
  par bs :=
    match c.par bs with
    | .ok (x, rest) => .ok (f x, rest)
    | .err => .err
    | .panic => .panic

/-- a value restricted by a decidable predicate, checked AFTER reading the field and BEFORE writing it
    (e.g. `if sct.SCTVersion != V1 { return error }`). -/
def guard {α : Type} (p : α → Bool) (c : Fmt α) : Fmt α where
  ser v := if p v then c.ser v else .err
  par bs :=
    match c.par bs with
    | .ok (x, rest) => if p x then .ok (x, rest) else .err
    | .err => .err
    | .panic => .panic

/-- a field whose format depends on an earlier field (tagged union: `switch t.EntryType`).
    `tag` recovers the selector from the value when serialising. -/
def dep {τ β : Type} (t : Fmt τ) (tag : β → τ) (body : τ → Fmt β) : Fmt β where
  ser v :=
    match t.ser (tag v) with
    | .ok x =>
      match (body (tag v)).ser v with
      | .ok y => .ok (x ++ y)
      | .err => .err
      | .panic => .panic
    | .err => .err
    | .panic => .panic
  par bs :=
    match t.par bs with
    | .ok (x, rest) => (body x).par rest
    | .err => .err
    | .panic => .panic

/-- exactly `n` elements of format `c`, one after the other (`for i := 0; i < n; i++ { read element }`) -/
def parN {α : Type} (c : Fmt α) : Nat → Bytes → Res (List α × Bytes)
  | 0, bs => .ok ([], bs)
  | n + 1, bs =>
    match c.par bs with
    | .ok (x, rest) =>
      match parN c n rest with
      | .ok (xs, rest') => .ok (x :: xs, rest')
      | .err => .err
      | .panic => .panic
    | .err => .err
    | .panic => .panic

def serAll {α : Type} (c : Fmt α) : List α → Res Bytes
  | [] => .ok []
  | x :: xs =>
    match c.ser x with
    | .ok a =>
      match serAll c xs with
      | .ok b => .ok (a ++ b)
      | .err => .err
      | .panic => .panic
    | .err => .err
    | .panic => .panic

/-- counted vector: element count in format `cnt`, then that many elements -/
def countList {α : Type} (cnt : Fmt Nat) (c : Fmt α) : Fmt (List α) where
  ser l :=
    match cnt.ser l.length with
    | .ok a =>
      match serAll c l with
      | .ok b => .ok (a ++ b)
      | .err => .err
      | .panic => .panic
    | .err => .err
    | .panic => .panic
  par bs :=
    match cnt.par bs with
    | .ok (n, rest) => parN c n rest
    | .err => .err
    | .panic => .panic

/-- the format that accepts nothing and produces nothing (unknown selector). -/
def fail {α : Type} : Fmt α where
  ser _ := .err
  par _ := .err

/-- run a parser on a whole buffer and require nothing about the tail: convenience for drivers -/
def parseAll {α : Type} (c : Fmt α) (bs : Bytes) : Res (α × Bytes) := c.par bs

/-! ### line-protocol helpers shared by the drivers of Wire instances -/

/-- byte-string argument: `-` | parts joined by `+`, each part lower-case hex or `*<n>:<hh>` (n copies of byte hh) -/
def parsePart (s : String) : Option Bytes :=
  match s.toList with
  | '*' :: rest =>
    match (String.ofList rest).splitOn ":" with
    | [n, b] =>
      match n.toNat?, ofHex b with
      | some k, some [x] => some (List.replicate k x)
      | _, _ => none
    | _ => none
  | _ => ofHex s

def parseBytes (s : String) : Option Bytes :=
  if s == "-" then some []
  else
    match (s.splitOn "+").mapM parsePart with
    | some ps => some ps.flatten
    | none => none

def cksum (bs : Bytes) : Nat := bs.foldl (fun h b => (h * 257 + b.toNat + 1) % 1000000007) 7

/-- canonical output form: hex up to 1024 bytes, else `L<len>.<checksum>.<first 8>.<last 8>` -/
def showBytes (bs : Bytes) : String :=
  if bs.length ≤ 1024 then toHex bs
  else "L" ++ toString bs.length ++ "." ++ toString (cksum bs) ++ "." ++ toHex (bs.take 8) ++ "." ++ toHex (bs.drop (bs.length - 8))

end ZV.Wire
