import ZV.Base
import ZV.Generated.C24
/-!
  Model of the TLS negotiation decisions of zcrypto, one function per Go function, over the
  tables regenerated from the source on every run (`ZV.C24.Gen`, T1):

  * `Config.supportedVersions`, `Config.mutualVersion`, `maxSupportedVersion`   (tls/common.go)
  * client offer: `makeClientHello` cipher-suite list                            (tls/handshake_client.go)
  * `deprioritizeAES` = sort.SliceStable with a non-transitive comparator; for n ≤ 20 Go runs a plain
    insertion sort, modelled exactly (`deprio`); longer lists are outside the model (`none`)
  * `aesgcmPreferred`, `selectCipherSuite`, `cipherSuiteOk`, `pickCipherSuite`   (tls/handshake_server.go)
  * TLS 1.3 suite and group choice                                               (tls/handshake_server_tls13.go)
  * `mutualProtocol` (ALPN), downgrade canary placement and the client's check
-/
namespace ZV.C24
open Gen

def VersionTLS10 : Nat := 769
def VersionTLS11 : Nat := 770
def VersionTLS12 : Nat := 771
def VersionTLS13 : Nat := 772

/-- `(c *Config) supportedVersions()`; 0 = unset bound -/
def configVersions (table : List Nat) (minV maxV : Nat) : List Nat :=
  table.filter (fun v => !(minV != 0 && v < minV) && !(maxV != 0 && v > maxV))

/-- `(c *Config) mutualVersion(peerVersions)`: first peer version that we support -/
def mutualVersion (mine peer : List Nat) : Option Nat :=
  peer.find? (fun p => mine.contains p)

def maxSupported (vs : List Nat) : Nat := vs.headD 0

def hasFlag (flags bit : Nat) : Bool := (flags / bit) % 2 == 1

def lookup (table : List SuiteRow) (id : Nat) : Option SuiteRow := table.find? (fun r => r.id == id)

/-- `cipherSuiteTLS13ByID` -/
def isTLS13Suite (id : Nat) : Bool := cipherSuitesTLS13.contains id

/-- `(c *Config) cipherSuitesTLS13()` -/
def configSuitesTLS13 (suites : Option (List Nat)) : List Nat :=
  match suites with
  | none => defaultCipherSuitesTLS13
  | some l =>
    if l.isEmpty then defaultCipherSuitesTLS13 else
    -- the Go switch names the three TLS 1.3 ids explicitly; they are the table `cipherSuitesTLS13`
    let f := l.filter isTLS13Suite
    if f.isEmpty then defaultCipherSuitesTLS13 else f

/-- the `cipherSuites` list a client puts in its ClientHello (`makeClientHello`) -/
def clientOffer (versions : List Nat) (suites : Option (List Nat)) (force : Bool) : List Nat :=
  let helloVers := min (maxSupported versions) VersionTLS12
  let possible := suites.getD defaultCipherSuites
  let base :=
    if force then possible
    else possible.filter (fun id =>
      match lookup cipherSuites id with
      | none => false
      | some r => !(helloVers < VersionTLS12 && hasFlag r.flags flagTLS12))
  if versions.headD 0 == VersionTLS13 && !force then base ++ configSuitesTLS13 suites else base

/-! ### deprioritizeAES -/
def nonAESGCMAEAD (id : Nat) : Bool := nonAESGCMAEADCiphers.contains id
def isAESGCM (id : Nat) : Bool := aesgcmCiphers.contains id
/-- the comparator handed to sort.SliceStable -/
def less (a b : Nat) : Bool := nonAESGCMAEAD a && isAESGCM b

/-- inner loop of Go's insertionSort: `for j := i; j > a && less(j, j-1); j-- { swap }`,
    on the reversed prefix -/
def bubble (x : Nat) : List Nat → List Nat
  | [] => [x]
  | p :: ps => if less x p then p :: bubble x ps else x :: p :: ps

def insertionSortRev (acc : List Nat) : List Nat → List Nat
  | [] => acc
  | x :: xs => insertionSortRev (bubble x acc) xs

/-- `deprioritizeAES` for the lengths on which sort.SliceStable is a single insertion sort -/
def deprio (l : List Nat) : Option (List Nat) :=
  if l.length ≤ 20 then some (insertionSortRev [] l).reverse else none

/-- `aesgcmPreferred`: is the first known suite an AES-GCM one -/
def aesgcmPreferred (l : List Nat) : Bool :=
  match l.find? (fun id => (lookup implemented id).isSome || isTLS13Suite id) with
  | none => false
  | some id => isAESGCM id

/-! ### TLS ≤ 1.2 server-side choice -/
inductive KeyType where
  | rsa | ecdsa | ed25519
  deriving Repr, DecidableEq

structure Facts where
  vers : Nat
  ecdheOk : Bool
  ecSignOk : Bool
  rsaSignOk : Bool
  rsaDecryptOk : Bool

/-- `(hs *serverHandshakeState) cipherSuiteOk` -/
def cipherSuiteOk (f : Facts) (r : SuiteRow) : Bool :=
  (if hasFlag r.flags flagECDHE then
     f.ecdheOk && (if hasFlag r.flags flagECSign then f.ecSignOk else f.rsaSignOk)
   else f.rsaDecryptOk)
  && !hasFlag r.flags flagDSS
  && !(f.vers < VersionTLS12 && hasFlag r.flags flagTLS12)

/-- `selectCipherSuite(ids, supportedIDs, ok)` -/
def selectCipherSuite (ids supported : List Nat) (ok : SuiteRow → Bool) : Option SuiteRow :=
  match ids with
  | [] => none
  | id :: rest =>
    match lookup implemented id with
    | none => selectCipherSuite rest supported ok
    | some r => if ok r && supported.contains id then some r else selectCipherSuite rest supported ok

def facts (vers : Nat) (key : KeyType) (ecdheOk : Bool) : Facts :=
  match key with
  | .rsa => { vers, ecdheOk, ecSignOk := false, rsaSignOk := true, rsaDecryptOk := true }
  | .ecdsa => { vers, ecdheOk, ecSignOk := true, rsaSignOk := false, rsaDecryptOk := false }
  | .ed25519 => { vers, ecdheOk, ecSignOk := true, rsaSignOk := false, rsaDecryptOk := false }

inductive Pick where
  | suite (r : SuiteRow)
  | noSuite
  | unmodelled          -- deprioritizeAES on more than 20 ids
  deriving Repr, DecidableEq

/-- `pickCipherSuite` up to the selection (the FALLBACK_SCSV test is separate) -/
def pickCipherSuite (offer : List Nat) (srvSuites : Option (List Nat)) (prefer : Bool) (f : Facts) : Pick :=
  let srv := srvSuites.getD defaultCipherSuites
  let lists : Option (List Nat × List Nat) :=
    if prefer then
      if srvSuites.isNone && !aesgcmPreferred offer then (deprio srv).map (fun p => (p, offer))
      else some (srv, offer)
    else
      if !hasAESGCMHardwareSupport then (deprio offer).map (fun p => (p, srv))
      else some (offer, srv)
  match lists with
  | none => .unmodelled
  | some (pref, sup) =>
    match selectCipherSuite pref sup (cipherSuiteOk f) with
    | some r => .suite r
    | none => .noSuite

/-- TLS 1.3: `mutualCipherSuiteTLS13` over the preference list -/
def pickTLS13 (offer : List Nat) (prefer : Bool) : Option (Option Nat) :=
  let lists : Option (List Nat × List Nat) :=
    if prefer then
      if !aesgcmPreferred offer then (deprio defaultCipherSuitesTLS13).map (fun p => (p, offer))
      else some (defaultCipherSuitesTLS13, offer)
    else
      if !hasAESGCMHardwareSupport then (deprio offer).map (fun p => (p, defaultCipherSuitesTLS13))
      else some (offer, defaultCipherSuitesTLS13)
  match lists with
  | none => none
  | some (pref, sup) => some (pref.find? (fun id => sup.contains id && isTLS13Suite id))

/-- `mutualProtocol(protos, preferenceProtos)`: first preferred protocol the peer also lists -/
def mutualProtocol (protos pref : List Nat) : Option Nat := pref.find? (fun s => protos.contains s)

/-! ### downgrade canary -/
inductive Canary where
  | none | c12 | c11
  deriving Repr, DecidableEq

/-- server: `maxVers >= VersionTLS12 && c.vers < maxVers` (TLS ≤ 1.2 hello only) -/
def serverCanary (srvMax vers : Nat) : Canary :=
  if srvMax ≥ VersionTLS12 && vers < srvMax then (if vers == VersionTLS12 then .c12 else .c11) else .none

/-- client: abort rule of `clientHandshake` on the last 8 bytes of the server random -/
def clientAborts (cliMax vers : Nat) (seen : Canary) : Bool :=
  (cliMax == VersionTLS13 && vers ≤ VersionTLS12 && (seen == .c12 || seen == .c11)) ||
  (cliMax == VersionTLS12 && vers ≤ VersionTLS11 && seen == .c11)

/-! ### whole negotiation -/
structure Client where
  minV : Nat
  maxV : Nat
  suites : Option (List Nat)
  force : Bool
  curves : Option (List Nat)
  alpn : List Nat

structure Server where
  minV : Nat
  maxV : Nat
  suites : Option (List Nat)
  prefer : Bool
  curves : Option (List Nat)
  alpn : List Nat
  key : KeyType
  rand : Canary          -- Config.ServerRandom override ending in a canary (none = fresh randomness)

structure Outcome where
  vers : Nat
  suite : Nat
  alpn : Option Nat
  canary : Canary
  deriving Repr, DecidableEq

inductive Result where
  | done (o : Outcome)
  | fail
  | unmodelled
  deriving Repr, DecidableEq

def curvesOf (c : Option (List Nat)) : List Nat :=
  match c with
  | none => defaultCurvePreferences
  | some l => if l.isEmpty then defaultCurvePreferences else l

/-- after the suite is chosen: can the key exchange of that suite be carried out with this key?
    (`generateServerKeyExchange`: DSS needs a DSA key — none is supported; Ed25519 has no
    legacy (pre-1.2) signature type) -/
def exchangeWorks (r : SuiteRow) (key : KeyType) (vers : Nat) : Bool :=
  if r.ka == "dhe-dss" then false
  else if key == .ed25519 && vers < VersionTLS12 then false
  else true

def negotiate (c : Client) (s : Server) : Result :=
  let cv := configVersions supportedVersions c.minV c.maxV
  let sv := configVersions supportedVersions s.minV s.maxV
  if cv.isEmpty then .fail else
  match mutualVersion sv cv with
  | none => .fail
  | some v =>
    let offer := clientOffer cv c.suites c.force
    let helloVers := min (maxSupported cv) VersionTLS12
    let scsvBad := offer.contains fallbackSCSV &&
      (if v == VersionTLS13 then v < maxSupported sv else helloVers < maxSupported sv)
    let alpn := if c.alpn.isEmpty then none else mutualProtocol c.alpn s.alpn
    let cc := curvesOf c.curves
    let sc := curvesOf s.curves
    if v == VersionTLS13 then
      if scsvBad then .fail else
      match pickTLS13 offer s.prefer with
      | none => .unmodelled
      | some none => .fail
      | some (some id) =>
        if sc.any (fun g => cc.contains g) then .done { vers := v, suite := id, alpn, canary := .none }
        else .fail
    else
      let ecdheOk := cc.any (fun g => sc.contains g)
      match pickCipherSuite offer s.suites s.prefer (facts v s.key ecdheOk) with
      | .unmodelled => .unmodelled
      | .noSuite => .fail
      | .suite r =>
        if scsvBad then .fail else
        if !exchangeWorks r s.key v then .fail else
        let seen := match s.rand with
          | .none => serverCanary (maxSupported sv) v
          | x => x
        if clientAborts (maxSupported cv) v seen then .fail
        else .done { vers := v, suite := r.id, alpn, canary := seen }

/-! ### session resumption across connections

  `loadSession` (tls/handshake_client.go), `checkForResumption` (tls/handshake_server.go and
  tls/handshake_server_tls13.go), ticket issue (`sendSessionTicket`, `sendSessionTickets`,
  `readSessionTicket`, `handleNewSessionTicket`) and the client's drop-the-ticket-on-failure rule, as far as
  they decide WHETHER a connection resumes and WHAT the client's session cache holds afterwards.
  Ticket cryptography is abstracted: a ticket is (version, suite, index of the server key that sealed it);
  "decrypts" = the sealing key is in the server's current key list (authenticity itself is property C31). -/

/-- the content of a cached ClientSessionState / of the ticket inside it -/
structure Sess where
  vers : Nat
  suite : Nat
  key : Nat
  deriving Repr, DecidableEq

def isSHA384 (id : Nat) : Bool := cipherSuitesTLS13SHA384.contains id
/-- `pskSuite.hash == suite.hash` on TLS 1.3 suite ids -/
def sameHash (a b : Nat) : Bool := isSHA384 a == isSHA384 b

/-- `(c *Conn) loadSession`: the cached session the client presents in this ClientHello, if any
    (the certificate / expiry checks always pass in the harness: verified chain, fresh certificate) -/
def loadSession (cv offer : List Nat) (useCache : Bool) (cache : Option Sess) : Option Sess :=
  if !useCache then none else
  match cache with
  | none => none
  | some se =>
    if !cv.contains se.vers then none
    else if se.vers != VersionTLS13 then
      -- `mutualCipherSuite(hello.cipherSuites, session.cipherSuite)`
      if offer.contains se.suite && (lookup implemented se.suite).isSome then some se else none
    else
      if !isTLS13Suite se.suite then none
      else if offer.any (fun id => isTLS13Suite id && sameHash id se.suite) then some se else none

/-- TLS ≤ 1.2 `(hs *serverHandshakeState) checkForResumption`: the resumed suite and `usedOldKey`.
    `tkeys = none` is SessionTicketsDisabled, `some ks` the list given to SetSessionTicketKeys -/
def checkResume12 (v : Nat) (offer : List Nat) (srvSuites : Option (List Nat)) (f : Facts)
    (tkeys : Option (List Nat)) (presented : Option Sess) : Option (SuiteRow × Bool) :=
  match tkeys, presented with
  | some ks, some se =>
    if se.vers == VersionTLS13 then none            -- a TLS 1.3 session travels as a PSK identity, the ticket extension is empty
    else if !ks.contains se.key then none           -- decryptTicket
    else if v != se.vers then none                  -- never resume a session for a different TLS version
    else if !offer.contains se.suite then none      -- the client is still offering the suite
    else
      -- we also (still) support the suite
      match selectCipherSuite [se.suite] (srvSuites.getD defaultCipherSuites) (cipherSuiteOk f) with
      | none => none
      | some r => some (r, ks.head? != some se.key)
  | _, _ => none

/-- TLS 1.3 `(hs *serverHandshakeStateTLS13) checkForResumption` for the suite already selected -/
def checkResume13 (suite : Nat) (pskModeDHE : Bool) (tkeys : Option (List Nat)) (presented : Option Sess) : Bool :=
  match tkeys, presented with
  | some ks, some se =>
    pskModeDHE && se.vers == VersionTLS13 && ks.contains se.key && isTLS13Suite se.suite && sameHash se.suite suite
  | _, _ => false

/-- one connection of a sequence: the two configurations as they are NOW -/
structure Conn where
  c : Client
  s : Server
  useCache : Bool                -- client Config.ClientSessionCache set (shared by the whole sequence)
  tkeys : Option (List Nat)      -- server: none = SessionTicketsDisabled, some ks = SetSessionTicketKeys ks

/-- what happened to the client's cache entry during the connection -/
inductive CacheEv where
  | keep | put | del
  deriving Repr, DecidableEq

structure StepOut where
  res : Result
  resumed : Bool
  ev : CacheEv
  cache : Option Sess
  deriving Repr, DecidableEq

/-- a failed handshake: the client throws the presented session away (RFC 5077 §3.2), otherwise leaves the cache alone -/
def failedWith (presented cache : Option Sess) : StepOut :=
  match presented with
  | some _ => { res := .fail, resumed := false, ev := .del, cache := none }
  | none => { res := .fail, resumed := false, ev := .keep, cache := cache }

/-- a completed handshake in which the server issued a (new) ticket under its first key, or did not -/
def completed (o : Outcome) (resumed issue : Bool) (tkeys : Option (List Nat)) (cache : Option Sess) : StepOut :=
  match issue, tkeys with
  | true, some (k0 :: _) => { res := .done o, resumed, ev := .put, cache := some { vers := o.vers, suite := o.suite, key := k0 } }
  | _, _ => { res := .done o, resumed, ev := .keep, cache := cache }

/-- `negotiate` with the resumption decision at the place where the handshakes take it -/
def connect (k : Conn) (cache : Option Sess) : StepOut :=
  let c := k.c
  let s := k.s
  let cv := configVersions supportedVersions c.minV c.maxV
  let sv := configVersions supportedVersions s.minV s.maxV
  if cv.isEmpty then { res := .fail, resumed := false, ev := .keep, cache := cache } else   -- makeClientHello fails first
  let offer := clientOffer cv c.suites c.force
  let presented := loadSession cv offer k.useCache cache
  match mutualVersion sv cv with
  | none => failedWith presented cache
  | some v =>
    let helloVers := min (maxSupported cv) VersionTLS12
    let scsvBad := offer.contains fallbackSCSV &&
      (if v == VersionTLS13 then v < maxSupported sv else helloVers < maxSupported sv)
    let alpn := if c.alpn.isEmpty then none else mutualProtocol c.alpn s.alpn
    let cc := curvesOf c.curves
    let sc := curvesOf s.curves
    let ticketsOn := k.tkeys.isSome
    if v == VersionTLS13 then
      if scsvBad then failedWith presented cache else
      match pickTLS13 offer s.prefer with
      | none => { res := .unmodelled, resumed := false, ev := .keep, cache := cache }
      | some none => failedWith presented cache
      | some (some id) =>
        if sc.any (fun g => cc.contains g) then
          -- loadSession announces psk_dhe_ke whenever a cache is configured and TLS 1.3 is the top version
          let pskMode := k.useCache && maxSupported cv == VersionTLS13
          completed { vers := v, suite := id, alpn, canary := .none }
            (checkResume13 id pskMode k.tkeys presented) (ticketsOn && pskMode) k.tkeys cache
        else failedWith presented cache
    else
      let ecdheOk := cc.any (fun g => sc.contains g)
      let f := facts v s.key ecdheOk
      let seen := match s.rand with
        | .none => serverCanary (maxSupported sv) v
        | x => x
      match checkResume12 v offer s.suites f k.tkeys presented with
      | some (r, usedOldKey) =>
        -- abbreviated handshake: pickCipherSuite (and its FALLBACK_SCSV test) and the key exchange are skipped
        if clientAborts (maxSupported cv) v seen then failedWith presented cache
        else completed { vers := v, suite := r.id, alpn, canary := seen } true usedOldKey k.tkeys cache
      | none =>
        match pickCipherSuite offer s.suites s.prefer f with
        | .unmodelled => { res := .unmodelled, resumed := false, ev := .keep, cache := cache }
        | .noSuite => failedWith presented cache
        | .suite r =>
          if scsvBad then failedWith presented cache else
          if !exchangeWorks r s.key v then failedWith presented cache else
          if clientAborts (maxSupported cv) v seen then failedWith presented cache
          else completed { vers := v, suite := r.id, alpn, canary := seen } false (ticketsOn && k.useCache) k.tkeys cache

/-- a sequence of connections through one client session cache -/
def runSeq (cache : Option Sess) : List Conn → List StepOut
  | [] => []
  | k :: ks => let o := connect k cache; o :: runSeq o.cache ks

/-! ## One long-lived listener Config with a `GetConfigForClient` callback (`c24 lsn`)

  `(c *Conn) readClientHello`: `originalConfig := c.config`; if the callback returns a non-nil Config it becomes
  `c.config` (the Config IN FORCE for the rest of the handshake); `c.ticketKeys = originalConfig.ticketKeys(configForClient)`.
  `(c *Config) ticketKeys(configForClient)`: the returned Config's explicit keys if it has any (none at all if it
  disables tickets), otherwise the ORIGINAL Config's keys — explicit, or auto-managed (one key per sequence here: rotation
  takes 24 h), none if the original Config disables tickets. -/

/-- the ticket-key part of one Config: `SessionTicketsDisabled`, and the explicit keys (`SetSessionTicketKeys` or the
    legacy `SessionTicketKey` field); `keys = []` = nothing set (that Config's keys are auto-managed) -/
structure KeyCfg where
  disabled : Bool
  keys : List Nat
  deriving Repr, DecidableEq

/-- stands for the listener Config's auto-managed key in key lists -/
def autoKey : Nat := 999

/-- second half of `Config.ticketKeys`: the receiver's own keys -/
def ownKeys (c : KeyCfg) : List Nat :=
  if c.disabled then [] else if !c.keys.isEmpty then c.keys else [autoKey]

/-- `originalConfig.ticketKeys(configForClient)` -/
def ticketKeys (orig : KeyCfg) (forClient : Option KeyCfg) : List Nat :=
  match forClient with
  | some f => if f.disabled then [] else if !f.keys.isEmpty then f.keys else ownKeys orig
  | none => ownKeys orig

/-- what the server's `GetConfigForClient` does for one connection -/
inductive Hook where
  | unset      -- Config.GetConfigForClient == nil
  | retNil     -- returns (nil, nil)
  | clone      -- returns originalConfig.Clone(), possibly after setting keys / disabling tickets on the clone
  | fresh      -- returns another Config (new or long-lived) with the given key setting
  deriving Repr, DecidableEq

/-- the key part of the Config the callback returns (`none`: no Config returned). `Clone` copies
    SessionTicketsDisabled and the explicit keys; `SetSessionTicketKeys` on the clone replaces the keys -/
def forClientCfg (l : KeyCfg) (h : Hook) (pk : Option KeyCfg) : Option KeyCfg :=
  match h with
  | .unset => none
  | .retNil => none
  | .clone =>
    match pk with
    | none => some l
    | some m => some { disabled := l.disabled || m.disabled, keys := if m.keys.isEmpty then l.keys else m.keys }
  | .fresh =>
    match pk with
    | none => some { disabled := false, keys := [] }
    | some m => some m

/-- `c.config.SessionTicketsDisabled` of the Config in force -/
def inForceDisabled (l : KeyCfg) (fc : Option KeyCfg) : Bool :=
  match fc with
  | some f => f.disabled
  | none => l.disabled

/-- one connection to the listener: the configurations in force, the flag in force and `c.ticketKeys` -/
structure LConn where
  c : Client
  s : Server
  useCache : Bool
  disabled : Bool
  keys : List Nat

/-- `connect` for a listener connection. With tickets enabled and at least one key, or with tickets disabled, this is
    `connect`. Tickets enabled but NO key (`c.ticketKeys` empty: the listener's Config disables tickets, the
    per-client Config does not and brings no keys): `decryptTicket` finds nothing, so nothing resumes, and where the
    full handshake would issue a ticket `encryptTicket` fails ("session ticket keys unavailable") and with it the
    handshake (TLS ≤ 1.2: in sendSessionTicket after the client's Finished; TLS 1.3: in the server's first flight). -/
def lconnect (k : LConn) (cache : Option Sess) : StepOut :=
  if k.disabled then connect { c := k.c, s := k.s, useCache := k.useCache, tkeys := none } cache
  else match k.keys with
  | _ :: _ => connect { c := k.c, s := k.s, useCache := k.useCache, tkeys := some k.keys } cache
  | [] =>
    let o := connect { c := k.c, s := k.s, useCache := k.useCache, tkeys := none } cache
    match o.res with
    | .done _ =>
      if k.useCache then
        let cv := configVersions supportedVersions k.c.minV k.c.maxV
        failedWith (loadSession cv (clientOffer cv k.c.suites k.c.force) k.useCache cache) cache
      else o
    | _ => o

/-- one step of an `lsn` line -/
structure LStep where
  c : Client
  s : Server                 -- this step's server fields: in force only when the callback returns a `fresh` Config
  useCache : Bool
  hook : Hook
  pk : Option KeyCfg

/-- the connection the step amounts to, for a listener Config with server fields `ls` and key setting `lk` -/
def lstepConn (ls : Server) (lk : KeyCfg) (st : LStep) : LConn :=
  let fc := forClientCfg lk st.hook st.pk
  { c := st.c,
    s := (match st.hook with | .fresh => st.s | _ => ls),
    useCache := st.useCache,
    disabled := inForceDisabled lk fc,
    keys := ticketKeys lk fc }

/-- a sequence of connections to one listener through one client session cache -/
def runLsn (ls : Server) (lk : KeyCfg) (cache : Option Sess) : List LStep → List StepOut
  | [] => []
  | st :: sts => let o := lconnect (lstepConn ls lk st) cache; o :: runLsn ls lk o.cache sts

end ZV.C24
