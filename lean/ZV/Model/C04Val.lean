import ZV.Model.C04
import ZV.Model.Time
/-!
  The `Validity` and `serialNumber` members of the TBSCertificate `CreateCertificate` writes
  (`validity{template.NotBefore.UTC(), template.NotAfter.UTC()}`, `SerialNumber: template.SerialNumber`) and what
  `ParseCertificate` reads back.  Times are `ZV.Time.GoTime`; the UTCTime / GeneralizedTime choice, the text forms and
  the two readers are the shared model `ZV.Time.EA` (unchanged).
-/
namespace ZV.C04
open ZV ZV.Der ZV.C06 ZV.Time

/-- `t.UTC()`: the same instant (nanoseconds kept), zone offset 0 -/
def toUTC (t : GoTime) : GoTime := { t with off := 0 }

/-- `makeField` for a `time.Time` without parameters: tag 23 or 24 chosen by the year, then the text -/
def encTime (t : GoTime) : Res Bytes :=
  match EA.makeTimeBody 0 t with
  | .ok body => .ok (writeTLV (UInt8.ofNat (EA.timeTag 0 t)) body)
  | .err => .err
  | .panic => .panic

/-- `Validity ::= SEQUENCE { notBefore Time, notAfter Time }` as CreateCertificate marshals it -/
def buildValidity (nb na : GoTime) : Res Bytes :=
  match encTime (toUTC nb), encTime (toUTC na) with
  | .ok a, .ok b => .ok (writeTLV 0x30 (a ++ b))
  | .panic, _ => .panic
  | _, .panic => .panic
  | _, _ => .err

/-- `parseField` for a `time.Time` field without parameters: a universal primitive UTCTime, or (substituted universal
    tag) GeneralizedTime; strict mode -/
def parseTimeField (bs : Bytes) : Res (GoTime × Bytes) :=
  match field (.univ 24 false) true bs with
  | .ok (some e, rest) => (EA.parseTimeBody false 24 e.body).bind fun t => .ok (t, rest)
  | .ok (none, _) =>
    (match someElem (field (.univ 23 false) false bs) with
     | .ok (e, rest) => (EA.parseTimeBody false 23 e.body).bind fun t => .ok (t, rest)
     | .err => .err
     | .panic => .panic)
  | .err => .err
  | .panic => .panic

/-- the `validity` struct: (NotBefore, NotAfter) -/
def parseValidity (bs : Bytes) : Res (GoTime × GoTime) :=
  match first (.univ 16 true) bs with
  | .ok e =>
    (parseTimeField e.body).bind fun a =>
    (parseTimeField a.2).bind fun b => .ok (a.1, b.1)
  | .err => .err
  | .panic => .panic

/-- `marshalBigInt`: INTEGER contents of any `*big.Int` — minimal two's complement, negative values written as they
    are (CreateCertificate of zcrypto has no sign check; only a nil serial is an error) -/
def encSerial (v : Int) : Bytes :=
  let l := intLen v.natAbs v
  beBytes l (if v < 0 then (v + (256 : Int) ^ l).toNat else v.toNat)

/-- `parseBigInt` (strict): minimality check, two's-complement value of any width -/
def parseSerial (bs : Bytes) : Res Int := if !checkInteger bs then .err else .ok (intOfBytes bs)

end ZV.C04
