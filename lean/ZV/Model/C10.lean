import ZV.Base
/-!
  Model of `verifier/graph.go`: `Graph`, `AddCert`, `AddRoot`, the observers `Nodes`/`Edges`/`FindEdge`/
  `FindNode`/`IsRoot`, and the loop of `AppendFromPEMErr` / `AppendFromPEM` (end of file).

  Abstractions
  * a certificate is a record of small identifiers: `fp` stands for its SHA-256
    fingerprint (the key of every `GraphEdgeSet`), `subj`/`iss` for `RawSubject` /
    `RawIssuer`, `key` for `RawSubjectPublicKeyInfo`; a node is identified by its
    `subjectAndKeyFingerprint`, modelled as the pair `(subj, key)`;
  * `x509.CheckSignatureFromKey(node.PublicKey, cert…)` is an abstract relation
    `V : NodeKey → fp → Bool` (the correspondence check computes it with the real
    signature check and sends it on the case line);
  * Go pointers: an edge is stored once, in `Graph.edges` (that is where its mutable
    `issuer` and `root` fields live); every `GraphEdgeSet` elsewhere holds fingerprints;
    nodes are stored once, in `Graph.nodes` (insertion order, like `g.nodes`);
    `nodesBySubjectAndKey[k]` is `findNode`, `nodesBySubject[s]` is the sub-list of
    `nodes` with subject `s` in the same order (both Go slices are appended together);
  * a Go `map[K]*GraphEdgeSet` is an association list `SetMap K` (order = an arbitrary
    iteration order; the driver sorts before printing).
  `addOrPanic` is modelled with an explicit `Res.panic`.
  The last fields of `Cert` are not read by the graph; they are used by C11 / C12.
-/
namespace ZV.C10

abbrev NodeKey := Nat × Nat

structure Cert where
  fp : Nat
  subj : Nat
  key : Nat
  iss : Nat
  isCA : Bool := false
  bcValid : Bool := false
  maxPathLen : Int := -1
  notBefore : Int := 0
  notAfter : Int := 0
  serial : Nat := 0
  dns : Int := 0
  deriving Repr, DecidableEq

/-- `c.SubjectAndKey().Fingerprint` -/
def Cert.sk (c : Cert) : NodeKey := (c.subj, c.key)

/-- the signature relation: `V k fp` = the key of node `k` verifies certificate `fp` -/
abbrev Ver := NodeKey → Nat → Bool

/-! ### `map[K]*GraphEdgeSet` -/

abbrev SetMap (κ : Type) := List (κ × List Nat)

namespace SetMap
variable {κ : Type} [BEq κ]

/-- `m[k]` -/
def get : SetMap κ → κ → Option (List Nat)
  | [], _ => none
  | (k', l) :: rest, k => if k' == k then some l else get rest k

/-- `_, ok := m[k].edges[f]` (false when `m[k]` is nil) -/
def has : SetMap κ → κ → Nat → Bool
  | [], _, _ => false
  | (k', l) :: rest, k, f => if k' == k then l.contains f else has rest k f

/-- `if m[k] == nil { m[k] = NewGraphEdgeSet() }; m[k].edges[f] = …` -/
def add : SetMap κ → κ → Nat → SetMap κ
  | [], k, f => [(k, [f])]
  | (k', l) :: rest, k, f => if k' == k then (k', l ++ [f]) :: rest else (k', l) :: add rest k f

/-- `m[k].removeEdge(f)` for every `f ∈ fs` (written as a map over the entries with key `k`;
    a Go map has exactly one) -/
def removeAll (m : SetMap κ) (k : κ) (fs : List Nat) : SetMap κ :=
  m.map (fun g => if g.1 == k then (g.1, g.2.filter (fun f => !fs.contains f)) else g)

/-- `if m[k].Size() == 0 { delete(m, k) }` -/
def dropIfEmpty (m : SetMap κ) (k : κ) : SetMap κ :=
  m.filter (fun g => !(g.1 == k && g.2.isEmpty))
end SetMap

/-! ### the graph -/

structure Edge where
  cert : Cert
  issuer : Option NodeKey      -- `nil` = dangling
  child : NodeKey
  root : Bool
  deriving Repr, DecidableEq

structure Node where
  key : NodeKey
  children : SetMap NodeKey    -- childrenBySubjectAndKey
  parents : SetMap NodeKey     -- parentsBySubjectAndKey
  deriving Repr, DecidableEq

structure Graph where
  nodes : List Node
  edges : List Edge
  missing : SetMap Nat         -- missingIssuerNode, keyed by issuer name
  deriving Repr, DecidableEq

def Graph.empty : Graph := { nodes := [], edges := [], missing := [] }

def hasEdge (es : List Edge) (fp : Nat) : Bool := es.any (fun e => e.cert.fp == fp)
def findEdge (es : List Edge) (fp : Nat) : Option Edge := es.find? (fun e => e.cert.fp == fp)
def hasNode (ns : List Node) (k : NodeKey) : Bool := ns.any (fun n => n.key == k)
def findNode (ns : List Node) (k : NodeKey) : Option Node := ns.find? (fun n => n.key == k)

/-- update through the node pointer -/
def updNode (ns : List Node) (k : NodeKey) (f : Node → Node) : List Node :=
  ns.map (fun n => if n.key == k then f n else n)

/-- `edge.issuer = node` through the edge pointer -/
def setIssuer (es : List Edge) (fp : Nat) (k : NodeKey) : List Edge :=
  es.map (fun e => if e.cert.fp == fp then { e with issuer := some k } else e)

def setRoot (es : List Edge) (fp : Nat) : List Edge :=
  es.map (fun e => if e.cert.fp == fp then { e with root := true } else e)

def childHas (ns : List Node) (p c : NodeKey) (fp : Nat) : Bool :=
  match findNode ns p with
  | some n => n.children.has c fp
  | none => false

def parentHas (ns : List Node) (c p : NodeKey) (fp : Nat) : Bool :=
  match findNode ns c with
  | some n => n.parents.has p fp
  | none => false

/-- the two `addOrPanic` calls that hang edge `fp` (head `c`) under issuer node `p`:
    `p.childrenBySubjectAndKey[c] += fp` then `c.parentsBySubjectAndKey[p] += fp`. -/
def link (ns : List Node) (p c : NodeKey) (fp : Nat) : Res (List Node) :=
  if childHas ns p c fp then .panic
  else
    let ns1 := updNode ns p (fun n => { n with children := n.children.add c fp })
    if parentHas ns1 c p fp then .panic
    else .ok (updNode ns1 c (fun n => { n with parents := n.parents.add p fp }))

/-- the first node of `nodesBySubject[iss]` whose key verifies `fp` (the loop with `break`) -/
def searchIssuer (V : Ver) (ns : List Node) (iss fp : Nat) : Option Node :=
  ns.find? (fun n => n.key.1 == iss && V n.key fp)

/-- the fix-up loop over `potentialOutgoingEdges.Edges()`; returns nodes, edges and `fixedUpEdges` -/
def fixLoop (V : Ver) (sk : NodeKey) :
    List Node → List Edge → List Nat → List Nat → Res (List Node × List Edge × List Nat)
  | ns, es, [], fixed => .ok (ns, es, fixed)
  | ns, es, fp :: rest, fixed =>
    match findEdge es fp with
    | none => fixLoop V sk ns es rest fixed      -- not reachable: sets hold edge pointers
    | some e =>
      if V sk fp then
        match link ns sk e.child fp with
        | .ok ns' => fixLoop V sk ns' (setIssuer es fp sk) rest (fixed ++ [fp])
        | _ => .panic
      else fixLoop V sk ns es rest fixed

/-- last phase of `AddCert`, only run when the node is new:
    look at `missingIssuerNode[c.RawSubject]`. -/
def fixup (V : Ver) (g : Graph) (c : Cert) : Res Graph :=
  match g.missing.get c.subj with
  | none => .ok g
  | some cands =>
    match fixLoop V c.sk g.nodes g.edges cands [] with
    | .ok (ns, es, fixed) =>
      .ok { nodes := ns, edges := es, missing := (g.missing.removeAll c.subj fixed).dropIfEmpty c.subj }
    | _ => .panic

def newNode (k : NodeKey) : Node := { key := k, children := [], parents := [] }

/-- `(*Graph).AddCert` -/
def addCert (V : Ver) (g : Graph) (c : Cert) : Res Graph :=
  if hasEdge g.edges c.fp then .ok g          -- already represented
  else
    let sk := c.sk
    let isNew := !hasNode g.nodes sk
    let nodes1 := if isNew then g.nodes ++ [newNode sk] else g.nodes
    let edge0 : Edge := { cert := c, issuer := none, child := sk, root := false }
    let r : Res Graph :=
      match searchIssuer V nodes1 c.iss c.fp with
      | some p =>
        match link nodes1 p.key sk c.fp with
        | .ok nodes2 =>
          .ok { nodes := nodes2, edges := g.edges ++ [{ edge0 with issuer := some p.key }], missing := g.missing }
        | _ => .panic
      | none =>
        if g.missing.has c.iss c.fp then .panic
        else .ok { nodes := nodes1, edges := g.edges ++ [edge0], missing := g.missing.add c.iss c.fp }
    match r with
    | .ok g1 => if isNew then fixup V g1 c else .ok g1
    | _ => .panic

/-- `(*Graph).AddRoot`: `AddCert`, then `FindEdge(...).root = true` (nil dereference = panic) -/
def addRoot (V : Ver) (g : Graph) (c : Cert) : Res Graph :=
  match addCert V g c with
  | .ok g1 => if hasEdge g1.edges c.fp then .ok { g1 with edges := setRoot g1.edges c.fp } else .panic
  | _ => .panic

inductive Op where
  | add (c : Cert)
  | root (c : Cert)
  deriving Repr, DecidableEq

def Op.cert : Op → Cert
  | .add c => c
  | .root c => c

def step (V : Ver) (g : Graph) : Op → Res Graph
  | .add c => addCert V g c
  | .root c => addRoot V g c

def run (V : Ver) : Graph → List Op → Res Graph
  | g, [] => .ok g
  | g, op :: ops =>
    match step V g op with
    | .ok g1 => run V g1 ops
    | _ => .panic

/-! ### the public observers (`Nodes`, `Edges`, `FindEdge`, `FindNode`, `IsRoot`) -/

/-- `len(g.Nodes())`: a copy of `g.nodes` -/
def nodesLen (g : Graph) : Nat := g.nodes.length
/-- `len(g.Edges())`: the values of the top-level edge set -/
def edgesLen (g : Graph) : Nat := g.edges.length
/-- `g.FindEdge(c.FingerprintSHA256) != nil` -/
def findEdgeOk (g : Graph) (c : Cert) : Bool := (findEdge g.edges c.fp).isSome
/-- `g.FindNode(c.SPKISubjectFingerprint) != nil` -/
def findNodeOk (g : Graph) (c : Cert) : Bool := (findNode g.nodes c.sk).isSome
/-- `(*Graph).IsRoot`: `edge := g.FindEdge(fp); if edge == nil { return false }; return edge.root` -/
def isRoot (g : Graph) (c : Cert) : Bool :=
  match findEdge g.edges c.fp with
  | none => false
  | some e => e.root

/-! ### `AppendFromPEMErr` / `AppendFromPEM`

  The byte stream is abstracted to the sequence of things the scanner loop meets:
  * `junk` — bytes in which `pem.Decode` finds no block (free text, a block with a broken armour or
    broken base64): `zcertificate.ScannerSplitPEM` glues them to the next token and `pem.Decode`
    skips them again in the loop body, nothing is counted;
  * `bad`  — a well-formed PEM block whose payload `x509.ParseCertificate` rejects: one parsing error;
  * `cert c` — a well-formed PEM block (of ANY type label: the label is not looked at) whose payload
    parses to `c`;
  * `big`  — 64 KiB or more without a complete PEM block: `bufio.Scanner` gives up with
    `ErrTooLong`, the loop ends, everything after it is ignored and the third result is non-nil. -/
inductive PemItem where
  | junk
  | bad
  | cert (c : Cert)
  | big
  deriving Repr, DecidableEq

structure PemOut where
  count : Nat        -- first result: certificates parsed
  nerr : Nat         -- `len(parsingErrs)`
  readErr : Bool     -- `scanner.Err() != nil`
  g : Graph
  deriving Repr, DecidableEq

/-- the `for scanner.Scan()` loop of `AppendFromPEMErr` -/
def pemLoop (V : Ver) (root : Bool) : Graph → Nat → Nat → List PemItem → Res PemOut
  | g, n, ne, [] => .ok ⟨n, ne, false, g⟩
  | g, n, ne, .junk :: rest => pemLoop V root g n ne rest
  | g, n, ne, .bad :: rest => pemLoop V root g n (ne + 1) rest
  | g, n, ne, .big :: _ => .ok ⟨n, ne, true, g⟩
  | g, n, ne, .cert c :: rest =>
    match addCert V g c with
    | .ok g1 =>
      if root then
        match addRoot V g1 c with
        | .ok g2 => pemLoop V root g2 (n + 1) ne rest
        | _ => .panic
      else pemLoop V root g1 (n + 1) ne rest
    | _ => .panic

/-- `(*Graph).AppendFromPEMErr` -/
def appendFromPEMErr (V : Ver) (g : Graph) (items : List PemItem) (root : Bool) : Res PemOut :=
  pemLoop V root g 0 0 items

/-- `(*Graph).AppendFromPEM`: `n, _, _ := g.AppendFromPEMErr(r, root); return n` -/
def appendFromPEM (V : Ver) (g : Graph) (items : List PemItem) (root : Bool) : Res (Nat × Graph) :=
  match appendFromPEMErr V g items root with
  | .ok o => .ok (o.count, o.g)
  | _ => .panic

end ZV.C10
