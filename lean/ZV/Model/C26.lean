import ZV.Base
import ZV.Hash.HMAC
/-!
# C26 — executable model of zcrypto's TLS key derivation (tls/prf.go, tls/key_schedule.go)

Everything is parametrised over the primitives (`Prims`: the HMAC and hash functions the Go code
instantiates through `crypto/hmac`, `crypto/md5`, …), so the theorems of `ZV.Props.C26` hold for
EVERY hash function; the driver instantiates them with the executable hashes of `ZV.Hash`.

Part 1 (`ZV.C26`)      : one Lean function per Go function, same order of operations.
Part 2 (`ZV.C26.RFC`)  : the RFC texts (2246 §5, 5246 §5, 5705 §4, 5869 §2.3, 8446 §7.1/§7.5) written
                          independently, in the vocabulary of the RFCs.
-/
namespace ZV.C26

/-- the bytes of an ASCII string literal (all TLS labels are ASCII, so this is also its UTF-8 encoding;
written with `String.toList` so that `decide` can evaluate it) -/
def ascii (s : String) : Bytes := s.toList.map (fun c => UInt8.ofNat c.toNat)

/-- a keyed MAC `hmac key msg` (in Go: `hmac.New(hash, key)`; `Write msg`; `Sum(nil)`) -/
abbrev Hmac := Bytes → Bytes → Bytes

/-! ## tls/prf.go -/

/-- Go `copy(dst[j:], src)` for `j ≤ len(dst)`: overwrites `min(len(dst)-j, len(src))` bytes. -/
def copyAt (dst : Bytes) (j : Nat) (src : Bytes) : Bytes :=
  dst.take j ++ src.take (dst.length - j) ++ dst.drop (j + src.length)

/-- The `for j < len(result)` loop of `pHash`; `h = hmac.New(hash, secret)` is the keyed MAC.
Fuel: every round adds `len(b)` (the hash size, ≥ 1) to `j`, so the Go loop runs at most
`len(result)` rounds; `pHash` passes exactly that bound (with a zero-length MAC the Go loop would
not terminate; no `hash.Hash` has size 0). -/
def pHashLoop (h : Bytes → Bytes) (seed : Bytes) : Nat → Bytes → Nat → Bytes → Bytes
  | 0, _, _, result => result
  | fuel + 1, a, j, result =>
    if j < result.length then
      let b := h (a ++ seed)                       -- h.Reset(); h.Write(a); h.Write(seed); b := h.Sum(nil)
      let result' := copyAt result j b             -- copy(result[j:], b)
      pHashLoop h seed fuel (h a) (j + b.length) result'   -- j += len(b); a = HMAC(a)
    else result

/-- `pHash(result, secret, seed, hash)` on a fresh zeroed `result` of length `n`. -/
def pHash (hmac : Hmac) (n : Nat) (secret seed : Bytes) : Bytes :=
  pHashLoop (hmac secret) seed n (hmac secret seed) 0 (List.replicate n 0)

/-- `splitPreMasterSecret` -/
def splitPreMasterSecret (secret : Bytes) : Bytes × Bytes :=
  (secret.take ((secret.length + 1) / 2), secret.drop (secret.length / 2))

/-- `for i, b := range result2 { result[i] ^= b }` (both slices have the same length). -/
def xorInto (result result2 : Bytes) : Bytes := List.zipWith (· ^^^ ·) result result2

/-- The primitives the Go code obtains from the standard library. -/
structure Prims where
  hmacMD5 : Hmac
  hmacSHA1 : Hmac
  hmacSHA256 : Hmac
  hmacSHA384 : Hmac
  md5 : Bytes → Bytes
  sha1 : Bytes → Bytes
  sha256 : Bytes → Bytes
  sha384 : Bytes → Bytes

/-- `prf10` -/
def prf10 (P : Prims) (n : Nat) (secret label seed : Bytes) : Bytes :=
  let labelAndSeed := label ++ seed
  let s := splitPreMasterSecret secret
  let result := pHash P.hmacMD5 n s.1 labelAndSeed
  let result2 := pHash P.hmacSHA1 n s.2 labelAndSeed
  xorInto result result2

/-- `prf12(hashFunc)` -/
def prf12 (hmac : Hmac) (n : Nat) (secret label seed : Bytes) : Bytes :=
  pHash hmac n secret (label ++ seed)

def masterSecretLength : Nat := 48
def finishedVerifyLength : Nat := 12
def masterSecretLabel : Bytes := (ascii "master secret")
def keyExpansionLabel : Bytes := (ascii "key expansion")
def clientFinishedLabel : Bytes := (ascii "client finished")
def serverFinishedLabel : Bytes := (ascii "server finished")

def VersionTLS10 : Nat := 0x0301
def VersionTLS11 : Nat := 0x0302
def VersionTLS12 : Nat := 0x0303

/-- which handshake hash `prfAndHashForVersion` reports (`crypto.Hash(0)` = none) -/
inductive PrfHash | none | sha256 | sha384
  deriving DecidableEq, Repr

/-- `prfAndHashForVersion(version, suite)`; of the suite only `flags&suiteSHA384 != 0` is read.
Unknown versions panic. -/
def prfAndHashForVersion (P : Prims) (version : Nat) (sha384 : Bool) :
    Res ((Nat → Bytes → Bytes → Bytes → Bytes) × PrfHash) :=
  if version = VersionTLS10 ∨ version = VersionTLS11 then .ok (prf10 P, .none)
  else if version = VersionTLS12 then
    if sha384 then .ok (prf12 P.hmacSHA384, .sha384) else .ok (prf12 P.hmacSHA256, .sha256)
  else .panic

def prfForVersion (P : Prims) (version : Nat) (sha384 : Bool) : Res (Nat → Bytes → Bytes → Bytes → Bytes) :=
  (prfAndHashForVersion P version sha384).map (·.1)

/-- `masterFromPreMasterSecret` -/
def masterFromPreMasterSecret (P : Prims) (version : Nat) (sha384 : Bool)
    (preMasterSecret clientRandom serverRandom : Bytes) : Res Bytes :=
  let seed := clientRandom ++ serverRandom
  match prfForVersion P version sha384 with
  | .ok prf => .ok (prf masterSecretLength preMasterSecret masterSecretLabel seed)
  | .err => .err
  | .panic => .panic

structure Keys where
  clientMAC : Bytes
  serverMAC : Bytes
  clientKey : Bytes
  serverKey : Bytes
  clientIV : Bytes
  serverIV : Bytes
  deriving DecidableEq, Repr

/-- the slicing half of `keysFromMasterSecret` -/
def sliceKeys (keyMaterial : Bytes) (macLen keyLen ivLen : Nat) : Keys :=
  let clientMAC := keyMaterial.take macLen
  let keyMaterial := keyMaterial.drop macLen
  let serverMAC := keyMaterial.take macLen
  let keyMaterial := keyMaterial.drop macLen
  let clientKey := keyMaterial.take keyLen
  let keyMaterial := keyMaterial.drop keyLen
  let serverKey := keyMaterial.take keyLen
  let keyMaterial := keyMaterial.drop keyLen
  let clientIV := keyMaterial.take ivLen
  let keyMaterial := keyMaterial.drop ivLen
  let serverIV := keyMaterial.take ivLen
  ⟨clientMAC, serverMAC, clientKey, serverKey, clientIV, serverIV⟩

/-- the key block computed by `keysFromMasterSecret` before slicing -/
def keyBlock (P : Prims) (version : Nat) (sha384 : Bool) (masterSecret clientRandom serverRandom : Bytes)
    (macLen keyLen ivLen : Nat) : Res Bytes :=
  let seed := serverRandom ++ clientRandom
  let n := 2 * macLen + 2 * keyLen + 2 * ivLen
  match prfForVersion P version sha384 with
  | .ok prf => .ok (prf n masterSecret keyExpansionLabel seed)
  | .err => .err
  | .panic => .panic

/-- `keysFromMasterSecret` -/
def keysFromMasterSecret (P : Prims) (version : Nat) (sha384 : Bool) (masterSecret clientRandom serverRandom : Bytes)
    (macLen keyLen ivLen : Nat) : Res Keys :=
  (keyBlock P version sha384 masterSecret clientRandom serverRandom macLen keyLen ivLen).map
    (fun km => sliceKeys km macLen keyLen ivLen)

/-- `finishedHash.Sum()` over the concatenation `msgs` of everything written so far -/
def finishedSum (P : Prims) (version : Nat) (sha384 : Bool) (msgs : Bytes) : Res Bytes :=
  match prfAndHashForVersion P version sha384 with
  | .ok (_, .none) => .ok (P.md5 msgs ++ P.sha1 msgs)     -- version < TLS 1.2
  | .ok (_, .sha256) => .ok (P.sha256 msgs)
  | .ok (_, .sha384) => .ok (P.sha384 msgs)
  | .err => .err
  | .panic => .panic

/-- `finishedHash.clientSum` / `serverSum` (selected by the label) -/
def finishedVerify (P : Prims) (version : Nat) (sha384 : Bool) (label masterSecret msgs : Bytes) : Res Bytes :=
  match prfForVersion P version sha384, finishedSum P version sha384 msgs with
  | .ok prf, .ok sum => .ok (prf finishedVerifyLength masterSecret label sum)
  | .panic, _ => .panic
  | _, .panic => .panic
  | _, _ => .err

def clientSum (P : Prims) (version : Nat) (sha384 : Bool) (masterSecret msgs : Bytes) : Res Bytes :=
  finishedVerify P version sha384 clientFinishedLabel masterSecret msgs
def serverSum (P : Prims) (version : Nat) (sha384 : Bool) (masterSecret msgs : Bytes) : Res Bytes :=
  finishedVerify P version sha384 serverFinishedLabel masterSecret msgs

/-- the `switch label` of `ekmFromMasterSecret` -/
def ekmReserved : List Bytes :=
  [clientFinishedLabel, serverFinishedLabel, masterSecretLabel, keyExpansionLabel]

/-- `byte(len(context)>>8), byte(len(context))` -/
def lenPrefix16 (n : Nat) : Bytes := [UInt8.ofNat (n >>> 8), UInt8.ofNat n]

/-- the closure returned by `ekmFromMasterSecret`; `context = none` is Go's `nil` slice. -/
def ekmFromMasterSecret (P : Prims) (version : Nat) (sha384 : Bool) (masterSecret clientRandom serverRandom : Bytes)
    (label : Bytes) (context : Option Bytes) (length : Nat) : Res Bytes :=
  if ekmReserved.contains label then .err
  else
    let seed := clientRandom ++ serverRandom
    match context with
    | none =>
      match prfForVersion P version sha384 with
      | .ok prf => .ok (prf length masterSecret label seed)
      | .err => .err
      | .panic => .panic
    | some ctx =>
      if ctx.length ≥ 65536 then .err
      else
        let seed := seed ++ lenPrefix16 ctx.length ++ ctx
        match prfForVersion P version sha384 with
        | .ok prf => .ok (prf length masterSecret label seed)
        | .err => .err
        | .panic => .panic

/-! ## tls/key_schedule.go -/

/-- the hash of a TLS 1.3 suite as the key schedule uses it: HMAC, plain hash, output size -/
structure Hash13 where
  hmac : Hmac
  hash : Bytes → Bytes
  size : Nat

/-- RFC 5869 §2.3 block chain as produced by `golang.org/x/crypto/hkdf`'s reader:
`n` more blocks, the next one has counter `i`, the previous block is `prev`. -/
def hkdfBlocks (hmac : Hmac) (prk info : Bytes) : Nat → Nat → Bytes → Bytes
  | 0, _, _ => []
  | n + 1, i, prev =>
    let t := hmac prk (prev ++ info ++ [UInt8.ofNat i])
    t ++ hkdfBlocks hmac prk info n (i + 1) t

/-- `hkdf.Expand(hash, prk, info).Read(out)` with `len(out) = len`: the reader refuses more than
`255 * size` bytes (returns `none`). -/
def hkdfExpandRead (H : Hash13) (prk info : Bytes) (len : Nat) : Option Bytes :=
  if 255 * H.size < len then none
  else some ((hkdfBlocks H.hmac prk info ((len + H.size - 1) / H.size) 1 []).take len)

def tls13Prefix : Bytes := (ascii "tls13 ")

/-- `cryptobyte.Builder.AddUint16(uint16(v))` -/
def addUint16 (v : UInt16) : Bytes := [(v >>> 8).toUInt8, v.toUInt8]

/-- `AddUint8LengthPrefixed`: a child longer than 255 bytes poisons the builder (`none`). -/
def addUint8LengthPrefixed (child : Bytes) : Option Bytes :=
  if child.length > 255 then none else some (UInt8.ofNat child.length :: child)

/-- the `hkdfLabel` builder of `expandLabel`; `none` = `BytesOrPanic` panics -/
def hkdfLabel (label context : Bytes) (length : Nat) : Option Bytes :=
  match addUint8LengthPrefixed (tls13Prefix ++ label), addUint8LengthPrefixed context with
  | some l, some c => some (addUint16 (UInt16.ofNat length) ++ l ++ c)
  | _, _ => none

/-- `cipherSuiteTLS13.expandLabel` -/
def expandLabel (H : Hash13) (secret label context : Bytes) (length : Nat) : Res Bytes :=
  match hkdfLabel label context length with
  | none => .panic                                   -- hkdfLabel.BytesOrPanic()
  | some info =>
    match hkdfExpandRead H secret info length with
    | none => .panic                                 -- "tls: HKDF-Expand-Label invocation failed unexpectedly"
    | some out => .ok out

/-- `deriveSecret`; `transcript = none` is the `nil` hash (then a fresh hash is summed) -/
def deriveSecret (H : Hash13) (secret label : Bytes) (transcript : Option Bytes) : Res Bytes :=
  let th := match transcript with
    | none => H.hash []
    | some msgs => H.hash msgs
  expandLabel H secret label th H.size

/-- `extract`; `newSecret = none` is `nil`. `hkdf.Extract(hash, secret, salt) = HMAC(salt, secret)`
(a nil/empty salt and a salt of `size` zero bytes give the same HMAC key block). -/
def extract (H : Hash13) (newSecret : Option Bytes) (currentSecret : Bytes) : Bytes :=
  let ns := match newSecret with
    | none => List.replicate H.size 0
    | some s => s
  H.hmac currentSecret ns

def trafficUpdateLabel : Bytes := (ascii "traffic upd")
def exporterLabel : Bytes := (ascii "exp master")
def keyLabel : Bytes := (ascii "key")
def ivLabel : Bytes := (ascii "iv")
def finishedLabel : Bytes := (ascii "finished")
def exporterExpandLabel : Bytes := (ascii "exporter")
def aeadNonceLength : Nat := 12

/-- `nextTrafficSecret` -/
def nextTrafficSecret (H : Hash13) (trafficSecret : Bytes) : Res Bytes :=
  expandLabel H trafficSecret trafficUpdateLabel [] H.size

/-- `trafficKey` -/
def trafficKey (H : Hash13) (keyLen : Nat) (trafficSecret : Bytes) : Res (Bytes × Bytes) :=
  match expandLabel H trafficSecret keyLabel [] keyLen with
  | .ok key =>
    match expandLabel H trafficSecret ivLabel [] aeadNonceLength with
    | .ok iv => .ok (key, iv)
    | .err => .err
    | .panic => .panic
  | .err => .err
  | .panic => .panic

/-- `finishedHash` (TLS 1.3 Finished verify_data / PSK binder) -/
def finishedHash13 (H : Hash13) (baseKey msgs : Bytes) : Res Bytes :=
  match expandLabel H baseKey finishedLabel [] H.size with
  | .ok finishedKey => .ok (H.hmac finishedKey (H.hash msgs))
  | .err => .err
  | .panic => .panic

/-- `exportKeyingMaterial(masterSecret, transcript)(label, context, length)` -/
def exportKeyingMaterial (H : Hash13) (masterSecret msgs : Bytes) (label context : Bytes) (length : Nat) : Res Bytes :=
  match deriveSecret H masterSecret exporterLabel (some msgs) with
  | .ok expMasterSecret =>
    match deriveSecret H expMasterSecret label none with
    | .ok secret => expandLabel H secret exporterExpandLabel (H.hash context) length
    | .err => .err
    | .panic => .panic
  | .err => .err
  | .panic => .panic


/-! ## how the handshake code wires the functions above (handshake_client.go: establishKeys, loadSession;
handshake_client_tls13.go / handshake_server_tls13.go: establishHandshakeKeys, readServerFinished / sendServerFinished,
sendClientFinished / sendSessionTickets, checkForResumption).  The label literal at every call site is T1-extracted
(`ZV.Generated.C26.scheduleCalls`). -/

/-- `establishKeys`: `keysFromMasterSecret(c.vers, hs.suite, …, hs.suite.macLen, hs.suite.keyLen, hs.suite.ivLen)`;
`row` = (id, macLen, keyLen, ivLen, flags&suiteSHA384 ≠ 0) is the suite's row of `implementedCipherSuites`. -/
def establishKeys (P : Prims) (version : Nat) (row : Nat × Nat × Nat × Nat × Bool)
    (masterSecret clientRandom serverRandom : Bytes) : Res Keys :=
  keysFromMasterSecret P version row.2.2.2.2 masterSecret clientRandom serverRandom row.2.1 row.2.2.1 row.2.2.2.1

/-- one row of a TLS ≤ 1.2 suite table as far as key derivation reads it: (id, macLen, keyLen, ivLen, flags) -/
abbrev SuiteRow := Nat × Nat × Nat × Nat × Nat

/-- `cipherSuiteByID`: the FIRST row of `implementedCipherSuites` with that id (the table lists some ids twice) -/
def cipherSuiteByID (table : List SuiteRow) (id : Nat) : Option SuiteRow :=
  table.find? (fun r => r.1 == id)

/-- `mutualCipherSuite(have, want)`: `cipherSuiteByID(want)` if `want` is among `have`, else nil -/
def mutualCipherSuite (table : List SuiteRow) (have_ : List Nat) (want : Nat) : Option SuiteRow :=
  if have_.contains want then cipherSuiteByID table want else none

/-- `suite.flags&suiteSHA384 != 0` -/
def rowSHA384 (bit : Nat) (r : SuiteRow) : Bool := r.2.2.2.2 &&& bit != 0

/-- the part of a row `establishKeys` / `prfAndHashForVersion` read -/
def rowKeyShape (bit : Nat) (r : SuiteRow) : Nat × Nat × Nat × Nat × Bool :=
  (r.1, r.2.1, r.2.2.1, r.2.2.2.1, rowSHA384 bit r)

def derivedLabel : Bytes := (ascii "derived")
def resumptionPskLabel : Bytes := (ascii "resumption")
def resumptionBinderLabel : Bytes := (ascii "res binder")
def clientHandshakeTrafficLabel : Bytes := (ascii "c hs traffic")
def serverHandshakeTrafficLabel : Bytes := (ascii "s hs traffic")
def clientApplicationTrafficLabel : Bytes := (ascii "c ap traffic")
def serverApplicationTrafficLabel : Bytes := (ascii "s ap traffic")
def resumptionLabel : Bytes := (ascii "res master")

/-- `loadSession` / `checkForResumption`: `psk := expandLabel(resumption secret, "resumption", ticket nonce, Hash.Size())` -/
def ticketPSK (H : Hash13) (resumptionSecret nonce : Bytes) : Res Bytes :=
  expandLabel H resumptionSecret resumptionPskLabel nonce H.size

/-- `earlySecret`: `extract(psk, nil)` when a PSK is used, `extract(nil, nil)` otherwise -/
def earlySecret (H : Hash13) (psk : Option Bytes) : Bytes := extract H psk []

/-- `binderKey = deriveSecret(earlySecret, "res binder", nil)`; `binder = finishedHash(binderKey, Hash(ClientHello without binders))` -/
def pskBinder (H : Hash13) (psk truncatedHello : Bytes) : Res Bytes :=
  (deriveSecret H (earlySecret H (some psk)) resumptionBinderLabel none).bind fun binderKey =>
  finishedHash13 H binderKey truncatedHello

structure HsKeys where
  clientSecret : Bytes
  serverSecret : Bytes
  masterSecret : Bytes
  deriving DecidableEq, Repr

/-- `establishHandshakeKeys` (client) / the same lines of `sendServerParameters` + `sendServerFinished` (server):
`msgs` = ClientHello … ServerHello. -/
def establishHandshakeKeys (H : Hash13) (early sharedKey msgs : Bytes) : Res HsKeys :=
  (deriveSecret H early derivedLabel none).bind fun d =>
  (deriveSecret H (extract H (some sharedKey) d) clientHandshakeTrafficLabel (some msgs)).bind fun c =>
  (deriveSecret H (extract H (some sharedKey) d) serverHandshakeTrafficLabel (some msgs)).bind fun s =>
  (deriveSecret H (extract H (some sharedKey) d) derivedLabel none).bind fun d2 =>
  .ok ⟨c, s, extract H none d2⟩

structure AppKeys where
  clientSecret : Bytes
  serverSecret : Bytes
  deriving DecidableEq, Repr

/-- `readServerFinished` / `sendServerFinished`: `msgs` = ClientHello … server Finished -/
def applicationSecrets (H : Hash13) (masterSecret msgs : Bytes) : Res AppKeys :=
  (deriveSecret H masterSecret clientApplicationTrafficLabel (some msgs)).bind fun c =>
  (deriveSecret H masterSecret serverApplicationTrafficLabel (some msgs)).bind fun s =>
  .ok ⟨c, s⟩

/-- `sendClientFinished` / `sendSessionTickets`: `msgs` = ClientHello … client Finished -/
def resumptionSecret (H : Hash13) (masterSecret msgs : Bytes) : Res Bytes :=
  deriveSecret H masterSecret resumptionLabel (some msgs)

/-! ## suite tables as far as key derivation reads them (tied to the tree by T1, see `ZV.Generated.C26`) -/

/-- TLS ≤ 1.2 suites whose PRF hash is SHA-384 (RFC 5288 / 5289: the `_SHA384` suites). -/
def rfcSHA384Suites : List Nat :=
  [0x009D, 0x009F, 0x00A1, 0x00A3, 0x00A5, 0x00A7, 0x00A9, 0x00AB, 0x00AD,
   0xC024, 0xC026, 0xC028, 0xC02A, 0xC02C, 0xC02E, 0xC030, 0xC032]

/-- RFC 8446 B.4: suite → (AEAD key length, hash name) -/
def rfcSuites13 : List (Nat × Nat × String) :=
  [(0x1301, 16, "sha256"), (0x1302, 32, "sha384"), (0x1303, 32, "sha256")]

/-! ## the RFC texts, independently -/
namespace RFC

/-- RFC 2246 / 5246 §5:  `A(0) = seed`, `A(i) = HMAC_hash(secret, A(i-1))`. -/
def A (hmac : Hmac) (secret seed : Bytes) : Nat → Bytes
  | 0 => seed
  | i + 1 => hmac secret (A hmac secret seed i)

/-- `P_hash(secret, seed) = HMAC_hash(secret, A(1) + seed) + HMAC_hash(secret, A(2) + seed) + …`,
the first `k` terms. -/
def P_hash (hmac : Hmac) (secret seed : Bytes) (k : Nat) : Bytes :=
  ((List.range k).map (fun i => hmac secret (A hmac secret seed (i + 1) ++ seed))).flatten

/-- RFC 2246 §5: `L_S1 = L_S2 = ceil(L_S / 2)`; S1 = first `L_S1` bytes, S2 = last `L_S2` bytes. -/
def ceilHalf (n : Nat) : Nat := n - n / 2
def S1 (secret : Bytes) : Bytes := secret.take (ceilHalf secret.length)
def S2 (secret : Bytes) : Bytes := secret.drop (secret.length - ceilHalf secret.length)

/-- byte-wise exclusive or of two strings of the same length -/
def xor : Bytes → Bytes → Bytes
  | a :: as, b :: bs => (a ^^^ b) :: xor as bs
  | _, _ => []

/-- RFC 2246 §5: `PRF(secret, label, seed) = P_MD5(S1, label + seed) XOR P_SHA-1(S2, label + seed)`,
first `n` bytes, computed from `k1` MD5 blocks and `k2` SHA-1 blocks. -/
def PRF10 (hmacMD5 hmacSHA1 : Hmac) (secret label seed : Bytes) (k1 k2 n : Nat) : Bytes :=
  xor ((P_hash hmacMD5 (S1 secret) (label ++ seed) k1).take n)
      ((P_hash hmacSHA1 (S2 secret) (label ++ seed) k2).take n)

/-- RFC 5246 §5: `PRF(secret, label, seed) = P_<hash>(secret, label + seed)`, first `n` bytes of `k` blocks. -/
def PRF12 (hmac : Hmac) (secret label seed : Bytes) (k n : Nat) : Bytes :=
  (P_hash hmac secret (label ++ seed) k).take n

/-- TLS presentation language: `uint16` -/
def uint16 (n : Nat) : Bytes := [UInt8.ofNat (n / 256), UInt8.ofNat (n % 256)]
/-- `opaque v<0..255>` -/
def opaque8 (v : Bytes) : Bytes := UInt8.ofNat v.length :: v
/-- `opaque v<0..2^16-1>` -/
def opaque16 (v : Bytes) : Bytes := uint16 v.length ++ v

/-- RFC 5705 §4: the seed of the exporter PRF call,
`client_random + server_random [+ context_value_length + context_value]`. -/
def exporterSeed (clientRandom serverRandom : Bytes) (context : Option Bytes) : Bytes :=
  match context with
  | none => clientRandom ++ serverRandom
  | some c => clientRandom ++ serverRandom ++ opaque16 c

/-- RFC 5869 §2.3: `T(0) = ""`, `T(i) = HMAC(PRK, T(i-1) | info | i)`. -/
def T (hmac : Hmac) (prk info : Bytes) : Nat → Bytes
  | 0 => []
  | i + 1 => hmac prk (T hmac prk info i ++ info ++ [UInt8.ofNat (i + 1)])

/-- `OKM = first L octets of T(1) | T(2) | … | T(N)`, `N = ceil(L / HashLen)`. -/
def HKDF_Expand (hmac : Hmac) (hashLen : Nat) (prk info : Bytes) (L : Nat) : Bytes :=
  ((List.range ((L + hashLen - 1) / hashLen)).map (fun i => T hmac prk info (i + 1))).flatten.take L

/-- RFC 8446 §7.1 `struct { uint16 length; opaque label<7..255> = "tls13 " + Label; opaque context<0..255>; } HkdfLabel` -/
def HkdfLabel (length : Nat) (label context : Bytes) : Bytes :=
  uint16 length ++ opaque8 (ascii "tls13 " ++ label) ++ opaque8 context

/-- `HKDF-Expand-Label(Secret, Label, Context, Length) = HKDF-Expand(Secret, HkdfLabel, Length)` -/
def HKDF_Expand_Label (H : Hash13) (secret label context : Bytes) (length : Nat) : Bytes :=
  HKDF_Expand H.hmac H.size secret (HkdfLabel length label context) length

/-- `Derive-Secret(Secret, Label, Messages) = HKDF-Expand-Label(Secret, Label, Transcript-Hash(Messages), Hash.length)` -/
def Derive_Secret (H : Hash13) (secret label messages : Bytes) : Bytes :=
  HKDF_Expand_Label H secret label (H.hash messages) H.size

/-- RFC 8446 §7.5: `TLS-Exporter(label, context_value, key_length) =
HKDF-Expand-Label(Derive-Secret(Secret, label, ""), "exporter", Hash(context_value), key_length)`
with `Secret = exporter_master_secret = Derive-Secret(Master Secret, "exp master", ClientHello...server Finished)`. -/
def TLS_Exporter (H : Hash13) (masterSecret messages label context : Bytes) (keyLength : Nat) : Bytes :=
  let exporterMasterSecret := Derive_Secret H masterSecret (ascii "exp master") messages
  HKDF_Expand_Label H (Derive_Secret H exporterMasterSecret label []) (ascii "exporter") (H.hash context) keyLength

/-- RFC 8446 §7.3: `[sender]_write_key = HKDF-Expand-Label(Secret, "key", "", key_length)`,
`[sender]_write_iv = HKDF-Expand-Label(Secret, "iv", "", iv_length)`. -/
def write_key (H : Hash13) (secret : Bytes) (keyLength : Nat) : Bytes :=
  HKDF_Expand_Label H secret (ascii "key") [] keyLength
def write_iv (H : Hash13) (secret : Bytes) (ivLength : Nat) : Bytes :=
  HKDF_Expand_Label H secret (ascii "iv") [] ivLength

/-- RFC 8446 §4.4.4: `finished_key = HKDF-Expand-Label(BaseKey, "finished", "", Hash.length)`,
`verify_data = HMAC(finished_key, Transcript-Hash(...))`. -/
def verify_data13 (H : Hash13) (baseKey messages : Bytes) : Bytes :=
  H.hmac (HKDF_Expand_Label H baseKey (ascii "finished") [] H.size) (H.hash messages)

/-- RFC 5869 §2.2: `HKDF-Extract(salt, IKM) = HMAC-Hash(salt, IKM)` -/
def HKDF_Extract (H : Hash13) (salt ikm : Bytes) : Bytes := H.hmac salt ikm

/-- "0" in the RFC 8446 §7.1 figure: a string of `Hash.length` zero bytes -/
def zeros (H : Hash13) : Bytes := List.replicate H.size 0

/-- RFC 8446 §7.1: `Early Secret = HKDF-Extract(0, PSK)` (PSK = 0 when there is none) -/
def Early_Secret (H : Hash13) (psk : Option Bytes) : Bytes := HKDF_Extract H (zeros H) (psk.getD (zeros H))
/-- `Handshake Secret = HKDF-Extract(Derive-Secret(Early Secret, "derived", ""), (EC)DHE)` -/
def Handshake_Secret (H : Hash13) (early dhe : Bytes) : Bytes :=
  HKDF_Extract H (Derive_Secret H early (ascii "derived") []) dhe
/-- `Master Secret = HKDF-Extract(Derive-Secret(Handshake Secret, "derived", ""), 0)` -/
def Master_Secret (H : Hash13) (hs : Bytes) : Bytes :=
  HKDF_Extract H (Derive_Secret H hs (ascii "derived") []) (zeros H)
/-- RFC 8446 §4.6.1: `PSK = HKDF-Expand-Label(resumption_master_secret, "resumption", ticket_nonce, Hash.length)` -/
def Ticket_PSK (H : Hash13) (resumptionMasterSecret nonce : Bytes) : Bytes :=
  HKDF_Expand_Label H resumptionMasterSecret (ascii "resumption") nonce H.size
/-- RFC 8446 §4.2.11.2: the binder is the Finished computation with
`BaseKey = binder_key = Derive-Secret(Early Secret, "res binder", "")` over the truncated ClientHello -/
def PSK_Binder (H : Hash13) (psk truncatedHello : Bytes) : Bytes :=
  verify_data13 H (Derive_Secret H (Early_Secret H (some psk)) (ascii "res binder") []) truncatedHello

/-- the TLS ≤ 1.2 PRF per protocol version: RFC 2246 §5 (TLS 1.0, RFC 4346 for 1.1), RFC 5246 §5 with the suite's
PRF hash; `n` blocks always cover `n` bytes. No PRF is defined for other versions. -/
def PRF (P : Prims) (version : Nat) (sha384 : Bool) (secret label seed : Bytes) (n : Nat) : Option Bytes :=
  if version = 0x0301 ∨ version = 0x0302 then some (PRF10 P.hmacMD5 P.hmacSHA1 secret label seed n n n)
  else if version = 0x0303 then
    some (PRF12 (if sha384 then P.hmacSHA384 else P.hmacSHA256) secret label seed n n)
  else none

/-- RFC 2246 / 5246 §7.4.9: the handshake hash under the Finished PRF: MD5 + SHA-1 before TLS 1.2, the PRF hash in 1.2 -/
def Handshake_Hash (P : Prims) (version : Nat) (sha384 : Bool) (msgs : Bytes) : Bytes :=
  if version = 0x0303 then (if sha384 then P.sha384 msgs else P.sha256 msgs) else P.md5 msgs ++ P.sha1 msgs

end RFC

/-! ## instantiation with the executable hashes (driver) -/

open ZV.Hash in
def realPrims : Prims where
  hmacMD5 := hmac HashAlg.md5
  hmacSHA1 := hmac HashAlg.sha1
  hmacSHA256 := hmac HashAlg.sha256
  hmacSHA384 := hmac HashAlg.sha384
  md5 := ZV.Hash.md5
  sha1 := ZV.Hash.sha1
  sha256 := ZV.Hash.sha256
  sha384 := ZV.Hash.sha384

open ZV.Hash in
def hash13OfAlg (a : HashAlg) : Hash13 := ⟨hmac a, a.hash, a.outSize⟩

end ZV.C26
