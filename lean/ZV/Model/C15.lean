import ZV.Model.Wire
/-!
  C15 — models of the three browser revocation sets:
    x509/revocation/google     CRLSet   : Parse (getHeader + block loop), (*CRLSet).Check
    x509/revocation/mozilla    OneCRL   : (*Entry).UnmarshalJSON mapping, Parse grouping, (*OneCRL).Check
    x509/revocation/microsoft  SST      : parse (container loop + grouping), Check   (code as fixed for D4)
  Strings are byte lists (`Str`).  base64 (StdEncoding.DecodeString, including the bytes it returns next to an
  error) IS modelled.  encoding/json, ASN.1 name decoding + pkix.Name.String and x509.ParseCertificate are NOT
  modelled: their results arrive as decoded records (`Hdr`, `Rec`, the name table, the certificate table) supplied
  with each case by the harness, which obtains them from the same library calls.
-/
namespace ZV.C15
open ZV.Wire

abbrev Str := Bytes

/-! ### Go `map[string]V` as an association list with unique keys (insertion order kept; printed sorted) -/

def mget {V : Type} (m : List (Str × V)) (k : Str) : Option V :=
  match m with
  | [] => none
  | (k', v) :: rest => if k' = k then some v else mget rest k

def mset {V : Type} (m : List (Str × V)) (k : Str) (v : V) : List (Str × V) :=
  match m with
  | [] => [(k, v)]
  | (k', v') :: rest => if k' = k then (k, v) :: rest else (k', v') :: mset rest k v

/-- `if l := m[k]; l != nil { l.Entries = append(l.Entries, e) } else { m[k] = &List{Entries: [e]} }` -/
def madd {V : Type} (m : List (Str × List V)) (k : Str) (v : V) : List (Str × List V) :=
  match mget m k with
  | some l => mset m k (l ++ [v])
  | none => mset m k [v]

/-- first entry equal (as integers) to the certificate's serial: `for … { if e.SerialNumber.Cmp(serial) == 0 { return e } }` -/
def findSerial (l : List Int) (serial : Int) : Option Int :=
  match l with
  | [] => none
  | e :: rest => if e = serial then some e else findSerial rest serial

/-! ## CRLSet (google) -/

/-- decoded JSON header (encoding/json output) -/
structure Hdr where
  jsonOk : Bool
  sequence : Int
  numParents : Int
  blocked : List Str
  deriving Repr, DecidableEq

structure CRLSet where
  sequence : Int
  numParents : Int
  blocked : List Str
  issuers : List (Str × List Int)
  deriving Repr, DecidableEq

def hexDigitB (n : Nat) : UInt8 := if n < 10 then UInt8.ofNat (48 + n) else UInt8.ofNat (87 + n)
/-- hex.EncodeToString -/
def hexStr : Bytes → Str
  | [] => []
  | b :: rest => hexDigitB (b.toNat / 16) :: hexDigitB (b.toNat % 16) :: hexStr rest

/-- minimal big-endian bytes of a natural number (what `big.Int.Bytes` returns); the harness encoder and the
    `encode` of the theorem use it, the parser accepts any length ≤ 255 -/
def natLE (n : Nat) : Bytes :=
  if h : n = 0 then [] else UInt8.ofNat (n % 256) :: natLE (n / 256)
termination_by n
decreasing_by omega
def natBE (n : Nat) : Bytes := (natLE n).reverse

/-- one serial: u8 length ‖ bytes, value by big.Int.SetBytes -/
def serialFmt : Fmt Nat :=
  piso beVal (fun n => some (natBE n)) (varBytes (uintLE 1))

/-- one issuer block: 32-byte SPKI hash ‖ u32 LE count ‖ count × serial -/
def blockFmt : Fmt (Bytes × List Nat) := pair (bytesN 32) (countList (uintLE 4) serialFmt)

/-- `for rest.Len() > 0 { … crlSet.IssuerLists[hex(spki)] = &issuerList … }` (a repeated issuer overwrites) -/
def parseBlocks (bs : Bytes) (acc : List (Str × List Int)) : Res (List (Str × List Int)) :=
  if bs.length = 0 then .ok acc
  else
    match blockFmt.par bs with
    | .ok ((spki, serials), rest) =>
      if rest.length < bs.length then
        parseBlocks rest (mset acc (hexStr spki) (serials.map Int.ofNat))
      else .panic        -- unreachable: a block consumes at least 36 bytes (crlset_parse_no_panic)
    | .err => .err
    | .panic => .panic
termination_by bs.length

/-- getHeader: u16 LE length, JSON document (decoded result supplied), remaining bytes -/
def getHeader (inp : Bytes) (h : Hdr) : Res (Hdr × Bytes) :=
  if inp.length < 2 then .err
  else
    let hl := leVal (inp.take 2)
    let c := inp.drop 2
    if c.length < hl then .err
    else if !h.jsonOk then .err
    else .ok (h, c.drop hl)

/-- google.Parse -/
def csParse (inp : Bytes) (h : Hdr) : Res CRLSet :=
  match getHeader inp h with
  | .ok (hd, rest) =>
    match parseBlocks rest [] with
    | .ok m => .ok ⟨hd.sequence, hd.numParents, hd.blocked, m⟩
    | .err => .err
    | .panic => .panic
  | .err => .err
  | .panic => .panic

/-- (*CRLSet).Check(cert, issuerSPKIHash): `some serial` = the returned entry's serial, `none` = nil -/
def csCheck (s : CRLSet) (serial : Int) (hash : Str) : Option Int :=
  match s.blocked.find? (fun b => decide (b = hash)) with
  | some _ => some serial
  | none =>
    match mget s.issuers hash with
    | none => none
    | some l => findSerial l serial

/-- the wire encoding of a CRLSet: header bytes and issuer blocks (for the round-trip theorem) -/
def csEncode (hdrBytes : Bytes) (blocks : List (Bytes × List Nat)) : Res Bytes :=
  match (varBytes (uintLE 2)).ser hdrBytes, serAll blockFmt blocks with
  | .ok a, .ok b => .ok (a ++ b)
  | .panic, _ => .panic
  | _, .panic => .panic
  | _, _ => .err

/-! ## OneCRL (mozilla) -/

/-! ### `base64.StdEncoding.DecodeString` (Go 1.23 encoding/base64: `Decode` + `decodeQuantum`, padded, non-strict)

  The fast paths of `Decode` (8 / 4 alphabet characters at a time) compute what `decodeQuantum` computes on the same
  characters and fall back to it otherwise, so the model is the quantum loop alone, written as ONE structural recursion
  over the input: `acc` = the 6-bit values of the current quantum (`j = acc.length`), `out` = bytes written so far
  (`dst[:n]`).  Result: `(dbuf[:n], err != nil)` — on an error the bytes decoded BEFORE the failing quantum are
  still returned (and the quantum itself when the error is "trailing garbage after the padding"); mozilla's
  serial-number field uses them (`serialNumberBytes, _ := …DecodeString`). -/

/-- `enc.decodeMap` of StdEncoding (`none` = 0xff) -/
def b64Val (c : UInt8) : Option Nat :=
  if 65 ≤ c.toNat ∧ c.toNat ≤ 90 then some (c.toNat - 65)
  else if 97 ≤ c.toNat ∧ c.toNat ≤ 122 then some (c.toNat - 71)
  else if 48 ≤ c.toNat ∧ c.toNat ≤ 57 then some (c.toNat + 4)
  else if c.toNat = 43 then some 62
  else if c.toNat = 47 then some 63
  else none

/-- `val := dbuf[0]<<18 | dbuf[1]<<12 | dbuf[2]<<6 | dbuf[3]` (unfilled positions are 0; the values are < 64) -/
def qVal : List Nat → Nat
  | [a, b] => a * 262144 + b * 4096
  | [a, b, c] => a * 262144 + b * 4096 + c * 64
  | [a, b, c, d] => a * 262144 + b * 4096 + c * 64 + d
  | _ => 0

/-- the `dlen - 1` bytes a quantum of `dlen = acc.length` characters yields -/
def qBytes (acc : List Nat) : Bytes :=
  [UInt8.ofNat (qVal acc / 65536), UInt8.ofNat (qVal acc / 256), UInt8.ofNat (qVal acc)].take (acc.length - 1)

def isNL (c : UInt8) : Bool := c = 10 || c = 13

/-- `for si < len(src) && (src[si] == '\n' || src[si] == '\r') { si++ }` -/
def skipNL : Str → Str
  | [] => []
  | c :: rest => if isNL c then skipNL rest else c :: rest

def b64Go (src : Str) (acc : List Nat) (out : Bytes) : Bytes × Bool :=
  match src with
  | [] => if acc.length = 0 then (out, false)       -- j == 0: return si, 0, nil
          else (out, true)                          -- j == 1 or padded encoding: CorruptInputError
  | c :: rest =>
    match b64Val c with
    | some v =>
      if acc.length = 3 then b64Go rest [] (out ++ qBytes (acc ++ [v]))     -- dlen = 4
      else b64Go rest (acc ++ [v]) out
    | none =>
      if isNL c then b64Go rest acc out                                     -- j--; continue
      else if c ≠ 61 then (out, true)                                       -- not '='
      else if acc.length < 2 then (out, true)                               -- incorrect padding
      else if acc.length = 2 then                                           -- "==" expected
        match skipNL rest with
        | [] => (out, true)                                                 -- not enough padding
        | c2 :: rest2 =>
          if c2 ≠ 61 then (out, true)
          else
            match skipNL rest2 with
            | [] => (out ++ qBytes acc, false)
            | _ :: _ => (out ++ qBytes acc, true)                           -- trailing garbage: bytes written AND error
      else
        match skipNL rest with
        | [] => (out ++ qBytes acc, false)
        | _ :: _ => (out ++ qBytes acc, true)

/-- base64.StdEncoding.DecodeString: (bytes returned, err != nil) -/
def b64Decode (s : Str) : Bytes × Bool := b64Go s [] []

/-- the alphabet (`encodeStd`) -/
def b64Char (v : Nat) : UInt8 :=
  if v < 26 then UInt8.ofNat (65 + v)
  else if v < 52 then UInt8.ofNat (71 + v)
  else if v < 62 then UInt8.ofNat (v - 4)
  else if v = 62 then 43
  else 47

/-- base64.StdEncoding.EncodeToString (used by the harness encoder and the round-trip theorems) -/
def b64Encode : Bytes → Str
  | [] => []
  | [a] => [b64Char (a.toNat / 4), b64Char (a.toNat % 4 * 16), 61, 61]
  | [a, b] => [b64Char (a.toNat / 4), b64Char (a.toNat % 4 * 16 + b.toNat / 16), b64Char (b.toNat % 16 * 4), 61]
  | a :: b :: c :: rest =>
    b64Char (a.toNat / 4) :: b64Char (a.toNat % 4 * 16 + b.toNat / 16) :: b64Char (b.toNat % 16 * 4 + c.toNat / 64) ::
      b64Char (c.toNat % 64) :: b64Encode rest

/-- one element of the JSON `data` array after `json.Unmarshal` into `record` (the JSON layer is not modelled:
    the four string fields arrive as the byte strings encoding/json produced) -/
structure Rec where
  isNull : Bool
  subject : Str            -- aux.Subject
  pubKeyHash : Str         -- aux.PubKeyHash
  serialNumber : Str       -- aux.SerialNumber
  issuerName : Str         -- aux.IssuerName
  deriving Repr, DecidableEq

inductive OEntry where
  | blocked (rawSubject pubKeyHash : Bytes)
  | serial (issuer : Str) (serial : Int)
  deriving Repr, DecidableEq

/-- decodePkixName: base64, then asn1.Unmarshal into an RDNSequence + FillFromRDNSequence (NOT modelled: `ntbl raw`
    = `some (Name.String())` when the DER decodes, supplied with the case).  Result: (Name.String(), raw bytes). -/
def decodePkixName (name : Str) (ntbl : Bytes → Option Str) : Res (Str × Bytes) :=
  if (b64Decode name).2 then .err
  else
    match ntbl (b64Decode name).1 with
    | none => .err
    | some s => .ok (s, (b64Decode name).1)

/-- (*Entry).UnmarshalJSON (after the fix of D5: a JSON null is an error, it used to dereference nil) -/
def unmarshalEntry (r : Rec) (ntbl : Bytes → Option Str) : Res OEntry :=
  if r.isNull then .err
  else if !r.subject.isEmpty && !r.pubKeyHash.isEmpty then
    match decodePkixName r.subject ntbl with
    | .ok (_, raw) =>
      if (b64Decode r.pubKeyHash).2 then .err
      else .ok (.blocked raw (b64Decode r.pubKeyHash).1)
    | .err => .err
    | .panic => .panic
  else
    -- `serialNumberBytes, _ := base64.StdEncoding.DecodeString(aux.SerialNumber)`: the error is ignored, the
    -- bytes decoded before it are used
    match decodePkixName r.issuerName ntbl with
    | .ok (iss, _) => .ok (.serial iss (Int.ofNat (beVal (b64Decode r.serialNumber).1)))
    | .err => .err
    | .panic => .panic

structure OneCRL where
  blocked : List (Bytes × Bytes)
  issuers : List (Str × List Int)
  deriving Repr, DecidableEq

def unmarshalAll (recs : List Rec) (ntbl : Bytes → Option Str) : Res (List OEntry) :=
  match recs with
  | [] => .ok []
  | r :: rest =>
    match unmarshalEntry r ntbl with
    | .ok e =>
      match unmarshalAll rest ntbl with
      | .ok es => .ok (e :: es)
      | .err => .err
      | .panic => .panic
    | .err => .err
    | .panic => .panic

/-- the loop of mozilla.Parse over the decoded entries -/
def ocGroup (es : List OEntry) (acc : OneCRL) : OneCRL :=
  match es with
  | [] => acc
  | .blocked raw pk :: rest => ocGroup rest { acc with blocked := acc.blocked ++ [(raw, pk)] }
  | .serial iss s :: rest => ocGroup rest { acc with issuers := madd acc.issuers iss s }

def ocParse (recs : List Rec) (ntbl : Bytes → Option Str) : Res OneCRL :=
  match unmarshalAll recs ntbl with
  | .ok es => .ok (ocGroup es ⟨[], []⟩)
  | .err => .err
  | .panic => .panic

inductive OHit where
  | blockedKey
  | serial (s : Int)
  deriving Repr, DecidableEq

/-- (*OneCRL).Check: `rawSubject` = cert.RawSubject, `spkiHash` = sha256(MarshalPKIXPublicKey(cert.PublicKey)),
    `issuer` = cert.Issuer.String() -/
def ocCheck (c : OneCRL) (issuer : Str) (serial : Int) (rawSubject spkiHash : Bytes) : Option OHit :=
  match c.blocked.find? (fun b => decide (b.1 = rawSubject) && decide (b.2 = spkiHash)) with
  | some _ => some .blockedKey
  | none =>
    match mget c.issuers issuer with
    | none => none
    | some l =>
      match findSerial l serial with
      | some s => some (.serial s)
      | none => none

/-! ## Microsoft disallowedcert.sst -/

/-- `binary.Read(r, LittleEndian, &u32)` with the error IGNORED: a short read leaves 0 and drains the reader -/
def readU32 (bs : Bytes) : Nat × Bytes :=
  if bs.length < 4 then (0, []) else (leVal (bs.take 4), bs.drop 4)

theorem readU32_le (bs : Bytes) : (readU32 bs).2.length ≤ bs.length := by
  unfold readU32
  split <;> simp

/-- the element loop of microsoft.parse; `acc` = certificate blobs so far -/
def sstLoop (bs : Bytes) (acc : List Bytes) : Res (List Bytes) :=
  if h : bs.length < 4 then .ok acc                 -- id not readable → 0 → end marker
  else
    let id := leVal (bs.take 4)
    let r1 := bs.drop 4
    if id = 0 then .ok acc                           -- EndElementMarkerEntry
    else
      let format := (readU32 r1).1
      let r2 := (readU32 r1).2
      let len := (readU32 r2).1
      let r3 := (readU32 r2).2
      if id = 32 then
        if format ≠ 1 then .err                      -- "SST does not use ASN1 encoding"
        else if len > r3.length then .err            -- fix D4: entry truncated (was: make([]byte, len) up to 4 GiB)
        else sstLoop (r3.drop len) (acc ++ [r3.take len])
      else sstLoop (r3.drop len) acc                 -- io.CopyN(Discard, r, len)
termination_by bs.length
decreasing_by
  all_goals
    have h1 := readU32_le (bs.drop 4)
    have h2 := readU32_le (readU32 (bs.drop 4)).2
    simp only [List.length_drop] at *
    omega

structure CertInfo where
  issuer : Str           -- cert.Issuer.String()
  serial : Int
  deriving Repr, DecidableEq

/-- the second loop of microsoft.parse: x509.ParseCertificate (result looked up in the supplied table),
    grouped by issuer string.  After the fix of D4 an unparsable certificate is an error (was a nil dereference). -/
def msBuild (certs : List Bytes) (tbl : Bytes → Option CertInfo) (acc : List (Str × List Int)) : Res (List (Str × List Int)) :=
  match certs with
  | [] => .ok acc
  | c :: rest =>
    match tbl c with
    | none => .err
    | some ci => msBuild rest tbl (madd acc ci.issuer ci.serial)

def certMagic : Bytes := [67, 69, 82, 84]   -- "CERT"

/-- microsoft.parse -/
def msParse (inp : Bytes) (tbl : Bytes → Option CertInfo) : Res (List (Str × List Int)) :=
  let version := (readU32 inp).1
  let r1 := (readU32 inp).2
  let magic := if r1.length < 4 then [0, 0, 0, 0] else r1.take 4
  let r2 := if r1.length < 4 then [] else r1.drop 4
  if magic ≠ certMagic ∨ version ≠ 0 then .err
  else
    match sstLoop r2 [] with
    | .ok certs => msBuild certs tbl []
    | .err => .err
    | .panic => .panic

/-- microsoft.Check -/
def msCheck (d : List (Str × List Int)) (issuer : Str) (serial : Int) : Option Int :=
  match mget d issuer with
  | none => none
  | some l => findSerial l serial

/-- the SST wire encoding of a list of certificate blobs (for the round-trip theorem): header, one
    certificate element per blob, end marker -/
def sstEncode (certs : List Bytes) : Bytes :=
  leBytes 4 0 ++ certMagic ++
    (certs.map (fun c => leBytes 4 32 ++ leBytes 4 1 ++ leBytes 4 c.length ++ c)).flatten ++
    leBytes 4 0 ++ leBytes 8 0

/-- one element of a serialized store: SerializedPropertyEntry (id ∉ {0, 32}) or SerializedCertificateEntry (id = 32) -/
structure SstElem where
  id : Nat
  format : Nat
  value : Bytes
  deriving Repr, DecidableEq

def sstElemBytes (e : SstElem) : Bytes :=
  leBytes 4 e.id ++ (leBytes 4 e.format ++ (leBytes 4 e.value.length ++ e.value))

/-- a general well-formed store: header, property and certificate elements in any order, end marker (id 0) and
    whatever follows it (the 8-byte marker value; the parser never reads it) -/
def sstEncodeElems (es : List SstElem) (tail : Bytes) : Bytes :=
  leBytes 4 0 ++ (certMagic ++ ((es.map sstElemBytes).flatten ++ (leBytes 4 0 ++ tail)))

/-- the certificate blobs of a store, in order -/
def sstCerts : List SstElem → List Bytes
  | [] => []
  | e :: rest => if e.id = 32 then e.value :: sstCerts rest else sstCerts rest

end ZV.C15
