import ZV.Base
import ZV.Model.C18
import ZV.Model.C22
/-!
  C14 — model of x509/revocation/crl/crl.go: `CheckCRLForCert` and `gatherListExtensionInfo`.

  * serial numbers are `Int` (`big.Int.Cmp … == 0` is integer equality);
  * the cache `map[string]*pkix.RevokedCertificate` is keyed by `SerialNumber.String()`.  `decChars` models
    `(*big.Int).String()` (sign, then the base-10 digits, most significant first; "0" for zero) as the list of
    characters of the Go string; the map is an association list keyed by these character lists.  That the
    rendering is injective is a THEOREM (`Props/C14.decChars_injective`), not an assumption.
    `firstWins` / `lastWins` are the two ways a caller can fill such a map from the entry list
    (`if _, ok := m[k]; !ok { m[k] = &e }`  resp. plain  `m[k] = &e`, which is what crl_test.go does);
  * times are opaque integers (Unix seconds);
  * the issuer is a `pkix.RDNSequence` and `ret.Issuer.FillFromRDNSequence(&…)` is the model `ZV.C22.fill` of
    x509/pkix/pkix.go (all per-attribute fields, `Names`, `OriginalRDNS`; its dispatch tables are T1-checked by C22);
  * the CRL-number extension value is decoded by `asn1.Unmarshal(value, &int)`: this is the shared `encoding/asn1`
    model `ZV.C18.unmarshal` run in strict mode on the schema `int64` (a Go `int` is 64 bit) with empty field
    parameters;
  * `CertificateEntryExtensions` / `RawCertificateEntryExtensions` of `RevocationData` are never written by
    `CheckCRLForCert` (reason code, invalidity date of the matching entry are NOT reported — see the TODO in crl.go):
    the model carries them as constants so that T2 notices when that changes.
-/
namespace ZV.C14

structure Entry where
  serial : Int
  time : Int
  deriving Repr, DecidableEq

structure Ext where
  oid : List Nat
  critical : Bool
  value : Bytes
  deriving Repr, DecidableEq

structure CRL where
  version : Int
  thisUpdate : Int
  nextUpdate : Int
  issuer : Option ZV.C22.RDNSeq      -- `none` = nil slice
  sig : Bytes
  entries : List Entry
  exts : List Ext
  deriving Repr

/-- Go's `RevocationData` (every field but CRLSignatureAlgorithm and CRLExtensions.AuthKeyID, which is never set). -/
structure RevData where
  sig : Bytes := []
  version : Int := 0
  issuer : ZV.C22.Name := {}
  thisUpdate : Int := 0
  nextUpdate : Int := 0
  crlNumber : Int := 0
  unknown : List Ext := []
  unknownCritical : List Ext := []
  isRevoked : Bool := false
  revTime : Option Int := none     -- `none` = the zero time.Time
  entryReason : Option Int := none -- CertificateEntryExtensions.Reason (nil pointer)
  rawEntryExts : List Ext := []    -- RawCertificateEntryExtensions
  deriving Repr, DecidableEq

/-! ### (*big.Int).String() -/

def digitChar (d : Nat) : Char := Char.ofNat (48 + d)

/-- `nat.utoa(10)`: base-10 digits, most significant first, "0" for zero -/
def natDigits (n : Nat) : List Char :=
  if n < 10 then [digitChar n] else natDigits (n / 10) ++ [digitChar (n % 10)]
termination_by n
decreasing_by omega

/-- the characters of `x.String()` -/
def decChars (i : Int) : List Char :=
  match i with
  | .ofNat n => natDigits n
  | .negSucc n => '-' :: natDigits (n + 1)

def decStr (i : Int) : String := String.ofList (decChars i)

/-! ### asn1.Unmarshal(value, &int) -/

/-- `asn1.Unmarshal(bs, &x)` for `x int` (64 bit): `some v` on success (trailing bytes are allowed, Unmarshal
    returns them as `rest`), `none` on any error. -/
def derInt (bs : Bytes) : Option Int :=
  match ZV.C18.unmarshal false .int64 {} bs with
  | .ok (.int v, _) => some v
  | _ => none

/-! ### gatherListExtensionInfo -/

def crlNumberOID : List Nat := [2, 5, 29, 20]

/-- `asn1.Unmarshal(extension.Value, &ext.CRLNumber)` with the error ignored; `ext` is a fresh variable in
    every iteration, so a failed Unmarshal leaves 0. -/
def numOf (e : Ext) : Int := match derInt e.value with | some v => v | none => 0

/-- one loop iteration -/
def gatherStep (ret : RevData) (e : Ext) : RevData :=
  if e.oid = crlNumberOID then
    { ret with crlNumber := numOf e }
  else if e.critical then
    { ret with unknownCritical := ret.unknownCritical ++ [e] }
  else
    { ret with unknown := ret.unknown ++ [e] }

def gather (exts : List Ext) (ret : RevData) : RevData :=
  exts.foldl gatherStep ret

/-! ### the cache -/

abbrev Key := List Char
abbrev Cache := List (Key × Entry)

def Cache.get (c : Cache) (k : Key) : Option Entry :=
  match c with
  | [] => none
  | (k', e) :: rest => if k' = k then some e else Cache.get rest k

/-- `m[k] = e` on a Go map -/
def Cache.set (c : Cache) (k : Key) (e : Entry) : Cache :=
  match c with
  | [] => [(k, e)]
  | (k', e') :: rest => if k' = k then (k, e) :: rest else (k', e') :: Cache.set rest k e

/-- `for _, e := range entries { if _, ok := m[key e]; !ok { m[key e] = &e } }` -/
def firstWins (entries : List Entry) : Cache :=
  entries.foldl (fun m e => match m.get (decChars e.serial) with | some _ => m | none => m.set (decChars e.serial) e) []

/-- `for _, e := range entries { m[key e] = &e }` (crl_test.go) -/
def lastWins (entries : List Entry) : Cache :=
  entries.foldl (fun m e => m.set (decChars e.serial) e) []

/-! ### CheckCRLForCert -/

/-- the linear search loop (`for i := range revokedCerts { if Cmp == 0 { …; break } }`) -/
def search (entries : List Entry) (serial : Int) (ret : RevData) : RevData :=
  match entries with
  | [] => ret
  | e :: rest =>
    if e.serial = serial then { ret with isRevoked := true, revTime := some e.time }
    else search rest serial ret

def header (crl : CRL) : RevData :=
  { sig := crl.sig, version := crl.version, thisUpdate := crl.thisUpdate, nextUpdate := crl.nextUpdate,
    isRevoked := false, issuer := ZV.C22.fill crl.issuer }

def check (crl : CRL) (serial : Int) (cache : Option Cache) : RevData :=
  let ret := gather crl.exts (header crl)
  match cache with
  | some m =>
    match m.get (decChars serial) with
    | some val => { ret with isRevoked := true, revTime := some val.time }
    | none => ret
  | none => search crl.entries serial ret

/-! ### repeated lookups on one CertificateList -/

/-- A sequence of lookups `(serial, cache)` made on ONE `*pkix.CertificateList` object (and on cache maps built once
    from it).  `CheckCRLForCert` only reads its arguments, so lookup `i` of the sequence is the single lookup on the
    ORIGINAL CRL value: the model threads no state.  The T2 stream `c14 seq …` runs the Go code on one shared object
    against this function. -/
def checkSeq (crl : CRL) (qs : List (Int × Option Cache)) : List RevData :=
  qs.map (fun q => check crl q.1 q.2)

end ZV.C14
