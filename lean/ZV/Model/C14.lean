import ZV.Base
/-!
  C14 — model of x509/revocation/crl/crl.go: `CheckCRLForCert` and `gatherListExtensionInfo`.

  * serial numbers are `Int` (`big.Int.Cmp … == 0` is integer equality);
  * the cache `map[string]*pkix.RevokedCertificate` is keyed by `SerialNumber.String()` (the decimal
    numeral, injective on integers), so it is modelled as an association list keyed by the integer with
    unique keys; `firstWins` / `lastWins` are the two ways a caller can fill such a map from the entry list
    (`if _, ok := m[k]; !ok { m[k] = &e }`  resp. plain  `m[k] = &e`, which is what crl_test.go does);
  * times are opaque integers (Unix seconds); the issuer is a list of RDNs of opaque (type, value) pairs;
  * the CRL-number extension value is decoded by `asn1.Unmarshal(value, &int)`; `derInt` mirrors the path
    that call takes through parseField / parseTagAndLength / parseInt64 (strict mode) for a Go `int` target.
-/
namespace ZV.C14

structure Entry where
  serial : Int
  time : Int
  deriving Repr, DecidableEq

structure Ext where
  oid : List Nat
  critical : Bool
  value : Bytes
  deriving Repr, DecidableEq

abbrev Atv := String          -- opaque attribute (type and value), printed back verbatim
abbrev RDNs := List (List Atv)

structure CRL where
  version : Int
  thisUpdate : Int
  nextUpdate : Int
  issuer : RDNs
  sig : Bytes
  entries : List Entry
  exts : List Ext
  deriving Repr

/-- Go's `RevocationData` (fields the property speaks about). -/
structure RevData where
  sig : Bytes := []
  version : Int := 0
  issuerRDNs : RDNs := []
  issuerNames : List Atv := []
  thisUpdate : Int := 0
  nextUpdate : Int := 0
  crlNumber : Int := 0
  unknown : List Ext := []
  unknownCritical : List Ext := []
  isRevoked : Bool := false
  revTime : Option Int := none     -- `none` = the zero time.Time
  deriving Repr, DecidableEq

/-! ### asn1.Unmarshal(value, &int) -/

/-- the long-form length loop of parseTagAndLength: `n` more length bytes, accumulated length `acc`. -/
def lenLoop : Nat → Nat → Bytes → Option (Nat × Bytes)
  | 0, acc, bs => some (acc, bs)
  | n + 1, acc, bs =>
    match bs with
    | [] => none                                     -- truncated tag or length
    | b :: rest =>
      if acc ≥ 2 ^ 23 then none                      -- length too large
      else
        let acc' := acc * 256 + b.toNat
        if acc' = 0 then none                        -- superfluous leading zeros in length
        else lenLoop n acc' rest

/-- the length part of parseTagAndLength (strict: AllowPermissiveParsing = false). -/
def parseLen (bs : Bytes) : Option (Nat × Bytes) :=
  match bs with
  | [] => none
  | b :: rest =>
    if b.toNat < 128 then some (b.toNat, rest)
    else
      let nb := b.toNat - 128
      if nb = 0 then none                            -- indefinite length
      else
        match lenLoop nb 0 rest with
        | none => none
        | some (l, rest') => if l < 128 then none else some (l, rest')   -- non-minimal length

/-- big-endian two's-complement value of a non-empty byte string. -/
def beNat : Bytes → Nat → Nat
  | [], acc => acc
  | b :: rest, acc => beNat rest (acc * 256 + b.toNat)

def twos (bs : Bytes) : Int :=
  match bs with
  | [] => 0
  | b :: _ =>
    if b.toNat ≥ 128 then (beNat bs 0 : Int) - (2 ^ (8 * bs.length) : Nat) else (beNat bs 0 : Int)

/-- checkInteger (strict) -/
def checkInteger (bs : Bytes) : Bool :=
  match bs with
  | [] => false
  | [_] => true
  | b0 :: b1 :: _ =>
    !((b0.toNat = 0 ∧ b1.toNat < 128) ∨ (b0.toNat = 255 ∧ b1.toNat ≥ 128))

/-- `asn1.Unmarshal(bs, &x)` for `x int` (64 bit): `some v` on success (trailing bytes are allowed,
    Unmarshal returns them as `rest`), `none` on any error. -/
def derInt (bs : Bytes) : Option Int :=
  match bs with
  | [] => none                                       -- sequence truncated
  | t :: rest =>
    if t.toNat ≠ 2 then none                         -- not UNIVERSAL, primitive, tag 2 (a high-tag form never yields tag 2)
    else
      match parseLen rest with
      | none => none
      | some (l, body) =>
        if l > body.length then none                 -- data truncated
        else
          let inner := body.take l
          if !checkInteger inner then none
          else if inner.length > 8 then none         -- integer too large
          else some (twos inner)

/-! ### gatherListExtensionInfo -/

def crlNumberOID : List Nat := [2, 5, 29, 20]

/-- `asn1.Unmarshal(extension.Value, &ext.CRLNumber)` with the error ignored; `ext` is a fresh variable in
    every iteration, so a failed Unmarshal leaves 0. -/
def numOf (e : Ext) : Int := match derInt e.value with | some v => v | none => 0

/-- one loop iteration -/
def gatherStep (ret : RevData) (e : Ext) : RevData :=
  if e.oid = crlNumberOID then
    { ret with crlNumber := numOf e }
  else if e.critical then
    { ret with unknownCritical := ret.unknownCritical ++ [e] }
  else
    { ret with unknown := ret.unknown ++ [e] }

def gather (exts : List Ext) (ret : RevData) : RevData :=
  exts.foldl gatherStep ret

/-! ### the cache -/

abbrev Cache := List (Int × Entry)

def Cache.get (c : Cache) (k : Int) : Option Entry :=
  match c with
  | [] => none
  | (k', e) :: rest => if k' = k then some e else Cache.get rest k

/-- `m[k] = e` on a Go map -/
def Cache.set (c : Cache) (k : Int) (e : Entry) : Cache :=
  match c with
  | [] => [(k, e)]
  | (k', e') :: rest => if k' = k then (k, e) :: rest else (k', e') :: Cache.set rest k e

/-- `for _, e := range entries { if _, ok := m[key e]; !ok { m[key e] = &e } }` -/
def firstWins (entries : List Entry) : Cache :=
  entries.foldl (fun m e => match m.get e.serial with | some _ => m | none => m.set e.serial e) []

/-- `for _, e := range entries { m[key e] = &e }` (crl_test.go) -/
def lastWins (entries : List Entry) : Cache :=
  entries.foldl (fun m e => m.set e.serial e) []

/-! ### CheckCRLForCert -/

/-- the linear search loop (`for i := range revokedCerts { if Cmp == 0 { …; break } }`) -/
def search (entries : List Entry) (serial : Int) (ret : RevData) : RevData :=
  match entries with
  | [] => ret
  | e :: rest =>
    if e.serial = serial then { ret with isRevoked := true, revTime := some e.time }
    else search rest serial ret

/-- pkix.Name.FillFromRDNSequence as far as observed: OriginalRDNS and the flattened Names. -/
def fillNames (rdns : RDNs) : List Atv := rdns.flatten

def header (crl : CRL) : RevData :=
  { sig := crl.sig, version := crl.version, thisUpdate := crl.thisUpdate, nextUpdate := crl.nextUpdate,
    isRevoked := false, issuerRDNs := crl.issuer, issuerNames := fillNames crl.issuer }

def check (crl : CRL) (serial : Int) (cache : Option Cache) : RevData :=
  let ret := gather crl.exts (header crl)
  match cache with
  | some m =>
    match m.get serial with
    | some val => { ret with isRevoked := true, revTime := some val.time }
    | none => ret
  | none => search crl.entries serial ret

/-! ### repeated lookups on one CertificateList -/

/-- A sequence of lookups `(serial, cache)` made on ONE `*pkix.CertificateList` object (and on cache maps built once
    from it).  `CheckCRLForCert` only reads its arguments, so lookup `i` of the sequence is the single lookup on the
    ORIGINAL CRL value: the model threads no state.  The T2 stream `c14 seq …` runs the Go code on one shared object
    against this function. -/
def checkSeq (crl : CRL) (qs : List (Int × Option Cache)) : List RevData :=
  qs.map (fun q => check crl q.1 q.2)

end ZV.C14
