import ZV.Model.C30
/-!
  C30 (second part) — the TLS 1.3 PSK-binder helpers of `clientHelloMsg` (tls/handshake_messages.go:
  `marshalWithoutBinders`, `updateBinders`) and the `raw` cache seen from the parse side
  (`unmarshal` stores its input in `raw`; `marshal` returns `raw` when set).
-/
namespace ZV.C30
open ZV.TlsWire

/-- `bindersLen := 2; for binder { bindersLen += 1 + len(binder) }` -/
def bindersLen : List Bytes → Nat
  | [] => 2
  | b :: l => 1 + b.length + bindersLen l

/-- `fullMessage[:len(fullMessage)-bindersLen]` — a slice-bounds panic when the binders "do not fit"
    (binders set on a hello that does not carry the pre_shared_key extension) -/
def marshalWithoutBinders (m : ClientHello) : Res Bytes :=
  match clientHello.ser m with
  | none => .panic
  | some full =>
    if bindersLen m.pskBinders ≤ full.length then .ok (full.take (full.length - bindersLen m.pskBinders)) else .panic

/-- the two `pskBinders length mismatch` checks -/
def sameLens : List Bytes → List Bytes → Bool
  | [], [] => true
  | a :: l, b :: l' => a.length == b.length && sameLens l l'
  | _, _ => false

/-- `AddUint16LengthPrefixed { for binder { AddUint8LengthPrefixed { AddBytes(binder) } } }` -/
def bindersEnc : Fmt (List Bytes) := lp 2 (many (opq 1))

/-- `updateBinders`: state = (message, `raw` cache).  With a cache the binders region at the end of `raw` is
    overwritten in place; any length disagreement panics. -/
def updateBinders (m : ClientHello) (raw : Option Bytes) (new : List Bytes) : Res (ClientHello × Option Bytes) :=
  if !sameLens new m.pskBinders then .panic
  else
    let m' := { m with pskBinders := new }
    match raw with
    | none => .ok (m', none)
    | some r =>
      if bindersLen new ≤ r.length then
        match bindersEnc.ser new with
        | none => .panic
        | some e =>
          let r' := r.take (r.length - bindersLen new) ++ e
          if r'.length ≠ r.length then .panic else .ok (m', some r')
      else .panic

/-- `marshal` of a message with cache -/
def marshalCached (m : ClientHello) (raw : Option Bytes) : Option Bytes :=
  match raw with
  | some r => some r
  | none => clientHello.ser m

/-- the T2 scenario: build, optionally `marshal()` (fills the cache), `updateBinders(new)`, `marshal()` -/
def updateScenario (m : ClientHello) (cached : Bool) (new : List Bytes) : Res Bytes :=
  let raw0 := if cached then clientHello.ser m else some []   -- `some []` is a placeholder, replaced below
  match raw0 with
  | none => .panic
  | some r0 =>
    match updateBinders m (if cached then some r0 else none) new with
    | .ok (m', raw') =>
      (match marshalCached m' raw' with
       | none => .panic
       | some bs => .ok bs)
    | .err => .err
    | .panic => .panic

/-- parse-side round trip: what `marshal` returns right after `unmarshal bs` is the cached `bs`; `fresh` is what the
    encoder produces for the parsed value.  `none` = rejected, `some none` = the fresh marshal panics. -/
def remarshal {α} (f : MFmt α) (bs : Bytes) : Option (Option Bytes) :=
  match f.par bs with
  | none => none
  | some v => some (f.ser v)

end ZV.C30
