import ZV.Base
/-!
  Model of the Close/Write interlock of `tls/conn.go`:

  ```go
  func (c *Conn) Write(b []byte) (int, error) {
      for {                                              // wStart
          x := atomic.LoadInt32(&c.activeCall)           //   → wLoaded x
          if x&1 != 0 { return 0, net.ErrClosed }
          if atomic.CompareAndSwapInt32(&c.activeCall, x, x+2) { break }   // → wIn   (or back to wStart)
      }
      defer atomic.AddInt32(&c.activeCall, -2)           // wExit r → idle
      if err := c.Handshake(); err != nil { return 0, err }
      c.out.Lock(); defer c.out.Unlock()
      if err := c.out.err; err != nil { return 0, err }
      if !c.handshakeComplete() { return 0, alertInternalError }
      if c.closeNotifySent { return 0, errShutdown }
      … writeRecordLocked …
  }
  func (c *Conn) Close() error {
      var x int32
      for {                                              // cStart
          x = atomic.LoadInt32(&c.activeCall)            //   → cLoaded x
          if x&1 != 0 { return net.ErrClosed }
          if atomic.CompareAndSwapInt32(&c.activeCall, x, x|1) { break }   // → cWon x (or back to cStart)
      }
      if x != 0 { return c.conn.Close() }                // a Write is in flight: no close_notify
      var alertErr error
      if c.handshakeComplete() { if err := c.closeNotify(); err != nil { alertErr = … } }
      if err := c.conn.Close(); err != nil { return err }
      return alertErr
  }
  func (c *Conn) CloseWrite() error {
      if !c.handshakeComplete() { return errEarlyCloseWrite }
      return c.closeNotify()
  }
  ```
  Every atomic operation is one step of one thread; the mutex-protected bodies (`Handshake` under
  `handshakeMutex`, the rest of `Write` and `closeNotify` under `c.out`) are one step each.  A schedule is a
  list of thread ids.  The peer is cooperative (a handshake on an open connection succeeds, writes on an open
  connection succeed); record contents, `Read`, deadlines and renegotiation are not in this model.
-/
namespace ZV.C34

inductive Op where
  | handshake | write | close | closeWrite
  deriving Repr, DecidableEq

/-- outcome of a call, as the harness classifies errors -/
inductive Out where
  | ok
  | closed      -- net.ErrClosed from the activeCall gate
  | shutdown    -- errShutdown
  | early       -- errEarlyCloseWrite
  | err         -- any other error
  deriving Repr, DecidableEq

inductive HS where
  | none | done | failed
  deriving Repr, DecidableEq

/-- where a thread is inside its current call -/
inductive PC where
  | idle
  | wStart | wLoaded (x : Int) | wIn | wExit (r : Out)
  | cStart | cLoaded (x : Int) | cWon (x : Int)
  deriving Repr, DecidableEq

structure Thread where
  prog : List Op        -- calls still to make (the current call is already removed)
  pc   : PC
  outs : List Out       -- results of finished calls, most recent first
  deriving Repr, DecidableEq

/-- ghost events for stating the theorems -/
inductive Ev where
  | enter (t : Nat)                       -- Write of thread t passed the gate (CAS x → x+2 succeeded)
  | exit (t : Nat)                        -- its deferred add(-2) ran
  | closeWon (t : Nat) (x : Int) (inflight : Nat)   -- Close of thread t won its CAS having loaded x; number of Writes inside the gate at that instant
  | refusedW (t : Nat) | refusedC (t : Nat)           -- returned net.ErrClosed at the gate
  deriving Repr, DecidableEq

structure Sys where
  active     : Int       -- c.activeCall
  hs         : HS        -- handshakeStatus / handshakeErr (under handshakeMutex)
  notifySent : Bool      -- c.closeNotifySent (under c.out)
  notifyErr  : Bool      -- c.closeNotifyErr != nil
  connClosed : Bool      -- underlying net.Conn closed
  threads    : List Thread
  events     : List Ev   -- most recent first
  deriving Repr, DecidableEq

/-- `c.Handshake()` on behalf of any call: under `handshakeMutex`, sticky error, peer cooperative -/
def doHandshake (s : Sys) : Sys × Bool :=
  match s.hs with
  | .failed => (s, false)
  | .done => (s, true)
  | .none => if s.connClosed then ({ s with hs := .failed }, false) else ({ s with hs := .done }, true)

/-- the part of `Write` after the gate -/
def writeBody (s : Sys) : Sys × Out :=
  match doHandshake s with
  | (s1, false) => (s1, .err)
  | (s1, true) =>
    if s1.notifySent then (s1, .shutdown)
    else if s1.connClosed then (s1, .err)
    else (s1, .ok)

/-- `closeNotify()` under `c.out` -/
def closeNotify (s : Sys) : Sys × Bool :=      -- (state, returned error?)
  if s.notifySent then (s, s.notifyErr)
  else if s.connClosed then ({ s with notifySent := true, notifyErr := true }, true)
  else ({ s with notifySent := true, notifyErr := false }, false)

/-- 1 if the thread is between the gate and its deferred `add(-2)` -/
def inGate (t : Thread) : Nat :=
  match t.pc with
  | .wIn => 1
  | .wExit _ => 1
  | _ => 0

/-- number of Writes inside the gate -/
def inflightOf (ts : List Thread) : Nat := (ts.map inGate).sum

def isOdd (x : Int) : Bool := x % 2 == 1      -- `x&1 != 0` for the non-negative values that occur

/-- one atomic step of thread `i` -/
def step (i : Nat) (s : Sys) : Sys :=
  match s.threads[i]? with
  | none => s
  | some t =>
    let upd (s : Sys) (t' : Thread) : Sys := { s with threads := s.threads.set i t' }
    let fin (s : Sys) (r : Out) : Sys := upd s { t with pc := .idle, outs := r :: t.outs }
    match t.pc with
    | .idle =>
      match t.prog with
      | [] => s
      | .handshake :: rest =>
        let (s1, ok) := doHandshake s
        upd s1 { prog := rest, pc := .idle, outs := (if ok then Out.ok else Out.err) :: t.outs }
      | .closeWrite :: rest =>
        if s.hs ≠ .done then upd s { prog := rest, pc := .idle, outs := .early :: t.outs }
        else
          let (s1, e) := closeNotify s
          upd s1 { prog := rest, pc := .idle, outs := (if e then Out.err else Out.ok) :: t.outs }
      | .write :: rest => upd s { t with prog := rest, pc := .wStart }
      | .close :: rest => upd s { t with prog := rest, pc := .cStart }
    | .wStart => upd s { t with pc := .wLoaded s.active }
    | .wLoaded x =>
      if isOdd x then { fin s .closed with events := .refusedW i :: s.events }
      else if s.active = x then
        { upd s { t with pc := .wIn } with active := x + 2, events := .enter i :: s.events }
      else upd s { t with pc := .wStart }
    | .wIn =>
      let (s1, r) := writeBody s
      upd s1 { t with pc := .wExit r }
    | .wExit r => { fin s r with active := s.active - 2, events := .exit i :: s.events }
    | .cStart => upd s { t with pc := .cLoaded s.active }
    | .cLoaded x =>
      if isOdd x then { fin s .closed with events := .refusedC i :: s.events }
      else if s.active = x then
        { upd s { t with pc := .cWon x } with
          active := x + 1, events := .closeWon i x (inflightOf s.threads) :: s.events }   -- x even: x|1 = x+1
      else upd s { t with pc := .cStart }
    | .cWon x =>
      if x ≠ 0 then fin { s with connClosed := true } .ok
      else if s.hs = .done then
        let (s1, e) := closeNotify s
        fin { s1 with connClosed := true } (if e then .err else .ok)
      else fin { s with connClosed := true } .ok

def run (s : Sys) : List Nat → Sys
  | [] => s
  | i :: is => run (step i s) is

def init (progs : List (List Op)) : Sys :=
  { active := 0, hs := .none, notifySent := false, notifyErr := false, connClosed := false,
    threads := progs.map (fun p => { prog := p, pc := .idle, outs := [] }), events := [] }

/-- all calls of all threads have returned -/
def quiescent (s : Sys) : Bool := s.threads.all (fun t => t.pc == .idle && t.prog.isEmpty)

/-- sequential semantics: a single thread running its program alone (each call takes at most 5 steps) -/
def runSeq (ops : List Op) : List Out :=
  let s := run (init [ops]) (List.replicate (5 * ops.length) 0)
  match s.threads with
  | [t] => t.outs.reverse
  | _ => []

end ZV.C34
