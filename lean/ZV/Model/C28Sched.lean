import ZV.Base
/-!
  C28 — the LOGGING SCHEDULE of the client handshake.

  Model of the control flow of `tls/handshake_client.go` (`clientHandshake`, `clientHandshakeState.handshake`,
  `doFullHandshake`, `readSessionTicket`, `readFinished`, `sendFinished`, `verifyServerCertificate`) and of
  `tls/handshake_client_tls13.go` (`clientHandshakeStateTLS13.handshake`, `processHelloRetryRequest`,
  `readServerParameters`, `readServerCertificate`, `readServerFinished`) as far as it decides WHICH field of the
  handshake log (`Conn.handshakeLog`) is written, WHEN, and FROM WHICH received message.

  Input: the sequence of items the record layer hands to the handshake code after the ClientHello was written
  (`readHandshake` results and ChangeCipherSpec records), each with the outcome of the checks the code performs on
  that message (abstract attributes).  The end of the list is the point where the next read fails (EOF, alert,
  undecodable record/message).  The machine is a fold of `step`: everything the code does between two reads is
  deterministic and happens in the step of the message that was read last (writes are assumed to succeed).

  Conventions: first handshake on the connection (`c.handshakes == 0`), the client has no certificate to send,
  the key log writer does not fail, `Config.VerifyConnection == nil`-style callbacks are folded into `verify`.
-/
namespace ZV.C28

inductive Kex | rsa | ecdhe | dhe
deriving DecidableEq, Repr

/-- what the client concludes from a ServerHello -/
structure SHA where
  /-- `pickTLSVersion` succeeds and no downgrade canary is found -/
  versOK : Bool
  /-- the negotiated version is TLS 1.3 -/
  tls13 : Bool
  /-- TLS ≤ 1.2: `processServerHello` returns no error; TLS 1.3: `checkServerHelloOrHRR` and, for an HRR,
      the checks of `processHelloRetryRequest`, otherwise those of `processServerHello`, pass -/
  ok : Bool
  /-- TLS ≤ 1.2: `processServerHello` reports a resumption -/
  resume : Bool
  /-- `serverHello.ocspStapling` -/
  ocsp : Bool
  /-- `serverHello.ticketSupported` -/
  ticket : Bool
  /-- TLS 1.3: the message is a HelloRetryRequest -/
  hrr : Bool
  /-- TLS 1.3: the server selected the offered PSK (`hs.usingPSK`) -/
  psk : Bool
  /-- key exchange of the selected suite (TLS ≤ 1.2) -/
  kex : Kex
deriving DecidableEq, Repr

/-- what the client concludes from a Certificate message -/
structure CertA where
  /-- the list has at least one entry -/
  nonEmpty : Bool
  /-- every entry parses (`x509.ParseCertificate`) -/
  parse : Bool
  /-- the rest of `verifyServerCertificate` passes (chain verification or InsecureSkipVerify, key type, callbacks) -/
  verify : Bool
  /-- static RSA only: `rsaKeyAgreement.generateClientKeyExchange` accepts the leaf key -/
  kxKey : Bool
deriving DecidableEq, Repr

inductive Item
  | serverHello (a : SHA)
  | certificate (c : CertA)
  | certStatus
  /-- `ok`: `processServerKeyExchange` of an ECDHE / DHE key agreement returns no error -/
  | serverKeyExchange (ok : Bool)
  | certRequest
  | serverHelloDone
  | newSessionTicket
  /-- `ok`: the verify data is the expected one -/
  | finished (ok : Bool)
  /-- `ok`: the ALPN checks pass; `alpn`: a protocol was selected -/
  | encryptedExtensions (ok alpn : Bool)
  /-- `ok`: algorithm admissible and signature valid -/
  | certVerify (ok : Bool)
  /-- any other handshake message `readHandshake` can return (HelloRequest, ClientHello, KeyUpdate, …) -/
  | other
  /-- a ChangeCipherSpec record -/
  | ccs
deriving DecidableEq, Repr

/-- where the `session_ticket` record of the log comes from -/
inductive TicketSrc
  | none
  /-- the session loaded from the client session cache (the ticket the client OFFERED) -/
  | cache
  /-- the NewSessionTicket message at this position of the incoming sequence -/
  | msg (i : Nat)
deriving DecidableEq, Repr

/-- which parts of `ServerHandshake` are populated, and from which incoming item (position) -/
structure HLog where
  clientHello : Bool := false
  serverHello : Option Nat := none
  certs : Option Nat := none
  /-- `Certificates.addParsed` ran -/
  parsed : Bool := false
  skx : Option Nat := none
  ckx : Bool := false
  clientFin : Bool := false
  serverFin : Option Nat := none
  ticket : TicketSrc := .none
  keyMaterial : Bool := false
  /-- TLS 1.3: `ServerHello.AlpnProtocol` overwritten with the protocol of EncryptedExtensions -/
  alpn13 : Bool := false
  /-- `clientHandshake` returned nil -/
  done : Bool := false
deriving DecidableEq, Repr

inductive Phase
  | start
  | aborted
  | complete
  | wantCert (a : SHA)
  /-- Certificate read (position `i`), not yet logged: the next message is read first -/
  | gotCert (a : SHA) (c : CertA) (i : Nat)
  | gotStatus (a : SHA) (c : CertA) (i : Nat)
  | afterSkx (a : SHA) (c : CertA)
  | afterCreq (a : SHA) (c : CertA) (skx : Bool)
  | wantNST (resumed : Bool)
  | wantCCS (resumed : Bool)
  | wantFin (resumed : Bool)
  | want13SH2
  | want13EE (psk : Bool)
  | want13CertOrReq (alpn : Bool)
  | want13Cert (alpn : Bool)
  | want13CV (alpn : Bool)
  | want13Fin (alpn : Bool)
deriving DecidableEq, Repr

structure St where
  phase : Phase
  /-- number of items consumed so far = position of the next item -/
  n : Nat
  /-- `hs.session`: initially the session loaded from the cache, replaced by `readSessionTicket` -/
  sess : TicketSrc
  log : HLog
deriving DecidableEq, Repr

def St.init (offered : Bool) : St := ⟨.start, 0, if offered then .cache else .none, {}⟩

def St.abort (s : St) (L : HLog) : St := { s with phase := .aborted, n := s.n + 1, log := L }
def St.goto (s : St) (p : Phase) (L : HLog) : St := { s with phase := p, n := s.n + 1, log := L }

/-- `clientHandshake` after `hs.handshake()` returned nil: session ticket and key material are logged -/
def St.finish (s : St) (L : HLog) : St :=
  { s with phase := .complete, n := s.n + 1, log := { L with ticket := s.sess, keyMaterial := true, done := true } }

/-- `doFullHandshake` from the ServerHelloDone position on: `m` must be ServerHelloDone; then ClientKeyExchange
    is generated (static RSA: needs a usable leaf key; ECDHE / DHE: needs the ServerKeyExchange) and logged, and
    back in `handshake()` the client Finished is built and logged; then the ticket / CCS is awaited. -/
def onShd (s : St) (a : SHA) (c : CertA) (skxSeen : Bool) (L : HLog) (m : Item) : St :=
  match m with
  | .serverHelloDone =>
    let kxOK := match a.kex with
      | .rsa => c.kxKey
      | _ => skxSeen
    if !kxOK then s.abort L else
    let L' := { L with ckx := true, clientFin := true }
    if a.ticket then s.goto (.wantNST false) L' else s.goto (.wantCCS false) L'
  | _ => s.abort L

/-- optional CertificateRequest -/
def onCreq (s : St) (a : SHA) (c : CertA) (skxSeen : Bool) (L : HLog) (m : Item) : St :=
  match m with
  | .certRequest => s.goto (.afterCreq a c skxSeen) L
  | _ => onShd s a c skxSeen L m

/-- `doFullHandshake` once the message after Certificate [CertificateStatus] has been read: the certificates
    (position `i`) are logged, then parsed / verified, then `m` is looked at -/
def onKx (s : St) (a : SHA) (c : CertA) (i : Nat) (m : Item) : St :=
  let L1 := { s.log with certs := some i }
  if !c.parse then s.abort L1 else
  let L2 := { L1 with parsed := true }
  if !c.verify then s.abort L2 else
  match m with
  | .serverKeyExchange ok =>
    if a.kex == .rsa then s.abort L2 else
    if !ok then s.abort L2 else
    s.goto (.afterSkx a c) { L2 with skx := some s.n }
  | _ => onCreq s a c false L2 m

/-- TLS 1.3 `readServerCertificate` at the Certificate position -/
def onCert13 (s : St) (alpn : Bool) (m : Item) : St :=
  match m with
  | .certificate c =>
    if !c.nonEmpty then s.abort s.log else
    let L1 := { s.log with certs := some s.n }
    if !c.parse then s.abort L1 else
    let L2 := { L1 with parsed := true }
    if !c.verify then s.abort L2 else
    s.goto (.want13CV alpn) L2
  | _ => s.abort s.log

def step (s : St) (m : Item) : St :=
  match s.phase with
  | .aborted => { s with n := s.n + 1 }
  | .complete => { s with n := s.n + 1 }
  | .start =>
    match m with
    | .ccs => s.abort s.log                                   -- readHandshake fails: nothing is logged
    | .serverHello a =>
      let L := { s.log with clientHello := true, serverHello := some s.n }
      if !a.versOK then s.abort L else
      if a.tls13 then
        if !a.ok then s.abort L else
        if a.hrr then s.goto .want13SH2 L else s.goto (.want13EE a.psk) L
      else
        if !a.ok then s.abort L else
        if a.resume then
          if a.ticket then s.goto (.wantNST true) L else s.goto (.wantCCS true) L
        else s.goto (.wantCert a) L
    | _ => s.abort { s.log with clientHello := true }
  | .wantCert a =>
    match m with
    | .certificate c => if !c.nonEmpty then s.abort s.log else s.goto (.gotCert a c s.n) s.log
    | _ => s.abort s.log
  | .gotCert a c i =>
    match m with
    | .ccs => s.abort s.log
    | .certStatus => if !a.ocsp then s.abort s.log else s.goto (.gotStatus a c i) s.log
    | _ => onKx s a c i m
  | .gotStatus a c i =>
    match m with
    | .ccs => s.abort s.log
    | _ => onKx s a c i m
  | .afterSkx a c =>
    match m with
    | .ccs => s.abort s.log
    | _ => onCreq s a c true s.log m
  | .afterCreq a c skx =>
    match m with
    | .ccs => s.abort s.log
    | _ => onShd s a c skx s.log m
  | .wantNST resumed =>
    match m with
    | .newSessionTicket => { s with phase := .wantCCS resumed, n := s.n + 1, sess := .msg s.n }
    | _ => s.abort s.log
  | .wantCCS resumed =>
    match m with
    | .ccs => s.goto (.wantFin resumed) s.log
    | _ => s.abort s.log
  | .wantFin resumed =>
    match m with
    | .finished ok =>
      let L := { s.log with serverFin := some s.n }
      if !ok then s.abort L else
      if resumed then s.finish { L with clientFin := true } else s.finish L
    | _ => s.abort s.log
  -- TLS 1.3: ChangeCipherSpec records are ignored by the record layer
  | .want13SH2 =>
    match m with
    | .ccs => { s with n := s.n + 1 }
    | .serverHello a => if !a.ok || a.hrr then s.abort s.log else s.goto (.want13EE a.psk) s.log
    | _ => s.abort s.log
  | .want13EE psk =>
    match m with
    | .ccs => { s with n := s.n + 1 }
    | .encryptedExtensions ok alpn =>
      if !ok then s.abort s.log else
      if psk then s.goto (.want13Fin alpn) s.log else s.goto (.want13CertOrReq alpn) s.log
    | _ => s.abort s.log
  | .want13CertOrReq alpn =>
    match m with
    | .ccs => { s with n := s.n + 1 }
    | .certRequest => s.goto (.want13Cert alpn) s.log
    | _ => onCert13 s alpn m
  | .want13Cert alpn =>
    match m with
    | .ccs => { s with n := s.n + 1 }
    | _ => onCert13 s alpn m
  | .want13CV alpn =>
    match m with
    | .ccs => { s with n := s.n + 1 }
    | .certVerify ok => if !ok then s.abort s.log else s.goto (.want13Fin alpn) s.log
    | _ => s.abort s.log
  | .want13Fin alpn =>
    match m with
    | .ccs => { s with n := s.n + 1 }
    | .finished ok =>
      if !ok then s.abort s.log else
      { s with phase := .complete, n := s.n + 1, log := { s.log with alpn13 := alpn, done := true } }
    | _ => s.abort s.log

def run (s : St) (ins : List Item) : St := ins.foldl step s

/-- the handshake log after the client has been fed `ins` and the next read failed (or the handshake completed) -/
def clientLog (offered : Bool) (ins : List Item) : HLog := (run (St.init offered) ins).log

end ZV.C28
