import ZV.Model.C02
import ZV.Generated.C02
/-!
  Models of JSON sub-views of a parsed certificate that index, slice or look up tables (x509/json.go, x509/names.go,
  x509/x509.go, x509/extensions.go):

  * `(*GeneralSubtreeIP).MarshalJSON` with `orMask` / `invertMask` (zcrypto) over `net.IPMask.Size`, `net.IP.Mask`,
    `net.IPNet.String` (standard library, modelled to make the T2 comparison exact);
  * `KeyUsage.MarshalJSON` (bit listing);
  * `PublicKeyAlgorithm.String` (`keyAlgorithmNames[p]`), `SignatureAlgorithm.String` (`algoName[algo]`) and the
    name chosen by `jsonifySignatureAlgorithm`;
  * the `BasicConstraints` view and the known / unknown split of `JsonifyExtensions`.
-/
namespace ZV.C02

/-! ## name-constraint IP subtrees -/

/-- inner loops of `simpleMaskLength` for the first non-ff byte: `for v&0x80 != 0 { n++; v <<= 1 }`, then
    `if v != 0 { return -1 }`; the loop runs at most 8 times on a byte -/
def onesLoop : Nat → UInt8 → Nat → Option Nat
  | 0, v, n => if v = 0 then some n else none
  | f + 1, v, n => if v &&& 0x80 ≠ 0 then onesLoop f (v <<< 1) (n + 1) else if v = 0 then some n else none

/-- `net.simpleMaskLength`; `none` = -1 -/
def simpleMaskLength : Bytes → Option Nat
  | [] => some 0
  | v :: rest =>
    if v = 0xff then
      match simpleMaskLength rest with
      | some n => some (n + 8)
      | none => none
    else
      match onesLoop 8 v 0 with
      | some n => if rest.all (· = 0) then some n else none
      | none => none

/-- `net.IPMask.Size` -/
def maskSize (m : Bytes) : Nat × Nat :=
  match simpleMaskLength m with
  | some n => (n, m.length * 8)
  | none => (0, 0)

def v4InV6Prefix : Bytes := [0, 0, 0, 0, 0, 0, 0, 0, 0, 0, 0xff, 0xff]

/-- `net.IP.Mask`; `none` = nil -/
def ipMask (ip mask : Bytes) : Option Bytes :=
  let mask := if mask.length = 16 ∧ ip.length = 4 ∧ (mask.take 12).all (· = 0xff) then mask.drop 12 else mask
  let ip := if mask.length = 4 ∧ ip.length = 16 ∧ ip.take 12 = v4InV6Prefix then ip.drop 12 else ip
  if ip.length ≠ mask.length then none else some (List.zipWith (· &&& ·) ip mask)

/-- `net.IP.To4`; `none` = nil -/
def to4 (ip : Bytes) : Option Bytes :=
  if ip.length = 4 then some ip
  else if ip.length = 16 ∧ ip.take 12 = v4InV6Prefix then some (ip.drop 12)
  else none

/-- `net.networkNumberAndMask` -/
def networkNumberAndMask (ip mask : Bytes) : Option (Bytes × Bytes) :=
  match (match to4 ip with | some i => some i | none => if ip.length ≠ 16 then none else some ip) with
  | none => none
  | some ip =>
    if mask.length = 4 then (if ip.length ≠ 4 then none else some (ip, mask))
    else if mask.length = 16 then (if ip.length = 4 then some (ip, mask.drop 12) else some (ip, mask))
    else none

/-- `net.IPNet.String` in structured form: `none` = "<nil>", else the network number and either the prefix length
    or (mask not a prefix) the mask itself, printed in hex -/
def cidrOf (ip mask : Bytes) : Option (Bytes × (Nat ⊕ Bytes)) :=
  match networkNumberAndMask ip mask with
  | none => none
  | some (nn, m) =>
    match simpleMaskLength m with
    | some l => some (nn, .inl l)
    | none => some (nn, .inr m)

/-- `for idx := range ip { out[idx] = ip[idx] | mask[idx] }` — `mask[idx]` panics when the mask is shorter -/
def orLoop (mask : Bytes) : Nat → Bytes → Res Bytes
  | _, [] => .ok []
  | idx, b :: rest =>
    match at? mask idx with
    | .ok m =>
      match orLoop mask (idx + 1) rest with
      | .ok out => .ok ((b ||| m) :: out)
      | .err => .err
      | .panic => .panic
    | .err => .err
    | .panic => .panic

/-- zcrypto `orMask`; `.ok none` = nil -/
def orMask (ip mask : Bytes) : Res (Option Bytes) :=
  if ip.length = 0 ∨ mask.length = 0 then .ok none
  else if ip.length ≠ 4 ∧ ip.length ≠ 16 then .ok none
  else if ip.length ≠ mask.length then .ok none
  else
    match orLoop mask 0 ip with
    | .ok out => .ok (some out)
    | .err => .err
    | .panic => .panic

/-- zcrypto `invertMask` (`out` has the length of `mask`, so no index can be out of range) -/
def invertMask (mask : Bytes) : Bytes := mask.map (fun b => ~~~ b)

/-- the fields of `auxGeneralSubtreeIP` before `net.IP.String` is applied -/
structure IPView where
  cidr : Option (Bytes × (Nat ⊕ Bytes))
  begin : Option Bytes
  end_ : Option Bytes
  mask : Option Bytes
  deriving Repr, DecidableEq

/-- `(*GeneralSubtreeIP).MarshalJSON` -/
def subtreeIPView (ip mask : Bytes) : Res IPView :=
  let cidr := cidrOf ip mask
  let (ones, bits) := maskSize mask
  if ones = 0 ∧ bits = 0 then .ok { cidr := cidr, begin := none, end_ := none, mask := none }
  else
    match orMask ip (invertMask mask) with
    | .ok e =>
      .ok { cidr := cidr, begin := ipMask ip mask, end_ := e,
            mask := if mask.length = 4 ∨ mask.length = 16 then some mask else none }
    | .err => .err
    | .panic => .panic

/-! ## key usage -/

/-- `KeyUsage.MarshalJSON`: the nine flags in the order of `auxKeyUsage`, and `uint32(k)` -/
def keyUsageView (k : Nat) : List Bool × Nat :=
  ((List.range 9).map (fun i => decide (k &&& (1 <<< i) > 0)), k % 4294967296)

/-! ## algorithm names -/

/-! The tables `keyAlgorithmNames`, `total_key_algorithms`, `algoName` and the OIDs of the `JsonifyExtensions`
    chain are T1 facts: `ZV.C02.Gen.*` in `ZV/Generated/C02.lean`, regenerated from the zcrypto tree on every check. -/

/-- `PublicKeyAlgorithm.String` (x509/names.go): `keyAlgorithmNames[p]` after clamping -/
def keyAlgName (p : Int) : Res String :=
  let p := if p ≥ (Gen.totalKeyAlgorithms : Int) ∨ p < 0 then 0 else p
  at? Gen.keyAlgorithmNames p.toNat

/-- `strconv.Itoa` -/
def itoa (i : Int) : String := if i < 0 then "-" ++ toString i.natAbs else toString i.natAbs

/-- `SignatureAlgorithm.String` -/
def sigAlgString (a : Int) : Res String :=
  if 0 < a ∧ a < Gen.algoName.length then at? Gen.algoName a.toNat else .ok (itoa a)

/-- the `name` of `jsonifySignatureAlgorithm` -/
def sigAlgJSONName (a : Int) : Res String :=
  if a = 0 then .ok "unknown_algorithm" else sigAlgString a

/-! ## extension dispatch of `JsonifyExtensions` -/

/-- the OIDs `JsonifyExtensions` knows, in the order of its `else if` chain (generated) -/
abbrev knownExtOids : List (List Nat) := Gen.knownExtOids

/-- the loop of `JsonifyExtensions` as far as the split goes: for every extension, the position of its OID in the
    chain (the view it fills) or `none` (appended to the unknown list). Result: the set views (positions, in
    order of first occurrence … later occurrences overwrite with the same certificate field) and the unknown
    extensions (their positions in `c.Extensions`), in order. -/
def jsonifyStep (acc : List Nat × List Nat) (e : List Nat × Nat) : List Nat × List Nat :=
  match knownExtOids.idxOf? e.1 with
  | some k => (if acc.1.contains k then acc.1 else acc.1 ++ [k], acc.2)
  | none => (acc.1, acc.2 ++ [e.2])

def jsonifySplit (exts : List (List Nat)) : List Nat × List Nat :=
  (exts.zipIdx).foldl jsonifyStep ([], [])

/-- `BasicConstraints` view: `MaxPathLen` is present iff `c.MaxPathLen > 0 || c.MaxPathLenZero` -/
def basicConstraintsView (isCA : Bool) (maxPathLen : Int) (maxPathLenZero : Bool) : Bool × Option Int :=
  (isCA, if maxPathLen > 0 ∨ maxPathLenZero then some maxPathLen else none)

end ZV.C02
