import ZV.Model.C18
import ZV.Model.Time
/-!
  `encoding/asn1` for a value of Go type `time.Time` (top level of `MarshalWithParams` / `UnmarshalWithParams`, or
  one struct field): the arms of `makeField` / `makeBody` / `parseField` that the deep embedding of `ZV.Model.C18`
  leaves out (its `Schema` has no time leaf).  Headers, EXPLICIT wrappers, the class/tag expectation and the
  optional/default handling are the SAME functions as in `ZV.Model.C18` (`parseTL`, `explicitStage`, `expected`,
  `wrap`); only what depends on the Go type is written out here:

  * `getUniversalType(time.Time) = (matchAny = false, TagUTCTime, isCompound = false)`;
  * `makeField`: the UTCTime / GeneralizedTime tag choice (`EA.timeTag`), `makeBody` (`EA.makeTimeBody`);
  * `parseField`: the substitution "GeneralizedTime on the wire, or `utc`/`generalized` on a non-universal class"
    (asn1.go 828–842) and the `*time.Time` arm (`EA.parseTimeBody`).

  A `time.Time` is `ZV.Time.GoTime`; offset 0 stands for the UTC location (the harness builds such values with
  `.UTC()`), so `time.Time{}` is `zeroTime` and `reflect.DeepEqual(v, time.Time{})` is `t = zeroTime`.
-/
namespace ZV.C18.TimeField
open ZV ZV.C18 ZV.Time

/-- `time.Time{}`: 0001-01-01T00:00:00Z -/
def zeroTime : GoTime := { unix := -62135596800, off := 0, nsec := 0 }

/-- the early return of `makeField` for an OPTIONAL field without default holding the zero value
    (`omitempty` and `default:` concern slices / integer kinds only) -/
def omittedTime (p : Params) (t : GoTime) : Bool :=
  p.optional && p.defaultValue.isNone && t == zeroTime

/-- `makeField` for a `time.Time` -/
def makeTimeField (p : Params) (t : GoTime) : Res Bytes :=
  if omittedTime p t then .ok []
  else if p.stringType ≠ 0 then .err          -- "explicit string type given to non-string member"
  else if p.set then .err                     -- "non sequence tagged as set"
  else
    match EA.makeTimeBody p.timeType t with
    | .ok body => .ok (wrap p (EA.timeTag p.timeType t) false body)
    | .err => .err
    | .panic => .panic

/-- `setDefaultValue` + "ok ⇒ offset = initOffset, else error": the Go value keeps its zero value
    (a `default:` applies to integer kinds only). -/
def dfltTime (p : Params) (bs : Bytes) : Res (GoTime × Bytes) :=
  if p.optional then .ok (zeroTime, bs) else .err

/-- the universal tag expected for a `time.Time` after the substitutions of asn1.go 828–846 -/
def timeSubstTag (p : Params) (t : TL) : Nat :=
  let u1 := if t.cls = 0 then (if t.tag = 24 then 24 else 23)
            else if p.timeType ≠ 0 then p.timeType else 23
  if p.set then 17 else u1

/-- a Go type that is neither `RawValue` nor `Flag`: the only thing `explicitStage` asks of the type -/
def anyPlainType : Schema := .octets

/-- `parseField` for a `time.Time` -/
def parseTimeField (perm : Bool) (p : Params) (bs : Bytes) : Res (GoTime × Bytes) :=
  if bs.isEmpty then dfltTime p bs
  else
    match parseTL perm bs with
    | .err => .err
    | .panic => .err
    | .ok (t0, r0) =>
      match explicitStage perm anyPlainType p t0 r0 with
      | .err => .err
      | .dflt => dfltTime p bs
      | .flag _ => .err                       -- unreachable: `time.Time` is not `Flag`
      | .cont t r =>
        let utag := timeSubstTag p t
        let e := expected p false utag
        if (!e.1 && (t.cls != e.2.1 || t.tag != e.2.2)) || t.compound != false then dfltTime p bs
        else if t.len > r.length then .err
        else
          match EA.parseTimeBody perm utag (r.take t.len) with
          | .ok v => .ok (v, r.drop t.len)
          | .err => .err
          | .panic => .panic

end ZV.C18.TimeField
