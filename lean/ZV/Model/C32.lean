import ZV.Base
/-!
  C32 — TLS endpoints survive arbitrary peer behaviour: model of the record reader's framing logic
  (`tls/conn.go` readRecordOrCCS / retryReadRecord / readHandshake) on an arbitrary byte stream, for a connection
  that has no cipher yet (decryption = identity), is not handshake-complete and does not expect a ChangeCipherSpec —
  the state in which an arbitrary peer talks to a client or a server.  Raw index expressions of the Go code are
  modelled by `idx`, which yields `panic` when out of range, so that "no panic" is a theorem about the guards.
-/
namespace ZV.C32

def maxPlaintext : Nat := 16384
def maxCiphertext : Nat := 16384 + 2048
def maxCiphertextTLS13 : Nat := 16384 + 256
def maxHandshake : Nat := 65536
def maxUselessRecords : Nat := 16

/-- reader state: handshake reassembly buffer, consecutive-useless-record counter, bytes consumed as records -/
structure St where
  hand : Bytes
  retry : Nat
  pos : Nat
  deriving Repr, DecidableEq

inductive Out where
  | ok (st : St) (rest : Bytes)     -- a record was consumed; `rest` = unread stream
  | err (st : St)                   -- the call returned an error (sticky)
  | panic
  deriving Repr, DecidableEq

/-- a Go index expression `l[i]` -/
def idx (l : Bytes) (i : Nat) : Res UInt8 :=
  match l[i]? with
  | some b => .ok b
  | none => .panic

/-- `vers` = 0: no version negotiated yet (`!c.haveVers`) -/
def readRecord (vers : Nat) (st : St) (s : Bytes) : Out :=
  match s with
  | t :: v1 :: v2 :: n1 :: n2 :: body =>
    let typ := t.toNat
    let rv := v1.toNat * 256 + v2.toNat
    let n := n1.toNat * 256 + n2.toNat
    if typ = 0x80 then .err st                                              -- SSLv2
    else if vers ≠ 0 ∧ vers ≠ 0x0304 ∧ rv ≠ vers then .err st              -- wrong record version
    else if vers = 0 ∧ ((typ ≠ 21 ∧ typ ≠ 22) ∨ rv ≥ 0x1000) then .err st  -- "does not look like a TLS handshake"
    else if (vers = 0x0304 ∧ n > maxCiphertextTLS13) ∨ n > maxCiphertext then .err st
    else if body.length < n then .err st                                    -- short read: EOF
    else
      let data := body.take n
      let rest := body.drop n
      let st1 : St := { st with pos := st.pos + 5 + n }
      if data.length > maxPlaintext then .err st1
      else if typ = 23 then .err st1                                        -- application data without a cipher
      else
        let st2 : St := if typ ≠ 21 ∧ typ ≠ 20 ∧ data.length > 0 then { st1 with retry := 0 } else st1
        if vers = 0x0304 ∧ typ ≠ 22 ∧ st2.hand.length > 0 then .err st2
        else if typ = 21 then
          if data.length ≠ 2 then .err st2
          else match idx data 1, idx data 0 with
            | .ok d1, .ok d0 =>
              if d1.toNat = 0 then .err st2                                  -- close_notify
              else if vers = 0x0304 then .err st2
              else if d0.toNat = 1 then                                      -- warning: retryReadRecord
                if st2.retry + 1 > maxUselessRecords then .err { st2 with retry := st2.retry + 1 }
                else readRecord vers { st2 with retry := st2.retry + 1 } rest
              else .err st2
            | _, _ => .panic
        else if typ = 20 then
          if data.length ≠ 1 then .err st2
          else match idx data 0 with
            | .ok d0 =>
              if d0.toNat ≠ 1 then .err st2
              else if st2.hand.length > 0 then .err st2
              else if vers = 0x0304 then
                if st2.retry + 1 > maxUselessRecords then .err { st2 with retry := st2.retry + 1 }
                else readRecord vers { st2 with retry := st2.retry + 1 } rest
              else .err st2                                                  -- unexpected ChangeCipherSpec
            | _ => .panic
        else if typ = 22 then
          if data.length = 0 then .err st2
          else .ok { st2 with hand := st2.hand ++ data } rest
        else .err st2
  | _ => .err st                                                            -- fewer than 5 bytes: EOF
termination_by s.length
decreasing_by all_goals (simp [List.length_drop]; omega)

/-- `for c.hand.Len() < want { readRecord }` -/
def fill (vers : Nat) (want : Nat) (st : St) (s : Bytes) : Out :=
  if st.hand.length ≥ want then .ok st s
  else
    match h : readRecord vers st s with
    | .ok st' rest =>
      if rest.length < s.length then fill vers want st' rest else .panic   -- (never: see `readRecord_consumes`)
    | .err st' => .err st'
    | .panic => .panic
termination_by s.length

inductive MsgKind | simple | complex | unknown
  deriving Repr, DecidableEq

/-- the type switch of readHandshake: `simple` = unmarshal modelled below; `complex` = a parser that is not part of this
    model (ClientHello, ServerHello, NewSessionTicket, EncryptedExtensions, Certificate, CertificateRequest,
    CertificateVerify, CertificateStatus, KeyUpdate); `unknown` = default arm -/
def msgKind (t : Nat) : MsgKind :=
  if t = 0 ∨ t = 5 ∨ t = 12 ∨ t = 14 ∨ t = 16 ∨ t = 20 then .simple
  else if t = 1 ∨ t = 2 ∨ t = 4 ∨ t = 8 ∨ t = 11 ∨ t = 13 ∨ t = 15 ∨ t = 22 ∨ t = 24 then .complex
  else .unknown

/-- unmarshal of the simple messages: HelloRequest / EndOfEarlyData / ServerHelloDone are empty,
    ServerKeyExchange / ClientKeyExchange / Finished accept any body -/
def simpleOK (t n : Nat) : Bool :=
  if t = 0 ∨ t = 5 ∨ t = 14 then n = 0 else true

inductive HOut where
  | msg (t : Nat) (len : Nat) (st : St) (rest : Bytes)
  | complex (st : St)
  | err (st : St)
  | panic
  deriving Repr, DecidableEq

def readHandshake (vers : Nat) (st : St) (s : Bytes) : HOut :=
  match fill vers 4 st s with
  | .panic => .panic
  | .err st' => .err st'
  | .ok st1 s1 =>
    match idx st1.hand 0, idx st1.hand 1, idx st1.hand 2, idx st1.hand 3 with
    | .ok t, .ok a, .ok b, .ok c =>
      let n := a.toNat * 65536 + b.toNat * 256 + c.toNat
      if n > maxHandshake then .err st1
      else
        match fill vers (4 + n) st1 s1 with
        | .panic => .panic
        | .err st' => .err st'
        | .ok st2 s2 =>
          let st3 : St := { st2 with hand := st2.hand.drop (4 + n) }
          match msgKind t.toNat with
          | .unknown => .err st3
          | .complex => .complex st3
          | .simple => if simpleOK t.toNat n then .msg t.toNat (4 + n) st3 s2 else .err st3
    | _, _, _, _ => .panic

/-- repeated readHandshake until it fails; `fuel` bounds the number of messages (each needs ≥ 4 buffered bytes) -/
def run (vers : Nat) : Nat → St → Bytes → List (Nat × Nat) → (List (Nat × Nat) × HOut)
  | 0, st, _, acc => (acc.reverse, .err st)
  | fuel + 1, st, s, acc =>
    match readHandshake vers st s with
    | .msg t l st' rest => run vers fuel st' rest ((t, l) :: acc)
    | o => (acc.reverse, o)

/-! ## halfConn.decrypt — the slicing skeleton of every record-protection class

  What the record layer does with the payload of ONE record once a cipher is (or is not) installed: every length guard,
  every slice expression and every index expression of `halfConn.decrypt` / `extractPadding` (tls/conn.go), for the
  stream, CBC (implicit / explicit IV), AEAD (explicit / implicit nonce) and TLS 1.3 classes.  No cryptography is
  modelled: the decrypted bytes `dec` (CBC: the payload behind the explicit IV after CryptBlocks; TLS 1.3: the opened
  inner plaintext) and the verdict `auth` of the MAC comparison / AEAD tag are INPUTS.  So "no record of any length
  makes decrypt panic, whatever the primitives return" is a theorem about the guards (`decrypt_no_panic`). -/

inductive CK | none | stream | aead | cbc
  deriving Repr, DecidableEq

/-- the read half-connection as far as lengths matter -/
structure HC where
  kind : CK
  vers : Nat
  block : Nat       -- cbc: c.BlockSize()
  nonce : Nat       -- aead: c.explicitNonceLen()
  overhead : Nat    -- aead: c.Overhead()
  hasMac : Bool     -- hc.mac != nil
  macSize : Nat     -- hc.mac.Size()
  deriving Repr, DecidableEq

def alertBadRecordMAC : Nat := 20
def alertUnexpectedMessage : Nat := 10
def alertRecordOverflow : Nat := 22

inductive DOut where
  | plain (typ : Nat) (n : Nat)    -- decrypt returned (plaintext of n bytes, typ, nil)
  | alert (a : Nat)
  | panic
  deriving Repr, DecidableEq

/-- Go `s[lo:]` -/
def sliceFrom (s : Bytes) (lo : Nat) : Res Bytes := if lo ≤ s.length then .ok (s.drop lo) else .panic
/-- Go `s[:hi]`, read strictly (capacity = length) -/
def sliceTo (s : Bytes) (hi : Nat) : Res Bytes := if hi ≤ s.length then .ok (s.take hi) else .panic
/-- Go `s[lo:hi]`, read strictly -/
def slice (s : Bytes) (lo hi : Nat) : Res Bytes :=
  if lo ≤ hi ∧ hi ≤ s.length then .ok ((s.take hi).drop lo) else .panic

def explicitNonceLen (hc : HC) : Nat :=
  match hc.kind with
  | .none => 0
  | .stream => 0
  | .aead => hc.nonce
  | .cbc => if hc.vers ≥ 0x0302 then hc.block else 0

/-- `a + (b-a%b)%b`; the `%` of Go panics on a zero divisor -/
def roundUp (a b : Nat) : Res Nat := if b = 0 then .panic else .ok (a + (b - a % b) % b)

/-- the checking loop of extractPadding: `for i := 0; i < toCheck; i++ { … payload[len(payload)-1-i] … }`;
    `k` = iterations left.  `good` stays true iff every byte at distance `i ≤ paddingLen` from the end equals paddingLen -/
def padLoop (payload : Bytes) (paddingLen : Nat) : Nat → Nat → Bool → Res Bool
  | 0, _, good => .ok good
  | k + 1, i, good =>
    if i + 1 ≤ payload.length then
      match idx payload (payload.length - 1 - i) with
      | .ok b => padLoop payload paddingLen k (i + 1) (good && (if i ≤ paddingLen then b.toNat = paddingLen else true))
      | _ => .panic
    else .panic

/-- extractPadding: (toRemove, good) -/
def extractPadding (payload : Bytes) : Res (Nat × Bool) :=
  if payload.length < 1 then .ok (0, false)
  else
    match idx payload (payload.length - 1) with
    | .ok pl =>
      let paddingLen := pl.toNat
      let good0 : Bool := decide (paddingLen ≤ payload.length - 1)   -- MSB of uint(len-1) - uint(paddingLen) is zero
      let toCheck := if 256 > payload.length then payload.length else 256
      match padLoop payload paddingLen toCheck 0 good0 with
      | .ok good => .ok ((if good then paddingLen else 0) + 1, good)
      | _ => .panic
    | _ => .panic

/-- TLS 1.3: strip the zero padding and find the inner content type scanning from the end.
    `none` = the (non-empty) plaintext is all zero -/
def scanInner (typ : Nat) (pt : Bytes) : Option (Nat × Nat) :=
  match pt.reverse.dropWhile (fun b => b == 0) with
  | [] => if pt.isEmpty then some (typ, 0) else none
  | t :: rest => some (t.toNat, rest.length)

/-- the `if hc.mac != nil { … }` tail -/
def macPart (hc : HC) (typ : Nat) (plaintextLen : Nat) (payload : Bytes) (paddingLen : Nat) (paddingGood auth : Bool) : DOut :=
  if hc.hasMac then
    if payload.length < hc.macSize then .alert alertBadRecordMAC
    else
      let n := payload.length - hc.macSize - paddingLen          -- clamped at 0 by the ConstantTimeSelect
      match slice payload n (n + hc.macSize), sliceTo payload n, sliceFrom payload (n + hc.macSize) with
      | .ok _, .ok pt, .ok _ =>
        if auth && paddingGood then .plain typ pt.length else .alert alertBadRecordMAC
      | _, _, _ => .panic
  else .plain typ plaintextLen

/-- the TLS 1.3 block after the cipher switch -/
def tls13Part (hc : HC) (typ : Nat) (plaintext : Bytes) (k : Nat → Nat → DOut) : DOut :=
  if hc.vers = 0x0304 then
    if typ ≠ 23 then .alert alertUnexpectedMessage
    else if plaintext.length > maxPlaintext + 1 then .alert alertRecordOverflow
    else match scanInner typ plaintext with
      | none => .alert alertUnexpectedMessage
      | some (t, n) => k t n
  else k typ plaintext.length

/-- `if explicitNonceLen > 0 { c.SetIV(payload[:explicitNonceLen]); payload = payload[explicitNonceLen:] }`
    (SetIV panics on an IV that is not one block long) -/
def stripIV (block enl : Nat) (payload : Bytes) : Res Bytes :=
  if enl > 0 then
    match sliceTo payload enl, sliceFrom payload enl with
    | .ok iv, .ok body => if iv.length = block then .ok body else .panic
    | _, _ => .panic
  else .ok payload

/-- `halfConn.decrypt(record)`: `typ` = record[0], `payload` = record[5:] -/
def decrypt (hc : HC) (typ : Nat) (payload : Bytes) (dec : Bytes) (auth : Bool) : DOut :=
  if hc.vers = 0x0304 ∧ typ = 20 then .plain typ payload.length
  else
    let enl := explicitNonceLen hc
    match hc.kind with
    | .none => macPart hc typ payload.length payload 0 true auth           -- plaintext = payload
    | .stream =>                                                          -- XORKeyStream: length preserved
      tls13Part hc typ [] (fun t n => macPart hc t n payload 0 true auth)
    | .aead =>
      if payload.length < enl then .alert alertBadRecordMAC
      else
        match sliceTo payload enl, sliceFrom payload enl with
        | .ok _, .ok body =>
          -- c.Open fails unless the tag verifies; it needs at least Overhead() bytes
          if ¬ auth ∨ body.length < hc.overhead then .alert alertBadRecordMAC
          else
            let plaintext : Bytes := if hc.vers = 0x0304 ∧ dec.length = body.length - hc.overhead then dec
                                     else List.replicate (body.length - hc.overhead) 1
            tls13Part hc typ plaintext (fun t n => macPart hc t n body 0 true auth)
        | _, _ => .panic
    | .cbc =>
      if ¬ hc.hasMac then .panic                                           -- hc.mac.Size() on a nil MAC
      else
        match roundUp (hc.macSize + 1) hc.block with
        | .ok ru =>
          let minPayload := enl + ru
          if payload.length % hc.block ≠ 0 ∨ payload.length < minPayload then .alert alertBadRecordMAC
          else
            match stripIV hc.block enl payload with
            | .ok body =>
              if body.length % hc.block ≠ 0 then .panic                    -- CryptBlocks: "input not full blocks"
              else
                let body' := if dec.length = body.length then dec else body
                match extractPadding body' with
                | .ok (paddingLen, paddingGood) =>
                  tls13Part hc typ [] (fun t n => macPart hc t n body' paddingLen paddingGood auth)
                | _ => .panic
            | _ => .panic
        | _ => .panic

end ZV.C32
