import ZV.Base
/-!
  C32 — TLS endpoints survive arbitrary peer behaviour: model of the record reader's framing logic
  (`tls/conn.go` readRecordOrCCS / retryReadRecord / readHandshake) on an arbitrary byte stream, for a connection
  that has no cipher yet (decryption = identity), is not handshake-complete and does not expect a ChangeCipherSpec —
  the state in which an arbitrary peer talks to a client or a server.  Raw index expressions of the Go code are
  modelled by `idx`, which yields `panic` when out of range, so that "no panic" is a theorem about the guards.
-/
namespace ZV.C32

def maxPlaintext : Nat := 16384
def maxCiphertext : Nat := 16384 + 2048
def maxCiphertextTLS13 : Nat := 16384 + 256
def maxHandshake : Nat := 65536
def maxUselessRecords : Nat := 16

/-- reader state: handshake reassembly buffer, consecutive-useless-record counter, bytes consumed as records -/
structure St where
  hand : Bytes
  retry : Nat
  pos : Nat
  deriving Repr, DecidableEq

inductive Out where
  | ok (st : St) (rest : Bytes)     -- a record was consumed; `rest` = unread stream
  | err (st : St)                   -- the call returned an error (sticky)
  | panic
  deriving Repr, DecidableEq

/-- a Go index expression `l[i]` -/
def idx (l : Bytes) (i : Nat) : Res UInt8 :=
  match l[i]? with
  | some b => .ok b
  | none => .panic

/-- `vers` = 0: no version negotiated yet (`!c.haveVers`) -/
def readRecord (vers : Nat) (st : St) (s : Bytes) : Out :=
  match s with
  | t :: v1 :: v2 :: n1 :: n2 :: body =>
    let typ := t.toNat
    let rv := v1.toNat * 256 + v2.toNat
    let n := n1.toNat * 256 + n2.toNat
    if typ = 0x80 then .err st                                              -- SSLv2
    else if vers ≠ 0 ∧ vers ≠ 0x0304 ∧ rv ≠ vers then .err st              -- wrong record version
    else if vers = 0 ∧ ((typ ≠ 21 ∧ typ ≠ 22) ∨ rv ≥ 0x1000) then .err st  -- "does not look like a TLS handshake"
    else if (vers = 0x0304 ∧ n > maxCiphertextTLS13) ∨ n > maxCiphertext then .err st
    else if body.length < n then .err st                                    -- short read: EOF
    else
      let data := body.take n
      let rest := body.drop n
      let st1 : St := { st with pos := st.pos + 5 + n }
      if data.length > maxPlaintext then .err st1
      else if typ = 23 then .err st1                                        -- application data without a cipher
      else
        let st2 : St := if typ ≠ 21 ∧ typ ≠ 20 ∧ data.length > 0 then { st1 with retry := 0 } else st1
        if vers = 0x0304 ∧ typ ≠ 22 ∧ st2.hand.length > 0 then .err st2
        else if typ = 21 then
          if data.length ≠ 2 then .err st2
          else match idx data 1, idx data 0 with
            | .ok d1, .ok d0 =>
              if d1.toNat = 0 then .err st2                                  -- close_notify
              else if vers = 0x0304 then .err st2
              else if d0.toNat = 1 then                                      -- warning: retryReadRecord
                if st2.retry + 1 > maxUselessRecords then .err { st2 with retry := st2.retry + 1 }
                else readRecord vers { st2 with retry := st2.retry + 1 } rest
              else .err st2
            | _, _ => .panic
        else if typ = 20 then
          if data.length ≠ 1 then .err st2
          else match idx data 0 with
            | .ok d0 =>
              if d0.toNat ≠ 1 then .err st2
              else if st2.hand.length > 0 then .err st2
              else if vers = 0x0304 then
                if st2.retry + 1 > maxUselessRecords then .err { st2 with retry := st2.retry + 1 }
                else readRecord vers { st2 with retry := st2.retry + 1 } rest
              else .err st2                                                  -- unexpected ChangeCipherSpec
            | _ => .panic
        else if typ = 22 then
          if data.length = 0 then .err st2
          else .ok { st2 with hand := st2.hand ++ data } rest
        else .err st2
  | _ => .err st                                                            -- fewer than 5 bytes: EOF
termination_by s.length
decreasing_by all_goals (simp [List.length_drop]; omega)

/-- `for c.hand.Len() < want { readRecord }` -/
def fill (vers : Nat) (want : Nat) (st : St) (s : Bytes) : Out :=
  if st.hand.length ≥ want then .ok st s
  else
    match h : readRecord vers st s with
    | .ok st' rest =>
      if rest.length < s.length then fill vers want st' rest else .panic   -- (never: see `readRecord_consumes`)
    | .err st' => .err st'
    | .panic => .panic
termination_by s.length

inductive MsgKind | simple | complex | unknown
  deriving Repr, DecidableEq

/-- the type switch of readHandshake: `simple` = unmarshal modelled below; `complex` = a parser that is not part of this
    model (ClientHello, ServerHello, NewSessionTicket, EncryptedExtensions, Certificate, CertificateRequest,
    CertificateVerify, CertificateStatus, KeyUpdate); `unknown` = default arm -/
def msgKind (t : Nat) : MsgKind :=
  if t = 0 ∨ t = 5 ∨ t = 12 ∨ t = 14 ∨ t = 16 ∨ t = 20 then .simple
  else if t = 1 ∨ t = 2 ∨ t = 4 ∨ t = 8 ∨ t = 11 ∨ t = 13 ∨ t = 15 ∨ t = 22 ∨ t = 24 then .complex
  else .unknown

/-- unmarshal of the simple messages: HelloRequest / EndOfEarlyData / ServerHelloDone are empty,
    ServerKeyExchange / ClientKeyExchange / Finished accept any body -/
def simpleOK (t n : Nat) : Bool :=
  if t = 0 ∨ t = 5 ∨ t = 14 then n = 0 else true

inductive HOut where
  | msg (t : Nat) (len : Nat) (st : St) (rest : Bytes)
  | complex (st : St)
  | err (st : St)
  | panic
  deriving Repr, DecidableEq

def readHandshake (vers : Nat) (st : St) (s : Bytes) : HOut :=
  match fill vers 4 st s with
  | .panic => .panic
  | .err st' => .err st'
  | .ok st1 s1 =>
    match idx st1.hand 0, idx st1.hand 1, idx st1.hand 2, idx st1.hand 3 with
    | .ok t, .ok a, .ok b, .ok c =>
      let n := a.toNat * 65536 + b.toNat * 256 + c.toNat
      if n > maxHandshake then .err st1
      else
        match fill vers (4 + n) st1 s1 with
        | .panic => .panic
        | .err st' => .err st'
        | .ok st2 s2 =>
          let st3 : St := { st2 with hand := st2.hand.drop (4 + n) }
          match msgKind t.toNat with
          | .unknown => .err st3
          | .complex => .complex st3
          | .simple => if simpleOK t.toNat n then .msg t.toNat (4 + n) st3 s2 else .err st3
    | _, _, _, _ => .panic

/-- repeated readHandshake until it fails; `fuel` bounds the number of messages (each needs ≥ 4 buffered bytes) -/
def run (vers : Nat) : Nat → St → Bytes → List (Nat × Nat) → (List (Nat × Nat) × HOut)
  | 0, st, _, acc => (acc.reverse, .err st)
  | fuel + 1, st, s, acc =>
    match readHandshake vers st s with
    | .msg t l st' rest => run vers fuel st' rest ((t, l) :: acc)
    | o => (acc.reverse, o)

end ZV.C32
