import ZV.Base
/-!
  ZV.Wire — engine E1: codec combinators for the TLS presentation language as the Go code uses it
  (`cryptobyte.Builder` / `cryptobyte.String` and the hand-rolled slice code of the older messages).

  Executable part only (core Lean).  Two kinds of format:
  * `Fmt α`  — streaming: `par` consumes a prefix of the buffer and returns the rest
               (`cryptobyte.String.ReadUint16`, `ReadUint8LengthPrefixed`, …);
  * `MFmt α` — whole-buffer: `par` must account for every byte (`… && s.Empty()`, `for !s.Empty() {…}`,
               `len(data) == …`).
  `ser = none` means the Go encoder does not produce bytes for this value (a length does not fit its
  prefix: `cryptobyte` reports an error and `BytesOrPanic` panics).
  The laws (`Lawful`, `NoPrefix`, …) and their proofs per combinator are in `ZV.Proofs.TlsWire`.
-/
namespace ZV.TlsWire

/-- big-endian value of a byte string -/
def beNat : Bytes → Nat
  | [] => 0
  | b :: bs => b.toNat * 256 ^ bs.length + beNat bs

/-- `k` big-endian bytes of `n` (truncating, like `uint8(n >> 8), uint8(n)`) -/
def natBE : Nat → Nat → Bytes
  | 0, _ => []
  | k + 1, n => UInt8.ofNat (n / 256 ^ k) :: natBE k n

structure Fmt (α : Type) where
  ser : α → Option Bytes
  par : Bytes → Option (α × Bytes)

structure MFmt (α : Type) where
  ser : α → Option Bytes
  par : Bytes → Option α

/-! ### streaming primitives -/

/-- `k`-byte big-endian unsigned integer (`AddUint16` / `ReadUint16` …). -/
def uN (k : Nat) : Fmt Nat where
  ser n := if n < 256 ^ k then some (natBE k n) else none
  par s := if s.length < k then none else some (beNat (s.take k), s.drop k)

/-- exactly `n` raw bytes (`addBytesWithLength` / `ReadBytes(n)`). -/
def bytesN (n : Nat) : Fmt Bytes where
  ser b := if b.length = n then some b else none
  par s := if s.length < n then none else some (s.take n, s.drop n)

/-- opaque byte string with a `k`-byte length prefix. -/
def opq (k : Nat) : Fmt Bytes where
  ser b := if b.length < 256 ^ k then some (natBE k b.length ++ b) else none
  par s :=
    if s.length < k then none
    else
      let n := beNat (s.take k)
      let r := s.drop k
      if r.length < n then none else some (r.take n, r.drop n)

/-- fixed bytes written by the encoder and skipped unread by the decoder (`s.Skip(n)`). -/
def skipC (c : Bytes) : Fmt Unit where
  ser _ := some c
  par s := if s.length < c.length then none else some ((), s.drop c.length)

/-- fixed bytes written by the encoder and checked by the decoder. -/
def constC (c : Bytes) : Fmt Unit where
  ser _ := some c
  par s := if s.take c.length = c then some ((), s.drop c.length) else none

/-- sequence -/
def pair {α β} (a : Fmt α) (b : Fmt β) : Fmt (α × β) where
  ser x :=
    match a.ser x.1, b.ser x.2 with
    | some p, some q => some (p ++ q)
    | _, _ => none
  par s :=
    match a.par s with
    | none => none
    | some (x, r) =>
      match b.par r with
      | none => none
      | some (y, r') => some ((x, y), r')

/-- decoder-side check on the decoded value (`len(x) == 0 → return false`). The encoder does not check. -/
def guard {α} (p : α → Bool) (c : Fmt α) : Fmt α where
  ser := c.ser
  par s :=
    match c.par s with
    | none => none
    | some (a, r) => if p a then some (a, r) else none

/-- decoder-side check that at least `n` bytes are left before the item is read. -/
def minLen {α} (n : Nat) (c : Fmt α) : Fmt α where
  ser := c.ser
  par s := if s.length < n then none else c.par s

/-- change of representation -/
def iso {α β} (f : α → β) (g : β → α) (c : Fmt α) : Fmt β where
  ser b := c.ser (g b)
  par s :=
    match c.par s with
    | none => none
    | some (a, r) => some (f a, r)

/-- a sub-structure inside a `k`-byte length prefix; the inner format must use up the region. -/
def lp {α} (k : Nat) (m : MFmt α) : Fmt α where
  ser a :=
    match m.ser a with
    | none => none
    | some b => if b.length < 256 ^ k then some (natBE k b.length ++ b) else none
  par s :=
    match (opq k).par s with
    | none => none
    | some (body, r) =>
      match m.par body with
      | none => none
      | some a => some (a, r)

/-! ### whole-buffer formats -/

/-- the rest of the buffer as it is (`m.key = data[4:]`). -/
def restB : MFmt Bytes where
  ser b := some b
  par s := some s

/-- streaming format followed by `s.Empty()`. -/
def complete {α} (c : Fmt α) : MFmt α where
  ser := c.ser
  par s :=
    match c.par s with
    | some (a, []) => some a
    | _ => none

def serMany {α} (ser : α → Option Bytes) : List α → Option Bytes
  | [] => some []
  | a :: l =>
    match ser a, serMany ser l with
    | some p, some q => some (p ++ q)
    | _, _ => none

/-- `for !s.Empty() { item }`.  The progress test `r.length < s.length` is what makes the definition
    terminate; every item format used consumes at least one byte, so it never fires. -/
def parMany {α} (par : Bytes → Option (α × Bytes)) (s : Bytes) : Option (List α) :=
  match s with
  | [] => some []
  | b :: t =>
    match par (b :: t) with
    | none => none
    | some (a, r) =>
      if _h : r.length < (b :: t).length then
        match parMany par r with
        | none => none
        | some l => some (a :: l)
      else none
termination_by s.length

def many {α} (c : Fmt α) : MFmt (List α) where
  ser := serMany c.ser
  par := parMany c.par

def mguard {α} (p : α → Bool) (m : MFmt α) : MFmt α where
  ser := m.ser
  par s :=
    match m.par s with
    | none => none
    | some a => if p a then some a else none

def miso {α β} (f : α → β) (g : β → α) (m : MFmt α) : MFmt β where
  ser b := m.ser (g b)
  par s := (m.par s).map f

/-- streaming head, then — only when bytes are left — a whole-buffer tail
    (`if s.Empty() { return true }` before the extension block of the hello messages). -/
def optTail {α β} (c : Fmt α) (t : MFmt β) : MFmt (α × Option β) where
  ser x :=
    match c.ser x.1 with
    | none => none
    | some p =>
      match x.2 with
      | none => some p
      | some y =>
        match t.ser y with
        | none => none
        | some q => some (p ++ q)
  par s :=
    match c.par s with
    | none => none
    | some (a, []) => some (a, none)
    | some (a, b :: r) =>
      match t.par (b :: r) with
      | none => none
      | some y => some (a, some y)

/-- handshake header written as `typ ‖ uint24 length`, skipped unread by the decoder (`s.Skip(4)`);
    `cryptobyte` refuses bodies of 2^24 bytes or more. -/
def hdrSkip {α} (typ : Nat) (m : MFmt α) : MFmt α where
  ser a :=
    match m.ser a with
    | none => none
    | some b => if b.length < 256 ^ 3 then some (UInt8.ofNat typ :: natBE 3 b.length ++ b) else none
  par s := if s.length < 4 then none else m.par (s.drop 4)

/-- handshake header of the hand-rolled encoders: the length bytes are truncated (`uint8(length >> 16)`),
    the decoder does not look at the header beyond requiring 4 bytes. -/
def hdrSkipT {α} (typ : Nat) (m : MFmt α) : MFmt α where
  ser a :=
    match m.ser a with
    | none => none
    | some b => some (UInt8.ofNat typ :: natBE 3 b.length ++ b)
  par s := if s.length < 4 then none else m.par (s.drop 4)

/-- hand-rolled header whose length field the decoder compares with `len(data) - 4`. -/
def hdrChecked {α} (typ : Nat) (m : MFmt α) : MFmt α where
  ser a :=
    match m.ser a with
    | none => none
    | some b => some (UInt8.ofNat typ :: natBE 3 b.length ++ b)
  par s :=
    if s.length < 4 then none
    else if beNat ((s.drop 1).take 3) ≠ s.length - 4 then none
    else m.par (s.drop 4)

/-- all strict prefixes of `bs` accepted by `par`, by length (the truncation probe of C30). -/
def acceptedPrefixes {α} (par : Bytes → Option α) (bs : Bytes) : List Nat :=
  (List.range bs.length).filter (fun n => (par (bs.take n)).isSome)

end ZV.TlsWire
