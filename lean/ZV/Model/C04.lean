import ZV.Model.C06
/-!
  Model of `x509/x509.go: buildExtensions` (the ten builders in their fixed order, each suppressed when
  `ExtraExtensions` already carries its OID, then `ExtraExtensions` appended) with the value encoders of
  `encoding/asn1/marshal.go` that the simple payloads need, and of the matching arms of
  `parseCertificate`'s extension loop.

  Name constraints are carried as an opaque pre-encoded value (position and critical flag are modelled,
  the payload is not).  OIDs are lists of arcs on the template side and content octets on the wire.
-/
namespace ZV.C04
open ZV ZV.Der ZV.C06

/-! ### value encoders (`marshal.go`) -/

def tlv (t : UInt8) (body : Bytes) : Bytes := writeTLV t body

/-- `n` big-endian bytes of `v` -/
def beBytes : Nat → Nat → Bytes
  | 0, _ => []
  | n + 1, v => UInt8.ofNat (v / 256 ^ n % 256) :: beBytes n v

/-- `int64Encoder.Len`: minimal two's-complement length -/
def intLen : Nat → Int → Nat
  | 0, _ => 1
  | f + 1, i => if -128 ≤ i ∧ i ≤ 127 then 1 else 1 + intLen f (Int.fdiv i 256)

/-- INTEGER contents of a (64-bit) int -/
def encInt (i : Int) : Bytes :=
  let l := intLen 8 i
  beBytes l (if i < 0 then (i + (256 : Int) ^ l).toNat else i.toNat)

def encOIDs : List (List Nat) → Option Bytes
  | [] => some []
  | o :: os =>
    match encOID o, encOIDs os with
    | some b, some r => some (tlv 0x06 b ++ r)
    | _, _ => none

/-- `reverseBitsInAByte` -/
def reverseBits (b : Nat) : Nat :=
  (b / 128 % 2) + 2 * (b / 64 % 2) + 4 * (b / 32 % 2) + 8 * (b / 16 % 2) + 16 * (b / 8 % 2) + 32 * (b / 4 % 2)
    + 64 * (b / 2 % 2) + 128 * (b % 2)

/-- number of trailing zero bits of a byte (8 for zero) -/
def trailingZeros (b : Nat) : Nat :=
  if b % 2 = 1 then 0 else if b / 2 % 2 = 1 then 1 else if b / 4 % 2 = 1 then 2 else if b / 8 % 2 = 1 then 3
  else if b / 16 % 2 = 1 then 4 else if b / 32 % 2 = 1 then 5 else if b / 64 % 2 = 1 then 6
  else if b / 128 % 2 = 1 then 7 else 8

/-- `asn1BitLength` of one or two bytes -/
def bitLength : List Nat → Nat
  | [a] => 8 - trailingZeros a
  | [a, b] => if b = 0 then 8 - trailingZeros a else 16 - trailingZeros b
  | _ => 0

/-- KeyUsage extension value: BIT STRING with trailing zero bits trimmed (only the low 16 bits of the int are looked at). -/
def buildKeyUsage (ku : Nat) : Bytes :=
  let a0 := reverseBits (ku % 256)
  let a1 := reverseBits (ku / 256 % 256)
  let bytes := if a1 ≠ 0 then [a0, a1] else [a0]
  let bl := bitLength bytes
  tlv 0x03 (UInt8.ofNat ((8 - bl % 8) % 8) :: bytes.map UInt8.ofNat)

/-- BasicConstraints value; `MaxPathLen == 0 && !MaxPathLenZero` ⇒ -1 ⇒ omitted (`optional,default:-1`);
    `IsCA == false` omitted (`optional`). -/
def effectiveMaxPathLen (mpl : Int) (zero : Bool) : Int := if mpl = 0 ∧ !zero then -1 else mpl

def buildBasicConstraints (isCA : Bool) (mpl : Int) (zero : Bool) : Bytes :=
  let m := effectiveMaxPathLen mpl zero
  tlv 0x30 ((if isCA then tlv 0x01 [0xff] else []) ++ (if m = -1 then [] else tlv 0x02 (encInt m)))

def buildSKI (id : Bytes) : Bytes := tlv 0x04 id
def buildAKI (id : Bytes) : Bytes := tlv 0x30 (tlv 0x80 id)

def oidOcsp : List Nat := [1, 3, 6, 1, 5, 5, 7, 48, 1]
def oidIssuers : List Nat := [1, 3, 6, 1, 5, 5, 7, 48, 2]

def aiaEntry (method : List Nat) (url : Bytes) : Option Bytes :=
  match encOID method with
  | some m => some (tlv 0x30 (tlv 0x06 m ++ tlv 0x86 url))
  | none => none

def buildAIA (ocsp issuing : List Bytes) : Option Bytes :=
  match (ocsp.map (aiaEntry oidOcsp) ++ issuing.map (aiaEntry oidIssuers)).mapM id with
  | some es => some (tlv 0x30 es.flatten)
  | none => none

/-- `net.IP.To4`: 4 bytes stay; 16 bytes with the v4-in-v6 prefix become the last 4; otherwise unchanged. -/
def to4 (ip : Bytes) : Bytes :=
  if ip.length = 16 ∧ ip.take 12 = [0, 0, 0, 0, 0, 0, 0, 0, 0, 0, 0xff, 0xff] then ip.drop 12 else ip

def buildSAN (dns email ips : List Bytes) : Bytes :=
  tlv 0x30 ((dns.map (tlv 0x82)).flatten ++ (email.map (tlv 0x81)).flatten ++ (ips.map (fun ip => tlv 0x87 (to4 ip))).flatten)

def buildPolicies (ps : List (List Nat)) : Option Bytes :=
  match (ps.map (fun p => (encOID p).map (fun b => tlv 0x30 (tlv 0x06 b)))).mapM id with
  | some es => some (tlv 0x30 es.flatten)
  | none => none

def buildCRLDP (urls : List Bytes) : Bytes :=
  tlv 0x30 ((urls.map (fun u => tlv 0x30 (tlv 0xA0 (tlv 0xA0 (tlv 0x86 u))))).flatten)

/-! ### buildExtensions -/

structure Ext where
  oid : List Nat
  critical : Bool
  value : Bytes
  deriving Repr, DecidableEq

structure Tmpl where
  keyUsage : Nat
  eku : List Nat                      -- ExtKeyUsage constants
  unknownEku : List (List Nat)
  bcValid : Bool
  isCA : Bool
  maxPathLen : Int
  maxPathLenZero : Bool
  ski : Bytes
  aki : Bytes
  ocsp : List Bytes
  issuing : List Bytes
  dns : List Bytes
  email : List Bytes
  ips : List Bytes
  policies : List (List Nat)
  nc : Option (Bool × Bytes)          -- name constraints: (critical, opaque value); none = no name constraint given
  crldp : List Bytes
  extra : List Ext
  deriving Repr

def oidKU : List Nat := [2, 5, 29, 15]
def oidEKU : List Nat := [2, 5, 29, 37]
def oidBC : List Nat := [2, 5, 29, 19]
def oidSKI : List Nat := [2, 5, 29, 14]
def oidAKI : List Nat := [2, 5, 29, 35]
def oidAIA : List Nat := [1, 3, 6, 1, 5, 5, 7, 1, 1]
def oidSAN : List Nat := [2, 5, 29, 17]
def oidPolicies : List Nat := [2, 5, 29, 32]
def oidNC : List Nat := [2, 5, 29, 30]
def oidCRLDP : List Nat := [2, 5, 29, 31]

/-- `oidInExtensions` -/
def inExtra (oid : List Nat) (extra : List Ext) : Bool := extra.any (fun e => e.oid == oid)

/-- one optional generated extension: present iff `cond` and not overridden -/
def gen (cond : Bool) (oid : List Nat) (critical : Bool) (value : Option Bytes) (extra : List Ext) : Res (List Ext) :=
  if cond && !inExtra oid extra then
    match value with
    | some v => .ok [⟨oid, critical, v⟩]
    | none => .err
  else .ok []

def catRes : List (Res (List Ext)) → Res (List Ext)
  | [] => .ok []
  | r :: rs =>
    match r with
    | .ok a =>
      (match catRes rs with
       | .ok b => .ok (a ++ b)
       | .err => .err
       | .panic => .panic)
    | .err => .err
    | .panic => .panic

/-- `buildExtensions`.  `nativeEku` is the table `nativeExtKeyUsageOIDs` (T1-generated): an `ExtKeyUsage`
    outside it makes the Go code `panic("internal error")`. -/
def buildExtensions (nativeEku : List (Nat × List Nat)) (t : Tmpl) : Res (List Ext) :=
  let ekuOids : Option (List (List Nat)) := t.eku.mapM (fun u => (nativeEku.find? (fun p => p.1 == u)).map (·.2))
  if (!t.eku.isEmpty || !t.unknownEku.isEmpty) && !inExtra oidEKU t.extra && ekuOids.isNone then .panic
  else
    match catRes [
      gen (t.keyUsage ≠ 0) oidKU true (some (buildKeyUsage t.keyUsage)) t.extra,
      gen (!t.eku.isEmpty || !t.unknownEku.isEmpty) oidEKU false
        (match ekuOids with
         | some os => (encOIDs (os ++ t.unknownEku)).map (tlv 0x30)
         | none => none) t.extra,
      gen t.bcValid oidBC true (some (buildBasicConstraints t.isCA t.maxPathLen t.maxPathLenZero)) t.extra,
      gen (!t.ski.isEmpty) oidSKI false (some (buildSKI t.ski)) t.extra,
      gen (!t.aki.isEmpty) oidAKI false (some (buildAKI t.aki)) t.extra,
      gen (!t.ocsp.isEmpty || !t.issuing.isEmpty) oidAIA false (buildAIA t.ocsp t.issuing) t.extra,
      gen (!t.dns.isEmpty || !t.email.isEmpty || !t.ips.isEmpty) oidSAN false (some (buildSAN t.dns t.email t.ips)) t.extra,
      gen (!t.policies.isEmpty) oidPolicies false (buildPolicies t.policies) t.extra,
      gen t.nc.isSome oidNC (match t.nc with | some (c, _) => c | none => false)
        (match t.nc with | some (_, v) => some v | none => none) t.extra,
      gen (!t.crldp.isEmpty) oidCRLDP false (some (buildCRLDP t.crldp)) t.extra ] with
    | .ok gens => .ok (gens ++ t.extra)
    | .err => .err
    | .panic => .panic

/-! ### the matching arms of `parseCertificate` -/

/-- `asn1.Unmarshal(value, &x)` front end: first element of `value` (what follows is returned as `rest` and ignored). -/
def first (w : Want) (value : Bytes) : Res Elem :=
  match someElem (field w false value) with
  | .ok (e, _) => .ok e
  | .err => .err
  | .panic => .panic

/-- `BitString.At(i)` -/
def bitAt (padding : Nat) (data : Bytes) (i : Nat) : Bool :=
  if i ≥ data.length * 8 - padding then false
  else
    match data[i / 8]? with
    | some b => b.toNat / 2 ^ (7 - i % 8) % 2 = 1
    | none => false

/-- case 15: nine usage bits -/
def parseKeyUsage (value : Bytes) : Res Nat :=
  match first (.univ 3 false) value with
  | .ok e =>
    (match parseBitString e.body with
     | .ok (p, data) => .ok ((List.range 9).foldl (fun acc i => if bitAt p data i then acc + 2 ^ i else acc) 0)
     | .err => .err
     | .panic => .panic)
  | .err => .err
  | .panic => .panic

/-- case 19: (IsCA, MaxPathLen) -/
def parseBasicConstraints (value : Bytes) : Res (Bool × Int) :=
  match first (.univ 16 true) value with
  | .ok e =>
    (field (.univ 1 false) true e.body).bind fun ca =>
    (match ca.1 with | none => Res.ok false | some b => parseBool b.body).bind fun isCA =>
    (field (.univ 2 false) true ca.2).bind fun m =>
    (match m.1 with | none => Res.ok (-1 : Int) | some i => parseInt64 i.body).bind fun mpl =>
    .ok (isCA, mpl)
  | .err => .err
  | .panic => .panic

/-- case 14 -/
def parseSKI (value : Bytes) : Res Bytes := (first (.univ 4 false) value).map (·.body)

/-- case 35: `authKeyId{Id []byte optional,tag:0}` -/
def parseAKI (value : Bytes) : Res Bytes :=
  match first (.univ 16 true) value with
  | .ok e =>
    (field (.ctx 0 false) true e.body).bind fun r =>
      match r.1 with
      | none => .ok []
      | some i => .ok i.body
  | .err => .err
  | .panic => .panic

/-- `parseSequenceOf` for a homogeneous primitive/constructed universal element type, then a per-element decoder -/
def seqOf (tag : Nat) (compound : Bool) (value : Bytes) : Res (List Elem) :=
  match first (.univ 16 true) value with
  | .ok e =>
    (match readElems e.body with
     | .ok es => if es.all (fun x => x.hdr.cls == 0 && x.hdr.tag == tag && x.hdr.compound == compound) then .ok es else .err
     | .err => .err
     | .panic => .panic)
  | .err => .err
  | .panic => .panic

/-- case 37: list of OID contents -/
def parseEKU (value : Bytes) : Res (List Bytes) :=
  match seqOf 6 false value with
  | .ok es => if es.all (fun x => validOID x.body) then .ok (es.map (·.body)) else .err
  | .err => .err
  | .panic => .panic

structure SAN where
  dns : List Bytes
  email : List Bytes
  uris : List Bytes
  ips : List Bytes
  deriving Repr, DecidableEq

/-- `parseGeneralNames` over the name forms the builder emits (tags 1, 2, 6, 7; the switch looks at the tag
    number only).  Tags 0, 4, 5, 8 need structured decoders that are not modelled: `err`. -/
def parseGeneralNameList : List Elem → SAN → Res SAN
  | [], acc => .ok acc
  | e :: es, acc =>
    if e.hdr.tag = 1 then parseGeneralNameList es { acc with email := acc.email ++ [e.body] }
    else if e.hdr.tag = 2 then parseGeneralNameList es { acc with dns := acc.dns ++ [e.body] }
    else if e.hdr.tag = 6 then parseGeneralNameList es { acc with uris := acc.uris ++ [e.body] }
    else if e.hdr.tag = 7 then
      (if e.body.length = 4 ∨ e.body.length = 16 then parseGeneralNameList es { acc with ips := acc.ips ++ [e.body] } else .err)
    else if e.hdr.tag = 0 ∨ e.hdr.tag = 4 ∨ e.hdr.tag = 5 ∨ e.hdr.tag = 8 then .err
    else parseGeneralNameList es acc

def parseSAN (value : Bytes) : Res SAN :=
  match first .any value with
  | .ok e =>
    if !(e.hdr.compound && e.hdr.tag == 16 && e.hdr.cls == 0) then .err
    else
      (match readElems e.body with
       | .ok es => parseGeneralNameList es ⟨[], [], [], []⟩
       | .err => .err
       | .panic => .panic)
  | .err => .err
  | .panic => .panic

/-- AIA: (method OID contents, location tag, location bytes) per entry -/
def parseAIAEntry (e : Elem) : Res (Bytes × Nat × Bytes) :=
  (someElem (field (.univ 6 false) false e.body)).bind fun m =>
  if !validOID m.1.body then .err else
  (someElem (field .any false m.2)).bind fun l =>
  .ok (m.1.body, l.1.hdr.tag, l.1.body)

def mapRes {α β} (f : α → Res β) : List α → Res (List β)
  | [] => .ok []
  | a :: as =>
    match f a with
    | .ok b =>
      (match mapRes f as with
       | .ok bs => .ok (b :: bs)
       | .err => .err
       | .panic => .panic)
    | .err => .err
    | .panic => .panic

/-- (OCSPServer, IssuingCertificateURL) -/
def parseAIA (value : Bytes) : Res (List Bytes × List Bytes) :=
  match seqOf 16 true value with
  | .ok es =>
    (match mapRes parseAIAEntry es with
     | .ok ents =>
       .ok ((ents.filter (fun x => x.2.1 == 6 && some x.1 == encOID oidOcsp)).map (·.2.2),
            (ents.filter (fun x => x.2.1 == 6 && some x.1 == encOID oidIssuers)).map (·.2.2))
     | .err => .err
     | .panic => .panic)
  | .err => .err
  | .panic => .panic

/-- case 32: policy identifiers (OID contents); qualifiers are not modelled (the builder emits none) -/
def parsePolicies (value : Bytes) : Res (List Bytes) :=
  match seqOf 16 true value with
  | .ok es =>
    mapRes (fun e => (someElem (field (.univ 6 false) false e.body)).bind fun p =>
      if !validOID p.1.body then .err else .ok p.1.body) es
  | .err => .err
  | .panic => .panic

/-- case 31: for each distribution point with a `[0] { [0] fullName }`, the `[6]` names inside -/
def parseDP (e : Elem) : Res (List Bytes) :=
  (field (.ctx 0 true) true e.body).bind fun dpn =>
    match dpn.1 with
    | none => .ok []
    | some d =>
      (field (.ctxAny 0) true d.body).bind fun fn =>
        match fn.1 with
        | none => .ok []
        | some f =>
          (match readElems f.body with
           | .ok ns => .ok ((ns.filter (fun n => n.hdr.tag == 6)).map (·.body))
           | .err => .err
           | .panic => .panic)

def parseCRLDP (value : Bytes) : Res (List Bytes) :=
  match seqOf 16 true value with
  | .ok es => (mapRes parseDP es).map List.flatten
  | .err => .err
  | .panic => .panic

/-- the fields of `Certificate` the modelled arms fill -/
structure Fields where
  keyUsage : Nat := 0
  ekuOids : List Bytes := []
  bcValid : Bool := false
  isCA : Bool := false
  maxPathLen : Int := 0
  maxPathLenZero : Bool := false
  ski : Bytes := []
  aki : Bytes := []
  san : SAN := ⟨[], [], [], []⟩
  ocsp : List Bytes := []
  issuing : List Bytes := []
  crldp : List Bytes := []
  policies : List Bytes := []
  deriving Repr, DecidableEq

/-- one iteration of the extension loop of `parseCertificate` for the modelled OIDs (strict mode:
    a malformed SKI/AKI/EKU/SAN/AIA/CRLDP/policies value is a parse error, a malformed KeyUsage or
    BasicConstraints value is silently skipped). -/
def applyExt (f : Fields) (x : Ext) : Res Fields :=
  if x.oid = oidKU then
    (match parseKeyUsage x.value with | .ok ku => .ok { f with keyUsage := ku } | _ => .ok f)
  else if x.oid = oidBC then
    (match parseBasicConstraints x.value with
     | .ok (ca, m) => .ok { f with bcValid := true, isCA := ca, maxPathLen := m, maxPathLenZero := m == 0 }
     | _ => .ok f)
  else if x.oid = oidSAN then
    (parseSAN x.value).bind fun s => .ok { f with san := s }
  else if x.oid = oidCRLDP then
    (parseCRLDP x.value).bind fun l => .ok { f with crldp := f.crldp ++ l }
  else if x.oid = oidAKI then
    (parseAKI x.value).bind fun a => .ok { f with aki := a }
  else if x.oid = oidEKU then
    (parseEKU x.value).bind fun l => .ok { f with ekuOids := f.ekuOids ++ l }
  else if x.oid = oidSKI then
    (parseSKI x.value).bind fun s => .ok { f with ski := s }
  else if x.oid = oidPolicies then
    (parsePolicies x.value).bind fun p => .ok { f with policies := p }
  else if x.oid = oidAIA then
    (parseAIA x.value).bind fun a => .ok { f with ocsp := f.ocsp ++ a.1, issuing := f.issuing ++ a.2 }
  else .ok f

def applyExts : Fields → List Ext → Res Fields
  | f, [] => .ok f
  | f, x :: xs =>
    match applyExt f x with
    | .ok f' => applyExts f' xs
    | .err => .err
    | .panic => .panic

end ZV.C04
