import ZV.Model.C18
import ZV.Model.C18Time
/-!
  C18, extended embedding: a Go struct whose fields are `time.Time` values or values of any type of the old deep
  embedding (`ZV.C18.Schema`, itself arbitrarily nested).  `ZV.Model.C18` and `ZV.Model.C18Time` are imported
  unchanged; this file only adds the struct arm of `makeField` / `makeBody` / `parseField` over the extended field
  list, delegating each field to `makeField` / `parseField` (old schema) or `makeTimeField` / `parseTimeField`
  (time leaf).  Header matching of the struct itself is the old `parsePre` (it looks at the Go type only through
  `getUniversalType`, which is (false, SEQUENCE, constructed) for every struct).
-/
namespace ZV.C18.Ext
open ZV ZV.C18 ZV.Time

/-- the Go type of one struct field: a type of the old embedding, or `time.Time` -/
inductive XField where
  | base (s : Schema)
  | time
  deriving Repr, Inhabited

/-- the value of one struct field -/
inductive XV where
  | base (v : Val)
  | time (t : GoTime)
  deriving Repr, Inhabited, DecidableEq

abbrev XFields := List (Params × XField)

/-- the Go zero value of a field -/
def zeroX : XField → XV
  | .base s => .base (zeroVal s)
  | .time => .time TimeField.zeroTime

def zeroXs (fs : XFields) : List XV := fs.map (fun f => zeroX f.2)

/-- `makeField` of one struct field -/
def makeXField : XField → Params → XV → Res Bytes
  | .base s, p, .base v => makeField s p v
  | .time, p, .time t => TimeField.makeTimeField p t
  | _, _, _ => .err

/-- struct arm of `makeBody` over the extended field list -/
def makeXFields : XFields → List XV → Res Bytes
  | [], [] => .ok []
  | (p, f) :: fs, v :: vs =>
    (match makeXField f p v with
     | .ok b =>
       (match makeXFields fs vs with
        | .ok bs => .ok (b ++ bs)
        | .err => .err
        | .panic => .panic)
     | .err => .err
     | .panic => .panic)
  | _, _ => .err

/-- the early return of `makeField` for the struct itself (OPTIONAL without default holding the zero value;
    `omitempty` and `default:` concern slices / integer kinds only) -/
def omittedXS (fs : XFields) (p : Params) (vs : List XV) : Bool :=
  p.optional && p.defaultValue.isNone && vs == zeroXs fs

/-- `makeField` for a struct with time fields (`MarshalWithParams(v, params)`) -/
def makeXStruct (fs : XFields) (p : Params) (vs : List XV) : Res Bytes :=
  if omittedXS fs p vs then .ok []
  else if p.timeType ≠ 0 then .err
  else if p.stringType ≠ 0 then .err
  else match makeXFields fs vs with
    | .ok body => .ok (wrap p (if p.set then 17 else 16) true body)
    | .err => .err
    | .panic => .panic

/-- `parseField` of one struct field -/
def parseXField (perm : Bool) : XField → Params → Bytes → Res (XV × Bytes)
  | .base s, p, bs =>
    (match parseField perm s p bs with
     | .ok (v, r) => .ok (.base v, r)
     | .err => .err
     | .panic => .panic)
  | .time, p, bs =>
    (match TimeField.parseTimeField perm p bs with
     | .ok (t, r) => .ok (.time t, r)
     | .err => .err
     | .panic => .panic)

/-- the field loop of the struct arm -/
def parseXFields (perm : Bool) : XFields → Bytes → Res (List XV × Bytes)
  | [], bs => .ok ([], bs)
  | (p, f) :: fs, bs =>
    match parseXField perm f p bs with
    | .ok (v, r) =>
      (match parseXFields perm fs r with
       | .ok (vs, r') => .ok (v :: vs, r')
       | .err => .err
       | .panic => .panic)
    | .err => .err
    | .panic => .panic

/-- `setDefaultValue` + "ok ⇒ offset = initOffset, else error" for the struct itself -/
def dfltXS (fs : XFields) (p : Params) (bs : Bytes) : Res (List XV × Bytes) :=
  if p.optional then .ok (zeroXs fs, bs) else .err

/-- the Go type seen by `parsePre`: any struct -/
def anyStruct : Schema := .struct .fnil

/-- `parseField` for a struct with time fields (`UnmarshalWithParams(der, &v, params)`) -/
def parseXStruct (perm : Bool) (fs : XFields) (p : Params) (bs : Bytes) : Res (List XV × Bytes) :=
  if bs.isEmpty then dfltXS fs p bs
  else match parsePre perm anyStruct p bs with
    | .err => .err
    | .dflt => dfltXS fs p bs
    | .flag _ => .err                          -- unreachable: a struct is not `Flag`
    | .go _ _ inner rest =>
      match parseXFields perm fs inner with
      | .ok (vs, _) => .ok (vs, rest)
      | .err => .err
      | .panic => .panic

end ZV.C18.Ext
