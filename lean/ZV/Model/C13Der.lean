import ZV.Model.C13
import ZV.Model.C18
import ZV.Model.C18Dom
/-!
  The ASN.1 leg of `x509/revocation/ocsp/ocsp.go`: the Go struct types the package hands to
  `encoding/asn1` (`ocspRequest`, `responseASN1`, `basicResponse`, `responseData`, `singleResponse`, …) as SCHEMA
  TERMS of the deep-embedded model of `encoding/asn1` (`ZV.Model.C18`, unchanged), field for field with the
  parameters of the struct tags, plus the glue around the calls: `Request.Marshal`, `ParseRequest`, and the two
  `asn1.Unmarshal` calls of `ParseResponseForCert` with the read-out of the decoded fields.

  Outside the type language of `ZV.Model.C18`, and what is done about it:
  * `asn1.RawContent` (first field of `responseData`): the decoder skips that field and stores the element's bytes in
    it; the schema drops the field, `decodeBasic` recovers the bytes by decoding `basicResponse` a second time with a
    RawValue in place of `responseData` (`basicResponseRawS`);
  * `time.Time` (`ProducedAt`, `ThisUpdate`, `NextUpdate`, `RevocationTime`): kept as RAW ELEMENTS (`.raw`) in the
    schema terms; `parseTime` (a model of `parseUTCTime` / `parseGeneralizedTime` = `time.Parse` + "serialises back to the
    same string", tied to the code by the T2 stream `c13 time`) is applied afterwards.  For a BARE time field this is
    EXACT: a RawValue accepts any element, the checks the `time.Time` arm makes (universal class, tag 23 / 24,
    primitive, content) are made by `timeOfRaw`, and a mismatch is an error in both because none of the bare time
    fields is OPTIONAL.  For `NextUpdate` (`explicit,tag:0,optional`) it is NOT: the Go decoder looks INSIDE the [0]
    wrapper before it decides (inner element not a time ⇒ "absent", and it continues after the INNER element, ignoring
    the wrapper's length), a RawValue does not.  So the decoder that is tied to the code (`decodeSingle`) takes the
    elements of `Responses` as RawValues, checks their identifier as `parseSequenceOf` does, runs the C18 field loop on
    the fields in front of `NextUpdate` (`singlePrefixF`), then `parseNext` — the `time.Time` arm of `parseField` for that
    field, built from the C18 stages `parseTL` / `explicitStage` —, then the C18 field loop on what follows
    (`singleSuffixF`).  `singleResponseS` is the same struct as ONE schema term with the [0] element kept raw; `nextOfRaw`
    says when the two readings agree (the wrapper holds exactly one primitive universal element with tag 23 / 24);
  * `interface{}` (`pkix.AttributeTypeAndValue.Value` inside `tbsRequest.RequestorName`): a RawValue (accepts
    whatever ANY accepts).  `Request.Marshal` never writes the field.
-/
namespace ZV.C13

open ZV.C18 (Schema Val Params)

/-! ## schema terms (struct tags as in ocsp.go / pkix.go) -/

/-- `pkix.AlgorithmIdentifier{Algorithm ObjectIdentifier; Parameters RawValue "optional"}` -/
def algIdS : Schema := .struct (.fcons {} .oid (.fcons { optional := true } .raw .fnil))

/-- `certID{HashAlgorithm; NameHash []byte; IssuerKeyHash []byte; SerialNumber *big.Int}` -/
def certIDS : Schema := .struct (.fcons {} algIdS (.fcons {} .octets (.fcons {} .octets (.fcons {} .bigint .fnil))))

/-- `request{Cert certID}` -/
def requestS : Schema := .struct (.fcons {} certIDS .fnil)

/-- `pkix.RDNSequence` with ANY as RawValue -/
def rdnSeqRawS : Schema := .seqOf false (.seqOf true (.struct (.fcons {} .oid (.fcons {} .raw .fnil))))

/-- `tbsRequest{Version int "explicit,tag:0,default:0,optional"; RequestorName pkix.RDNSequence "explicit,tag:1,optional";
    RequestList []request}` -/
def tbsRequestS : Schema :=
  .struct (.fcons { explicit := true, tag := some 0, defaultValue := some 0, optional := true } .int64
    (.fcons { explicit := true, tag := some 1, optional := true } rdnSeqRawS
    (.fcons {} (.seqOf false requestS) .fnil)))

/-- `ocspRequest{TBSRequest tbsRequest}` -/
def ocspRequestS : Schema := .struct (.fcons {} tbsRequestS .fnil)

/-- `responseBytes{ResponseType ObjectIdentifier; Response []byte}` -/
def responseBytesS : Schema := .struct (.fcons {} .oid (.fcons {} .octets .fnil))

/-- `responseASN1{Status Enumerated; Response responseBytes "explicit,tag:0,optional"}` -/
def responseASN1S : Schema :=
  .struct (.fcons {} .enum (.fcons { explicit := true, tag := some 0, optional := true } responseBytesS .fnil))

/-- `revokedInfo{RevocationTime time.Time "generalized"; Reason Enumerated "explicit,tag:0,optional"}` (time as raw) -/
def revokedInfoS : Schema :=
  .struct (.fcons {} .raw (.fcons { explicit := true, tag := some 0, optional := true } .enum .fnil))

/-- `pkix.Extension{Id ObjectIdentifier; Critical bool "optional"; Value []byte}` -/
def extensionS : Schema := .struct (.fcons {} .oid (.fcons { optional := true } .bool (.fcons {} .octets .fnil)))

/-- parameters of `NextUpdate` as far as a RawValue field sees them (`generalized` only matters for a `time.Time`) -/
abbrev nextRawP : Params := { explicit := true, tag := some 0, optional := true }

/-- `singleResponse{CertID; Good Flag "tag:0,optional"; Revoked revokedInfo "tag:1,optional"; Unknown Flag "tag:2,optional";
    ThisUpdate time.Time "generalized"; NextUpdate time.Time "generalized,explicit,tag:0,optional";
    SingleExtensions []pkix.Extension "explicit,tag:1,optional"}` (times as raw) -/
def singleResponseS : Schema :=
  .struct (.fcons {} certIDS
    (.fcons { tag := some 0, optional := true } .flag
    (.fcons { tag := some 1, optional := true } revokedInfoS
    (.fcons { tag := some 2, optional := true } .flag
    (.fcons {} .raw
    (.fcons nextRawP .raw
    (.fcons { explicit := true, tag := some 1, optional := true } (.seqOf false extensionS) .fnil)))))))

/-- `responseData{Raw RawContent; Version int "optional,default:0,explicit,tag:0"; RawResponderID RawValue;
    ProducedAt time.Time "generalized"; Responses []T}` (RawContent dropped, time as raw) over the element type of `Responses` -/
def responseDataOver (e : Schema) : Schema :=
  .struct (.fcons { optional := true, defaultValue := some 0, explicit := true, tag := some 0 } .int64
    (.fcons {} .raw (.fcons {} .raw (.fcons {} (.seqOf false e) .fnil))))

/-- `responseData` -/
def responseDataS : Schema := responseDataOver singleResponseS

/-- `basicResponse{TBSResponseData T; SignatureAlgorithm pkix.AlgorithmIdentifier; Signature BitString;
    Certificates []RawValue "explicit,tag:0,optional"}` over the type of the first field -/
def basicOver (first : Schema) : Schema :=
  .struct (.fcons {} first (.fcons {} algIdS (.fcons {} .bits
    (.fcons { explicit := true, tag := some 0, optional := true } (.seqOf false .raw) .fnil))))

/-- `basicResponse` -/
def basicResponseS : Schema := basicOver responseDataS

/-- `basicResponse` with the first field kept raw: `.full` of that RawValue is `TBSResponseData.Raw` -/
def basicResponseRawS : Schema := basicOver .raw

/-! ## requests -/

/-- `ocsp.Request` (`HashAlgorithm` as the crypto.Hash number: 3 SHA-1, 5 SHA-256, 6 SHA-384, 7 SHA-512) -/
structure Req where
  hash : Nat
  nameHash : Bytes
  keyHash : Bytes
  serial : Int
  deriving Repr, DecidableEq

/-- `hashOIDs` -/
def hashOID (h : Nat) : Option (List Int) :=
  if h = 3 then some [1, 3, 14, 3, 2, 26]
  else if h = 5 then some [2, 16, 840, 1, 101, 3, 4, 2, 1]
  else if h = 6 then some [2, 16, 840, 1, 101, 3, 4, 2, 2]
  else if h = 7 then some [2, 16, 840, 1, 101, 3, 4, 2, 3]
  else none

/-- `getHashAlgorithmFromOID` (0 = unknown) -/
def hashOfOID (o : List Int) : Nat :=
  if o = [1, 3, 14, 3, 2, 26] then 3
  else if o = [2, 16, 840, 1, 101, 3, 4, 2, 1] then 5
  else if o = [2, 16, 840, 1, 101, 3, 4, 2, 2] then 6
  else if o = [2, 16, 840, 1, 101, 3, 4, 2, 3] then 7
  else 0

/-- the `certID` value; `full` = `Parameters.FullBytes` (`Request.Marshal` leaves it empty: `RawValue{Tag: 5}`) -/
def certIDVal (oid : List Int) (full : Bytes) (r : Req) : Val :=
  .vcons (.vcons (.oid oid) (.vcons (.raw 0 5 false [] full) .vnil))
    (.vcons (.bytes r.nameHash) (.vcons (.bytes r.keyHash) (.vcons (.int r.serial) .vnil)))

/-- the `ocspRequest{tbsRequest{Version: 0, RequestList: []request{{Cert: …}}}}` value -/
def reqVal (oid : List Int) (full : Bytes) (r : Req) : Val :=
  .vcons (.vcons (.int 0) (.vcons .null (.vcons (.vcons (.vcons (certIDVal oid full r) .vnil) .vnil) .vnil))) .vnil

/-- `(*Request).Marshal` -/
def marshalRequest (r : Req) : Res Bytes :=
  match hashOID r.hash with
  | none => .err                                      -- "Unknown hash algorithm"
  | some oid => C18.marshal ocspRequestS {} (reqVal oid [] r)

/-- read-out of `req.TBSRequest.RequestList[0].Cert` -/
def reqOfVal : Val → Res Req
  | .vcons (.vcons _ (.vcons _ (.vcons list .vnil))) .vnil =>
    (match list with
     | .vcons (.vcons (.vcons (.vcons (.oid oid) _) (.vcons nh (.vcons kh (.vcons (.int sn) .vnil)))) .vnil) _ =>
       let h := hashOfOID oid
       if h = 0 then .err                              -- "OCSP request uses unknown hash function"
       else
         let b := fun (v : Val) => match v with | .bytes x => x | _ => []
         .ok { hash := h, nameHash := b nh, keyHash := b kh, serial := sn }
     | _ => .err)                                      -- "OCSP request contains no request body"
  | _ => .err

/-- `ParseRequest` -/
def parseRequest (der : Bytes) : Res Req :=
  match C18.unmarshal false ocspRequestS {} der with
  | .ok (v, rest) => if rest.length > 0 then .err else reqOfVal v
  | .err => .err
  | .panic => .panic

/-! ## time content (`parseUTCTime`, `parseGeneralizedTime`, strict mode) -/

def digit? (b : UInt8) : Option Nat := if 48 ≤ b.toNat ∧ b.toNat ≤ 57 then some (b.toNat - 48) else none

/-- two decimal digits (`getnum(value, true)`) -/
def two? : Bytes → Option (Nat × Bytes)
  | a :: b :: r =>
    (match digit? a, digit? b with
     | some x, some y => some (x * 10 + y, r)
     | _, _ => none)
  | _ => none

def isLeap (y : Nat) : Bool := y % 4 = 0 ∧ (y % 100 ≠ 0 ∨ y % 400 = 0)

def daysIn (m y : Nat) : Nat :=
  if m = 2 then (if isLeap y then 29 else 28)
  else if m = 4 ∨ m = 6 ∨ m = 9 ∨ m = 11 then 30 else 31

/-- days since 1970-01-01 of a proleptic Gregorian date (`m` in 1..12) -/
def daysFromCivil (y m d : Nat) : Int :=
  let y' : Int := if m ≤ 2 then (y : Int) - 1 else y
  let era : Int := y' / 400
  let yoe : Int := y' - era * 400
  let mp : Int := if m > 2 then (m : Int) - 3 else (m : Int) + 9
  let doy : Int := (153 * mp + 2) / 5 + (d : Int) - 1
  let doe : Int := yoe * 365 + yoe / 4 - yoe / 100 + doy
  era * 146097 + doe - 719468

/-- the zone suffix: `Z`, or `±hhmm` as far as it survives `Format` (hh ≤ 24, mm ≤ 59, not zero); offset in seconds -/
def zone? : Bytes → Option Int
  | [z] => if z.toNat = 90 then some 0 else none
  | [sg, a, b, c, d] =>
    (match two? [a, b], two? [c, d] with
     | some (hh, _), some (mm, _) =>
       if hh > 24 ∨ mm > 59 ∨ (hh = 0 ∧ mm = 0) then none
       else if sg.toNat = 43 then some (((hh * 60 + mm) * 60 : Nat) : Int)
       else if sg.toNat = 45 then some (- (((hh * 60 + mm) * 60 : Nat) : Int))
       else none
     | _, _ => none)
  | _ => none

/-- month/day/hour/minute[/second] + zone after the year; `yLeap` = the year the day-of-month is validated in -/
def timeTail (yLeap yEff : Nat) (secs : Bool) (bs : Bytes) : Res Int :=
  match two? bs with
  | none => .err
  | some (mo, r1) =>
    match two? r1 with
    | none => .err
    | some (d, r2) =>
      match two? r2 with
      | none => .err
      | some (h, r3) =>
        match two? r3 with
        | none => .err
        | some (mi, r4) =>
          let fin := fun (s : Nat) (rz : Bytes) =>
            match zone? rz with
            | none => Res.err
            | some off =>
              if mo = 0 ∨ mo > 12 ∨ d = 0 ∨ d > daysIn mo yLeap ∨ h ≥ 24 ∨ mi ≥ 60 ∨ s ≥ 60 then Res.err
              else .ok (daysFromCivil yEff mo d * 86400 + (h * 3600 + mi * 60 + s : Nat) - off)
          if secs then
            (match two? r4 with
             | none => .err
             | some (s, r5) => fin s r5)
          else fin 0 r4

/-- `parseGeneralizedTime` (tag 24) / `parseUTCTime` (tag 23), strict mode: Unix seconds of the time -/
def parseTime (tag : Nat) (bs : Bytes) : Res Int :=
  if tag = 24 then
    match two? bs with
    | none => .err
    | some (c, r1) =>
      match two? r1 with
      | none => .err
      | some (y, r2) => timeTail (c * 100 + y) (c * 100 + y) true r2
  else if tag = 23 then
    match two? bs with
    | none => .err
    | some (yy, r1) =>
      -- layout "0601021504Z0700" first, then "060102150405Z0700"; the century pivot of time.Parse is 69, the code then
      -- moves years ≥ 2050 back by 100
      let yLeap := if yy ≥ 69 then 1900 + yy else 2000 + yy
      let yEff := if yy ≥ 50 then 1900 + yy else 2000 + yy
      (match timeTail yLeap yEff false r1 with
       | .ok t => .ok t
       | _ => timeTail yLeap yEff true r1)
  else .err

/-- the `time.Time` arm of `parseField` on an element kept raw: universal, tag 23 / 24, primitive, content parses -/
def timeOfRaw : Val → Res Int
  | .raw cls tag compound bs _ =>
    if cls = 0 ∧ (tag = 23 ∨ tag = 24) ∧ compound = false then parseTime tag bs else .err
  | _ => .err

/-- how the raw [0] element of `singleResponseS` relates to the `time.Time` reading of the same bytes -/
inductive Nxt where
  | absent | at (t : Int) | err | inexact
  deriving Repr, DecidableEq

/-- `NextUpdate` read off the RawValue of `singleResponseS`: absent (`FullBytes` empty); empty wrapper ⇒ error ("zero
    length explicit tag was not an asn1.Flag"); wrapper holding exactly one universal primitive element with tag 23 / 24 ⇒
    its time or an error; anything else is outside the region where a RawValue and a `time.Time` field consume the same
    bytes -/
def nextOfRaw : Val → Nxt
  | .raw _ _ _ bs full =>
    if full.isEmpty then .absent
    else if bs.isEmpty then .err
    else
      match C18.parseTL false bs with
      | .ok (t, r) =>
        if t.cls = 0 ∧ (t.tag = 23 ∨ t.tag = 24) ∧ t.compound = false ∧ t.len = r.length then
          (match parseTime t.tag r with
           | .ok x => .at x
           | _ => .err)
        else .inexact
      | _ => .inexact
  | _ => .err

/-- parameters of `NextUpdate` -/
def nextP : Params := { explicit := true, tag := some 0, optional := true, timeType := 24 }

/-- `parseField` for `NextUpdate time.Time "generalized,explicit,tag:0,optional"` (asn1.go: end of data ⇒ default; header;
    EXPLICIT stage; the time substitution of the universal tag; tag test ⇒ default; length test; `parseUTCTime` /
    `parseGeneralizedTime`): the time if present, and the remaining bytes -/
def parseNext (bs : Bytes) : Res (Option Int × Bytes) :=
  if bs.isEmpty then .ok (none, bs)
  else
    match C18.parseTL false bs with
    | .err => .err
    | .panic => .err
    | .ok (t0, r0) =>
      match C18.explicitStage false .bool nextP t0 r0 with
      | .err => .err
      | .dflt => .ok (none, bs)
      | .flag _ => .err
      | .cont t r =>
        let utag := if t.cls = 0 ∧ t.tag = 24 then 24 else 23
        if t.cls ≠ 0 ∨ t.tag ≠ utag ∨ t.compound then .ok (none, bs)
        else if t.len > r.length then .err
        else
          match parseTime utag (r.take t.len) with
          | .ok x => .ok (some x, r.drop t.len)
          | _ => .err

/-! ## read-out of the decoded response -/

/-- the fields of `singleResponse` in front of `NextUpdate` -/
def singlePrefixF : Schema :=
  .fcons {} certIDS
    (.fcons { tag := some 0, optional := true } .flag
    (.fcons { tag := some 1, optional := true } revokedInfoS
    (.fcons { tag := some 2, optional := true } .flag
    (.fcons {} .raw .fnil))))

/-- the field of `singleResponse` after `NextUpdate` -/
def singleSuffixF : Schema :=
  .fcons { explicit := true, tag := some 1, optional := true } (.seqOf false extensionS) .fnil

/-- `responseData` with the elements of `Responses` kept raw -/
def responseDataRS : Schema := responseDataOver .raw

/-- `basicResponse` over `responseDataRS`: the term `decodeBasic` decodes with -/
def basicResponseRS : Schema := basicOver responseDataRS

structure DSingle where
  hashOid : List Int
  hashParams : Bytes        -- `Parameters.FullBytes`
  nameHash : Bytes
  keyHash : Bytes
  serial : Int
  good : Bool
  unknown : Bool
  revokedAt : Int
  reason : Int
  thisUpdate : Int
  nextUpdate : Option Int
  exts : List (List Int × Bool × Bytes)
  deriving Repr, DecidableEq

structure DBasic where
  tbs : Bytes               -- `TBSResponseData.Raw`
  version : Int
  ridClass : Nat
  ridTag : Nat
  ridCompound : Bool
  ridBytes : Bytes
  producedAt : Int
  singles : List DSingle
  sigOid : List Int
  sigParams : Bytes
  sigBytes : Bytes
  sigBitLen : Int
  certs : List Bytes        -- `FullBytes` of each embedded certificate
  deriving Repr, DecidableEq

/-- decode result; `shape`: a value of a shape `unmarshal` never produces for the schema (kept apart from `err`, so that it
    would show up as a disagreement); ZV.Props.C13 `ocsp_decode_total` proves it is never the answer -/
inductive Dec (α : Type) where
  | ok (a : α) | err | shape
  deriving Repr

def velems : Val → List Val
  | .vcons x r => x :: velems r
  | _ => []

def bytesOf : Val → Bytes
  | .bytes b => b
  | _ => []

def fullOf : Val → Bytes
  | .raw _ _ _ _ full => full
  | _ => []

def extOf : Val → Option (List Int × Bool × Bytes)
  | .vcons (.oid id) (.vcons (.bool c) (.vcons v .vnil)) => some (id, c, bytesOf v)
  | _ => none

def algOf : Val → Option (List Int × Bytes)
  | .vcons (.oid id) (.vcons (.raw _ _ _ _ full) .vnil) => some (id, full)
  | _ => none

/-- `revokedInfo`: the zero struct when [1] is absent (`RevocationTime` = `time.Time{}`) -/
def revokedOf : Val → Dec (Int × Int)
  | .vcons t (.vcons (.int reason) .vnil) =>
    (match t with
     | .raw _ _ _ _ full =>
       if full.isEmpty then .ok (zeroTime, reason)
       else (match timeOfRaw t with
             | .ok x => .ok (x, reason)
             | _ => .err)
     | _ => .shape)
  | _ => .shape

/-- one element of `Responses` (a RawValue): identifier test of `parseSequenceOf` / the struct arm, the field loop in
    front of `NextUpdate`, `NextUpdate`, the field loop after it (bytes left over inside the SEQUENCE are ignored, as in
    the Go code) -/
def decodeSingle : Val → Dec DSingle
  | .raw cls tag compound bs _ =>
    if cls ≠ 0 ∨ tag ≠ 16 ∨ compound = false then .err
    else
      match C18.parseFields false singlePrefixF bs with
      | .err => .err
      | .panic => .shape
      | .ok (.vcons (.vcons alg (.vcons nh (.vcons kh (.vcons (.int sn) .vnil))))
              (.vcons (.bool good) (.vcons rev (.vcons (.bool unk) (.vcons thisU .vnil)))), r1) =>
        (match algOf alg, revokedOf rev, timeOfRaw thisU with
         | some (oid, params), .ok (ra, reason), .ok th =>
           (match parseNext r1 with
            | .ok (nx, r2) =>
              (match C18.parseFields false singleSuffixF r2 with
               | .ok (.vcons exts .vnil, _) =>
                 (match (velems exts).mapM extOf with
                  | some es => .ok { hashOid := oid, hashParams := params, nameHash := bytesOf nh, keyHash := bytesOf kh,
                                     serial := sn, good := good, unknown := unk, revokedAt := ra, reason := reason,
                                     thisUpdate := th, nextUpdate := nx, exts := es }
                  | none => .shape)
               | .ok _ => .shape
               | .err => .err
               | .panic => .shape)
            | _ => .err)
         | none, _, _ => .shape
         | _, .shape, _ => .shape
         | _, _, _ => .err)
      | .ok _ => .shape
  | _ => .shape

def decodeSingles : List Val → Dec (List DSingle)
  | [] => .ok []
  | v :: rest =>
    match decodeSingle v, decodeSingles rest with
    | .ok s, .ok l => .ok (s :: l)
    | .shape, _ => .shape
    | _, .shape => .shape
    | _, _ => .err

/-- the second `asn1.Unmarshal` of `ParseResponseForCert` (into `basicResponse`), its `len(rest) > 0` test left to the
    caller: decoded fields and rest -/
def decodeBasic (body : Bytes) : Dec (DBasic × Bytes) :=
  match C18.unmarshal false basicResponseRS {} body with
  | .err => .err
  | .panic => .shape
  | .ok (.vcons (.vcons (.int ver) (.vcons (.raw rc rt rk rb _) (.vcons prod (.vcons singles .vnil))))
          (.vcons alg (.vcons (.bits sb sn) (.vcons certs .vnil))), rest) =>
    (match C18.unmarshal false basicResponseRawS {} body with
     | .ok (.vcons tbsRaw _, _) =>
       if fullOf tbsRaw = [] then .shape else
       (match decodeSingles (velems singles), algOf alg with
        | .ok ss, some (so, sp) =>
          (match timeOfRaw prod with
           | .ok pa =>
             .ok ({ tbs := fullOf tbsRaw, version := ver, ridClass := rc, ridTag := rt, ridCompound := rk, ridBytes := rb,
                    producedAt := pa, singles := ss, sigOid := so, sigParams := sp, sigBytes := sb, sigBitLen := sn,
                    certs := (velems certs).map fullOf }, rest)
           | _ => .err)
        | .err, some _ => .err
        | _, _ => .shape)
     | _ => .shape)
  | .ok _ => .shape

/-- the first `asn1.Unmarshal` (into `responseASN1`): status, response type (`[]` = nil OID), `Response.Response`, rest -/
def decodeOuter (der : Bytes) : Dec (Int × List Int × Bytes × Bytes) :=
  match C18.unmarshal false responseASN1S {} der with
  | .ok (.vcons (.int st) (.vcons (.vcons ty (.vcons body .vnil)) .vnil), rest) =>
    (match ty with
     | .oid o => .ok (st, o, bytesOf body, rest)
     | .null => .ok (st, [], bytesOf body, rest)
     | _ => .shape)
  | .ok _ => .shape
  | .err => .err
  | .panic => .shape

/-! ## from bytes to the abstract input of the decision model (`ZV.Model.C13.parse`) -/

/-- `idPKIXOCSPBasic` -/
def idBasic : List Int := [1, 3, 6, 1, 5, 5, 7, 48, 1, 1]

/-- the inner `asn1.Unmarshal` of the responder id: tag 1 into `pkix.RDNSequence` (ANY as RawValue), tag 2 into `[]byte`;
    "err != nil || len(rest) != 0" is failure -/
def responderOkOf (tag : Nat) (bs : Bytes) : Bool :=
  if tag = 1 then
    (match C18.unmarshal false rdnSeqRawS {} bs with
     | .ok (_, rest) => rest.isEmpty
     | _ => false)
  else if tag = 2 then
    (match C18.unmarshal false .octets {} bs with
     | .ok (_, rest) => rest.isEmpty
     | _ => false)
  else false

/-- a decoded `singleResponse` as the decision model sees it -/
def singleOfD (s : DSingle) : Single :=
  { serial := s.serial, good := s.good, unknown := s.unknown, thisUpdate := s.thisUpdate,
    nextUpdate := (match s.nextUpdate with | some x => x | none => zeroTime),
    revokedAt := s.revokedAt, reason := s.reason, hash := hashOfOID s.hashOid,
    critical := s.exts.any (fun e => e.2.1) }

/-- everything `ParseResponseForCert` decodes before it decides, from the bytes.  What stays abstract: how byte strings are
    presented to the signature primitive (`tbsOf`, `sigOf` = `BitString.RightAlign`, `algOf` = `getSignatureAlgorithmFromOID`)
    and `x509.ParseCertificate` on an embedded certificate (`certOf`).  The fields behind a failed step are never looked at
    by `parse` (same order of checks as the Go code) and are left empty. -/
def inputOfBytes {K B : Type} (tbsOf : Bytes → B) (sigOf : Bytes → Int → B) (algOf : List Int → Nat)
    (certOf : Bytes → Option (ECert K B)) (der : Bytes) : Dec (Input K B) :=
  let blank : Input K B :=
    { outerOk := false, status := 0, typeOk := false, basicOk := false, tbs := tbsOf [], sig := sigOf [] 0, alg := 0,
      responderTag := 0, responderOk := false, singles := [], certs := [] }
  match decodeOuter der with
  | .shape => .shape
  | .err => .ok blank
  | .ok (st, ty, body, rest) =>
    if rest.length > 0 then .ok blank
    else
      let outer : Input K B := { blank with outerOk := true, status := st.natAbs, typeOk := decide (ty = idBasic) }
      match decodeBasic body with
      | .shape => .shape
      | .err => .ok outer
      | .ok (b, rest2) =>
        if rest2.length > 0 then .ok outer
        else
          .ok { outer with basicOk := true, tbs := tbsOf b.tbs, sig := sigOf b.sigBytes b.sigBitLen, alg := algOf b.sigOid,
                           responderTag := b.ridTag, responderOk := responderOkOf b.ridTag b.ridBytes,
                           singles := b.singles.map singleOfD, certs := b.certs.map certOf }

/-- `ParseResponseForCert(bytes, cert, issuer)` from the bytes -/
def parseBytes {K B : Type} (verify : K → Nat → B → B → Bool) (tbsOf : Bytes → B) (sigOf : Bytes → Int → B)
    (algOf : List Int → Nat) (certOf : Bytes → Option (ECert K B)) (der : Bytes) (cert : Option Int) (issuer : Option K) :
    Dec (Res (Out K B)) :=
  match inputOfBytes tbsOf sigOf algOf certOf der with
  | .ok inp => .ok (parse verify inp cert issuer)
  | .err => .err
  | .shape => .shape

end ZV.C13
