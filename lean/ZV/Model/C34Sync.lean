/-!
  C34 — the synchronisation protocol of `tls.Conn` (tls/conn.go) as a transition system with interleaving
  semantics over an UNBOUNDED set of threads (thread ids are `Nat`).

  Shared state: the three mutexes `handshakeMutex` (id 0), `in` (id 1), `out` (id 2) — a mutex is held by a
  thread iff that thread's program counter says so (`holds`), a Lock step is enabled only when no thread holds the
  mutex —, the atomic `handshakeStatus` (`flag`) and `handshakeErr ≠ nil` (`herr`, protected by handshakeMutex).

  Every public method is a path through the program counters below; one step = one Lock / Unlock / atomic
  operation / handshakeErr assignment (I/O and pure computation are internal steps that are always enabled —
  ASSUMPTION: a blocked socket operation returns once the peer closes or the deadline expires):

  * `Handshake()` (also first half of `Read`/`Write`, `r` = called from Read):
      hWant -Lock hM-> hChk -(handshakeErr? / handshakeComplete()?)-> hRet | hIn -Lock in-> hBody
      hBody: clientHandshake/serverHandshake; takes and releases `out` any number of times (writeRecord, sendAlert:
      hBodyW -Lock out-> hBodyO -Unlock-> hBody); success path = final flush, `Store handshakeStatus 1` (hStored),
      return nil; failure at any point; hEnd -Unlock in-> hRet -Unlock hM-> (rWant if called from Read and ok | idle)
  * `Read` after its Handshake gate: rWant -Lock in-> rBody; readRecord may send an alert / answer a KeyUpdate
      (rOutW -Lock out-> rOut -Unlock-> rBody); a HelloRequest makes it renegotiate WITH `in` HELD:
      rHM -Lock hM-> gClear -Store 0-> gBody (clientHandshake again, out cycles gOutW/gOut, gStored) -> gEnd
      -Unlock hM-> rBody;  rBody -Unlock in-> idle
  * `Write` after its gate, `CloseWrite`, `Close` (closeNotify), `sendAlert`: oWant -Lock out-> oOut -Unlock-> idle
  * `ConnectionState`, `OCSPResponse`, `VerifyHostname`: sWant -Lock hM-> sHeld -Unlock-> idle
  * `SetDeadline`/`SetReadDeadline`/`SetWriteDeadline` take no lock and touch no atomic: no step.
  The `activeCall` word of Write/Close is modelled separately (ZV.Model.C34); it never blocks.

  The lock/atomic sequences are tied to the source by the T1 facts in ZV.Generated.C34 (theorems in ZV.Props.C34).
-/
namespace ZV.C34.Sync

inductive Pc where
  | idle
  | hWant (r : Bool) | hChk (r : Bool) | hIn (r : Bool)
  | hBody (r : Bool) | hBodyW (r : Bool) | hBodyO (r : Bool) | hStored (r : Bool)
  | hEnd (r : Bool) | hRet (r ok : Bool)
  | rWant | rBody | rOutW | rOut | rHM
  | gClear | gBody | gOutW | gOut | gStored | gEnd
  | oWant | oOut
  | sWant | sHeld
  deriving DecidableEq, Repr

open Pc

/-- `holds m pc`: a thread at `pc` holds mutex `m` (0 handshakeMutex, 1 in, 2 out). -/
def holds : Nat → Pc → Bool
  | 0, hChk _ | 0, hIn _ | 0, hBody _ | 0, hBodyW _ | 0, hBodyO _ | 0, hStored _ | 0, hEnd _ | 0, hRet _ _ => true
  | 0, gClear | 0, gBody | 0, gOutW | 0, gOut | 0, gStored | 0, gEnd | 0, sHeld => true
  | 1, hBody _ | 1, hBodyW _ | 1, hBodyO _ | 1, hStored _ | 1, hEnd _ => true
  | 1, rBody | 1, rOutW | 1, rOut | 1, rHM | 1, gClear | 1, gBody | 1, gOutW | 1, gOut | 1, gStored | 1, gEnd => true
  | 2, hBodyO _ | 2, rOut | 2, gOut | 2, oOut => true
  | _, _ => false

/-- the mutex a thread at `pc` is about to Lock -/
def wants : Pc → Option Nat
  | hWant _ | sWant | rHM => some 0
  | hIn _ | rWant => some 1
  | hBodyW _ | rOutW | gOutW | oWant => some 2
  | _ => none

/-- `T pc flag herr pc' flag' herr'`: the thread-local step relation (lock availability is added in `Step`). -/
inductive T : Pc → Bool → Bool → Pc → Bool → Bool → Prop
  -- a call starts
  | startH (r f e) : T idle f e (hWant r) f e
  | startO (f e) : T idle f e oWant f e
  | startS (f e) : T idle f e sWant f e
  -- Conn.handshake
  | lockHM (r f e) : T (hWant r) f e (hChk r) f e
  | chkErr (r f) : T (hChk r) f true (hRet r false) f true
  | chkDone (r) : T (hChk r) true false (hRet r true) true false
  | chkGo (r) : T (hChk r) false false (hIn r) false false
  | lockIn (r f e) : T (hIn r) f e (hBody r) f e
  | bodyW (r f e) : T (hBody r) f e (hBodyW r) f e
  | bodyLockOut (r f e) : T (hBodyW r) f e (hBodyO r) f e
  | bodyUnlockOut (r f e) : T (hBodyO r) f e (hBody r) f e
  | bodyStore (r f e) : T (hBody r) f e (hStored r) true e
  | bodyFail (r f e) : T (hBody r) f e (hEnd r) f true
  | storedFail (r f e) : T (hStored r) f e (hEnd r) f true
  | storedOk (r f e) : T (hStored r) f e (hEnd r) f false
  | unlockIn (r f e) : T (hEnd r) f e (hRet r (!e)) f e
  | retRead (f e) : T (hRet true true) f e rWant f e
  | retIdle (r ok f e) : (r && ok) = false → T (hRet r ok) f e idle f e
  -- Read's critical section
  | rLockIn (f e) : T rWant f e rBody f e
  | rOutWant (f e) : T rBody f e rOutW f e
  | rLockOut (f e) : T rOutW f e rOut f e
  | rUnlockOut (f e) : T rOut f e rBody f e
  | rHello (f e) : T rBody f e rHM f e
  | rUnlockIn (f e) : T rBody f e idle f e
  -- handleRenegotiation
  | gLockHM (f e) : T rHM f e gClear f e
  | gClr (f e) : T gClear f e gBody false e
  | gW (f e) : T gBody f e gOutW f e
  | gLockOut (f e) : T gOutW f e gOut f e
  | gUnlockOut (f e) : T gOut f e gBody f e
  | gStore (f e) : T gBody f e gStored true e
  | gFail (f e) : T gBody f e gEnd f true
  | gStoredFail (f e) : T gStored f e gEnd f true
  | gStoredOk (f e) : T gStored f e gEnd f false
  | gUnlockHM (f e) : T gEnd f e rBody f e
  -- out-only sections (Write body, closeNotify, sendAlert)
  | oLock (f e) : T oWant f e oOut f e
  | oUnlock (f e) : T oOut f e idle f e
  -- handshakeMutex-only sections (ConnectionState, OCSPResponse, VerifyHostname)
  | sLock (f e) : T sWant f e sHeld f e
  | sUnlock (f e) : T sHeld f e idle f e

structure State where
  flag : Bool
  herr : Bool
  pcs : Nat → Pc

def init : State := { flag := false, herr := false, pcs := fun _ => idle }

def setPc (p : Nat → Pc) (i : Nat) (pc : Pc) : Nat → Pc := fun j => if j = i then pc else p j

/-- thread `i` takes one step: a local step, and every mutex it gains was held by nobody. -/
def Step (i : Nat) (s s' : State) : Prop :=
  ∃ pc' f' e', T (s.pcs i) s.flag s.herr pc' f' e'
    ∧ (∀ m, holds m (s.pcs i) = false → holds m pc' = true → ∀ j, holds m (s.pcs j) = false)
    ∧ s' = { flag := f', herr := e', pcs := setPc s.pcs i pc' }

inductive Reach : State → Prop
  | init : Reach init
  | step {s s'} (i : Nat) : Reach s → Step i s s' → Reach s'

end ZV.C34.Sync
