import ZV.Model.C02
import ZV.Model.Time
import ZV.Hash.SHA256
import ZV.Hash.SHA1
import ZV.Hash.MD5
/-!
  Models of certificate-level fields of the JSON view that are computed, not copied (x509/x509.go parseCertificate,
  x509/json.go, json/rsa.go):

  * `ValidityPeriod = int(NotAfter.Sub(NotBefore).Seconds())` — `time.Time.Sub` saturates at ±(2^63-1) ns, so the
    `length` of the JSON view is the difference in seconds only up to ≈ 292 years and ±9223372036 beyond;
  * `SerialNumber.String()` of the two's-complement INTEGER body;
  * the fingerprints: MD5 / SHA-1 / SHA-256 of the certificate, SHA-256 of the SubjectPublicKeyInfo, of the
    TBSCertificate and of SubjectPublicKeyInfo ‖ Subject (ZV.Hash, executable);
  * `(*RSAPublicKey).MarshalJSON` (json/rsa.go): modulus = `N.Bytes()` (magnitude, big-endian, no leading zero),
    `length = len(modulus) * 8` (NOT the bit length), exponent = `E.String()`.
-/
namespace ZV.C02

/-- the `length` of the JSON view: `(*validity).MarshalJSON` (promoted through the embedded struct of `JSONValidity`,
    which hides `JSONValidity.ValidityPeriod`) computes `int(NotAfter.Unix() - NotBefore.Unix())` — exact -/
def validityLengthJSON (nb na : Int) : Int := na - nb

/-- `Certificate.ValidityPeriod` as the parser sets it: `int(na.Sub(nb).Seconds())` for times of whole seconds given
    as Unix seconds -/
def validityLength (nb na : Int) : Int :=
  let d := na - nb
  if d * 1000000000 > 9223372036854775807 then 9223372036        -- maxDuration, truncated to seconds
  else if d * 1000000000 < -9223372036854775808 then -9223372036 -- minDuration
  else d

/-- big-endian magnitude without leading zeros: `(*big.Int).Bytes` -/
def beBytes (n : Nat) : Bytes :=
  if h : n = 0 then [] else beBytes (n / 256) ++ [UInt8.ofNat (n % 256)]
termination_by n
decreasing_by omega

def natOfBytes (b : Bytes) : Nat := b.foldl (fun acc x => acc * 256 + x.toNat) 0

/-- the value of a two's-complement INTEGER body (`parseBigInt`); the empty body is rejected by the parser -/
def intOfBytes (b : Bytes) : Int :=
  match b with
  | [] => 0
  | x :: _ => if x.toNat ≥ 128 then (natOfBytes b : Int) - (256 : Int) ^ b.length else natOfBytes b

/-- `strconv`-style decimal of `big.Int.String` -/
def decimal (i : Int) : String := if i < 0 then "-" ++ toString i.natAbs else toString i.natAbs

/-- `c.SerialNumber.String()` -/
def serialString (body : Bytes) : String := decimal (intOfBytes body)

structure Fingerprints where
  md5 : Bytes
  sha1 : Bytes
  sha256 : Bytes
  spki : Bytes
  tbs : Bytes
  spkiSubject : Bytes
  deriving Repr, DecidableEq

/-- the fingerprints `parseCertificate` stores, as functions of the raw pieces -/
def fingerprints (raw tbs spki subject : Bytes) : Fingerprints :=
  { md5 := ZV.Hash.md5 raw, sha1 := ZV.Hash.sha1 raw, sha256 := ZV.Hash.sha256 raw,
    spki := ZV.Hash.sha256 spki, tbs := ZV.Hash.sha256 tbs, spkiSubject := ZV.Hash.sha256 (spki ++ subject) }

/-- `(*RSAPublicKey).MarshalJSON` for a non-nil key: (modulus bytes, exponent, length) -/
def rsaKeyView (n e : Int) : Bytes × Int × Nat :=
  let m := beBytes n.natAbs
  (m, e, m.length * 8)

end ZV.C02
