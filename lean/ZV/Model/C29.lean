import ZV.Model.TlsHello
import ZV.Generated.C29
/-!
  Model of `tls/handshake_client.go: (*ClientFingerprintConfiguration).marshal` and of the
  `Marshal` / `CheckImplemented` methods of the built-in `ClientExtension` types of
  `tls/handshake_extensions.go`, branch for branch.

  Every length byte is computed as the Go code computes it (`uint8(x>>8)`, `uint8(x)`:
  `UInt8.ofNat` truncates mod 256), so the model also reproduces the malformed output for
  over-long fields; the theorems state the domain in which the length fields are right.

  The tables consulted by the `CheckImplemented` methods / the cipher-suite check come from
  `ZV.Generated.C29` (T1: dumped from the working tree on every check run).

  `time` (seconds since the epoch, what `time.Now().Unix()` returned) and `rand` (the bytes the
  configured `Config.Rand` reader will deliver) are inputs of the model.
-/
namespace ZV.C29
open ZV.TlsHello

/-- the built-in `ClientExtension` implementations -/
inductive Ext where
  | null
  | sni (domains : List Bytes)              -- SNIExtension.Domains ([]string as byte strings)
  | alpn (protocols : List Bytes)           -- ALPNExtension.Protocols
  | reneg                                   -- SecureRenegotiationExtension
  | ems                                     -- ExtendedMasterSecretExtension
  | status                                  -- StatusRequestExtension
  | sct                                     -- SCTExtension
  | curves (l : List UInt16)                -- SupportedCurvesExtension.Curves ([]CurveID)
  | points (l : Bytes)                      -- PointFormatExtension.Formats
  | ticket (t : Bytes)                      -- SessionTicketExtension.Ticket
  | sigalgs (l : List UInt16)               -- SignatureAlgorithmExtension.SignatureAndHashes
  deriving DecidableEq, Repr

structure Cfg where
  vers : UInt16                  -- HandshakeVersion
  random : Bytes                 -- ClientRandom
  insertTimestamp : Bool
  sessionId : Bytes
  suites : List UInt16           -- CipherSuites
  comp : Bytes                   -- CompressionMethods
  exts : List Ext
  deriving DecidableEq, Repr

/-- big-endian encoding of a `uint16` value (`uint8(x>>8), uint8(x)`) -/
def w16 (x : UInt16) : Bytes := u16 x.toNat

def w16s (l : List UInt16) : Bytes := (l.map w16).flatten

/-- `ext.CheckImplemented() == nil` -/
def checkExt : Ext → Bool
  | .curves l => l.all (fun c => Gen.curvePrefs.contains c.toNat)
  | .points l => l.all (fun f => f == 0)                      -- pointFormatUncompressed
  | .sigalgs l => l.all (fun a => Gen.skxSigAlgs.contains a.toNat)   -- (hash, signature) = (a>>8, a&0xff)
  | _ => true

/-- SNI body: every domain with its own 2-byte length (the single name_type byte is in the header) -/
def sniNames (domains : List Bytes) : Bytes := (domains.map (fun d => u16 d.length ++ d)).flatten

def alpnProtos (protocols : List Bytes) : Bytes := (protocols.map (fun p => u8 p.length ++ p)).flatten

/-- `ext.Marshal()` -/
def marshalExt : Ext → Bytes
  | .null => []
  | .sni domains =>
    let result := sniNames domains
    let result := u16 (result.length + 1) ++ [0] ++ result
    [0, 0] ++ u16 result.length ++ result
  | .alpn protocols =>
    let result := alpnProtos protocols
    let result := u16 result.length ++ result
    u16 extensionALPN ++ u16 result.length ++ result
  | .reneg => u16 extensionRenegotiationInfo ++ [0, 1, 0]
  | .ems => u16 extensionExtendedMasterSecret ++ [0, 0]
  | .status => u16 extensionStatusRequest ++ [0, 5, 1, 0, 0, 0, 0]
  | .sct => u16 extensionSCT ++ [0, 0]
  | .curves l =>
    u16 extensionSupportedCurves ++ u16 (2 + 2 * l.length) ++ u16 (2 * l.length) ++ w16s l
  | .points l =>
    u16 extensionSupportedPoints ++ u16 (1 + l.length) ++ u8 l.length ++ l
  | .ticket t =>
    u16 extensionSessionTicket ++ u16 t.length ++ t
  | .sigalgs l =>
    u16 extensionSignatureAlgorithms ++ u16 (2 + 2 * l.length) ++ u16 (2 * l.length) ++ w16s l

def marshalExts (l : List Ext) : Bytes := (l.map marshalExt).flatten

/-- the 32 bytes at `head[6:38]`: configured random iff it has 32 bytes; otherwise fresh bytes from
    `config.rand()` (`io.ReadFull`: error when the reader runs dry), preceded — with InsertTimestamp —
    by the big-endian low 32 bits of the Unix time (code after `fix:` D25). -/
def randomField (cfg : Cfg) (rand : Bytes) (time : Nat) : Option Bytes :=
  if cfg.random.length = 32 then some cfg.random
  else if cfg.insertTimestamp then
    if rand.length < 28 then none else some (u32 time ++ rand.take 28)
  else
    if rand.length < 32 then none else some (rand.take 32)

/-- cipher-suite block: 2 length bytes `uint8(n>>7), uint8(n<<1)` and the ids -/
def suiteBlock (suites : List UInt16) : Bytes :=
  [UInt8.ofNat (suites.length / 128), UInt8.ofNat (suites.length * 2)] ++ w16s suites

/-- `len(extensions) > 0` ⇒ 2 length bytes + extensions; nothing otherwise -/
def extBlock (exts : List Ext) : Bytes :=
  let e := marshalExts exts
  if e.length > 0 then u16 e.length ++ e else []

/-- `(*ClientFingerprintConfiguration).marshal(config)`; `none` = error.
    `force` = `config.ForceSuites`. -/
def marshal (cfg : Cfg) (force : Bool) (rand : Bytes) (time : Nat) : Option Bytes :=
  if !cfg.exts.all checkExt then none                      -- CheckImplementedExtensions
  else
    match randomField cfg rand time with
    | none => none
    | some random =>
      let head : Bytes := [1, 0, 0, 0] ++ w16 cfg.vers ++ random
      if cfg.sessionId.length ≥ 256 then none
      else
        let sessionID := u8 cfg.sessionId.length ++ cfg.sessionId
        if !force && !cfg.suites.all (fun s => Gen.implementedSuites.contains s.toNat) then none
        else
          let ciphers := suiteBlock cfg.suites
          if cfg.comp.length ≥ 256 then none
          else
            match cfg.comp with
            | [] => none                                      -- "no compression method"
            | c0 :: rest =>
              if c0 != 0 then none
              else if rest.length > 0 then none
              else
                let compressions := u8 cfg.comp.length ++ cfg.comp
                let hello := head ++ sessionID ++ ciphers ++ compressions ++ extBlock cfg.exts
                let lengthOnTheWire := hello.length - 4
                if lengthOnTheWire ≥ 16777216 then none
                else some (1 :: u24 lengthOnTheWire ++ hello.drop 4)

end ZV.C29
